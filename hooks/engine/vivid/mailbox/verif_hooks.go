//go:build verif

package mailbox

// VerifWrapRecipient replaces the recipient by wrap(recipient) (verification builds only; call while idle).
func (m *LockFree) VerifWrapRecipient(wrap func(Recipient) Recipient) { m.recipient = wrap(m.recipient) }

// VerifWrapRecipient replaces the recipient by wrap(recipient) (verification builds only; call while idle).
func (m *GlobalOrderedLockFree) VerifWrapRecipient(wrap func(Recipient) Recipient) {
	m.recipient = wrap(m.recipient)
}
