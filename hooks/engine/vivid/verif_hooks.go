//go:build verif

package vivid

import (
	"github.com/kercylan98/minotaur/engine/prc"
	"github.com/kercylan98/minotaur/engine/vivid/dispatcher"
	"github.com/kercylan98/minotaur/engine/vivid/mailbox"
	"github.com/kercylan98/minotaur/toolkit"
)

// VerifSetDefaultDispatcher replaces the package-level default dispatcher (verification builds only),
// so that the system actors spawned with the default provider run under a dispatcher the harness controls.
func VerifSetDefaultDispatcher(d dispatcher.Dispatcher) {
	defaultDispatcherSingleton = toolkit.NewInertiaSingleton[dispatcher.Dispatcher](func() dispatcher.Dispatcher { return d })
}

// VerifWrapRecipient wraps the mailbox recipient of a registered actor (verification builds only).
// It must be called while the actor's mailbox is idle.
func (sys *ActorSystem) VerifWrapRecipient(ref ActorRef, wrap func(mailbox.Recipient) mailbox.Recipient) bool {
	p, ok := sys.rc.GetProcess(ref).(*actorProcess)
	if !ok {
		return false
	}
	switch m := p.mailbox.(type) {
	case *mailbox.LockFree:
		m.VerifWrapRecipient(wrap)
	case *mailbox.GlobalOrderedLockFree:
		m.VerifWrapRecipient(wrap)
	default:
		return false
	}
	return true
}

// VerifResourceController exposes the registry (verification builds only).
func (sys *ActorSystem) VerifResourceController() *prc.ResourceController { return sys.rc }

// VerifGuardRef / VerifSubscriptionRef expose the two system actors (verification builds only).
func (sys *ActorSystem) VerifGuardRef() ActorRef        { return sys.guard.ref }
func (sys *ActorSystem) VerifSubscriptionRef() ActorRef { return sys.subscription }

// VerifNewAbyss returns a fresh default dead-letter process, so that a harness can wrap it (verification builds only).
func VerifNewAbyss() AbyssProcess { return newAbyss() }

// VerifClosed reports whether the root actor has terminated, i.e. Shutdown would return (verification builds only).
func (sys *ActorSystem) VerifClosed() bool {
	select {
	case <-sys.closed:
		return true
	default:
		return false
	}
}
