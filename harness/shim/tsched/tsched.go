// Package tsched is the controlled scheduler of tie T2: instrumented copies of the repository's
// concurrent source files call the shim packages (atomic, sync, queues) instead of the real ones;
// every shared-memory operation becomes a Step that blocks until the controller grants it.
// Exactly one managed goroutine runs at any time (token passing), so a schedule is a list of
// (thread id, choice) pairs and every execution is replayable. Each granted step is logged as
// (tid, choice, event) — the vocabulary of the Coq machine of the property — and Coq replays the
// log with the machine's tstep, comparing the predicted event with the observed one step by step.
package tsched

import (
	"fmt"
	"strings"
)

type Thread struct {
	ID      int
	Name    string
	resume  chan string // carries the choice for this step
	pending string      // name of the step the thread is parked at
	enabled func() bool // nil = always enabled
	done    bool
	started bool
	f       func()
}

type Entry struct {
	Tid    int
	Choice string // Coq term
	Event  string // Coq term
}

// Option is one thing the controller may do next.
type Option struct {
	Tid    int    // thread to step (0 = environment when Env != "")
	Env    string // environment action key ("" = step thread Tid)
	Choice string // Coq term of the choice
}

type Sched struct {
	Threads []*Thread
	Log     []Entry
	cur     *Thread
	parked  chan *Thread
	fresh   []*Thread
	Steps   int
	// EnvThread: the model has an explicit environment thread with id 0
	EnvThread bool
	Deadlock  bool
}

var S *Sched // the scheduler of the current run (one run at a time)

func New(envThread bool) *Sched {
	s := &Sched{parked: make(chan *Thread), EnvThread: envThread}
	if envThread {
		s.Threads = append(s.Threads, &Thread{ID: 0, Name: "env", done: false, started: true})
	}
	S = s
	return s
}

// Go registers a new managed thread. It may be called by the controller (environment action) or
// by the managed thread that is currently running (e.g. dispatcher.Dispatch). The thread first runs
// up to its first Step (thread-local work only) when the controller next regains control.
func (s *Sched) Go(name string, f func()) *Thread {
	t := &Thread{ID: len(s.Threads), Name: name, resume: make(chan string), f: f}
	s.Threads = append(s.Threads, t)
	s.fresh = append(s.fresh, t)
	return t
}

func (s *Sched) startFresh() {
	for len(s.fresh) > 0 {
		t := s.fresh[0]
		s.fresh = s.fresh[1:]
		t.started = true
		s.cur = t
		go func() {
			defer func() {
				t.done = true
				s.parked <- t
			}()
			t.f()
		}()
		<-s.parked // t reached its first Step or finished
		if t.done {
			s.Log = append(s.Log, Entry{Tid: t.ID, Choice: "CNone", Event: "EvExit"})
		}
	}
}

// Step is called by managed threads (through the shims) right before a shared-memory operation.
// do performs the real operation and returns the event (Coq term) that was observed.
// The returned string is the choice the controller attached to this step.
func Step(name string, do func(choice string) string) string {
	return StepWhen(name, nil, do)
}

// StepWhen is Step for blocking primitives: the step can be granted only while enabled() holds.
func StepWhen(name string, enabled func() bool, do func(choice string) string) string {
	s := S
	t := s.cur
	t.pending = name
	t.enabled = enabled
	s.parked <- t
	choice := <-t.resume
	ev := do(choice)
	s.Log = append(s.Log, Entry{Tid: t.ID, Choice: choice, Event: ev})
	s.Steps++
	return choice
}

// Enabled lists the threads parked at a grantable step.
func (s *Sched) Enabled() []*Thread {
	s.startFresh()
	var out []*Thread
	for _, t := range s.Threads {
		if t.resume == nil || t.done || !t.started {
			continue
		}
		if t.enabled != nil && !t.enabled() {
			continue
		}
		out = append(out, t)
	}
	return out
}

// Live reports whether some managed thread has not finished.
func (s *Sched) Live() bool {
	s.startFresh()
	for _, t := range s.Threads {
		if t.resume != nil && !t.done {
			return true
		}
	}
	return false
}

// Grant lets thread t perform its pending step and run on to its next Step (or to its end).
func (s *Sched) Grant(t *Thread, choice string) {
	s.cur = t
	t.resume <- choice
	<-s.parked
	if t.done {
		// pseudo-entry: the thread's code has ended; the machine must agree that it has no step left
		s.Log = append(s.Log, Entry{Tid: t.ID, Choice: "CNone", Event: "EvExit"})
	}
	s.startFresh()
}

// EnvStep logs a step of the environment thread (tid 0) that the controller performed itself.
func (s *Sched) EnvStep(choice, event string) {
	s.Log = append(s.Log, Entry{Tid: 0, Choice: choice, Event: event})
	s.Steps++
	s.startFresh()
}

// Pending returns the name of the step the thread is parked at.
func (t *Thread) Pending() string { return t.pending }
func (t *Thread) Done() bool      { return t.done }

// Abandon releases every parked goroutine of a run that is given up (deadlock / step budget):
// they are left blocked for ever on their resume channel; the process is short-lived.
func (s *Sched) Abandon() {}

// CoqLog renders the log as a Coq list of (tid, choice, event) triples.
func (s *Sched) CoqLog() string {
	var sb strings.Builder
	sb.WriteString("[")
	for i, e := range s.Log {
		if i > 0 {
			sb.WriteString("; ")
		}
		fmt.Fprintf(&sb, "(%d%%nat, %s, %s)", e.Tid, e.Choice, e.Event)
	}
	sb.WriteString("]")
	return sb.String()
}

// ---------------------------------------------------------------- choosers

// Chooser picks the index of the next option among n>0 options.
type Chooser interface {
	Pick(n int, preemptive []bool) int
}

// DFS is a stateless depth-first enumerator of schedules with a preemption bound:
// call Next() before each run; it returns false when the space is exhausted.
type DFS struct {
	Prefix  []int // choices to replay
	pos     int
	Trace   []int
	Opts    []int
	Bound   int // max preemptive choices per run (<0 = unbounded)
	used    int
	started bool
}

func (d *DFS) Pick(n int, preemptive []bool) int {
	c := 0
	if d.pos < len(d.Prefix) {
		c = d.Prefix[d.pos]
	} else if d.Bound >= 0 && d.used >= d.Bound {
		// budget exhausted: take the first non-preemptive option, and do not branch here
		for i := 0; i < n; i++ {
			if !preemptive[i] {
				c = i
				break
			}
		}
		d.pos++
		d.Trace = append(d.Trace, c)
		d.Opts = append(d.Opts, c+1) // nothing further to explore at this point
		return c
	}
	if c >= n {
		c = n - 1
	}
	if preemptive[c] {
		d.used++
	}
	d.pos++
	d.Trace = append(d.Trace, c)
	d.Opts = append(d.Opts, n)
	return c
}

// Next prepares the next schedule; false when all have been explored.
func (d *DFS) Next() bool {
	if !d.started {
		d.started = true
		return true
	}
	i := len(d.Trace) - 1
	for i >= 0 && d.Trace[i]+1 >= d.Opts[i] {
		i--
	}
	if i < 0 {
		return false
	}
	d.Prefix = append(append([]int(nil), d.Trace[:i]...), d.Trace[i]+1)
	d.pos, d.used = 0, 0
	d.Trace, d.Opts = nil, nil
	return true
}

// Reset must be called at the start of every run.
func (d *DFS) Reset() { d.pos, d.used, d.Trace, d.Opts = 0, 0, nil, nil }
