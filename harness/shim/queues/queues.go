// Package queues is the T2 shim of toolkit/queues for machines that treat the queue as an atomic
// FIFO (justified by the C15 queue theorems): Push and Pop are single scheduler Steps.
package queues

import (
	"unsafe"

	"verif/harness/shim/tsched"
)

type LFQueue struct {
	items []unsafe.Pointer
	Name  string
}

// Describe renders a queue event; set by the driver. v is the value (nil for an empty pop).
var Describe = func(q *LFQueue, op string, v unsafe.Pointer) string { return "EvUnknown" }

func NewLFQueue() *LFQueue { return &LFQueue{} }

func (q *LFQueue) Push(v unsafe.Pointer) {
	tsched.Step("push", func(string) string {
		q.items = append(q.items, v)
		return Describe(q, "push", v)
	})
}

func (q *LFQueue) Pop() (v unsafe.Pointer) {
	tsched.Step("pop", func(string) string {
		if len(q.items) > 0 {
			v = q.items[0]
			q.items = q.items[1:]
		}
		return Describe(q, "pop", v)
	})
	return
}

// Len is for monitors only (not a step).
func (q *LFQueue) Len() int { return len(q.items) }
