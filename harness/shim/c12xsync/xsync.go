// Package xsync (c12xsync) is the T2 shim of github.com/puzpuzpuz/xsync/v3.MapOf for property C12, with
// the part of the generic API that engine/prc/resource_controller.go uses. The real map is linearizable
// by contract; here every operation is one scheduler Step on a plain Go map (only one managed goroutine
// runs at a time), except Compute, which — like the real one — holds the lock of the entry while the
// caller's function runs: lock step, the function (its own shared-memory operations are Steps of their
// own), commit step. Blocking follows the real implementation: Load never blocks; LoadOrStore of a
// present key takes the lock-free fast path; every other writer waits for the entry's lock.
package xsync

import "verif/harness/shim/tsched"

// Describe turns an executed operation into the event term of the Coq machine MV.C12.ConcModel.
// op ∈ load los lad lock commit store delete; arg is the value passed in (los/store), old the value
// found, loaded whether one was found.
var Describe = func(op string, key, arg, old any, loaded bool) string { return "(EvOther 0%nat)" }

type MapConfig struct{}

type MapOf[K comparable, V any] struct {
	m      map[K]V
	locked map[K]bool
}

func NewMapOf[K comparable, V any](options ...func(*MapConfig)) *MapOf[K, V] {
	return &MapOf[K, V]{m: map[K]V{}, locked: map[K]bool{}}
}

func (m *MapOf[K, V]) Load(key K) (value V, ok bool) {
	tsched.Step("map.load", func(string) string {
		value, ok = m.m[key]
		return Describe("load", key, nil, value, ok)
	})
	return
}

func (m *MapOf[K, V]) LoadOrStore(key K, value V) (actual V, loaded bool) {
	tsched.StepWhen("map.los", func() bool { _, present := m.m[key]; return present || !m.locked[key] }, func(string) string {
		actual, loaded = m.m[key]
		if !loaded {
			m.m[key] = value
			var zero V
			ev := Describe("los", key, value, zero, false)
			actual = value
			return ev
		}
		return Describe("los", key, value, actual, true)
	})
	return
}

func (m *MapOf[K, V]) LoadAndDelete(key K) (value V, loaded bool) {
	tsched.StepWhen("map.lad", func() bool { return !m.locked[key] }, func(string) string {
		value, loaded = m.m[key]
		delete(m.m, key)
		return Describe("lad", key, nil, value, loaded)
	})
	return
}

func (m *MapOf[K, V]) Compute(key K, valueFn func(oldValue V, loaded bool) (newValue V, delete bool)) (actual V, ok bool) {
	var old V
	var loaded bool
	tsched.StepWhen("map.lock", func() bool { return !m.locked[key] }, func(string) string {
		m.locked[key] = true
		old, loaded = m.m[key]
		return Describe("lock", key, nil, old, loaded)
	})
	nv, del := valueFn(old, loaded) // runs under the entry's lock
	tsched.Step("map.commit", func(string) string {
		if del {
			delete(m.m, key)
			ok = false
		} else {
			m.m[key] = nv
			actual, ok = nv, true
		}
		m.locked[key] = false
		if del {
			return Describe("commit", key, nil, old, loaded)
		}
		return Describe("commit-store", key, nv, old, loaded)
	})
	return
}

func (m *MapOf[K, V]) Store(key K, value V) {
	tsched.StepWhen("map.store", func() bool { return !m.locked[key] }, func(string) string {
		old, loaded := m.m[key]
		m.m[key] = value
		return Describe("store", key, value, old, loaded)
	})
}

func (m *MapOf[K, V]) Delete(key K) {
	tsched.StepWhen("map.delete", func() bool { return !m.locked[key] }, func(string) string {
		old, loaded := m.m[key]
		delete(m.m, key)
		return Describe("delete", key, nil, old, loaded)
	})
}

// Range is a snapshot iteration (one step).
func (m *MapOf[K, V]) Range(f func(key K, value V) bool) {
	var ks []K
	var vs []V
	tsched.Step("map.range", func(string) string {
		for k, v := range m.m {
			ks, vs = append(ks, k), append(vs, v)
		}
		return Describe("range", nil, nil, nil, false)
	})
	for i := range ks {
		if !f(ks[i], vs[i]) {
			return
		}
	}
}

func (m *MapOf[K, V]) Size() int { return len(m.m) }

// Peek reads without a step (driver/monitors only).
func (m *MapOf[K, V]) Peek(key K) (V, bool) { v, ok := m.m[key]; return v, ok }
