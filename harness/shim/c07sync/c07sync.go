// Package c07sync is the T2 stand-in for sync.Mutex in the instrumented copy of engine/future/future.go:
// Lock is a scheduler step that can be granted only while the mutex is free, Unlock is a step.
package c07sync

import "verif/harness/shim/tsched"

type Mutex struct{ locked bool }

func (m *Mutex) Lock() {
	tsched.StepWhen("lock", func() bool { return !m.locked }, func(string) string {
		m.locked = true
		return "EvLock"
	})
}

func (m *Mutex) Unlock() {
	tsched.Step("unlock", func(string) string {
		m.locked = false
		return "EvUnlock"
	})
}

func (m *Mutex) Held() bool { return m.locked }
