// Package atomic (c12atomic) is the T2 shim of sync/atomic for property C12: the typed atomics used by
// engine/prc/process_id.pb.go (atomic.Pointer[Process], the per-reference cache) and by the stub
// processes of the driver (atomic.Bool, the terminated flag of actor_process.go). Every operation is a
// scheduler Step that performs the real operation and reports it through Describe.
package atomic

import (
	ra "sync/atomic"
	"unsafe"

	"verif/harness/shim/tsched"
)

// Describe turns an executed operation into the event term of the Coq machine MV.C12.ConcModel.
// op ∈ loadp storep swapp casp load store cas; addr identifies the field; val is the value loaded or
// stored (a *T for pointers, a bool for Bool); ok is the CAS outcome.
var Describe = func(op string, addr unsafe.Pointer, val any, ok bool) string { return "(EvOther 0%nat)" }

type Pointer[T any] struct {
	_ [0]func() // not comparable, like the real one
	p ra.Pointer[T]
}

func (x *Pointer[T]) Load() (v *T) {
	tsched.Step("loadp", func(string) string {
		v = x.p.Load()
		return Describe("loadp", unsafe.Pointer(x), v, true)
	})
	return
}
func (x *Pointer[T]) Store(v *T) {
	tsched.Step("storep", func(string) string {
		x.p.Store(v)
		return Describe("storep", unsafe.Pointer(x), v, true)
	})
}
func (x *Pointer[T]) Swap(v *T) (old *T) {
	tsched.Step("swapp", func(string) string {
		old = x.p.Swap(v)
		return Describe("swapp", unsafe.Pointer(x), v, true)
	})
	return
}
func (x *Pointer[T]) CompareAndSwap(old, new *T) (ok bool) {
	tsched.Step("casp", func(string) string {
		ok = x.p.CompareAndSwap(old, new)
		return Describe("casp", unsafe.Pointer(x), new, ok)
	})
	return
}

type Bool struct{ v ra.Bool }

func (b *Bool) Load() (v bool) {
	tsched.Step("load", func(string) string {
		v = b.v.Load()
		return Describe("load", unsafe.Pointer(b), v, true)
	})
	return
}
func (b *Bool) Store(x bool) {
	tsched.Step("store", func(string) string {
		b.v.Store(x)
		return Describe("store", unsafe.Pointer(b), x, true)
	})
}
func (b *Bool) CompareAndSwap(old, new bool) (ok bool) {
	tsched.Step("cas", func(string) string {
		ok = b.v.CompareAndSwap(old, new)
		return Describe("cas", unsafe.Pointer(b), new, ok)
	})
	return
}
