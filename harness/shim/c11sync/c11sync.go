// Package c11sync is the T2 shim of package sync for property C11 (engine/prc/shared_stream_process.go):
// Mutex and RWMutex whose operations are steps of the controlled scheduler (harness/shim/tsched).
// Lock is grantable only while the lock is free, RLock only while no writer holds it; a blocked thread
// simply has no enabled step (the Coq machine has tstep = None there). Every step is reported through
// Describe, which the per-property driver sets (it knows what the critical section did to the data the
// lock protects). Spawn replaces the `go func(){…}()` statement of the instrumented source: the new
// goroutine becomes a managed thread of the scheduler.
package c11sync

import (
	"fmt"
	"unsafe"

	"verif/harness/shim/tsched"
)

// Describe turns an executed lock operation into the event term of the property's Coq machine.
// op ∈ lock unlock rlock runlock; addr identifies the mutex. For unlock/runlock it is called BEFORE the
// lock is released (the critical section is complete, nobody else has entered yet).
var Describe = func(op string, addr unsafe.Pointer) string { return "(EvOther 0%nat)" }

type RWMutex struct {
	w bool
	r int
}

func (m *RWMutex) Lock() {
	tsched.StepWhen("lock", func() bool { return !m.w && m.r == 0 }, func(string) string {
		m.w = true
		return Describe("lock", unsafe.Pointer(m))
	})
}

func (m *RWMutex) Unlock() {
	tsched.Step("unlock", func(string) string {
		if !m.w {
			panic("c11sync: unlock of unlocked RWMutex")
		}
		ev := Describe("unlock", unsafe.Pointer(m))
		m.w = false
		return ev
	})
}

func (m *RWMutex) RLock() {
	tsched.StepWhen("rlock", func() bool { return !m.w }, func(string) string {
		m.r++
		return Describe("rlock", unsafe.Pointer(m))
	})
}

func (m *RWMutex) RUnlock() {
	tsched.Step("runlock", func(string) string {
		if m.r <= 0 {
			panic("c11sync: RUnlock of unlocked RWMutex")
		}
		ev := Describe("runlock", unsafe.Pointer(m))
		m.r--
		return ev
	})
}

// Held reports the state of the lock (for the driver's end-of-run checks).
func (m *RWMutex) Held() (writer bool, readers int) { return m.w, m.r }

type Mutex struct{ rw RWMutex }

func (m *Mutex) Lock()   { m.rw.Lock() }
func (m *Mutex) Unlock() { m.rw.Unlock() }

// Panics collects the panics of spawned threads (a panic in the instrumented code must not kill the run:
// the driver reports it as a monitor hit).
var Panics []string

// Spawn stands for a `go` statement executed by the running managed thread.
func Spawn(f func()) {
	tsched.S.Go("spawned", func() {
		defer func() {
			if r := recover(); r != nil {
				Panics = append(Panics, fmt.Sprint(r))
			}
		}()
		f()
	})
}
