// Package c07prc is the T2 stand-in for engine/prc in the instrumented copy of engine/future/future.go: the
// same names (Message, ProcessId, Process, MessageWrapper, ResourceController with Register / Unregister /
// GetProcess), the registry a plain map whose Unregister is a step of the controlled scheduler. Register is
// called by the controller while it sets a run up (the environment's first step) and is not a step itself.
package c07prc

import (
	"fmt"

	"verif/harness/shim/tsched"
)

type Message = any
type LogicalAddress = string

type ProcessId struct{ LogicalAddress string }

func (p *ProcessId) GetLogicalAddress() string { return p.LogicalAddress }

type Process interface {
	Initialize(rc *ResourceController, id *ProcessId)
	DeliveryUserMessage(receiver, sender, forward *ProcessId, message Message)
	DeliverySystemMessage(receiver, sender, forward *ProcessId, message Message)
	IsTerminated() bool
	Terminate(source *ProcessId)
}

type MessageWrapper struct {
	Sender   *ProcessId
	Receiver *ProcessId
	Message  Message
}

// UnwrapMessage as in engine/prc/message_wrapper.go (a non-wrapper yields a nil message): present so that a
// future.go that uses the helper still builds against the shim; what it does there is judged by the runs.
func UnwrapMessage(wrapper Message) (sender, receiver *ProcessId, message Message) {
	w, ok := wrapper.(*MessageWrapper)
	if !ok {
		return nil, nil, message
	}
	return w.Sender, w.Receiver, w.Message
}

type ResourceController struct {
	Procs map[string]Process
	// DescribeForward renders the message handed to a forward target as the machine's `oreason` term.
	DescribeForward func(m Message) string
	Forwarded       []string
}

func NewResourceController() *ResourceController {
	return &ResourceController{Procs: map[string]Process{}}
}

func (rc *ResourceController) Register(id *ProcessId, process Process) (*ProcessId, bool) {
	if _, exist := rc.Procs[id.LogicalAddress]; exist {
		return id, true
	}
	rc.Procs[id.LogicalAddress] = process
	process.Initialize(rc, id)
	return id, false
}

func (rc *ResourceController) Unregister(killer, target *ProcessId) {
	var p Process
	var found bool
	tsched.Step("unreg", func(string) string {
		p, found = rc.Procs[target.LogicalAddress]
		delete(rc.Procs, target.LogicalAddress)
		return fmt.Sprintf("(EvUnreg %v)", found)
	})
	if found {
		p.Terminate(killer)
	}
}

func (rc *ResourceController) Has(addr string) bool { _, ok := rc.Procs[addr]; return ok }

// GetProcess resolves a forward target: every address other than a registered one is a recording stub.
func (rc *ResourceController) GetProcess(id *ProcessId) Process {
	if p, ok := rc.Procs[id.LogicalAddress]; ok {
		return p
	}
	return &fwdTarget{rc: rc, addr: id.LogicalAddress}
}

type fwdTarget struct {
	rc   *ResourceController
	addr string
}

func (t *fwdTarget) Initialize(rc *ResourceController, id *ProcessId) {}
func (t *fwdTarget) IsTerminated() bool                              { return false }
func (t *fwdTarget) Terminate(source *ProcessId)                     {}
func (t *fwdTarget) DeliverySystemMessage(receiver, sender, forward *ProcessId, message Message) {
	t.DeliveryUserMessage(receiver, sender, forward, message)
}
func (t *fwdTarget) DeliveryUserMessage(receiver, sender, forward *ProcessId, message Message) {
	tsched.Step("forward", func(string) string {
		d := "None"
		if t.rc.DescribeForward != nil {
			d = t.rc.DescribeForward(message)
		}
		t.rc.Forwarded = append(t.rc.Forwarded, t.addr+":"+d)
		return fmt.Sprintf("(EvForward %s%%nat %s)", t.addr, d)
	})
}
