// Package c07time is the T2 stand-in for package time in the instrumented copy of engine/future/future.go:
// time.AfterFunc registers a thread of the controlled scheduler (harness/shim/tsched) instead of a runtime
// timer, so "the deadline" is whenever the controller grants that thread its step; Timer.Stop is a step too.
package c07time

import (
	rt "time"

	"verif/harness/shim/tsched"
)

type Duration = rt.Duration

const (
	Nanosecond  = rt.Nanosecond
	Microsecond = rt.Microsecond
	Millisecond = rt.Millisecond
	Second      = rt.Second
	Minute      = rt.Minute
	Hour        = rt.Hour
)

type Timer struct {
	Stopped bool
	Fired   bool
}

// Armed lists the timers created since the last Reset (the driver checks that at most one exists).
var Armed []*Timer

func Reset() { Armed = nil }

// OnPanic receives a panic of the timer's callback (the driver turns it into a monitor hit).
var OnPanic func(name string, e any)

func AfterFunc(d Duration, f func()) *Timer {
	t := &Timer{}
	Armed = append(Armed, t)
	tsched.S.Go("timer", func() {
		run := false
		tsched.Step("fire", func(string) string {
			if t.Stopped {
				return "EvCancelled"
			}
			t.Fired, run = true, true
			return "EvFire"
		})
		if run {
			defer func() {
				if e := recover(); e != nil && OnPanic != nil {
					OnPanic("timer", e)
				}
			}()
			f()
		}
	})
	return t
}

func (t *Timer) Stop() bool {
	was := !t.Fired && !t.Stopped
	tsched.Step("stop", func(string) string {
		t.Stopped = true
		return "EvStop"
	})
	return was
}
