// Package atomic is the T2 shim of sync/atomic: same functions, each one a scheduler Step that
// performs the real operation and reports it through Describe (set by the per-property driver,
// which knows the names of the instrumented object's fields).
package atomic

import (
	ra "sync/atomic"
	"unsafe"

	"verif/harness/shim/tsched"
)

// Describe turns an executed operation into the event term of the property's Coq machine.
// op ∈ load store cas add swap; addr identifies the field; a,b are operands; r the result.
var Describe = func(op string, addr unsafe.Pointer, a, b, r int64, ok bool) string { return "EvUnknown" }

func step(op string, addr unsafe.Pointer, do func() (a, b, r int64, ok bool)) {
	tsched.Step(op, func(string) string {
		a, b, r, ok := do()
		return Describe(op, addr, a, b, r, ok)
	})
}

func LoadUint32(p *uint32) (v uint32) {
	step("load", unsafe.Pointer(p), func() (int64, int64, int64, bool) { v = ra.LoadUint32(p); return 0, 0, int64(v), true })
	return
}
func StoreUint32(p *uint32, x uint32) {
	step("store", unsafe.Pointer(p), func() (int64, int64, int64, bool) { ra.StoreUint32(p, x); return int64(x), 0, 0, true })
}
func CompareAndSwapUint32(p *uint32, old, new uint32) (ok bool) {
	step("cas", unsafe.Pointer(p), func() (int64, int64, int64, bool) {
		ok = ra.CompareAndSwapUint32(p, old, new)
		return int64(old), int64(new), 0, ok
	})
	return
}
func AddUint32(p *uint32, d uint32) (v uint32) {
	step("add", unsafe.Pointer(p), func() (int64, int64, int64, bool) { v = ra.AddUint32(p, d); return int64(d), 0, int64(v), true })
	return
}
func LoadInt32(p *int32) (v int32) {
	step("load", unsafe.Pointer(p), func() (int64, int64, int64, bool) { v = ra.LoadInt32(p); return 0, 0, int64(v), true })
	return
}
func StoreInt32(p *int32, x int32) {
	step("store", unsafe.Pointer(p), func() (int64, int64, int64, bool) { ra.StoreInt32(p, x); return int64(x), 0, 0, true })
}
func AddInt32(p *int32, d int32) (v int32) {
	step("add", unsafe.Pointer(p), func() (int64, int64, int64, bool) { v = ra.AddInt32(p, d); return int64(d), 0, int64(v), true })
	return
}
func CompareAndSwapInt32(p *int32, old, new int32) (ok bool) {
	step("cas", unsafe.Pointer(p), func() (int64, int64, int64, bool) {
		ok = ra.CompareAndSwapInt32(p, old, new)
		return int64(old), int64(new), 0, ok
	})
	return
}
func LoadInt64(p *int64) (v int64) {
	step("load", unsafe.Pointer(p), func() (int64, int64, int64, bool) { v = ra.LoadInt64(p); return 0, 0, v, true })
	return
}
func StoreInt64(p *int64, x int64) {
	step("store", unsafe.Pointer(p), func() (int64, int64, int64, bool) { ra.StoreInt64(p, x); return x, 0, 0, true })
}
func AddInt64(p *int64, d int64) (v int64) {
	step("add", unsafe.Pointer(p), func() (int64, int64, int64, bool) { v = ra.AddInt64(p, d); return d, 0, v, true })
	return
}
func LoadUint64(p *uint64) (v uint64) {
	step("load", unsafe.Pointer(p), func() (int64, int64, int64, bool) { v = ra.LoadUint64(p); return 0, 0, int64(v), true })
	return
}
func StoreUint64(p *uint64, x uint64) {
	step("store", unsafe.Pointer(p), func() (int64, int64, int64, bool) { ra.StoreUint64(p, x); return int64(x), 0, 0, true })
}
func AddUint64(p *uint64, d uint64) (v uint64) {
	step("add", unsafe.Pointer(p), func() (int64, int64, int64, bool) { v = ra.AddUint64(p, d); return int64(d), 0, int64(v), true })
	return
}
func CompareAndSwapUint64(p *uint64, old, new uint64) (ok bool) {
	step("cas", unsafe.Pointer(p), func() (int64, int64, int64, bool) {
		ok = ra.CompareAndSwapUint64(p, old, new)
		return int64(old), int64(new), 0, ok
	})
	return
}

// PtrID gives pointers small stable numbers so that events can name nodes.
var PtrID = func(p unsafe.Pointer) int64 { return int64(uintptr(p)) }

func LoadPointer(p *unsafe.Pointer) (v unsafe.Pointer) {
	step("loadp", unsafe.Pointer(p), func() (int64, int64, int64, bool) { v = ra.LoadPointer(p); return 0, 0, PtrID(v), true })
	return
}
func StorePointer(p *unsafe.Pointer, x unsafe.Pointer) {
	step("storep", unsafe.Pointer(p), func() (int64, int64, int64, bool) { ra.StorePointer(p, x); return PtrID(x), 0, 0, true })
}
func SwapPointer(p *unsafe.Pointer, x unsafe.Pointer) (old unsafe.Pointer) {
	step("swapp", unsafe.Pointer(p), func() (int64, int64, int64, bool) { old = ra.SwapPointer(p, x); return PtrID(x), 0, PtrID(old), true })
	return
}
func CompareAndSwapPointer(p *unsafe.Pointer, old, new unsafe.Pointer) (ok bool) {
	step("casp", unsafe.Pointer(p), func() (int64, int64, int64, bool) {
		ok = ra.CompareAndSwapPointer(p, old, new)
		return PtrID(old), PtrID(new), 0, ok
	})
	return
}

// ---- typed atomics (sync/atomic.Bool, Uint32, Int32, Uint64, Int64)

type Bool struct{ v uint32 }

func (b *Bool) Load() bool { return LoadUint32(&b.v) != 0 }
func (b *Bool) Store(x bool) {
	var u uint32
	if x {
		u = 1
	}
	StoreUint32(&b.v, u)
}
func (b *Bool) CompareAndSwap(old, new bool) bool {
	var o, n uint32
	if old {
		o = 1
	}
	if new {
		n = 1
	}
	return CompareAndSwapUint32(&b.v, o, n)
}
func (b *Bool) Addr() unsafe.Pointer { return unsafe.Pointer(&b.v) }

type Uint32 struct{ v uint32 }

func (x *Uint32) Load() uint32                       { return LoadUint32(&x.v) }
func (x *Uint32) Store(v uint32)                     { StoreUint32(&x.v, v) }
func (x *Uint32) Add(d uint32) uint32                { return AddUint32(&x.v, d) }
func (x *Uint32) CompareAndSwap(o, n uint32) bool    { return CompareAndSwapUint32(&x.v, o, n) }
func (x *Uint32) Addr() unsafe.Pointer               { return unsafe.Pointer(&x.v) }

type Int32 struct{ v int32 }

func (x *Int32) Load() int32                     { return LoadInt32(&x.v) }
func (x *Int32) Store(v int32)                   { StoreInt32(&x.v, v) }
func (x *Int32) Add(d int32) int32               { return AddInt32(&x.v, d) }
func (x *Int32) CompareAndSwap(o, n int32) bool  { return CompareAndSwapInt32(&x.v, o, n) }
func (x *Int32) Addr() unsafe.Pointer            { return unsafe.Pointer(&x.v) }

type Uint64 struct{ v uint64 }

func (x *Uint64) Load() uint64                      { return LoadUint64(&x.v) }
func (x *Uint64) Store(v uint64)                    { StoreUint64(&x.v, v) }
func (x *Uint64) Add(d uint64) uint64               { return AddUint64(&x.v, d) }
func (x *Uint64) CompareAndSwap(o, n uint64) bool   { return CompareAndSwapUint64(&x.v, o, n) }
func (x *Uint64) Addr() unsafe.Pointer              { return unsafe.Pointer(&x.v) }

type Int64 struct{ v int64 }

func (x *Int64) Load() int64          { return LoadInt64(&x.v) }
func (x *Int64) Store(v int64)        { StoreInt64(&x.v, v) }
func (x *Int64) Add(d int64) int64    { return AddInt64(&x.v, d) }
func (x *Int64) Addr() unsafe.Pointer { return unsafe.Pointer(&x.v) }
