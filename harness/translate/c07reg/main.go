// c07reg: tie T3 of property C07 for the CREATION of a future — reads, from the tree under test (go/ast, syntactic),
//
//	engine/prc/resource_controller.go   (*ResourceController).Register     publication into the process table versus the call of Initialize
//	engine/future/future.go             (*futureProcess).Initialize        f.rc = … / f.ref = … versus the creation of the timer
//	                                    New                                the call of Register (and whatever New itself stores / arms)
//
// and emits the statements that matter, IN SOURCE ORDER, as Coq terms:
//
//	RegExtracted.v  src_register : list rstmt, src_initialize : list cstep, src_new : list nstmt
//	RegInstance.v   order_ok (creation_order src_register src_initialize src_new) = true   (vm_compute)
//	                + the theorems of MV.C07.RegProofs instantiated at the machine this source is
//
// checks/c07.py compiles both on every run. The machine MV.C07.RegModel executes the creation steps in the order it is
// given; its theorems hold for every order accepted by order_ok (the future is stored in the registry, exactly once, and
// holds its controller and its reference before the timer is armed and before New returns). "Initialize before
// LoadOrStore" in Register, or "timer before f.ref" in Initialize, is a different list: order_ok is false, RegInstance.v
// does not compile, the obligation "the release theorems apply to this source" is broken (MV.C07.RegProofs has the
// refuting schedules: init_first_leaks, ref_after_timer_crashes).
//
// What is an event (everything else — comments, logging, local variables, renamed identifiers — is ignored):
//   - a method call on the process table of the ResourceController (the field of type *xsync.MapOf[..], or a local
//     variable assigned from it): Load -> lookup; Store / LoadOrStore / LoadAndStore / LoadOrCompute / LoadOrTryCompute /
//     Compute -> publish; any other method (Delete, LoadAndDelete, Range, Clear, …) -> other;
//   - a call X.Initialize(a, b) -> the statements of futureProcess.Initialize; a call X.Register(a, b) in New -> the
//     statements of Register; a call of another method of the same receiver type is inlined (depth <= 4);
//   - an assignment to the field of futureProcess of type *prc.ResourceController -> f.rc; of type *prc.ProcessId -> f.ref
//     (also as a key of the composite literal in New); the right-hand side is evaluated first;
//   - a call of time.AfterFunc / time.NewTimer / time.NewTicker / time.After / time.Tick -> the timer is armed.
//
// Events under go / defer / for / range / switch / select / goto / labels or inside a function literal are not
// straight-line creation steps: reported as "other" (rejected). if/else bodies are walked in source order (the
// machine is about a fresh address: Register's "already exists" branch is not taken). Not seen: reflection, unsafe,
// assignments through aliases of the future, helper functions of other packages. Standard library only.
package main

import (
	"encoding/json"
	"flag"
	"fmt"
	"go/ast"
	"go/parser"
	"go/token"
	"os"
	"path/filepath"
	"sort"
	"strings"
)

type event struct {
	Kind string `json:"kind"` // lookup publish initialize register setrc setref arm other
	Fn   string `json:"fn"`
	Pos  string `json:"pos"`
	Text string `json:"text"`
	Why  string `json:"why,omitempty"`
}

func fail(format string, a ...any) {
	fmt.Fprintf(os.Stderr, "c07reg: "+format+"\n", a...)
	os.Exit(1)
}

var publishMethods = map[string]bool{"Store": true, "LoadOrStore": true, "LoadAndStore": true, "LoadOrCompute": true, "LoadOrTryCompute": true, "Compute": true}
var lookupMethods = map[string]bool{"Load": true, "Size": true}
var timerFuncs = map[string]bool{"AfterFunc": true, "NewTimer": true, "NewTicker": true, "After": true, "Tick": true}

// typeString renders a type expression compactly (enough to recognise *prc.ResourceController, *prc.ProcessId, *xsync.MapOf[..]).
func typeString(e ast.Expr) string {
	switch x := e.(type) {
	case *ast.Ident:
		return x.Name
	case *ast.StarExpr:
		return "*" + typeString(x.X)
	case *ast.SelectorExpr:
		return typeString(x.X) + "." + x.Sel.Name
	case *ast.IndexExpr:
		return typeString(x.X) + "[]"
	case *ast.IndexListExpr:
		return typeString(x.X) + "[]"
	case *ast.ArrayType:
		return "[]" + typeString(x.Elt)
	}
	return "?"
}

func recvTypeName(fd *ast.FuncDecl) string {
	if fd.Recv == nil || len(fd.Recv.List) != 1 {
		return ""
	}
	t := fd.Recv.List[0].Type
	if s, ok := t.(*ast.StarExpr); ok {
		t = s.X
	}
	switch x := t.(type) {
	case *ast.Ident:
		return x.Name
	case *ast.IndexExpr:
		if id, ok := x.X.(*ast.Ident); ok {
			return id.Name
		}
	case *ast.IndexListExpr:
		if id, ok := x.X.(*ast.Ident); ok {
			return id.Name
		}
	}
	return ""
}

func recvName(fd *ast.FuncDecl) string {
	if fd.Recv == nil || len(fd.Recv.List) != 1 || len(fd.Recv.List[0].Names) != 1 {
		return ""
	}
	return fd.Recv.List[0].Names[0].Name
}

// pkg: the non-test files of one directory
type pkg struct {
	fset    *token.FileSet
	files   []*ast.File
	src     map[string][]byte
	methods map[string]*ast.FuncDecl // "Type.Method"
	funcs   map[string]*ast.FuncDecl
	structs map[string]*ast.StructType
}

func load(dir string) *pkg {
	p := &pkg{fset: token.NewFileSet(), src: map[string][]byte{}, methods: map[string]*ast.FuncDecl{}, funcs: map[string]*ast.FuncDecl{}, structs: map[string]*ast.StructType{}}
	ents, err := os.ReadDir(dir)
	if err != nil {
		fail("cannot read %s: %v", dir, err)
	}
	var names []string
	for _, e := range ents {
		if !e.IsDir() && strings.HasSuffix(e.Name(), ".go") && !strings.HasSuffix(e.Name(), "_test.go") {
			names = append(names, e.Name())
		}
	}
	sort.Strings(names)
	for _, n := range names {
		path := filepath.Join(dir, n)
		b, err := os.ReadFile(path)
		if err != nil {
			fail("%v", err)
		}
		f, err := parser.ParseFile(p.fset, path, b, 0)
		if err != nil {
			fail("cannot parse %s: %v", path, err)
		}
		p.src[path] = b
		p.files = append(p.files, f)
		for _, d := range f.Decls {
			switch x := d.(type) {
			case *ast.FuncDecl:
				if x.Body == nil {
					continue
				}
				if rt := recvTypeName(x); rt != "" {
					p.methods[rt+"."+x.Name.Name] = x
				} else if x.Recv == nil {
					p.funcs[x.Name.Name] = x
				}
			case *ast.GenDecl:
				for _, s := range x.Specs {
					if ts, ok := s.(*ast.TypeSpec); ok {
						if st, ok := ts.Type.(*ast.StructType); ok {
							p.structs[ts.Name.Name] = st
						}
					}
				}
			}
		}
	}
	return p
}

func (p *pkg) pos(n ast.Node) string {
	q := p.fset.Position(n.Pos())
	return fmt.Sprintf("%s:%d", filepath.Base(q.Filename), q.Line)
}

func (p *pkg) text(n ast.Node) string {
	q, e := p.fset.Position(n.Pos()), p.fset.Position(n.End())
	b := p.src[q.Filename]
	if b == nil || e.Offset > len(b) || q.Offset > e.Offset {
		return ""
	}
	s := strings.Join(strings.Fields(string(b[q.Offset:e.Offset])), " ")
	if len(s) > 160 {
		s = s[:160] + "…"
	}
	return s
}

// fieldsOfType: names of the fields of struct `name` whose type renders as one of `types`
func (p *pkg) fieldsOfType(name string, match func(string) bool) []string {
	st := p.structs[name]
	if st == nil {
		return nil
	}
	var out []string
	for _, f := range st.Fields.List {
		if match(typeString(f.Type)) {
			for _, id := range f.Names {
				out = append(out, id.Name)
			}
		}
	}
	return out
}

// walker extracts the events of one function body in evaluation order
type walker struct {
	p        *pkg
	recvType string          // receiver type whose other methods are inlined
	table    map[string]bool // field names of the process table (methods on X.<table> are registry operations)
	rcField  map[string]bool // futureProcess fields of type *prc.ResourceController
	refField map[string]bool // futureProcess fields of type *prc.ProcessId
	alias    map[string]bool // local identifiers assigned from X.<table>
	out      []event
	stack    []string
	recvs    []string // receiver identifier of the function being walked (innermost last)
}

func (w *walker) emit(kind string, n ast.Node, why string) {
	fn := ""
	if len(w.stack) > 0 {
		fn = w.stack[len(w.stack)-1]
	}
	w.out = append(w.out, event{Kind: kind, Fn: fn, Pos: w.p.pos(n), Text: w.p.text(n), Why: why})
}

func (w *walker) isTable(e ast.Expr) bool {
	switch x := e.(type) {
	case *ast.SelectorExpr:
		return w.table[x.Sel.Name]
	case *ast.Ident:
		return w.alias[x.Name]
	case *ast.ParenExpr:
		return w.isTable(x.X)
	}
	return false
}

// hasEvents: does the subtree contain anything that would be an event?
func (w *walker) hasEvents(n ast.Node) bool {
	if n == nil {
		return false
	}
	sub := &walker{p: w.p, recvType: w.recvType, table: w.table, rcField: w.rcField, refField: w.refField, alias: w.alias,
		stack: append([]string{}, w.stack...), recvs: append([]string{}, w.recvs...)}
	switch x := n.(type) {
	case ast.Stmt:
		sub.stmt(x)
	case ast.Expr:
		sub.expr(x)
	}
	return len(sub.out) > 0
}

func (w *walker) block(b *ast.BlockStmt) {
	if b == nil {
		return
	}
	for _, s := range b.List {
		w.stmt(s)
	}
}

func (w *walker) opaque(at ast.Node, probe ast.Node, what string) {
	if w.hasEvents(probe) {
		w.emit("other", at, "creation step under "+what)
	}
}

func (w *walker) stmt(s ast.Stmt) {
	switch x := s.(type) {
	case nil:
	case *ast.BlockStmt:
		w.block(x)
	case *ast.ExprStmt:
		w.expr(x.X)
	case *ast.AssignStmt:
		for _, r := range x.Rhs {
			w.expr(r)
		}
		for i, l := range x.Lhs {
			w.lhs(l, x)
			// alias of the process table: m := rc.processes
			if id, ok := l.(*ast.Ident); ok && len(x.Lhs) == len(x.Rhs) && w.isTable(x.Rhs[i]) {
				w.alias[id.Name] = true
			}
		}
	case *ast.DeclStmt:
		if gd, ok := x.Decl.(*ast.GenDecl); ok {
			for _, sp := range gd.Specs {
				if vs, ok := sp.(*ast.ValueSpec); ok {
					for i, v := range vs.Values {
						w.expr(v)
						if i < len(vs.Names) && w.isTable(v) {
							w.alias[vs.Names[i].Name] = true
						}
					}
				}
			}
		}
	case *ast.IfStmt:
		w.stmt(x.Init)
		w.expr(x.Cond)
		w.block(x.Body)
		w.stmt(x.Else)
	case *ast.ReturnStmt:
		for _, r := range x.Results {
			w.expr(r)
		}
	case *ast.IncDecStmt:
		w.expr(x.X)
	case *ast.EmptyStmt:
	case *ast.GoStmt:
		w.opaque(x, &ast.ExprStmt{X: x.Call}, "go")
	case *ast.DeferStmt:
		w.opaque(x, &ast.ExprStmt{X: x.Call}, "defer")
	case *ast.ForStmt:
		w.opaque(x, &ast.BlockStmt{List: []ast.Stmt{x.Init, &ast.ExprStmt{X: orNil(x.Cond)}, x.Post, x.Body}}, "for")
	case *ast.RangeStmt:
		w.opaque(x, &ast.BlockStmt{List: []ast.Stmt{&ast.ExprStmt{X: x.X}, x.Body}}, "range")
	case *ast.SwitchStmt:
		w.opaque(x, &ast.BlockStmt{List: []ast.Stmt{x.Init, &ast.ExprStmt{X: orNil(x.Tag)}, x.Body}}, "switch")
	case *ast.TypeSwitchStmt:
		w.opaque(x, &ast.BlockStmt{List: []ast.Stmt{x.Init, x.Assign, x.Body}}, "type switch")
	case *ast.SelectStmt:
		w.opaque(x, x.Body, "select")
	case *ast.CaseClause:
		for _, e := range x.List {
			w.expr(e)
		}
		for _, b := range x.Body {
			w.stmt(b)
		}
	case *ast.CommClause:
		w.stmt(x.Comm)
		for _, b := range x.Body {
			w.stmt(b)
		}
	case *ast.LabeledStmt:
		w.opaque(x, x.Stmt, "a label")
	case *ast.BranchStmt:
		if x.Tok == token.GOTO {
			w.emit("other", x, "goto")
		}
	case *ast.SendStmt:
		w.expr(x.Chan)
		w.expr(x.Value)
	default:
		w.emit("other", s, fmt.Sprintf("statement %T", s))
	}
}

func orNil(e ast.Expr) ast.Expr {
	if e == nil {
		return &ast.Ident{Name: "_"}
	}
	return e
}

func (w *walker) lhs(l ast.Expr, at ast.Node) {
	if s, ok := l.(*ast.SelectorExpr); ok {
		switch {
		case w.rcField[s.Sel.Name]:
			w.emit("setrc", at, "")
		case w.refField[s.Sel.Name]:
			w.emit("setref", at, "")
		case w.table[s.Sel.Name]:
			w.emit("other", at, "the process table is replaced")
		}
	}
}

func (w *walker) expr(e ast.Expr) {
	switch x := e.(type) {
	case nil:
	case *ast.CallExpr:
		// receiver expression and arguments are evaluated before the call takes effect
		if s, ok := x.Fun.(*ast.SelectorExpr); ok {
			w.expr(s.X)
		} else {
			w.expr(x.Fun)
		}
		for _, a := range x.Args {
			if fl, ok := a.(*ast.FuncLit); ok {
				// a callback (the timer's func() { f.Close(..) }): runs later, not a creation step
				if w.hasEvents(fl.Body) {
					w.emit("other", fl, "creation step inside a function literal")
				}
				continue
			}
			w.expr(a)
		}
		w.call(x)
	case *ast.FuncLit:
		if w.hasEvents(x.Body) {
			w.emit("other", x, "creation step inside a function literal")
		}
	case *ast.CompositeLit:
		for _, el := range x.Elts {
			if kv, ok := el.(*ast.KeyValueExpr); ok {
				w.expr(kv.Value)
				if k, ok := kv.Key.(*ast.Ident); ok && isFutureLit(x) {
					switch {
					case w.rcField[k.Name]:
						w.emit("setrc", kv, "")
					case w.refField[k.Name]:
						w.emit("setref", kv, "")
					}
				}
			} else {
				w.expr(el)
			}
		}
	case *ast.ParenExpr:
		w.expr(x.X)
	case *ast.UnaryExpr:
		w.expr(x.X)
	case *ast.BinaryExpr:
		w.expr(x.X)
		w.expr(x.Y)
	case *ast.StarExpr:
		w.expr(x.X)
	case *ast.SelectorExpr:
		w.expr(x.X)
	case *ast.IndexExpr:
		w.expr(x.X)
		w.expr(x.Index)
	case *ast.IndexListExpr:
		w.expr(x.X)
	case *ast.SliceExpr:
		w.expr(x.X)
	case *ast.TypeAssertExpr:
		w.expr(x.X)
	case *ast.KeyValueExpr:
		w.expr(x.Value)
	}
}

func isFutureLit(c *ast.CompositeLit) bool {
	return strings.HasPrefix(strings.TrimPrefix(typeString(c.Type), "*"), "futureProcess")
}

func (w *walker) call(c *ast.CallExpr) {
	s, ok := c.Fun.(*ast.SelectorExpr)
	if !ok {
		return
	}
	name := s.Sel.Name
	// time.AfterFunc & co.
	if id, ok := s.X.(*ast.Ident); ok && id.Name == "time" && timerFuncs[name] {
		w.emit("arm", c, "")
		return
	}
	// operations on the process table
	if w.isTable(s.X) {
		switch {
		case publishMethods[name]:
			w.emit("publish", c, "")
		case lookupMethods[name]:
			w.emit("lookup", c, "")
		default:
			w.emit("other", c, "operation "+name+" on the process table")
		}
		return
	}
	switch {
	case name == "Initialize" && len(c.Args) == 2:
		w.emit("initialize", c, "")
		return
	case name == "Register" && len(c.Args) == 2 && w.recvType != "ResourceController":
		w.emit("register", c, "")
		return
	}
	// another method of the same receiver type, called on the receiver itself: inline
	if id, ok := s.X.(*ast.Ident); ok && w.recvType != "" && len(w.recvs) > 0 && id.Name == w.recvs[len(w.recvs)-1] && id.Name != "" {
		if fd := w.p.methods[w.recvType+"."+name]; fd != nil {
			for _, f := range w.stack {
				if f == name {
					w.emit("other", c, "recursive call of "+name)
					return
				}
			}
			if len(w.stack) >= 5 {
				w.emit("other", c, "call depth")
				return
			}
			w.stack = append(w.stack, name)
			w.recvs = append(w.recvs, recvName(fd))
			w.block(fd.Body)
			w.stack = w.stack[:len(w.stack)-1]
			w.recvs = w.recvs[:len(w.recvs)-1]
		}
	}
}

func walkFunc(p *pkg, fd *ast.FuncDecl, recvType string, table, rcField, refField map[string]bool) []event {
	w := &walker{p: p, recvType: recvType, table: table, rcField: rcField, refField: refField, alias: map[string]bool{}, stack: []string{fd.Name.Name}, recvs: []string{recvName(fd)}}
	w.block(fd.Body)
	return w.out
}

func set(xs []string) map[string]bool {
	m := map[string]bool{}
	for _, x := range xs {
		m[x] = true
	}
	return m
}

func coqComment(s string) string { return strings.ReplaceAll(strings.ReplaceAll(s, "(*", "( *"), "*)", "* )") }

func main() {
	repo := flag.String("repo", "", "repository root (default $VERIF_REPO or /repo)")
	out := flag.String("out", "", "output directory")
	flag.Parse()
	if *repo == "" {
		*repo = os.Getenv("VERIF_REPO")
	}
	if *repo == "" {
		*repo = "/repo"
	}
	if *out == "" {
		fail("need -out")
	}
	prcPkg := load(filepath.Join(*repo, "engine", "prc"))
	futPkg := load(filepath.Join(*repo, "engine", "future"))

	table := prcPkg.fieldsOfType("ResourceController", func(t string) bool { return strings.Contains(t, "xsync.Map") })
	if len(table) == 0 {
		fail("no field of type *xsync.MapOf[..] in prc.ResourceController")
	}
	reg := prcPkg.methods["ResourceController.Register"]
	if reg == nil {
		fail("method (*ResourceController).Register not found in engine/prc")
	}
	ini := futPkg.methods["futureProcess.Initialize"]
	if ini == nil {
		fail("method (*futureProcess).Initialize not found in engine/future")
	}
	nw := futPkg.funcs["New"]
	if nw == nil {
		fail("function future.New not found in engine/future")
	}
	rcF := futPkg.fieldsOfType("futureProcess", func(t string) bool { return t == "*prc.ResourceController" })
	refF := futPkg.fieldsOfType("futureProcess", func(t string) bool { return t == "*prc.ProcessId" })
	if len(rcF) == 0 || len(refF) == 0 {
		fail("futureProcess has no field of type *prc.ResourceController / *prc.ProcessId")
	}

	regEv := walkFunc(prcPkg, reg, "ResourceController", set(table), nil, nil)
	iniEv := walkFunc(futPkg, ini, "futureProcess", nil, set(rcF), set(refF))
	newEv := walkFunc(futPkg, nw, "", nil, set(rcF), set(refF))

	var sb strings.Builder
	sb.WriteString("(* generated by harness/translate/c07reg from " + *repo + "/engine/{prc,future} — do not edit *)\n")
	sb.WriteString("From MV Require Import Lib.ListX C07.RegModel.\n\n")
	emit := func(name, typ string, evs []event, term func(event) string) {
		fmt.Fprintf(&sb, "Definition %s : list %s := [\n", name, typ)
		for i, e := range evs {
			sep := ";"
			if i == len(evs)-1 {
				sep = ""
			}
			why := ""
			if e.Why != "" {
				why = " [" + e.Why + "]"
			}
			fmt.Fprintf(&sb, "  %s%s   (* %s in %s: %s%s *)\n", term(e), sep, e.Pos, e.Fn, coqComment(e.Text), coqComment(why))
		}
		sb.WriteString("].\n\n")
	}
	cstep := func(e event) string {
		switch e.Kind {
		case "lookup":
			return "SLookup"
		case "publish":
			return "SPublish"
		case "setrc":
			return "SSetRc"
		case "setref":
			return "SSetRef"
		case "arm":
			return "SArm"
		}
		return "SOther" // initialize / register inside Initialize, or anything unmodelled
	}
	emit("src_register", "rstmt", regEv, func(e event) string {
		switch e.Kind {
		case "lookup":
			return "RgLookup"
		case "publish":
			return "RgPublish"
		case "initialize":
			return "RgInitialize"
		}
		return "RgOther"
	})
	emit("src_initialize", "cstep", iniEv, cstep)
	emit("src_new", "nstmt", newEv, func(e event) string {
		switch e.Kind {
		case "register":
			return "NwRegister"
		case "initialize":
			return "NwInitialize"
		}
		return "NwStep " + cstep(e)
	})
	if err := os.WriteFile(filepath.Join(*out, "RegExtracted.v"), []byte(sb.String()), 0o644); err != nil {
		fail("%v", err)
	}

	inst := `(* generated by harness/translate/c07reg — the theorems of MV.C07.RegProofs at the source under test *)
From MV Require Import Lib.ListX Lib.Sched C07.RegModel C07.RegProofs.
Require Import RegExtracted.
Open Scope Z_scope.

(* the creation steps of a future in the order in which New -> Register -> Initialize of this tree execute them *)
Definition src_order : list cstep := creation_order src_register src_initialize src_new.
Definition src_order_computed := Eval vm_compute in src_order.
Print src_order_computed.

(* before the timer is armed, and before New returns, the future is stored in the registry (exactly once) and holds its
   controller and its reference *)
Theorem C07_creation_order_source_facts : order_ok src_order = true.
Proof. vm_compute. reflexivity. Qed.

(* hence, for the machine this source is, for every timeout and every interleaving of the creator, the timer goroutine
   and any number of Close callers: no nil dereference, every Unregister finds the future, the address is stored at most
   once and removed at most once; once the ask is complete and the winner is past its Unregister the address is not
   registered, and it is never registered again *)
Theorem C07_reply_address_released_of_this_source : forall t st, reach (reg_init src_order t) st ->
  (nil_deref (fst st) = false /\ missed (fst st) = 0 /\ 0 <= stores (fst st) <= 1 /\ 0 <= releases (fst st) <= 1 /\
   (in_registry (fst st) = true <-> stores (fst st) = 1 /\ releases (fst st) = 0)) /\
  (fclosed (fst st) = true -> KT kpend (snd st) = 0 ->
   in_registry (fst st) = false /\ stores (fst st) = 1 /\ releases (fst st) = 1) /\
  (fclosed (fst st) = true -> KT kpend (snd st) = 0 -> KT kcreating (snd st) = 0 -> forall st', reach st st' ->
   in_registry (fst st') = false /\ stores (fst st') = 1 /\ releases (fst st') = 1).
Proof.
  intros t st Hr. split; [exact (reg_sound src_order t st C07_creation_order_source_facts Hr)|].
  split; [exact (reg_released src_order t st C07_creation_order_source_facts Hr)|].
  intros Hc Hz Hk st' Hr'. exact (reg_released_for_ever src_order t st st' C07_creation_order_source_facts Hr Hc Hz Hk Hr').
Qed.

Print Assumptions C07_creation_order_source_facts.
Print Assumptions C07_reply_address_released_of_this_source.
`
	if err := os.WriteFile(filepath.Join(*out, "RegInstance.v"), []byte(inst), 0o644); err != nil {
		fail("%v", err)
	}

	// the flattened order, for the diagnostics of checks/c07.py (Coq computes its own: creation_order)
	flat := []string{}
	var inl func(evs []event, depth int)
	inl = func(evs []event, depth int) {
		for _, e := range evs {
			switch {
			case e.Kind == "register" && depth == 0:
				inl(regEv, 1)
			case e.Kind == "initialize" && depth <= 1:
				for _, x := range iniEv {
					flat = append(flat, cstep(x))
				}
			default:
				flat = append(flat, cstep(e))
			}
		}
	}
	inl(newEv, 0)
	b, _ := json.Marshal(map[string]any{"register": regEv, "initialize": iniEv, "new": newEv, "order": flat,
		"table_fields": table, "rc_fields": rcF, "ref_fields": refF})
	fmt.Println(string(b))
}
