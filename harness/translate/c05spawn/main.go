// c05spawn: tie T3 of property C05 for a spawn that OVERLAPS the termination / restart of its parent — reads, from the tree
// under test (go/ast, syntactic, package engine/vivid),
//
//	(*actorContext).ActorOf          and everything it calls in the package on the parent's or the child's context:
//	newActorContext                  (inlined; the function literal it returns — refBinder — is walked where ActorOf calls it)
//
// and emits the statements that matter, IN EXECUTION ORDER, as a Coq term:
//
//	SpawnExtracted.v  src_spawn_order : list act        AReg | AEnter | ALaunch | ARead | ADecide ta tn | AOther
//	SpawnInstance.v   order_ok src_spawn_order = true   (vm_compute) + the theorems of MV.C05.SpawnProofs at this order
//
// checks/c05.py compiles both on every run. The machine MV.C05.SpawnModel executes the spawner's steps in the order it is
// given; its theorems hold for every order accepted by order_ok: the child is registered once, then entered once into the
// parent's children table, and the value of the PARENT's status that guards the terminate request to the new child is read
// AFTER that entry. A status read hoisted above the entry is a different list: order_ok is false, SpawnInstance.v does not
// compile, the obligation is broken (MV.C05.SpawnProofs has the refuting schedules).
//
// What is an event (everything else — comments, logging, local variables, renamed identifiers — is ignored):
//   - which identifiers denote the PARENT's context and which the CHILD's is tracked by data flow: the receiver of ActorOf is the
//     parent; `x := <parent>` copies the role; a variable assigned from &actorContext{..} (or from a function returning one) is
//     the child — inside ActorOf `ctx` is re-bound to the child by `ctx, refBinder := newActorContext(ctx, ..)`;
//   - READ     <parent>.status.Load()            (CompareAndSwap / Store / Swap on the parent's status: not a step of the machine)
//   - REG      X.Register(a, b)
//   - ENTER    <parent>.children[..] = ..
//   - LAUNCH   a call with the argument onLaunch
//   - DECIDE   <parent or child>.Terminate(..) — with the innermost enclosing `if` whose condition is a function of a status READ:
//     the condition is evaluated symbolically for "alive" / "not alive" (== / != against actorStatusAlive, !, a boolean local
//     assigned from such an expression); ADecide ta tn = the request is sent iff (alive ? ta : tn); the READ it depends on becomes
//     the machine's ARead at the place where it is executed (other reads of the parent's status have no effect and are listed in
//     the facts only); a condition that cannot be evaluated, or that depends on two reads, is AOther;
//   - package functions called with a parent/child context as argument and methods called on one are inlined (depth <= 5); a
//     function literal bound to a variable is walked where it is called.
//
// Events under go / defer / for / range / switch / select / labels, inside a function literal that is not called in place, or after
// a conditional return of the same function are not straight-line steps: AOther (rejected). if/else bodies are walked in source
// order. Not seen: reflection, unsafe, aliases of the children map, helper functions of other packages. Standard library only.
package main

import (
	"encoding/json"
	"flag"
	"fmt"
	"go/ast"
	"go/parser"
	"go/token"
	"os"
	"path/filepath"
	"sort"
	"strings"
)

type event struct {
	Kind  string `json:"kind"` // read reg enter launch decide other
	Fn    string `json:"fn"`
	Pos   string `json:"pos"`
	Text  string `json:"text"`
	Why   string `json:"why,omitempty"`
	ID    int    `json:"id"`
	Reads []int  `json:"reads,omitempty"` // decide: ids of the reads its guard depends on
	TA    bool   `json:"sent_when_alive,omitempty"`
	TN    bool   `json:"sent_when_not_alive,omitempty"`
	Used  bool   `json:"guards_the_request,omitempty"` // read: its value decides the terminate request
	Known bool   `json:"guard_evaluated,omitempty"`
}

func fail(format string, a ...any) {
	fmt.Fprintf(os.Stderr, "c05spawn: "+format+"\n", a...)
	os.Exit(1)
}

// ---------------------------------------------------------------- package loader

type pkg struct {
	fset    *token.FileSet
	src     map[string][]byte
	methods map[string]*ast.FuncDecl // "Type.Method"
	funcs   map[string]*ast.FuncDecl
}

func recvTypeName(fd *ast.FuncDecl) string {
	if fd.Recv == nil || len(fd.Recv.List) != 1 {
		return ""
	}
	t := fd.Recv.List[0].Type
	if s, ok := t.(*ast.StarExpr); ok {
		t = s.X
	}
	if id, ok := t.(*ast.Ident); ok {
		return id.Name
	}
	return ""
}

func recvName(fd *ast.FuncDecl) string {
	if fd.Recv == nil || len(fd.Recv.List) != 1 || len(fd.Recv.List[0].Names) != 1 {
		return ""
	}
	return fd.Recv.List[0].Names[0].Name
}

func load(dir string) *pkg {
	p := &pkg{fset: token.NewFileSet(), src: map[string][]byte{}, methods: map[string]*ast.FuncDecl{}, funcs: map[string]*ast.FuncDecl{}}
	ents, err := os.ReadDir(dir)
	if err != nil {
		fail("cannot read %s: %v", dir, err)
	}
	var names []string
	for _, e := range ents {
		if !e.IsDir() && strings.HasSuffix(e.Name(), ".go") && !strings.HasSuffix(e.Name(), "_test.go") {
			names = append(names, e.Name())
		}
	}
	sort.Strings(names)
	for _, n := range names {
		path := filepath.Join(dir, n)
		b, err := os.ReadFile(path)
		if err != nil {
			fail("%v", err)
		}
		if strings.Contains(string(b[:min(len(b), 400)]), "//go:build verif") {
			continue // verification hooks are not part of the code under test
		}
		f, err := parser.ParseFile(p.fset, path, b, 0)
		if err != nil {
			fail("cannot parse %s: %v", path, err)
		}
		p.src[path] = b
		for _, d := range f.Decls {
			if x, ok := d.(*ast.FuncDecl); ok && x.Body != nil {
				if rt := recvTypeName(x); rt != "" {
					p.methods[rt+"."+x.Name.Name] = x
				} else if x.Recv == nil {
					p.funcs[x.Name.Name] = x
				}
			}
		}
	}
	return p
}

func (p *pkg) pos(n ast.Node) string {
	q := p.fset.Position(n.Pos())
	return fmt.Sprintf("%s:%d", filepath.Base(q.Filename), q.Line)
}

func (p *pkg) text(n ast.Node) string {
	q, e := p.fset.Position(n.Pos()), p.fset.Position(n.End())
	b := p.src[q.Filename]
	if b == nil || e.Offset > len(b) || q.Offset > e.Offset {
		return ""
	}
	s := strings.Join(strings.Fields(string(b[q.Offset:e.Offset])), " ")
	if len(s) > 150 {
		s = s[:150] + "…"
	}
	return s
}

// ---------------------------------------------------------------- symbolic guards

// sym: a boolean as a function of "the parent's status was alive when it was read"; ok = false: cannot be evaluated
type sym struct {
	a, n  bool  // value when alive / when not alive
	reads []int // ids of the READ events it depends on
	ok    bool
}

func (s *sym) not() *sym { return &sym{a: !s.a, n: !s.n, reads: s.reads, ok: s.ok} }

const (
	roleNone = iota
	roleParent
	roleChild
)

type closure struct {
	lit *ast.FuncLit
	env *env
}

// env: what the identifiers of one function activation denote
type env struct {
	role    map[string]int
	clos    map[string]*closure
	taint   map[string]*sym
	statusV map[string]int // local holding the raw status value of read #id (s := parent.status.Load())
}

func newEnv() *env {
	return &env{role: map[string]int{}, clos: map[string]*closure{}, taint: map[string]*sym{}, statusV: map[string]int{}}
}

func (e *env) clone() *env {
	c := newEnv()
	for k, v := range e.role {
		c.role[k] = v
	}
	for k, v := range e.clos {
		c.clos[k] = v
	}
	for k, v := range e.taint {
		c.taint[k] = v
	}
	for k, v := range e.statusV {
		c.statusV[k] = v
	}
	return c
}

func (e *env) forget(name string) {
	delete(e.role, name)
	delete(e.clos, name)
	delete(e.taint, name)
	delete(e.statusV, name)
}

// value: what an expression evaluates to, as far as the walker cares
type value struct {
	role   int
	clos   *closure
	sym    *sym
	status int // id+1 of the read whose raw value this is
	multi  []value
}

type frame struct {
	fn          string
	env         *env
	earlyReturn string // position of a conditional return seen in this activation
	depth       int    // nesting depth of statements inside this activation
}

type walker struct {
	p      *pkg
	out    []event
	frames []*frame
	guards []*sym // innermost last: conditions of the enclosing ifs that are functions of a status read
	opaque []string
	quiet  int
	ret    []value
}

func (w *walker) cur() *frame { return w.frames[len(w.frames)-1] }

func (w *walker) emit(kind string, n ast.Node, why string) *event {
	f := w.cur()
	if w.quiet > 0 {
		w.out = append(w.out, event{Kind: kind})
		return &w.out[len(w.out)-1]
	}
	if len(w.opaque) > 0 {
		why = strings.TrimSpace(kind + " under " + w.opaque[len(w.opaque)-1] + " " + why)
		kind = "other"
	} else if f.earlyReturn != "" && kind != "other" {
		why = strings.TrimSpace(kind + " may be skipped by the conditional return at " + f.earlyReturn + " " + why)
		kind = "other"
	}
	w.out = append(w.out, event{Kind: kind, Fn: f.fn, Pos: w.p.pos(n), Text: w.p.text(n), Why: why, ID: len(w.out)})
	return &w.out[len(w.out)-1]
}

// hasEvents: would walking the node in a scratch copy of the state produce an event?
func (w *walker) hasEvents(run func(s *walker)) bool {
	s := &walker{p: w.p, quiet: 1}
	for _, f := range w.frames {
		s.frames = append(s.frames, &frame{fn: f.fn, env: f.env.clone(), depth: f.depth})
	}
	run(s)
	return len(s.out) > 0
}

func isIdent(e ast.Expr, name string) bool {
	id, ok := e.(*ast.Ident)
	return ok && id.Name == name
}

func (w *walker) roleOf(e ast.Expr) int {
	switch x := e.(type) {
	case *ast.Ident:
		return w.cur().env.role[x.Name]
	case *ast.ParenExpr:
		return w.roleOf(x.X)
	}
	return roleNone
}

func (w *walker) block(b *ast.BlockStmt) {
	if b == nil {
		return
	}
	w.cur().depth++
	for _, s := range b.List {
		w.stmt(s)
	}
	w.cur().depth--
}

func (w *walker) under(what string, at ast.Node, run func(s *walker)) {
	if w.hasEvents(run) {
		w.opaque = append(w.opaque, what)
		run(w)
		w.opaque = w.opaque[:len(w.opaque)-1]
	}
}

func (w *walker) bind(lhs ast.Expr, v value, define bool) {
	id, ok := lhs.(*ast.Ident)
	if !ok || id.Name == "_" {
		return
	}
	e := w.cur().env
	e.forget(id.Name)
	if v.role != roleNone {
		e.role[id.Name] = v.role
	}
	if v.clos != nil {
		e.clos[id.Name] = v.clos
	}
	if v.sym != nil {
		e.taint[id.Name] = v.sym
	}
	if v.status > 0 {
		e.statusV[id.Name] = v.status
	}
}

func (w *walker) stmt(s ast.Stmt) {
	switch x := s.(type) {
	case nil:
	case *ast.BlockStmt:
		w.block(x)
	case *ast.ExprStmt:
		w.expr(x.X)
	case *ast.AssignStmt:
		var vals []value
		for _, r := range x.Rhs {
			vals = append(vals, w.expr(r))
		}
		if len(x.Rhs) == 1 && len(x.Lhs) > 1 {
			m := vals[0].multi
			vals = make([]value, len(x.Lhs))
			copy(vals, m)
		}
		for i, l := range x.Lhs {
			// the entry into the parent's children table: <parent>.children[..] = ..
			if ix, ok := l.(*ast.IndexExpr); ok {
				w.expr(ix.Index)
				if sel, ok := ix.X.(*ast.SelectorExpr); ok && sel.Sel.Name == "children" && w.roleOf(sel.X) == roleParent {
					w.emit("enter", x, "")
				}
				continue
			}
			if sel, ok := l.(*ast.SelectorExpr); ok {
				if sel.Sel.Name == "children" && w.roleOf(sel.X) == roleParent {
					w.emit("other", x, "the parent's children table is replaced")
				}
				if sel.Sel.Name == "status" && w.roleOf(sel.X) == roleParent {
					w.emit("other", x, "the parent's status field is assigned")
				}
				continue
			}
			if i < len(vals) {
				w.bind(l, vals[i], x.Tok == token.DEFINE)
			}
		}
	case *ast.DeclStmt:
		if gd, ok := x.Decl.(*ast.GenDecl); ok {
			for _, sp := range gd.Specs {
				if vs, ok := sp.(*ast.ValueSpec); ok {
					for i, n := range vs.Names {
						if i < len(vs.Values) {
							w.bind(n, w.expr(vs.Values[i]), true)
						} else {
							w.cur().env.forget(n.Name)
						}
					}
				}
			}
		}
	case *ast.IfStmt:
		w.cur().depth++
		w.stmt(x.Init)
		c := w.cond(x.Cond)
		if c != nil {
			w.guards = append(w.guards, c)
		}
		w.block(x.Body)
		if c != nil {
			w.guards[len(w.guards)-1] = c.not()
		}
		w.stmt(x.Else)
		if c != nil {
			w.guards = w.guards[:len(w.guards)-1]
		}
		w.cur().depth--
	case *ast.ReturnStmt:
		var vals []value
		for _, r := range x.Results {
			vals = append(vals, w.expr(r))
		}
		f := w.cur()
		if f.depth > 1 && f.earlyReturn == "" && w.quiet == 0 {
			f.earlyReturn = w.p.pos(x)
		}
		if f.depth <= 1 {
			w.ret = vals
		}
	case *ast.IncDecStmt:
		w.expr(x.X)
	case *ast.EmptyStmt:
	case *ast.SendStmt:
		w.expr(x.Chan)
		w.expr(x.Value)
	case *ast.GoStmt:
		w.under("go", x, func(s *walker) { s.expr(x.Call) })
	case *ast.DeferStmt:
		w.under("defer", x, func(s *walker) { s.expr(x.Call) })
	case *ast.ForStmt:
		w.under("for", x, func(s *walker) { s.stmt(x.Init); s.expr(x.Cond); s.stmt(x.Post); s.block(x.Body) })
	case *ast.RangeStmt:
		w.under("range", x, func(s *walker) { s.expr(x.X); s.block(x.Body) })
	case *ast.SwitchStmt:
		w.under("switch", x, func(s *walker) { s.stmt(x.Init); s.expr(x.Tag); s.block(x.Body) })
	case *ast.TypeSwitchStmt:
		w.under("type switch", x, func(s *walker) { s.stmt(x.Init); s.stmt(x.Assign); s.block(x.Body) })
	case *ast.SelectStmt:
		w.under("select", x, func(s *walker) { s.block(x.Body) })
	case *ast.CaseClause:
		for _, e := range x.List {
			w.expr(e)
		}
		for _, b := range x.Body {
			w.stmt(b)
		}
	case *ast.CommClause:
		w.stmt(x.Comm)
		for _, b := range x.Body {
			w.stmt(b)
		}
	case *ast.LabeledStmt:
		w.under("a label", x, func(s *walker) { s.stmt(x.Stmt) })
	case *ast.BranchStmt:
	default:
		w.emit("other", s, fmt.Sprintf("statement %T", s))
	}
}

// cond evaluates an if condition: events of the expression are emitted; the result is non-nil iff the condition is a function of
// a read of the parent's status (ok = false when it cannot be evaluated)
func (w *walker) cond(e ast.Expr) *sym {
	v := w.expr(e)
	return v.sym
}

func isAliveConst(e ast.Expr) bool { return isIdent(e, "actorStatusAlive") }

func (w *walker) expr(e ast.Expr) value {
	switch x := e.(type) {
	case nil:
	case *ast.Ident:
		en := w.cur().env
		return value{role: en.role[x.Name], clos: en.clos[x.Name], sym: en.taint[x.Name], status: en.statusV[x.Name]}
	case *ast.ParenExpr:
		return w.expr(x.X)
	case *ast.CallExpr:
		return w.call(x)
	case *ast.FuncLit:
		return value{clos: &closure{lit: x, env: w.cur().env}}
	case *ast.UnaryExpr:
		v := w.expr(x.X)
		if x.Op == token.NOT && v.sym != nil {
			return value{sym: v.sym.not()}
		}
		if x.Op == token.AND {
			if cl, ok := x.X.(*ast.CompositeLit); ok && isIdent(cl.Type, "actorContext") {
				return value{role: roleChild}
			}
		}
		if v.sym != nil || v.status > 0 {
			return value{sym: &sym{reads: readsOf(v), ok: false}}
		}
	case *ast.BinaryExpr:
		l := w.expr(x.X)
		r := w.expr(x.Y)
		// <status value> == / != actorStatusAlive
		if (x.Op == token.EQL || x.Op == token.NEQ) && ((l.status > 0 && isAliveConst(x.Y)) || (r.status > 0 && isAliveConst(x.X))) {
			id := l.status
			if id == 0 {
				id = r.status
			}
			eq := x.Op == token.EQL
			return value{sym: &sym{a: eq, n: !eq, reads: []int{id - 1}, ok: true}}
		}
		if l.sym != nil || r.sym != nil || l.status > 0 || r.status > 0 {
			// any other combination (comparison with another constant, &&, || with something else): not evaluated
			s := &sym{ok: false}
			s.reads = append(s.reads, readsOf(l)...)
			s.reads = append(s.reads, readsOf(r)...)
			if (x.Op == token.LAND || x.Op == token.LOR) && l.sym != nil && r.sym != nil && l.sym.ok && r.sym.ok {
				s.ok = true
				if x.Op == token.LAND {
					s.a, s.n = l.sym.a && r.sym.a, l.sym.n && r.sym.n
				} else {
					s.a, s.n = l.sym.a || r.sym.a, l.sym.n || r.sym.n
				}
			}
			return value{sym: s}
		}
	case *ast.CompositeLit:
		for _, el := range x.Elts {
			if kv, ok := el.(*ast.KeyValueExpr); ok {
				w.expr(kv.Value)
			} else {
				w.expr(el)
			}
		}
	case *ast.StarExpr:
		w.expr(x.X)
	case *ast.SelectorExpr:
		w.expr(x.X)
	case *ast.IndexExpr:
		w.expr(x.X)
		w.expr(x.Index)
	case *ast.IndexListExpr:
		w.expr(x.X)
	case *ast.SliceExpr:
		w.expr(x.X)
	case *ast.TypeAssertExpr:
		w.expr(x.X)
	case *ast.KeyValueExpr:
		w.expr(x.Value)
	}
	return value{}
}

func readsOf(v value) []int {
	var r []int
	if v.sym != nil {
		r = append(r, v.sym.reads...)
	}
	if v.status > 0 {
		r = append(r, v.status-1)
	}
	return r
}

func uniq(xs []int) []int {
	sort.Ints(xs)
	var out []int
	for i, x := range xs {
		if i == 0 || x != xs[i-1] {
			out = append(out, x)
		}
	}
	return out
}

// args evaluates call arguments; a function literal handed to a call is a callback that runs later: it must not contain events
func (w *walker) args(c *ast.CallExpr) []value {
	var vs []value
	for _, a := range c.Args {
		if fl, ok := a.(*ast.FuncLit); ok {
			if w.hasEvents(func(s *walker) { s.lit(fl, s.cur().env, nil) }) {
				w.emit("other", fl, "step inside a function literal handed to a call")
			}
			vs = append(vs, value{})
			continue
		}
		vs = append(vs, w.expr(a))
	}
	return vs
}

// lit walks the body of a function literal in (a copy of) the environment it was created in
func (w *walker) lit(fl *ast.FuncLit, in *env, args []value) []value {
	e := in.clone()
	i := 0
	if fl.Type.Params != nil {
		for _, f := range fl.Type.Params.List {
			for _, n := range f.Names {
				e.forget(n.Name)
				if i < len(args) {
					w.frames = append(w.frames, &frame{env: e})
					w.bind(n, args[i], true)
					w.frames = w.frames[:len(w.frames)-1]
				}
				i++
			}
		}
	}
	return w.activation(w.cur().fn+".func", e, fl.Body)
}

func (w *walker) activation(name string, e *env, body *ast.BlockStmt) []value {
	if len(w.frames) > 6 {
		w.emit("other", body, "call depth")
		return nil
	}
	for _, f := range w.frames {
		if f.fn == name && !strings.HasSuffix(name, ".func") {
			w.emit("other", body, "recursive call of "+name)
			return nil
		}
	}
	saveRet := w.ret
	w.ret = nil
	saveGuards := w.guards
	w.frames = append(w.frames, &frame{fn: name, env: e})
	w.block(body)
	w.frames = w.frames[:len(w.frames)-1]
	r := w.ret
	w.ret = saveRet
	w.guards = saveGuards
	return r
}

func (w *walker) inline(fd *ast.FuncDecl, recv value, args []value) value {
	e := newEnv()
	w.frames = append(w.frames, &frame{env: e})
	if rn := recvName(fd); rn != "" {
		w.bind(&ast.Ident{Name: rn}, recv, true)
	}
	i := 0
	if fd.Type.Params != nil {
		for _, f := range fd.Type.Params.List {
			for _, n := range f.Names {
				if i < len(args) {
					w.bind(n, args[i], true)
				}
				i++
			}
		}
	}
	w.frames = w.frames[:len(w.frames)-1]
	name := fd.Name.Name
	if rt := recvTypeName(fd); rt != "" {
		name = rt + "." + name
	}
	r := w.activation(name, e, fd.Body)
	if len(r) == 1 {
		return r[0]
	}
	return value{multi: r}
}

func hasArgIdent(c *ast.CallExpr, name string) bool {
	for _, a := range c.Args {
		if isIdent(a, name) {
			return true
		}
	}
	return false
}

func anyRole(vs []value) bool {
	for _, v := range vs {
		if v.role != roleNone || v.clos != nil {
			return true
		}
	}
	return false
}

func (w *walker) call(c *ast.CallExpr) value {
	switch f := c.Fun.(type) {
	case *ast.SelectorExpr:
		name := f.Sel.Name
		// <ctx>.status.<op>(..)
		if in, ok := f.X.(*ast.SelectorExpr); ok && in.Sel.Name == "status" {
			r := w.roleOf(in.X)
			w.args(c)
			if r == roleParent {
				if name == "Load" {
					ev := w.emit("read", c, "")
					return value{status: ev.ID + 1}
				}
				w.emit("other", c, "the spawner changes the parent's status ("+name+")")
			}
			return value{}
		}
		recv := w.expr(f.X)
		args := w.args(c)
		switch {
		case hasArgIdent(c, "onLaunch"):
			w.emit("launch", c, "")
			return value{}
		case name == "Register" && len(c.Args) == 2:
			w.emit("reg", c, "")
			return value{}
		case name == "Terminate" && len(c.Args) == 2 && recv.role != roleNone:
			w.decide(c)
			return value{}
		}
		if recv.role != roleNone {
			if fd := w.p.methods["actorContext."+name]; fd != nil {
				return w.inline(fd, recv, args)
			}
		}
	case *ast.Ident:
		args := w.args(c)
		if cl := w.cur().env.clos[f.Name]; cl != nil {
			r := w.lit(cl.lit, cl.env, args)
			if len(r) == 1 {
				return r[0]
			}
			return value{multi: r}
		}
		if fd := w.p.funcs[f.Name]; fd != nil && anyRole(args) {
			return w.inline(fd, value{}, args)
		}
	case *ast.FuncLit:
		args := w.args(c)
		r := w.lit(f, w.cur().env, args)
		if len(r) == 1 {
			return r[0]
		}
		return value{multi: r}
	default:
		w.expr(c.Fun)
		w.args(c)
	}
	return value{}
}

// decide: a terminate request sent from inside ActorOf, with the innermost status-dependent guard around it
func (w *walker) decide(c *ast.CallExpr) {
	ev := w.emit("decide", c, "")
	if ev.Kind != "decide" {
		return
	}
	if len(w.guards) == 0 {
		ev.TA, ev.TN, ev.Known = true, true, true // unconditional
		return
	}
	// conjunction of the enclosing status-dependent guards
	g := &sym{a: true, n: true, ok: true}
	for _, s := range w.guards {
		g = &sym{a: g.a && s.a, n: g.n && s.n, ok: g.ok && s.ok, reads: append(append([]int{}, g.reads...), s.reads...)}
	}
	ev.Reads = uniq(g.reads)
	ev.TA, ev.TN, ev.Known = g.a, g.n, g.ok
	switch {
	case !g.ok:
		ev.Kind, ev.Why = "other", "the condition of the terminate request cannot be evaluated as a function of the parent's status"
	case len(ev.Reads) != 1:
		ev.Kind, ev.Why = "other", fmt.Sprintf("the condition of the terminate request depends on %d reads of the parent's status", len(ev.Reads))
	}
}

func coqComment(s string) string { return strings.ReplaceAll(strings.ReplaceAll(s, "(*", "( *"), "*)", "* )") }

func coqBool(b bool) string {
	if b {
		return "true"
	}
	return "false"
}

func main() {
	repo := flag.String("repo", "", "repository root (default $VERIF_REPO or /repo)")
	out := flag.String("out", "", "output directory")
	flag.Parse()
	if *repo == "" {
		*repo = os.Getenv("VERIF_REPO")
	}
	if *repo == "" {
		*repo = "/repo"
	}
	if *out == "" {
		fail("need -out")
	}
	p := load(filepath.Join(*repo, "engine", "vivid"))
	fd := p.methods["actorContext.ActorOf"]
	if fd == nil {
		fail("method (*actorContext).ActorOf not found in engine/vivid")
	}
	w := &walker{p: p}
	w.frames = []*frame{{fn: "<root>", env: newEnv()}}
	w.inline(fd, value{role: roleParent}, nil)

	// which reads guard a terminate request
	for i := range w.out {
		if w.out[i].Kind == "decide" {
			for _, r := range w.out[i].Reads {
				if r >= 0 && r < len(w.out) && w.out[r].Kind == "read" {
					w.out[r].Used = true
				}
			}
		}
	}
	term := func(e event) string {
		switch e.Kind {
		case "reg":
			return "AReg"
		case "enter":
			return "AEnter"
		case "launch":
			return "ALaunch"
		case "read":
			if e.Used {
				return "ARead"
			}
			return ""
		case "decide":
			return fmt.Sprintf("ADecide %s %s", coqBool(e.TA), coqBool(e.TN))
		}
		return "AOther"
	}
	var order []string
	var kept []event
	for _, e := range w.out {
		if t := term(e); t != "" {
			order = append(order, t)
			kept = append(kept, e)
		}
	}

	var sb strings.Builder
	sb.WriteString("(* generated by harness/translate/c05spawn from " + *repo + "/engine/vivid — do not edit *)\n")
	sb.WriteString("From MV Require Import Lib.ListX C05.SpawnModel.\n\n")
	sb.WriteString("(* the statements of ActorOf (with newActorContext and the refBinder closure inlined) that register the child, enter it into\n")
	sb.WriteString("   the PARENT's children table, launch it, read the PARENT's status and send the conditional terminate request, in execution order *)\n")
	sb.WriteString("Definition src_spawn_order : list act := [\n")
	for i, e := range kept {
		sep := ";"
		if i == len(kept)-1 {
			sep = ""
		}
		why := ""
		if e.Why != "" {
			why = " [" + e.Why + "]"
		}
		fmt.Fprintf(&sb, "  %s%s   (* %s in %s: %s%s *)\n", order[i], sep, e.Pos, e.Fn, coqComment(e.Text), coqComment(why))
	}
	sb.WriteString("].\n")
	for _, e := range w.out {
		if e.Kind == "read" && !e.Used {
			fmt.Fprintf(&sb, "(* read of the parent's status that guards no terminate request (no effect): %s in %s: %s *)\n", e.Pos, e.Fn, coqComment(e.Text))
		}
	}
	if err := os.WriteFile(filepath.Join(*out, "SpawnExtracted.v"), []byte(sb.String()), 0o644); err != nil {
		fail("%v", err)
	}

	inst := `(* generated by harness/translate/c05spawn — the theorems of MV.C05.SpawnProofs at the source under test *)
From MV Require Import Lib.ListX Lib.Sched C05.SpawnModel C05.SpawnProofs.
Require Import SpawnExtracted.

Definition src_spawn_order_computed := Eval vm_compute in src_spawn_order.
Print src_spawn_order_computed.

(* the child is registered once, then entered once into the parent's table; the value of the parent's status that guards the
   terminate request is read AFTER that entry; the request is decided once and sent whenever that value is "not alive" *)
Theorem C05_late_spawn_source_facts : order_ok src_spawn_order = true.
Proof. vm_compute. reflexivity. Qed.

(* hence, for the machine this source is, for any number of concurrent spawns and every interleaving with the parent's own loop:
   a child in the table of a parent that is restarting, terminating or terminated (past its sweep) whose ActorOf has returned has
   been told to stop; and when nothing can move any more the parent is alive, or it has terminated and no child is registered *)
Theorem C05_late_spawn_of_this_source : forall st, reach (spawn_init src_spawn_order) st ->
  (forall k, In k (kids (fst st)) -> returned k -> k_in k = true -> status (fst st) <> SAlive -> pc (fst st) <> PSweep -> k_told k = true) /\
  (final st ->
     (forall k, In k (kids (fst st)) -> returned k) /\
     ((status (fst st) = SAlive /\ pc (fst st) = PIdle) \/
      (status (fst st) = STerminated /\ pc (fst st) = PDead /\ forall k, In k (kids (fst st)) -> k_reg k = false))).
Proof.
  intros st Hr. split.
  - intros k Hin Hret. apply (spawn_child_told src_spawn_order st k C05_late_spawn_source_facts Hr Hin).
    exact (spawn_returned_decided src_spawn_order st k C05_late_spawn_source_facts Hr Hin Hret).
  - exact (spawn_nobody_left_behind src_spawn_order st C05_late_spawn_source_facts Hr).
Qed.

Print Assumptions C05_late_spawn_source_facts.
Print Assumptions C05_late_spawn_of_this_source.
`
	if err := os.WriteFile(filepath.Join(*out, "SpawnInstance.v"), []byte(inst), 0o644); err != nil {
		fail("%v", err)
	}

	// position facts for the diagnostics of checks/c05.py
	idx := func(kind string) int {
		for i, e := range kept {
			if e.Kind == kind {
				return i
			}
		}
		return -1
	}
	guardRead := -1
	for i, e := range kept {
		if e.Kind == "read" {
			guardRead = i
		}
	}
	b, _ := json.Marshal(map[string]any{"events": w.out, "order": order,
		"guard_read_after_table_entry": guardRead >= 0 && idx("enter") >= 0 && guardRead > idx("enter"),
		"positions": map[string]int{"reg": idx("reg"), "enter": idx("enter"), "launch": idx("launch"), "guard_read": guardRead, "decide": idx("decide")}})
	fmt.Println(string(b))
}
