// c07guid: tie T3 of property C07 — reads, from the package engine/vivid of the tree under test (go/ast, syntactic),
// every occurrence of the id counter `childGuid` of actorContext, every call of nextChildGuid() and every place where
// an actorContext is created, and emits
//
//	Extracted.v  src_accesses : list gaccess, src_consumers : list gcons, src_creators : list string
//	Instance.v   source_ok src_accesses src_consumers src_creators = true   (vm_compute)
//	             + the theorems of MV.C07.LifeProofs instantiated at the machine this source is (linit_src)
//
// checks/c07.py compiles both on every run. The machine MV.C07.LifeModel has exactly one kind of access to the
// counter: the atomic add-and-fetch of 1 inside nextChildGuid whose result names ONE address. Any other store (a reset
// on the restart path, a plain increment, a Store/Swap/CAS, an initialiser), any read that does not increment, any
// use of the returned value other than naming one derived address / one child, or a second place that creates
// contexts makes `source_ok` false and Instance.v fails to compile: the obligation "the theorems apply to this
// source" is broken. A literal store on the restart path is reported as the configuration [rst = Some v] (for which
// MV.C07.LifeProofs.reset_on_restart_refuted is the witness). Standard library only.
package main

import (
	"encoding/json"
	"flag"
	"fmt"
	"go/ast"
	"go/parser"
	"go/token"
	"os"
	"path/filepath"
	"sort"
	"strconv"
	"strings"
)

const field = "childGuid"

type access struct {
	Fn   string `json:"fn"`
	Kind string `json:"kind"`
	Coq  string `json:"-"`
	Pos  string `json:"pos"`
	Text string `json:"text"`
}
type consumer struct {
	Fn  string `json:"fn"`
	Use string `json:"use"`
	Pos string `json:"pos"`
}

func fail(format string, a ...any) {
	fmt.Fprintf(os.Stderr, "c07guid: "+format+"\n", a...)
	os.Exit(1)
}

func coqStr(s string) string { return "\"" + strings.ReplaceAll(s, "\"", "\"\"") + "\"%string" }

func isField(e ast.Expr) bool {
	s, ok := e.(*ast.SelectorExpr)
	return ok && s.Sel.Name == field
}

func addrOfField(e ast.Expr) bool {
	u, ok := e.(*ast.UnaryExpr)
	return ok && u.Op == token.AND && isField(u.X)
}

func intLit(e ast.Expr) (int64, bool) {
	if p, ok := e.(*ast.ParenExpr); ok {
		return intLit(p.X)
	}
	if c, ok := e.(*ast.CallExpr); ok && len(c.Args) == 1 { // uint64(0)
		if id, ok := c.Fun.(*ast.Ident); ok && (id.Name == "uint64" || id.Name == "uint" || id.Name == "int") {
			return intLit(c.Args[0])
		}
	}
	b, ok := e.(*ast.BasicLit)
	if !ok || b.Kind != token.INT {
		return 0, false
	}
	v, err := strconv.ParseInt(b.Value, 0, 64)
	return v, err == nil
}

func optZ(e ast.Expr) string {
	if v, ok := intLit(e); ok {
		return fmt.Sprintf("(Some %d%%Z)", v)
	}
	return "None"
}

func atomicCall(c *ast.CallExpr) (string, bool) {
	s, ok := c.Fun.(*ast.SelectorExpr)
	if !ok {
		return "", false
	}
	if id, ok := s.X.(*ast.Ident); ok && id.Name == "atomic" {
		return s.Sel.Name, true
	}
	return "", false
}

func funcName(fd *ast.FuncDecl) string { return fd.Name.Name }

func main() {
	repo := flag.String("repo", "", "repository root (default $VERIF_REPO or /repo)")
	out := flag.String("out", "", "output directory")
	flag.Parse()
	if *repo == "" {
		*repo = os.Getenv("VERIF_REPO")
	}
	if *repo == "" {
		*repo = "/repo"
	}
	if *out == "" {
		fail("need -out")
	}
	dir := filepath.Join(*repo, "engine", "vivid")
	fset := token.NewFileSet()
	pkgs, err := parser.ParseDir(fset, dir, func(fi os.FileInfo) bool { return !strings.HasSuffix(fi.Name(), "_test.go") }, 0)
	if err != nil {
		fail("cannot parse %s: %v", dir, err)
	}
	pkg := pkgs["vivid"]
	if pkg == nil {
		fail("package vivid not found in %s", dir)
	}
	var names []string
	for n := range pkg.Files {
		names = append(names, n)
	}
	sort.Strings(names)

	var accs []access
	var cons []consumer
	var creators []string
	fieldDeclared := false
	pos := func(p token.Pos) string {
		q := fset.Position(p)
		return fmt.Sprintf("%s:%d", filepath.Base(q.Filename), q.Line)
	}
	text := func(n ast.Node) string {
		q, e := fset.Position(n.Pos()), fset.Position(n.End())
		b, err := os.ReadFile(q.Filename)
		if err != nil || e.Offset > len(b) {
			return ""
		}
		return strings.Join(strings.Fields(string(b[q.Offset:e.Offset])), " ")
	}

	for _, name := range names {
		file := pkg.Files[name]
		// the field itself
		ast.Inspect(file, func(n ast.Node) bool {
			ts, ok := n.(*ast.TypeSpec)
			if !ok || ts.Name.Name != "actorContext" {
				return true
			}
			if st, ok := ts.Type.(*ast.StructType); ok {
				for _, f := range st.Fields.List {
					for _, id := range f.Names {
						if id.Name == field {
							if t, ok := f.Type.(*ast.Ident); ok && t.Name == "uint64" {
								fieldDeclared = true
							}
						}
					}
				}
			}
			return true
		})
		for _, d := range file.Decls {
			fd, ok := d.(*ast.FuncDecl)
			if !ok || fd.Body == nil {
				continue
			}
			fn := funcName(fd)
			// parents: walk with an explicit stack
			var stack []ast.Node
			ast.Inspect(fd, func(n ast.Node) bool {
				if n == nil {
					stack = stack[:len(stack)-1]
					return true
				}
				stack = append(stack, n)
				parent := func(k int) ast.Node {
					if len(stack)-1-k < 0 {
						return nil
					}
					return stack[len(stack)-1-k]
				}
				switch x := n.(type) {
				case *ast.CompositeLit:
					if id, ok := x.Type.(*ast.Ident); ok && id.Name == "actorContext" {
						creators = append(creators, fn)
						for _, el := range x.Elts {
							if kv, ok := el.(*ast.KeyValueExpr); ok {
								if k, ok := kv.Key.(*ast.Ident); ok && k.Name == field {
									accs = append(accs, access{Fn: fn, Kind: "init", Coq: "GInit " + optZ(kv.Value), Pos: pos(kv.Pos()), Text: text(kv)})
								}
							}
						}
					}
				case *ast.CallExpr:
					if id, ok := x.Fun.(*ast.Ident); ok && id.Name == "new" && len(x.Args) == 1 {
						if t, ok := x.Args[0].(*ast.Ident); ok && t.Name == "actorContext" {
							creators = append(creators, fn)
						}
					}
					// calls of nextChildGuid()
					if s, ok := x.Fun.(*ast.SelectorExpr); ok && s.Sel.Name == "nextChildGuid" {
						use := "other"
						// convert.(Fast)Uint64ToString(<call>) as the single argument of X.Derivation(...) or assigned to descriptor.name
						if c1, ok := parent(1).(*ast.CallExpr); ok && len(c1.Args) == 1 && c1.Args[0] == ast.Expr(x) {
							if s1, ok := c1.Fun.(*ast.SelectorExpr); ok && (s1.Sel.Name == "FastUint64ToString" || s1.Sel.Name == "Uint64ToString") {
								switch p2 := parent(2).(type) {
								case *ast.CallExpr:
									if s2, ok := p2.Fun.(*ast.SelectorExpr); ok && s2.Sel.Name == "Derivation" && len(p2.Args) == 1 && p2.Args[0] == ast.Expr(c1) {
										use = "derive"
									}
								case *ast.AssignStmt:
									if len(p2.Lhs) == 1 && len(p2.Rhs) == 1 && p2.Rhs[0] == ast.Expr(c1) && p2.Tok == token.ASSIGN {
										if l, ok := p2.Lhs[0].(*ast.SelectorExpr); ok && l.Sel.Name == "name" {
											use = "name"
										}
									}
								}
							}
						}
						cons = append(cons, consumer{Fn: fn, Use: use, Pos: pos(x.Pos())})
					}
				case *ast.SelectorExpr:
					if x.Sel.Name != field {
						break
					}
					a := access{Fn: fn, Kind: "read", Coq: "GRead", Pos: pos(x.Pos())}
					p1 := parent(1)
					a.Text = text(p1)
					switch p := p1.(type) {
					case *ast.UnaryExpr:
						if p.Op == token.AND {
							a.Kind, a.Coq = "addr", "GAddr"
							if call, ok := parent(2).(*ast.CallExpr); ok && len(call.Args) > 0 && call.Args[0] == ast.Expr(p) {
								a.Text = text(call)
								if an, ok := atomicCall(call); ok {
									switch {
									case an == "AddUint64" && len(call.Args) == 2:
										if v, ok := intLit(call.Args[1]); ok && v == 1 {
											_, stmt := parent(3).(*ast.ExprStmt)
											a.Kind = "add1"
											a.Coq = "GAdd1 " + map[bool]string{true: "false", false: "true"}[stmt]
										} else {
											a.Kind, a.Coq = "add-other", "GAddOther"
										}
									case an == "LoadUint64":
										a.Kind, a.Coq = "load", "GLoad"
									case an == "StoreUint64" && len(call.Args) == 2:
										a.Kind, a.Coq = "store", "GStore "+optZ(call.Args[1])
									case strings.HasPrefix(an, "CompareAndSwap") || strings.HasPrefix(an, "Swap"):
										a.Kind, a.Coq = "cas/swap", "GCas"
									}
								}
							}
						}
					case *ast.AssignStmt:
						for i, l := range p.Lhs {
							if l == ast.Expr(x) {
								if p.Tok == token.ASSIGN && len(p.Rhs) == len(p.Lhs) {
									a.Kind, a.Coq = "assign", "GStore "+optZ(p.Rhs[i])
								} else {
									a.Kind, a.Coq = "op-assign", "GIncDec"
								}
							}
						}
					case *ast.IncDecStmt:
						a.Kind, a.Coq = "incdec", "GIncDec"
					}
					accs = append(accs, a)
				}
				return true
			})
		}
	}
	if !fieldDeclared {
		fail("field %s uint64 of actorContext not found in %s", field, dir)
	}
	sort.Strings(creators)

	var sb strings.Builder
	sb.WriteString("(* generated by harness/translate/c07guid from " + dir + " — do not edit *)\n")
	sb.WriteString("From Coq Require Import String.\nFrom MV Require Import Lib.ListX C07.LifeSource.\nOpen Scope Z_scope.\n\n")
	sb.WriteString("Definition src_accesses : list gaccess := [\n")
	for i, a := range accs {
		sep := ";"
		if i == len(accs)-1 {
			sep = ""
		}
		fmt.Fprintf(&sb, "  {| gfn := %s; gk := %s |}%s   (* %s: %s *)\n", coqStr(a.Fn), a.Coq, sep, a.Pos, strings.ReplaceAll(a.Text, "*)", "* )"))
	}
	sb.WriteString("].\n\nDefinition src_consumers : list gcons := [\n")
	for i, c := range cons {
		sep := ";"
		if i == len(cons)-1 {
			sep = ""
		}
		fmt.Fprintf(&sb, "  {| cfn := %s; cuse := %s |}%s   (* %s *)\n", coqStr(c.Fn), map[string]string{"derive": "UDerive", "name": "UName", "other": "UOther"}[c.Use], sep, c.Pos)
	}
	sb.WriteString("].\n\nDefinition src_creators : list string := [")
	for i, c := range creators {
		if i > 0 {
			sb.WriteString("; ")
		}
		sb.WriteString(coqStr(c))
	}
	sb.WriteString("].\n")
	if err := os.WriteFile(filepath.Join(*out, "Extracted.v"), []byte(sb.String()), 0o644); err != nil {
		fail("%v", err)
	}

	inst := `(* generated by harness/translate/c07guid — the theorems of MV.C07.LifeProofs at the source under test *)
From Coq Require Import String.
From MV Require Import Lib.ListX Lib.Sched C07.LifeModel C07.LifeSource C07.LifeProofs.
Require Import Extracted.
Open Scope Z_scope.

(* the only accesses to the counter are the atomic add-and-fetch of 1 in nextChildGuid; every call of nextChildGuid
   names exactly one derived address / one child; contexts are created in newActorContext (and the bootstrap context in spawnTopActor) only *)
Theorem C07_counter_source_facts : source_ok src_accesses src_consumers src_creators = true.
Proof. vm_compute. reflexivity. Qed.

(* hence, for the machine this source is: the values handed out by one context are pairwise distinct over its whole
   life (restarts included), so are the reply addresses of its asks, every Register finds its address free (every
   future is initialised, timer armed) and a future completes with a reply only if it is its own *)
Theorem C07_whole_life_of_this_source : forall st, reach (linit_src src_accesses false) st ->
  NoDup (lhanded (fst st)) /\ NoDup (lissued (fst st)) /\ lunarmed (fst st) = [] /\ lrefused (fst st) = 0%nat /\
  (forall o q, In (o, Some q) (lresults (fst st)) -> o = q).
Proof. exact (at_source src_accesses src_consumers src_creators C07_counter_source_facts). Qed.

Print Assumptions C07_counter_source_facts.
Print Assumptions C07_whole_life_of_this_source.
`
	if err := os.WriteFile(filepath.Join(*out, "Instance.v"), []byte(inst), 0o644); err != nil {
		fail("%v", err)
	}
	b, _ := json.Marshal(map[string]any{"accesses": accs, "consumers": cons, "creators": creators})
	fmt.Println(string(b))
}
