// c08init: tie T3 of property C08 for the LAZY CREATION of the per-context scheduler — reads, from the package
// engine/vivid of the tree under test (go/ast, syntactic; every non-test file, actor_context.go among them),
//
//   - the field of actorContext of type *chrono.Scheduler (fall-back: the field named `scheduler`) and the fields of type
//     sync.Once,
//   - EVERY assignment to that field (also &x.field and a key of a composite literal) and where it sits: inside the function
//     handed to <x>.<once>.Do(...) — a plain call statement, <once> a sync.Once field of the context; directly in the
//     literal, or in a method that is referenced ONLY from such literals / as the argument of such a Do —, inside
//     `if <x>.field == nil { }`, or anywhere else,
//   - every other use of a sync.Once field than `.Do(` (a reset, a copy, its address),
//   - every use of the field (<x>.field.M(...), any other read) and how it is protected: preceded in the same function by a
//     call of an ensurer (a function that runs the creation), nil-checked, or bare,
//   - the functions through which the creation is reachable: the ensurers, their direct callers, the callers of
//     setExpireDuration, everything that reaches an ensurer, and the FOREIGN entries: calls v.M(...) with M reaching an
//     ensurer on a variable v that the same function has just bound to a context it created (v, … := newActorContext(…)) —
//     the spawner's goroutine running the creation on the child's context — and whether OnLaunch had been posted before,
//
// and emits
//
//	InitExtracted.v  src_writes : list swrite, src_once_fields, src_once_misuse : list string, src_users : list suse
//	                 (+ src_ensurers, src_ensure_callers, src_expire_callers, src_reach, src_foreign: the report)
//	InitInstance.v   source_ok src_writes src_once_fields src_once_misuse src_users = true            (vm_compute)
//	                 + the theorem of MV.C08.InitProofs instantiated at the machine this source is (init_src)
//
// checks/c08.py compiles both on every run. MV.C08.InitModel.source_discipline maps the writes to the discipline of the
// machine: all of them creating the scheduler under one and the same once, which is used for nothing but Do => DOnce (the
// machine C08_scheduler_created_once_no_task_orphaned is about); any assignment outside => DLazy, for which
// C08_scheduler_lazy_init_orphans_task_refuted has the refuting schedule: InitInstance.v does not compile and the
// obligation "the theorems apply to this source" is broken. Renamed identifiers, comments, log lines, and a Do body moved
// into a method called only from the Do literal do not change the facts. Not seen: reflection, unsafe, whole-struct
// copies of an actorContext, aliases of the field, helper functions of other packages. Standard library only.
package main

import (
	"encoding/json"
	"flag"
	"fmt"
	"go/ast"
	"go/parser"
	"go/token"
	"os"
	"path/filepath"
	"sort"
	"strings"
)

const structName = "actorContext"

func fail(format string, a ...any) {
	fmt.Fprintf(os.Stderr, "c08init: "+format+"\n", a...)
	os.Exit(1)
}

func coqStr(s string) string { return "\"" + strings.ReplaceAll(s, "\"", "\"\"") + "\"%string" }

func typeString(e ast.Expr) string {
	switch x := e.(type) {
	case *ast.Ident:
		return x.Name
	case *ast.StarExpr:
		return "*" + typeString(x.X)
	case *ast.SelectorExpr:
		return typeString(x.X) + "." + x.Sel.Name
	}
	return "?"
}

type write struct {
	Fn    string `json:"fn"`
	Site  string `json:"site"` // once:<field> | once-via:<method>:<field> | nil-guard | bare | literal | addr
	Nil   bool   `json:"nil"`
	Pos   string `json:"pos"`
	Text  string `json:"text"`
	once  string // once field, "" = none
	decl  *ast.FuncDecl
	level bool // directly at the level of the FuncDecl (not inside any function literal)
	guard bool
	kind  string // assign | literal | addr
}

type use struct {
	Fn    string `json:"fn"`
	Meth  string `json:"meth"`
	Guard string `json:"guard"` // ensured | nil-checked | bare
	Pos   string `json:"pos"`
	Text  string `json:"text"`
}

type foreign struct {
	Fn       string `json:"fn"`
	Var      string `json:"var"`
	Callee   string `json:"callee"`
	Pos      string `json:"pos"`
	BoundAt  string `json:"bound_at"`
	Launched bool   `json:"onlaunch_posted_before"`
	LaunchAt string `json:"onlaunch_posted_at,omitempty"`
}

// ref: one occurrence of the name of a declared function inside a function body
type ref struct {
	in     string // enclosing FuncDecl
	once   string // the occurrence is inside the function handed to <once>.Do, or IS the argument of <once>.Do
	isCall bool
}

func isNil(e ast.Expr) bool {
	id, ok := e.(*ast.Ident)
	return ok && id.Name == "nil"
}

func main() {
	repo := flag.String("repo", "", "repository root (default $VERIF_REPO or /repo)")
	out := flag.String("out", "", "output directory")
	flag.Parse()
	if *repo == "" {
		*repo = os.Getenv("VERIF_REPO")
	}
	if *repo == "" {
		*repo = "/repo"
	}
	if *out == "" {
		fail("need -out")
	}
	dir := filepath.Join(*repo, "engine", "vivid")
	fset := token.NewFileSet()
	pkgs, err := parser.ParseDir(fset, dir, func(fi os.FileInfo) bool { return !strings.HasSuffix(fi.Name(), "_test.go") }, 0)
	if err != nil {
		fail("cannot parse %s: %v", dir, err)
	}
	pkg := pkgs["vivid"]
	if pkg == nil {
		fail("package vivid not found in %s", dir)
	}
	var names []string
	for n := range pkg.Files {
		names = append(names, n)
	}
	sort.Strings(names)
	srcs := map[string][]byte{}
	pos := func(p token.Pos) string {
		q := fset.Position(p)
		return fmt.Sprintf("%s:%d", filepath.Base(q.Filename), q.Line)
	}
	text := func(n ast.Node) string {
		q, e := fset.Position(n.Pos()), fset.Position(n.End())
		b, ok := srcs[q.Filename]
		if !ok {
			b, _ = os.ReadFile(q.Filename)
			srcs[q.Filename] = b
		}
		if e.Offset > len(b) || q.Offset > e.Offset {
			return ""
		}
		s := strings.Join(strings.Fields(string(b[q.Offset:e.Offset])), " ")
		if len(s) > 160 {
			s = s[:157] + "..."
		}
		return s
	}

	// ---- the struct: the scheduler field and the once fields
	field, fieldType := "", ""
	var onceFields []string
	var byType []string
	hasNamed := false
	for _, name := range names {
		ast.Inspect(pkg.Files[name], func(n ast.Node) bool {
			ts, ok := n.(*ast.TypeSpec)
			if !ok || ts.Name.Name != structName {
				return true
			}
			st, ok := ts.Type.(*ast.StructType)
			if !ok {
				return true
			}
			for _, f := range st.Fields.List {
				t := typeString(f.Type)
				for _, id := range f.Names {
					if t == "*chrono.Scheduler" {
						byType = append(byType, id.Name)
					}
					if id.Name == "scheduler" {
						hasNamed = true
						fieldType = t
					}
					if t == "sync.Once" || t == "*sync.Once" {
						onceFields = append(onceFields, id.Name)
					}
				}
			}
			return false
		})
	}
	switch {
	case len(byType) == 1:
		field, fieldType = byType[0], "*chrono.Scheduler"
	case hasNamed:
		field = "scheduler"
	default:
		fail("the scheduler field of %s (one field of type *chrono.Scheduler, or a field named scheduler) not found in %s (candidates by type: %v)", structName, dir, byType)
	}
	isOnce := func(n string) bool {
		for _, f := range onceFields {
			if f == n {
				return true
			}
		}
		return false
	}
	isField := func(e ast.Expr) bool {
		s, ok := e.(*ast.SelectorExpr)
		return ok && s.Sel.Name == field
	}
	// onceDo: c is <x>.<once>.Do(arg)
	onceDo := func(c *ast.CallExpr) (string, bool) {
		s, ok := c.Fun.(*ast.SelectorExpr)
		if !ok || s.Sel.Name != "Do" || len(c.Args) != 1 {
			return "", false
		}
		s2, ok := s.X.(*ast.SelectorExpr)
		if !ok || !isOnce(s2.Sel.Name) {
			return "", false
		}
		return s2.Sel.Name, true
	}

	// ---- declared functions
	decls := map[string]bool{} // by bare name: methods of different receivers with one name are merged (over-approximation)
	var allDecls []*ast.FuncDecl
	for _, name := range names {
		for _, d := range pkg.Files[name].Decls {
			if fd, ok := d.(*ast.FuncDecl); ok && fd.Body != nil {
				decls[fd.Name.Name] = true
				allDecls = append(allDecls, fd)
			}
		}
	}

	var writes []*write
	var misuse []string
	refs := map[string][]ref{}
	calls := map[string]map[string]bool{} // caller -> callees (declared names)
	type doSite struct {
		fn    string
		once  string
		stmt  bool // plain statement at the level of the FuncDecl
		arg   ast.Expr
		call  *ast.CallExpr
		level bool
	}
	var doSites []doSite
	type rawUse struct {
		fd    *ast.FuncDecl
		node  ast.Node
		meth  string
		p     token.Pos
		scope ast.Node // innermost enclosing function literal, or the FuncDecl
		nilOK bool
		text  string
	}
	var rawUses []rawUse

	for _, fname := range names {
		for _, d := range pkg.Files[fname].Decls {
			fd, ok := d.(*ast.FuncDecl)
			if !ok || fd.Body == nil {
				continue
			}
			fn := fd.Name.Name
			var stack []ast.Node
			// onceCtx: walking outwards from the current node, the once under whose Do the node runs ("" = none)
			onceCtx := func() (string, bool) {
				level := true
				for k := len(stack) - 1; k >= 0; k-- {
					switch x := stack[k].(type) {
					case *ast.GoStmt, *ast.DeferStmt:
						if k < len(stack)-1 { // the node is (inside) the call of a go/defer statement
							return "", false
						}
					case *ast.FuncLit:
						level = false
						if k == 0 {
							return "", false
						}
						c, ok := stack[k-1].(*ast.CallExpr)
						if !ok {
							return "", false // a closure that runs whenever somebody calls it
						}
						if c.Fun == ast.Expr(x) { // func(){...}() : runs here
							continue
						}
						f, ok := onceDo(c)
						if !ok || c.Args[0] != ast.Expr(x) {
							return "", false
						}
						if k < 2 {
							return "", false
						}
						if _, ok := stack[k-2].(*ast.ExprStmt); !ok {
							return "", false // go x.once.Do(...), defer x.once.Do(...)
						}
						return f, false
					}
				}
				return "", level
			}
			innerScope := func() ast.Node {
				for k := len(stack) - 1; k >= 0; k-- {
					if fl, ok := stack[k].(*ast.FuncLit); ok {
						return fl
					}
				}
				return fd
			}
			parent := func(k int) ast.Node {
				if len(stack)-1-k < 0 {
					return nil
				}
				return stack[len(stack)-1-k]
			}
			nilGuard := func(eq token.Token) bool { // some enclosing if tests `<x>.field ==/!= nil` and the node is in its body
				for k := len(stack) - 1; k >= 1; k-- {
					ifs, ok := stack[k-1].(*ast.IfStmt)
					if !ok || stack[k] != ast.Node(ifs.Body) {
						continue
					}
					if b, ok := ifs.Cond.(*ast.BinaryExpr); ok && b.Op == eq && ((isField(b.X) && isNil(b.Y)) || (isField(b.Y) && isNil(b.X))) {
						return true
					}
				}
				return false
			}
			ast.Inspect(fd.Body, func(n ast.Node) bool {
				if n == nil {
					stack = stack[:len(stack)-1]
					return true
				}
				stack = append(stack, n)
				switch x := n.(type) {
				case *ast.CompositeLit:
					if id, ok := x.Type.(*ast.Ident); ok && id.Name == structName {
						for _, el := range x.Elts {
							if kv, ok := el.(*ast.KeyValueExpr); ok {
								if k, ok := kv.Key.(*ast.Ident); ok {
									if k.Name == field {
										writes = append(writes, &write{Fn: fn, Pos: pos(kv.Pos()), Text: text(kv), Nil: isNil(kv.Value), kind: "literal", decl: fd})
									}
									if isOnce(k.Name) {
										misuse = append(misuse, fmt.Sprintf("%s %s: %s", fn, pos(kv.Pos()), text(kv)))
									}
								}
							}
						}
					}
				case *ast.CallExpr:
					if f, ok := onceDo(x); ok {
						_, st := parent(1).(*ast.ExprStmt)
						oc, lvl := onceCtx()
						doSites = append(doSites, doSite{fn: fn, once: f, stmt: st, arg: x.Args[0], call: x, level: lvl && oc == ""})
					}
					callee := ""
					switch f := x.Fun.(type) {
					case *ast.Ident:
						callee = f.Name
					case *ast.SelectorExpr:
						callee = f.Sel.Name
					}
					if decls[callee] && callee != "" {
						if calls[fn] == nil {
							calls[fn] = map[string]bool{}
						}
						calls[fn][callee] = true
					}
				case *ast.Ident:
					if !decls[x.Name] {
						break
					}
					// skip the key of a key-value pair and field names of selectors that are not function references: a
					// selector x.Name with Name a declared function is taken as a reference (over-approximation)
					if kv, ok := parent(1).(*ast.KeyValueExpr); ok && kv.Key == ast.Expr(x) {
						break
					}
					r := ref{in: fn}
					oc, _ := onceCtx()
					r.once = oc
					// the expression this identifier heads: x.Name or Name
					var e ast.Expr = x
					up := 1
					if s, ok := parent(1).(*ast.SelectorExpr); ok && s.Sel == x {
						e = s
						up = 2
					} else if ok && s.X == ast.Expr(x) {
						break // Name.something: a variable or package, not a reference to the function
					}
					if c, ok := parent(up).(*ast.CallExpr); ok {
						if c.Fun == e {
							r.isCall = true
						} else if f, ok := onceDo(c); ok && c.Args[0] == e { // x.once.Do(x.Name)
							if _, st := parent(up + 1).(*ast.ExprStmt); st {
								r.once = f
							}
						}
					}
					refs[x.Name] = append(refs[x.Name], r)
				case *ast.SelectorExpr:
					if isOnce(x.Sel.Name) {
						okDo := false
						if s, ok := parent(1).(*ast.SelectorExpr); ok && s.X == ast.Expr(x) && s.Sel.Name == "Do" {
							if c, ok := parent(2).(*ast.CallExpr); ok && c.Fun == ast.Expr(s) {
								okDo = true
							}
						}
						if !okDo {
							misuse = append(misuse, fmt.Sprintf("%s %s: %s", fn, pos(x.Pos()), text(parent(1))))
						}
					}
					if x.Sel.Name != field {
						break
					}
					p1 := parent(1)
					switch p := p1.(type) {
					case *ast.AssignStmt:
						for i, l := range p.Lhs {
							if l == ast.Expr(x) {
								w := &write{Fn: fn, Pos: pos(p.Pos()), Text: text(p), kind: "assign", decl: fd}
								if len(p.Rhs) == len(p.Lhs) {
									w.Nil = isNil(p.Rhs[i])
								}
								w.once, w.level = onceCtx()
								w.guard = nilGuard(token.EQL)
								writes = append(writes, w)
								return true
							}
						}
					case *ast.IncDecStmt:
						writes = append(writes, &write{Fn: fn, Pos: pos(p.Pos()), Text: text(p), kind: "assign", decl: fd})
						return true
					case *ast.UnaryExpr:
						if p.Op == token.AND {
							writes = append(writes, &write{Fn: fn, Pos: pos(p.Pos()), Text: text(parent(2)), kind: "addr", decl: fd})
							return true
						}
					case *ast.BinaryExpr:
						if (p.Op == token.EQL || p.Op == token.NEQ) && (isNil(p.X) || isNil(p.Y)) {
							return true // a nil test
						}
					}
					u := rawUse{fd: fd, node: x, meth: "<read>", p: x.Pos(), scope: innerScope(), nilOK: nilGuard(token.NEQ), text: text(p1)}
					if s, ok := p1.(*ast.SelectorExpr); ok && s.X == ast.Expr(x) {
						if c, ok := parent(2).(*ast.CallExpr); ok && c.Fun == ast.Expr(s) {
							u.meth = s.Sel.Name
							u.text = text(c)
							if i := strings.Index(u.text, "("); i > 0 {
								u.text = u.text[:i] + "(...)"
							}
						}
					}
					rawUses = append(rawUses, u)
				}
				return true
			})
		}
	}

	// ---- a function all of whose references run under one once (depth <= 3)
	var onceOnly func(name string, depth int) string
	onceOnly = func(name string, depth int) string {
		rs := refs[name]
		if len(rs) == 0 || depth > 3 {
			return ""
		}
		f := ""
		for _, r := range rs {
			o := r.once
			if o == "" && r.isCall && r.in != name {
				o = onceOnly(r.in, depth+1) // called from a function that itself only runs under the once
			}
			if o == "" || (f != "" && o != f) {
				return ""
			}
			f = o
		}
		return f
	}
	for _, w := range writes {
		switch w.kind {
		case "literal":
			w.Site = "literal"
		case "addr":
			w.Site = "addr"
		default:
			switch {
			case w.once != "":
				w.Site = "once:" + w.once
			case w.level && onceOnly(w.Fn, 0) != "":
				w.once = onceOnly(w.Fn, 0)
				w.Site = "once-via:" + w.Fn + ":" + w.once
			case w.guard:
				w.Site = "nil-guard"
			default:
				w.Site = "bare"
			}
		}
	}

	// ---- ensurers: functions that run the creation when called
	ensurer := map[string]bool{}
	protects := func(ds doSite) bool { // the Do hands over a literal containing a write, or a method that writes under this once
		for _, w := range writes {
			if w.once != ds.once {
				continue
			}
			if w.decl.Name.Name == ds.fn && w.Site == "once:"+ds.once {
				if fl, ok := ds.arg.(*ast.FuncLit); ok {
					var found bool
					ast.Inspect(fl, func(n ast.Node) bool {
						if a, ok := n.(*ast.AssignStmt); ok && pos(a.Pos()) == w.Pos {
							found = true
						}
						return !found
					})
					if found {
						return true
					}
				}
			}
			if strings.HasPrefix(w.Site, "once-via:") {
				return true
			}
		}
		return false
	}
	for _, ds := range doSites {
		if ds.stmt && ds.level && protects(ds) {
			ensurer[ds.fn] = true
		}
	}
	for _, w := range writes {
		if w.kind == "assign" && w.once == "" && w.level {
			ensurer[w.Fn] = true // the unguarded variants: the function that assigns is the one callers call first
		}
	}
	// a function whose first statements include an unconditional call of an ensurer ensures as well (one level)
	for changed, round := true, 0; changed && round < 3; round++ {
		changed = false
		for _, wd := range allDecls {
			name := wd.Name.Name
			if ensurer[name] {
				continue
			}
			for _, st := range wd.Body.List {
				if es, ok := st.(*ast.ExprStmt); ok {
					if c, ok := es.X.(*ast.CallExpr); ok {
						cal := ""
						switch f := c.Fun.(type) {
						case *ast.Ident:
							cal = f.Name
						case *ast.SelectorExpr:
							cal = f.Sel.Name
						}
						if ensurer[cal] && len(c.Args) == 0 && len(wd.Body.List) == 1 {
							ensurer[name] = true // a pure wrapper
							changed = true
						}
					}
				}
			}
		}
	}

	// ---- uses and their protection
	var uses []use
	for _, u := range rawUses {
		g := "bare"
		// ensured: a call of an ensurer ends before the use, in the same function scope
		var scopeBody ast.Node = u.fd.Body
		if fl, ok := u.scope.(*ast.FuncLit); ok {
			scopeBody = fl.Body
		}
		var stack []ast.Node
		ast.Inspect(scopeBody, func(n ast.Node) bool {
			if n == nil {
				stack = stack[:len(stack)-1]
				return true
			}
			stack = append(stack, n)
			if fl, ok := n.(*ast.FuncLit); ok && ast.Node(fl) != u.scope {
				return true
			}
			if c, ok := n.(*ast.CallExpr); ok && c.End() <= u.p {
				cal := ""
				switch f := c.Fun.(type) {
				case *ast.Ident:
					cal = f.Name
				case *ast.SelectorExpr:
					cal = f.Sel.Name
				}
				inLit := false
				for _, s := range stack[:len(stack)-1] {
					if fl, ok := s.(*ast.FuncLit); ok && ast.Node(fl) != u.scope {
						inLit = true
					}
				}
				if ensurer[cal] && !inLit {
					g = "ensured"
				}
				if f, ok := onceDo(c); ok && !inLit {
					for _, ds := range doSites {
						if ds.call == c && ds.stmt && protects(ds) && f == ds.once {
							g = "ensured" // the Do itself, inline
						}
					}
				}
			}
			return true
		})
		if g == "bare" && u.nilOK {
			g = "nil-checked"
		}
		if g == "bare" { // `if x.field == nil { return }` earlier at the top level of the function
			for _, st := range u.fd.Body.List {
				ifs, ok := st.(*ast.IfStmt)
				if !ok || ifs.End() > u.p || len(ifs.Body.List) == 0 || ifs.Init != nil {
					continue
				}
				b, ok := ifs.Cond.(*ast.BinaryExpr)
				if !ok || b.Op != token.EQL || !((isField(b.X) && isNil(b.Y)) || (isField(b.Y) && isNil(b.X))) {
					continue
				}
				switch last := ifs.Body.List[len(ifs.Body.List)-1].(type) {
				case *ast.ReturnStmt:
					g = "nil-checked"
				case *ast.ExprStmt:
					if c, ok := last.X.(*ast.CallExpr); ok {
						if id, ok := c.Fun.(*ast.Ident); ok && id.Name == "panic" {
							g = "nil-checked"
						}
					}
				}
			}
		}
		uses = append(uses, use{Fn: u.fd.Name.Name, Meth: u.meth, Guard: g, Pos: pos(u.p), Text: u.text})
	}

	// ---- call graph report
	set := func(m map[string]bool) []string {
		var l []string
		for k := range m {
			l = append(l, k)
		}
		sort.Strings(l)
		return l
	}
	reach := map[string]bool{}
	for changed := true; changed; {
		changed = false
		for caller, cs := range calls {
			if reach[caller] {
				continue
			}
			for c := range cs {
				if ensurer[c] || reach[c] {
					reach[caller] = true
					changed = true
					break
				}
			}
		}
	}
	ensureCallers := map[string]bool{}
	expireCallers := map[string]bool{}
	for caller, cs := range calls {
		for c := range cs {
			if ensurer[c] && !ensurer[caller] {
				ensureCallers[caller] = true
			}
			if c == "setExpireDuration" {
				expireCallers[caller] = true
			}
		}
	}
	// foreign entries
	var foreigns []foreign
	for _, fd := range allDecls {
		name := fd.Name.Name
		type binding struct {
			v   string
			end token.Pos
			at  string
		}
		var binds []binding
		ast.Inspect(fd.Body, func(n ast.Node) bool {
			a, ok := n.(*ast.AssignStmt)
			if !ok || len(a.Rhs) != 1 || len(a.Lhs) == 0 {
				return true
			}
			creates := false
			switch r := a.Rhs[0].(type) {
			case *ast.CallExpr:
				if id, ok := r.Fun.(*ast.Ident); ok && (id.Name == "newActorContext" || (id.Name == "new" && len(r.Args) == 1 && typeString(r.Args[0]) == structName)) {
					creates = true
				}
			case *ast.UnaryExpr:
				if cl, ok := r.X.(*ast.CompositeLit); ok && r.Op == token.AND && typeString(cl.Type) == structName {
					creates = true
				}
			}
			if creates {
				if id, ok := a.Lhs[0].(*ast.Ident); ok && id.Name != "_" {
					binds = append(binds, binding{v: id.Name, end: a.End(), at: pos(a.Pos())})
				}
			}
			return true
		})
		for _, b := range binds {
			var launchAt token.Pos
			ast.Inspect(fd.Body, func(n ast.Node) bool {
				c, ok := n.(*ast.CallExpr)
				if !ok || c.Pos() < b.end {
					return true
				}
				s, ok := c.Fun.(*ast.SelectorExpr)
				if !ok {
					return true
				}
				if s.Sel.Name == "deliverySystemMessage" || s.Sel.Name == "processMessage" {
					for _, a := range c.Args {
						if id, ok := a.(*ast.Ident); ok && id.Name == "onLaunch" && launchAt == 0 {
							launchAt = c.Pos()
						}
					}
				}
				if id, ok := s.X.(*ast.Ident); ok && id.Name == b.v && (ensurer[s.Sel.Name] || reach[s.Sel.Name]) {
					f := foreign{Fn: name, Var: b.v, Callee: s.Sel.Name, Pos: pos(c.Pos()), BoundAt: b.at}
					if launchAt != 0 && launchAt < c.Pos() {
						f.Launched, f.LaunchAt = true, pos(launchAt)
					}
					foreigns = append(foreigns, f)
				}
				return true
			})
		}
	}

	// ---- Coq
	wsite := func(w *write) string {
		switch {
		case w.kind == "literal":
			return "WLit"
		case w.kind == "addr":
			return "WAddr"
		case w.once != "":
			return "(WInOnce " + coqStr(w.once) + ")"
		case w.guard:
			return "WNilGuard"
		}
		return "WBare"
	}
	cm := func(s string) string { return strings.ReplaceAll(strings.ReplaceAll(s, "(*", "( *"), "*)", "* )") }
	strList := func(l []string) string {
		it := make([]string, len(l))
		for i, s := range l {
			it[i] = coqStr(s)
		}
		return "[" + strings.Join(it, "; ") + "]"
	}
	var sb strings.Builder
	sb.WriteString("(* generated by harness/translate/c08init from " + dir + " — do not edit *)\n")
	sb.WriteString("From Coq Require Import String.\nFrom MV Require Import Lib.ListX C08.InitModel.\nOpen Scope string_scope.\n\n")
	fmt.Fprintf(&sb, "(* the scheduler field of %s: %s %s *)\nDefinition src_field : string := %s.\n", structName, field, fieldType, coqStr(field))
	fmt.Fprintf(&sb, "Definition src_once_fields : list string := %s.\n\n", strList(onceFields))
	sb.WriteString("Definition src_writes : list swrite := [\n")
	for i, w := range writes {
		sep := ";"
		if i == len(writes)-1 {
			sep = ""
		}
		fmt.Fprintf(&sb, "  {| wfn := %s; wst := %s; wnil := %v |}%s   (* %s [%s]: %s *)\n", coqStr(w.Fn), wsite(w), w.Nil, sep, w.Pos, w.Site, cm(w.Text))
	}
	sb.WriteString("].\n\n(* uses of a sync.Once field other than .Do( *)\n")
	fmt.Fprintf(&sb, "Definition src_once_misuse : list string := %s.\n\n", strList(misuse))
	sb.WriteString("Definition src_users : list suse := [\n")
	for i, u := range uses {
		sep := ";"
		if i == len(uses)-1 {
			sep = ""
		}
		g := map[string]string{"ensured": "UEnsured", "nil-checked": "UNilChecked", "bare": "UBare"}[u.Guard]
		fmt.Fprintf(&sb, "  {| ufn := %s; umeth := %s; ugd := %s |}%s   (* %s: %s *)\n", coqStr(u.Fn), coqStr(u.Meth), g, sep, u.Pos, cm(u.Text))
	}
	sb.WriteString("].\n\n(* report: how the creation is reached *)\n")
	fmt.Fprintf(&sb, "Definition src_ensurers : list string := %s.\n", strList(set(ensurer)))
	fmt.Fprintf(&sb, "Definition src_ensure_callers : list string := %s.\n", strList(set(ensureCallers)))
	fmt.Fprintf(&sb, "Definition src_expire_callers : list string := %s.\n", strList(set(expireCallers)))
	fmt.Fprintf(&sb, "Definition src_reach : list string := %s.\n", strList(set(reach)))
	sb.WriteString("(* (function, callee reaching the creation, OnLaunch already posted): the spawner's goroutine on the context it has just created *)\n")
	sb.WriteString("Definition src_foreign : list (string * string * bool) := [")
	for i, f := range foreigns {
		if i > 0 {
			sb.WriteString("; ")
		}
		fmt.Fprintf(&sb, "(%s, %s, %v)", coqStr(f.Fn), coqStr(f.Callee), f.Launched)
	}
	sb.WriteString("].\n")
	if err := os.WriteFile(filepath.Join(*out, "InitExtracted.v"), []byte(sb.String()), 0o644); err != nil {
		fail("%v", err)
	}

	inst := `(* generated by harness/translate/c08init — the theorems of MV.C08.InitProofs at the source under test *)
From Coq Require Import String.
From MV Require Import Lib.ListX Lib.Sched C08.InitModel C08.InitProofs.
Require Import InitExtracted.
Open Scope Z_scope.

(* every assignment of the scheduler field of actorContext creates the scheduler inside the function handed to Do of one and
   the same sync.Once field of the context; that field is used for nothing else; every registration is preceded by the
   ensuring call, every other use of the field is ensured or nil-checked *)
Theorem C08_scheduler_init_source_facts : source_ok src_writes src_once_fields src_once_misuse src_users = true.
Proof. vm_compute. reflexivity. Qed.

(* hence, for the machine this source is — any number of goroutines registering tasks on one context, the spawner among
   them, every interleaving: at most one scheduler object is ever created, nobody dereferences a nil field, every task
   registered sits in the object the context holds (StopTask / re-registration / Clear / Close reach it) *)
Theorem C08_scheduler_init_of_this_source : forall tags st, reach (init_src src_writes src_once_fields src_once_misuse tags) st ->
  nilderef (fst st) = false /\ 0 <= made (fst st) <= 1 /\
  (forall k t, In (k, t) (regs (fst st)) -> fld (fst st) = Some k) /\
  (forall k t, ~ orphaned (fst st) k t) /\
  (regs (fst st) <> [] -> made (fst st) = 1) /\
  (forall k, fld (fst st) = Some k -> k = 0 /\ made (fst st) = 1).
Proof. exact (at_source src_writes src_once_fields src_once_misuse src_users C08_scheduler_init_source_facts). Qed.

Print Assumptions C08_scheduler_init_source_facts.
Print Assumptions C08_scheduler_init_of_this_source.
`
	if err := os.WriteFile(filepath.Join(*out, "InitInstance.v"), []byte(inst), 0o644); err != nil {
		fail("%v", err)
	}
	disc := "none"
	if len(writes) > 0 {
		disc = "once"
		f0 := writes[0].once
		for _, w := range writes {
			if w.kind != "assign" || w.once == "" || w.once != f0 || w.Nil {
				disc = "lazy"
			}
		}
		if len(misuse) > 0 {
			disc = "lazy"
		}
	}
	b, _ := json.Marshal(map[string]any{"field": field, "field_type": fieldType, "once_fields": onceFields, "writes": writes, "once_misuse": misuse,
		"users": uses, "ensurers": set(ensurer), "ensure_callers": set(ensureCallers), "expire_callers": set(expireCallers),
		"reach": set(reach), "foreign": foreigns, "discipline": disc})
	fmt.Println(string(b))
}
