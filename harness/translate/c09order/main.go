// c09order: tie T3 of property C09 — reads engine/vivid/actor_context.go of the tree under test (go/ast, syntactic)
// and extracts, for the routine that ends a generation by termination (tryTerminated) and the one that ends it by a
// restart (tryRestarted), the ORDER of the statements that matter for "the last persist of a generation
// happens-before the end of that generation becomes observable":
//
//	persist        a call whose callee name contains "persist" (internalPersistence, Persistence, State.Persist, ...),
//	               but not the recovery/initialisation/clearing ones; plain, deferred (defer ...) or asynchronous
//	               (go ..., or inside a function literal that is not called on the spot)
//	guard          a return inside an if/for/switch: the routine may return there
//	status         ctx.status.CompareAndSwap / Store / Swap
//	handler        ctx.processMessage(...)
//	new-instance   ctx.actor = ...
//	announce       rc.Unregister(...); deliverySystemMessage inside `range ctx.watchers`; deliverySystemMessage to
//	               ctx.parentRef; close(<x>.closed); deliverySystemMessage(..., onLaunch) (OnLaunch posted to the own
//	               mailbox); processMessage(..., onLaunch, ...) or recoveryPersistence() (launch handled inline)
//	other          anything else (one per statement)
//
// each with its line and whether it sits inside a conditional/loop body. It emits
//
//	Extracted.v  src_tryTerminated, src_tryRestarted : list fact; src_persist_chain : list (string * bool);
//	             TermOffenders / RestartOffenders (lines of the statements that break the order, for the report)
//	Instance.v   term_order_ok src_tryTerminated = true, restart_order_ok src_tryRestarted = true (vm_compute),
//	             the persist chain is synchronous, and MV.C09.OrderProofs.order_sound_facts at these facts
//
// and prints the facts as JSON. checks/c09.py compiles both files on every run. Standard library only.
package main

import (
	"encoding/json"
	"flag"
	"fmt"
	"go/ast"
	"go/parser"
	"go/token"
	"os"
	"path/filepath"
	"regexp"
	"strings"
)

type fact struct {
	Fn   string `json:"fn"`
	Kind string `json:"kind"`
	Coq  string `json:"-"`
	Cond bool   `json:"conditional"`
	Line int    `json:"line"`
	Text string `json:"text"`
}

type chainLink struct {
	What string `json:"what"`
	OK   bool   `json:"ok"`
	Pos  string `json:"pos"`
}

func fail(format string, a ...any) {
	fmt.Fprintf(os.Stderr, "c09order: "+format+"\n", a...)
	os.Exit(1)
}

func coqStr(s string) string { return "\"" + strings.ReplaceAll(s, "\"", "\"\"") + "\"%string" }

var persistName = regexp.MustCompile(`(?i)persist`)
var notPersistName = regexp.MustCompile(`(?i)recover|init|clear|load|provider|storage`)

func isPersistName(n string) bool {
	return persistName.MatchString(n) && !notPersistName.MatchString(n)
}

func calleeName(c *ast.CallExpr) string {
	switch f := c.Fun.(type) {
	case *ast.SelectorExpr:
		return f.Sel.Name
	case *ast.Ident:
		return f.Name
	}
	return ""
}

func selName(e ast.Expr) string {
	if s, ok := e.(*ast.SelectorExpr); ok {
		return s.Sel.Name
	}
	return ""
}

type walker struct {
	fset  *token.FileSet
	src   []byte
	fn    string
	facts []fact
}

func (w *walker) text(n ast.Node) string {
	q, e := w.fset.Position(n.Pos()), w.fset.Position(n.End())
	if e.Offset > len(w.src) || q.Offset > e.Offset {
		return ""
	}
	t := strings.Join(strings.Fields(string(w.src[q.Offset:e.Offset])), " ")
	if len(t) > 160 {
		t = t[:160] + " ..."
	}
	return t
}

func (w *walker) emit(kind, coq string, cond bool, n ast.Node) {
	w.facts = append(w.facts, fact{Fn: w.fn, Kind: kind, Coq: coq, Cond: cond, Line: w.fset.Position(n.Pos()).Line, Text: w.text(n)})
}

// containsPersist: a persist call anywhere below n, function literals included
func containsPersist(n ast.Node) bool {
	found := false
	ast.Inspect(n, func(x ast.Node) bool {
		if c, ok := x.(*ast.CallExpr); ok && isPersistName(calleeName(c)) {
			found = true
		}
		return !found
	})
	return found
}

// classify one call; ok=false: not a statement the order is about
func (w *walker) classify(c *ast.CallExpr, inWatchers bool) (kind, coq string, ok bool) {
	name := calleeName(c)
	switch {
	case isPersistName(name):
		return "persist", "SPersist", true
	case name == "CompareAndSwap" || name == "Store" || name == "Swap":
		if s, isSel := c.Fun.(*ast.SelectorExpr); isSel && selName(s.X) == "status" {
			return "status", "SStatus", true
		}
	case name == "recoveryPersistence":
		// the Load of the new instance, called from inside the routine
		return "announce:launch-inline", "(SAnnounce ALaunchInline)", true
	case name == "processMessage":
		// OnLaunch handled inside the routine: recovery (Load) runs at this statement
		for _, a := range c.Args {
			if id, isId := a.(*ast.Ident); isId && id.Name == "onLaunch" {
				return "announce:launch-inline", "(SAnnounce ALaunchInline)", true
			}
			if strings.Contains(w.text(a), "OnLaunch{") {
				return "announce:launch-inline", "(SAnnounce ALaunchInline)", true
			}
		}
		return "handler", "SHandler", true
	case name == "Unregister":
		return "announce:unregister", "(SAnnounce AUnregister)", true
	case name == "deliverySystemMessage" || name == "deliveryUserMessage":
		if len(c.Args) > 0 {
			last := c.Args[len(c.Args)-1]
			if id, isId := last.(*ast.Ident); isId && id.Name == "onLaunch" {
				return "announce:launch", "(SAnnounce ALaunch)", true
			}
			if strings.Contains(w.text(last), "OnLaunch{") {
				return "announce:launch", "(SAnnounce ALaunch)", true
			}
			if selName(c.Args[0]) == "parentRef" {
				return "announce:parent", "(SAnnounce AParent)", true
			}
			if inWatchers {
				return "announce:watchers", "(SAnnounce AWatchers)", true
			}
		}
	case name == "close":
		if _, isId := c.Fun.(*ast.Ident); isId && len(c.Args) == 1 && selName(c.Args[0]) == "closed" {
			return "announce:closed", "(SAnnounce AClosed)", true
		}
	}
	return "", "", false
}

// simple: a statement without nested statement lists. Its calls are classified in source order; a function literal
// that is called on the spot is walked as a block, any other function literal containing a persist is an asynchronous
// persist (nobody knows when it runs).
func (w *walker) simple(s ast.Node, cond, inWatchers bool) {
	n0 := len(w.facts)
	var visit func(n ast.Node) bool
	visit = func(n ast.Node) bool {
		switch x := n.(type) {
		case *ast.CallExpr:
			if fl, ok := x.Fun.(*ast.FuncLit); ok { // func() { ... }()
				for _, a := range x.Args {
					ast.Inspect(a, visit)
				}
				w.stmts(fl.Body.List, cond, inWatchers)
				return false
			}
			for _, a := range x.Args { // arguments are evaluated before the call
				ast.Inspect(a, visit)
			}
			if s, ok := x.Fun.(*ast.SelectorExpr); ok {
				ast.Inspect(s.X, visit)
			}
			if kind, coq, ok := w.classify(x, inWatchers); ok {
				w.emit(kind, coq, cond, x)
			}
			return false
		case *ast.FuncLit:
			// a function literal that is not called on the spot runs nobody knows when: a persist inside it counts as
			// asynchronous; a statement inside it that makes the end observable counts as executing HERE (the earliest
			// possible moment, which asks the most of the persists)
			sub := &walker{fset: w.fset, src: w.src, fn: w.fn}
			sub.stmts(x.Body.List, true, inWatchers)
			for _, f := range sub.facts {
				switch {
				case strings.HasSuffix(f.Kind, "persist"):
					f.Kind, f.Coq = "go-persist", "SGoPersist"
					w.facts = append(w.facts, f)
				case strings.HasPrefix(f.Kind, "announce:"):
					w.facts = append(w.facts, f)
				}
			}
			return false
		}
		return true
	}
	ast.Inspect(s, visit)
	if len(w.facts) == n0 {
		if as, ok := s.(*ast.AssignStmt); ok && len(as.Lhs) == 1 && selName(as.Lhs[0]) == "actor" {
			w.emit("new-instance", "SNewInstance", cond, s)
			return
		}
		w.emit("other", "SOther", cond, s)
	}
}

func (w *walker) stmts(list []ast.Stmt, cond, inWatchers bool) {
	for _, s := range list {
		if !w.stmt(s, cond, inWatchers) {
			return
		}
	}
}

// stmt returns false when the rest of the list is unreachable (unconditional return)
func (w *walker) stmt(s ast.Stmt, cond, inWatchers bool) bool {
	switch x := s.(type) {
	case nil:
	case *ast.BlockStmt:
		w.stmts(x.List, cond, inWatchers)
	case *ast.LabeledStmt:
		return w.stmt(x.Stmt, cond, inWatchers)
	case *ast.ReturnStmt:
		for _, r := range x.Results {
			if containsPersist(r) {
				w.simple(r, cond, inWatchers)
			}
		}
		w.emit("guard", "SGuard", cond, x)
		return cond // an unconditional return ends the list
	case *ast.BranchStmt, *ast.EmptyStmt:
	case *ast.IfStmt:
		if x.Init != nil {
			w.stmt(x.Init, cond, inWatchers)
		}
		w.exprCalls(x.Cond, cond, inWatchers)
		w.stmts(x.Body.List, true, inWatchers)
		if x.Else != nil {
			w.stmt(x.Else, true, inWatchers)
		}
	case *ast.ForStmt:
		if x.Init != nil {
			w.stmt(x.Init, cond, inWatchers)
		}
		if x.Cond != nil {
			w.exprCalls(x.Cond, true, inWatchers)
		}
		w.stmts(x.Body.List, true, inWatchers)
		if x.Post != nil {
			w.stmt(x.Post, true, inWatchers)
		}
	case *ast.RangeStmt:
		w.exprCalls(x.X, cond, inWatchers)
		w.stmts(x.Body.List, true, inWatchers || selName(x.X) == "watchers")
	case *ast.SwitchStmt:
		if x.Init != nil {
			w.stmt(x.Init, cond, inWatchers)
		}
		if x.Tag != nil {
			w.exprCalls(x.Tag, cond, inWatchers)
		}
		w.clauses(x.Body, inWatchers)
	case *ast.TypeSwitchStmt:
		if x.Init != nil {
			w.stmt(x.Init, cond, inWatchers)
		}
		w.clauses(x.Body, inWatchers)
	case *ast.SelectStmt:
		w.clauses(x.Body, inWatchers)
	case *ast.DeferStmt:
		if containsPersist(x.Call) {
			w.emit("defer-persist", "SDeferPersist", cond, x)
		} else {
			w.emit("other", "SOther", cond, x)
		}
	case *ast.GoStmt:
		if containsPersist(x.Call) {
			w.emit("go-persist", "SGoPersist", cond, x)
		} else {
			w.emit("other", "SOther", cond, x)
		}
	default:
		w.simple(s, cond, inWatchers)
	}
	return true
}

func (w *walker) clauses(b *ast.BlockStmt, inWatchers bool) {
	for _, c := range b.List {
		switch cc := c.(type) {
		case *ast.CaseClause:
			w.stmts(cc.Body, true, inWatchers)
		case *ast.CommClause:
			if cc.Comm != nil {
				w.stmt(cc.Comm, true, inWatchers)
			}
			w.stmts(cc.Body, true, inWatchers)
		}
	}
}

// exprCalls: the classified calls of a condition / range expression (no `other` fact for a plain expression)
func (w *walker) exprCalls(e ast.Expr, cond, inWatchers bool) {
	if e == nil {
		return
	}
	n0 := len(w.facts)
	w.simple(e, cond, inWatchers)
	if len(w.facts) == n0+1 && w.facts[n0].Kind == "other" {
		w.facts = w.facts[:n0]
	}
}

// syncCall: does fd contain a call of a callee matching want that is not inside a go statement or a function literal?
func syncCall(fd *ast.FuncDecl, want func(c *ast.CallExpr) bool) (found, async bool) {
	var visit func(n ast.Node, asyncCtx bool)
	visit = func(n ast.Node, asyncCtx bool) {
		ast.Inspect(n, func(x ast.Node) bool {
			switch y := x.(type) {
			case *ast.GoStmt:
				visit(y.Call, true)
				return false
			case *ast.FuncLit:
				visit(y.Body, true)
				return false
			case *ast.CallExpr:
				if want(y) {
					if asyncCtx {
						async = true
					} else {
						found = true
					}
				}
			}
			return true
		})
	}
	visit(fd.Body, false)
	return
}

func coqFacts(name string, fs []fact) string {
	var sb strings.Builder
	fmt.Fprintf(&sb, "Definition %s : list fact := [\n", name)
	for i, f := range fs {
		sep := ";"
		if i == len(fs)-1 {
			sep = ""
		}
		c := "false"
		if f.Cond {
			c = "true"
		}
		fmt.Fprintf(&sb, "  {| f_stmt := %s; f_cond := %s; f_line := %d |}%s   (* %s *)\n", f.Coq, c, f.Line, sep, strings.ReplaceAll(f.Text, "*)", "* )"))
	}
	sb.WriteString("].\n\n")
	return sb.String()
}

func main() {
	repo := flag.String("repo", "", "repository root (default $VERIF_REPO or /repo)")
	out := flag.String("out", "", "output directory")
	flag.Parse()
	if *repo == "" {
		*repo = os.Getenv("VERIF_REPO")
	}
	if *repo == "" {
		*repo = "/repo"
	}
	if *out == "" {
		fail("need -out")
	}
	path := filepath.Join(*repo, "engine", "vivid", "actor_context.go")
	src, err := os.ReadFile(path)
	if err != nil {
		fail("cannot read %s: %v", path, err)
	}
	fset := token.NewFileSet()
	file, err := parser.ParseFile(fset, path, src, 0)
	if err != nil {
		fail("cannot parse %s: %v", path, err)
	}
	decls := map[string]*ast.FuncDecl{}
	for _, d := range file.Decls {
		if fd, ok := d.(*ast.FuncDecl); ok && fd.Body != nil && fd.Recv != nil {
			decls[fd.Name.Name] = fd
		}
	}
	extract := func(fn string) []fact {
		fd := decls[fn]
		if fd == nil {
			fail("method %s of actorContext not found in %s: the routine that ends a generation cannot be read", fn, path)
		}
		w := &walker{fset: fset, src: src, fn: fn}
		w.stmts(fd.Body.List, false, false)
		return w.facts
	}
	term := extract("tryTerminated")
	rest := extract("tryRestarted")

	// the chain behind the persist statement must be synchronous down to State.Persist
	var chain []chainLink
	link := func(fn, what string, want func(c *ast.CallExpr) bool) {
		fd := decls[fn]
		l := chainLink{What: what}
		if fd != nil {
			found, async := syncCall(fd, want)
			l.OK = found && !async
			l.Pos = fmt.Sprintf("actor_context.go:%d", fset.Position(fd.Pos()).Line)
		}
		chain = append(chain, l)
	}
	usesInternal := false
	for _, f := range append(append([]fact{}, term...), rest...) {
		if strings.Contains(f.Text, "internalPersistence") {
			usesInternal = true
		}
	}
	if usesInternal {
		link("internalPersistence", "internalPersistence calls ctx.Persistence() on its own goroutine", func(c *ast.CallExpr) bool { return calleeName(c) == "Persistence" })
	}
	link("Persistence", "Persistence calls ctx.persistenceState.Persist() on its own goroutine", func(c *ast.CallExpr) bool {
		s, ok := c.Fun.(*ast.SelectorExpr)
		return ok && s.Sel.Name == "Persist" && selName(s.X) == "persistenceState"
	})

	var sb strings.Builder
	sb.WriteString("(* generated by harness/translate/c09order from " + path + " — do not edit *)\n")
	sb.WriteString("From Coq Require Import String.\nFrom MV Require Import Lib.ListX C09.OrderModel.\n\n")
	sb.WriteString(coqFacts("src_tryTerminated", term))
	sb.WriteString(coqFacts("src_tryRestarted", rest))
	sb.WriteString("Definition src_persist_chain : list (string * bool) := [")
	for i, l := range chain {
		if i > 0 {
			sb.WriteString("; ")
		}
		b := "false"
		if l.OK {
			b = "true"
		}
		fmt.Fprintf(&sb, "(%s, %s)", coqStr(l.What), b)
	}
	sb.WriteString("].\n\n")
	sb.WriteString("Definition TermOffenders := Eval vm_compute in order_offenders src_tryTerminated.\nPrint TermOffenders.\n")
	sb.WriteString("Definition RestartOffenders := Eval vm_compute in order_offenders src_tryRestarted.\nPrint RestartOffenders.\n")
	sb.WriteString("Definition TermVerdict := Eval vm_compute in (persists_unconditional src_tryTerminated, order_safe (prog_of src_tryTerminated), (has_announce AUnregister src_tryTerminated, has_announce AWatchers src_tryTerminated, has_announce AParent src_tryTerminated, has_announce AClosed src_tryTerminated)).\nPrint TermVerdict.\n")
	sb.WriteString("Definition RestartVerdict := Eval vm_compute in (persists_unconditional src_tryRestarted, order_safe (prog_of src_tryRestarted), (has_announce ALaunch src_tryRestarted, has_announce ALaunchInline src_tryRestarted)).\nPrint RestartVerdict.\n")
	if err := os.WriteFile(filepath.Join(*out, "Extracted.v"), []byte(sb.String()), 0o644); err != nil {
		fail("%v", err)
	}

	inst := `(* generated by harness/translate/c09order — the order theorems of MV.C09.OrderProofs at the source under test *)
From Coq Require Import String.
From MV Require Import Lib.ListX C09.OrderModel C09.OrderProofs.
Require Import Extracted.

(* tryTerminated: every persist is an unconditional synchronous call that has returned before the first statement that
   makes the end observable (rc.Unregister, the notices to watchers and parent, close(system.closed)); none is deferred,
   none runs on another goroutine, none comes later; all four announce statements were found *)
Theorem C09_source_terminate_order : term_order_ok src_tryTerminated = true.
Proof. vm_compute. reflexivity. Qed.

(* tryRestarted: where OnLaunch is handled inside the routine a persist has returned before that statement (none
   deferred, none later); where it is posted to the own mailbox a synchronous persist (plain or deferred) has returned
   before the routine returns, i.e. before the mailbox can process the launch; none runs on another goroutine *)
Theorem C09_source_restart_order : restart_order_ok src_tryRestarted = true.
Proof. vm_compute. reflexivity. Qed.

(* the persist statement reaches State.Persist (hence Storage.Save) by plain calls on the same goroutine *)
Theorem C09_source_persist_synchronous : forallb snd src_persist_chain = true /\ src_persist_chain <> [].
Proof. split; [vm_compute; reflexivity | discriminate]. Qed.

(* hence, for the routines of THIS source: any number of generations, ended by terminations and restarts in any mix,
   every schedule of the goroutines and of an observer who re-creates the actor under the same persistence name as soon
   as he can observe the end — each launch rebuilds exactly the state the previous generation had when it ended *)
Theorem C09_recreate_on_notice_exact_for_this_source : forall (evs0 : list Z) (r0 : bool) (cs : list choice),
  let w := orun (prog_of src_tryTerminated) (prog_of src_tryRestarted)
                (oinit (prog_of src_tryTerminated) (prog_of src_tryRestarted) evs0 r0) cs in
  launches_exact w /\ t_val (cur w) = hist w.
Proof. exact (order_sound_facts src_tryTerminated src_tryRestarted C09_source_terminate_order C09_source_restart_order). Qed.

Print Assumptions C09_source_terminate_order.
Print Assumptions C09_source_restart_order.
Print Assumptions C09_source_persist_synchronous.
Print Assumptions C09_recreate_on_notice_exact_for_this_source.
`
	if err := os.WriteFile(filepath.Join(*out, "Instance.v"), []byte(inst), 0o644); err != nil {
		fail("%v", err)
	}
	b, _ := json.Marshal(map[string]any{"file": path, "tryTerminated": term, "tryRestarted": rest, "persist_chain": chain})
	fmt.Println(string(b))
}
