// Package vh is the shared runtime of the correspondence harnesses (tie T1):
// one PRNG (splitmix64) for every random choice, printers for Coq terms, and an
// output manager that writes the cases both as JSON (evidence, replay) and as
// sharded cases_NNN.v files that Coq evaluates with vm_compute.
package vh

import (
	"crypto/sha256"
	"encoding/hex"
	"encoding/json"
	"flag"
	"fmt"
	"os"
	"path/filepath"
	"sort"
	"strings"
)

// ---------------------------------------------------------------- PRNG

type RNG struct{ s uint64 }

func NewRNG(seed uint64) *RNG { return &RNG{s: seed} }

func (r *RNG) U64() uint64 {
	r.s += 0x9e3779b97f4a7c15
	z := r.s
	z = (z ^ (z >> 30)) * 0xbf58476d1ce4e5b9
	z = (z ^ (z >> 27)) * 0x94d049bb133111eb
	return z ^ (z >> 31)
}

// Intn returns a value in [0,n).
func (r *RNG) Intn(n int) int {
	if n <= 0 {
		return 0
	}
	return int(r.U64() % uint64(n))
}

// Range returns a value in [lo,hi].
func (r *RNG) Range(lo, hi int) int { return lo + r.Intn(hi-lo+1) }
func (r *RNG) Bool() bool           { return r.U64()&1 == 1 }
func (r *RNG) Chance(num, den int) bool {
	return r.Intn(den) < num
}
func (r *RNG) Float() float64 { return float64(r.U64()>>11) / (1 << 53) }

// Derive gives an independent generator for one case so that a case replays alone.
func (r *RNG) Derive() (*RNG, uint64) { s := r.U64(); return NewRNG(s), s }

// ---------------------------------------------------------------- Coq term printers

func Z(v int64) string {
	if v < 0 {
		return fmt.Sprintf("(%d)%%Z", v)
	}
	return fmt.Sprintf("%d%%Z", v)
}
func Nat(v int) string { return fmt.Sprintf("%d%%nat", v) }
func N(v uint64) string { return fmt.Sprintf("%d%%N", v) }
func Bool(b bool) string {
	if b {
		return "true"
	}
	return "false"
}
func List(items []string) string { return "[" + strings.Join(items, "; ") + "]" }
func ListZ(vs []int64) string {
	it := make([]string, len(vs))
	for i, v := range vs {
		it[i] = Z(v)
	}
	return List(it)
}
func ListInt(vs []int) string {
	it := make([]string, len(vs))
	for i, v := range vs {
		it[i] = Z(int64(v))
	}
	return List(it)
}
func ListNat(vs []int) string {
	it := make([]string, len(vs))
	for i, v := range vs {
		it[i] = Nat(v)
	}
	return List(it)
}
func Some(s string) string { return "(Some " + s + ")" }
func None() string         { return "None" }
func Pair(a, b string) string { return "(" + a + ", " + b + ")" }
func Str(s string) string {
	return "\"" + strings.ReplaceAll(s, "\"", "\"\"") + "\"%string"
}
func App(f string, args ...string) string {
	if len(args) == 0 {
		return f
	}
	return "(" + f + " " + strings.Join(args, " ") + ")"
}

// ---------------------------------------------------------------- output manager

// Violation is a hit of a Go-side property monitor (the search oracle, never the claim).
type Violation struct {
	Kind   string      `json:"kind"`   // specific rule name, used to match known findings
	Detail string      `json:"detail"` // human readable: expected vs observed
	Case   interface{} `json:"case"`   // the full case, enough to replay
	CaseID int         `json:"case_id"`
	Sub    string      `json:"sub"`
	// Sig: optional signature fields (function name, shape of the minimal history, ...) that an
	// open entry of known_findings.json must match exactly ("where") to explain this hit.
	Sig map[string]string `json:"sig,omitempty"`
}

type Summary struct {
	Sub                string                    `json:"sub"`
	Seed               uint64                    `json:"seed"`
	Evaluations        int                       `json:"evaluations"`
	DistinctNontrivial int                       `json:"distinct_nontrivial"`
	Distinct           int                       `json:"distinct"`
	Rule               string                    `json:"rule"`
	Distribution       map[string]map[string]int `json:"distribution"`
	Samples            []interface{}             `json:"samples"`
	Violations         []Violation               `json:"violations"`
	Shards             []string                  `json:"shards"`
	Malformed          int                       `json:"malformed"`
	OutOfFuel          int                       `json:"out_of_fuel"`
}

type Out struct {
	Dir       string
	Sub       string // sub-harness name (file prefix)
	Header    string // Coq header: imports
	CaseType  string // Coq type of one case
	Mismatch  string // Coq function: list case -> list nat
	PerShard  int
	sum       Summary
	seen      map[string]bool
	seenNT    map[string]bool
	cur       []string
	jsonl     *os.File
	maxSample int
}

func NewOut(dir, sub, header, caseType, mismatch string, seed uint64, rule string) *Out {
	if err := os.MkdirAll(dir, 0o755); err != nil {
		panic(err)
	}
	f, err := os.Create(filepath.Join(dir, sub+"_cases.jsonl"))
	if err != nil {
		panic(err)
	}
	return &Out{Dir: dir, Sub: sub, Header: header, CaseType: caseType, Mismatch: mismatch, PerShard: 400,
		sum:  Summary{Sub: sub, Seed: seed, Rule: rule, Distribution: map[string]map[string]int{}},
		seen: map[string]bool{}, seenNT: map[string]bool{}, jsonl: f, maxSample: 3}
}

// Count adds one observation to a named histogram of the input distribution.
func (o *Out) Count(hist, bucket string) {
	m := o.sum.Distribution[hist]
	if m == nil {
		m = map[string]int{}
		o.sum.Distribution[hist] = m
	}
	m[bucket]++
}
func (o *Out) CountInt(hist string, v int) { o.Count(hist, fmt.Sprintf("%d", v)) }

func Bucket(v int) string {
	switch {
	case v < 0:
		return "<0"
	case v == 0:
		return "0"
	case v <= 2:
		return "1-2"
	case v <= 5:
		return "3-5"
	case v <= 10:
		return "6-10"
	case v <= 20:
		return "11-20"
	case v <= 50:
		return "21-50"
	case v <= 100:
		return "51-100"
	case v <= 1000:
		return "101-1000"
	}
	return ">1000"
}

func (o *Out) N() int { return o.sum.Evaluations }
func (o *Out) Malformed() { o.sum.Malformed++ }
func (o *Out) OutOfFuel() { o.sum.OutOfFuel++ }

// Add records one case: its JSON form (canonical: used for hashing, evidence and replay),
// the Coq term for the model run (empty = this case is not evaluated in Coq), whether it
// is non-trivial by the property's rule, and the monitor hits.
func (o *Out) Add(caseJSON interface{}, coqTerm string, nontrivial bool, viol []Violation) int {
	id := o.sum.Evaluations
	o.sum.Evaluations++
	b, err := json.Marshal(caseJSON)
	if err != nil {
		panic(err)
	}
	h := sha256.Sum256(b)
	hs := hex.EncodeToString(h[:8])
	if !o.seen[hs] {
		o.seen[hs] = true
		o.sum.Distinct++
		if nontrivial {
			o.sum.DistinctNontrivial++
		}
	}
	fmt.Fprintf(o.jsonl, "{\"id\":%d,\"nontrivial\":%v,\"case\":%s}\n", id, nontrivial, b)
	if len(o.sum.Samples) < o.maxSample && (nontrivial || id < 1) {
		var v interface{}
		_ = json.Unmarshal(b, &v)
		o.sum.Samples = append(o.sum.Samples, v)
	}
	for _, v := range viol {
		v.CaseID = id
		v.Sub = o.Sub
		if v.Case == nil {
			var c interface{}
			_ = json.Unmarshal(b, &c)
			v.Case = c
		}
		if len(o.sum.Violations) < 200 {
			o.sum.Violations = append(o.sum.Violations, v)
		}
	}
	if coqTerm != "" && !NoCoq {
		o.cur = append(o.cur, coqTerm)
		if len(o.cur) >= o.PerShard {
			o.flush()
		}
	}
	return id
}

func (o *Out) flush() {
	if len(o.cur) == 0 {
		return
	}
	name := fmt.Sprintf("%s_shard_%03d", o.Sub, len(o.sum.Shards))
	var sb strings.Builder
	sb.WriteString(o.Header)
	sb.WriteString("\nOpen Scope Z_scope.\nOpen Scope list_scope.\n")
	fmt.Fprintf(&sb, "Definition cases : list %s := [\n", o.CaseType)
	for i, c := range o.cur {
		if i > 0 {
			sb.WriteString(";\n")
		}
		sb.WriteString("  ")
		sb.WriteString(c)
	}
	sb.WriteString("\n].\n")
	fmt.Fprintf(&sb, "Definition Mids := Eval vm_compute in %s cases.\nPrint Mids.\n", o.Mismatch)
	if err := os.WriteFile(filepath.Join(o.Dir, name+".v"), []byte(sb.String()), 0o644); err != nil {
		panic(err)
	}
	o.sum.Shards = append(o.sum.Shards, name+".v")
	o.cur = nil
}

// Close flushes the last shard and writes <sub>_summary.json.
func (o *Out) Close() {
	o.flush()
	o.jsonl.Close()
	b, _ := json.MarshalIndent(o.sum, "", " ")
	if err := os.WriteFile(filepath.Join(o.Dir, o.Sub+"_summary.json"), b, 0o644); err != nil {
		panic(err)
	}
}

// ---------------------------------------------------------------- common flags

// NoCoq is set by -nocoq: the failing-input search runs the monitors only.
var NoCoq bool

type Flags struct {
	Seed   uint64
	N      int
	Tier   string
	Out    string
	Replay string
}

func ParseFlags() Flags {
	var f Flags
	flag.Uint64Var(&f.Seed, "seed", 1, "PRNG seed (VERIF_SEED)")
	flag.IntVar(&f.N, "n", 0, "number of random cases (0 = tier default)")
	flag.StringVar(&f.Tier, "tier", "quick", "quick|thorough")
	flag.StringVar(&f.Out, "out", "", "output directory")
	flag.StringVar(&f.Replay, "replay", "", "replay file: run only the recorded case and print the comparison")
	flag.BoolVar(&NoCoq, "nocoq", false, "do not write Coq shards (failing-input search mode)")
	flag.Parse()
	if f.Out == "" && f.Replay == "" {
		fmt.Fprintln(os.Stderr, "need -out or -replay")
		os.Exit(2)
	}
	return f
}

// LoadReplayCase reads {"case": ...} from a replay file into v.
func LoadReplayCase(path string, v interface{}) {
	b, err := os.ReadFile(path)
	if err != nil {
		panic(err)
	}
	var w struct {
		Case json.RawMessage `json:"case"`
	}
	if err := json.Unmarshal(b, &w); err != nil {
		panic(err)
	}
	if err := json.Unmarshal(w.Case, v); err != nil {
		panic(err)
	}
}

func SortedKeys(m map[string]int) []string {
	ks := make([]string, 0, len(m))
	for k := range m {
		ks = append(ks, k)
	}
	sort.Strings(ks)
	return ks
}
