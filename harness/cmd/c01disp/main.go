// c01disp: the dispatcher contract the mailbox machine of C01 assumes — Dispatch(f) runs f EXACTLY ONCE — checked on the
// shipped dispatchers of engine/vivid/dispatcher in every configuration their constructors offer: goroutine; ants pool
// unbounded, bounded non-blocking (Submit fails when full, the dispatcher falls back to a goroutine), bounded BLOCKING (Submit
// parks the caller until a worker is free), sizes 1-4; with all workers occupied for 0-250 ms when the counted functions are
// handed over by 1-4 goroutines. A function that ran twice means two runners for one mailbox (overlapping handler
// invocations); one that never ran means a mailbox that is marked running and never served. Search oracle (monitors only).
package main

import (
	"encoding/json"
	"fmt"
	"os"
	"runtime"
	"sync"
	"sync/atomic"
	"time"

	"github.com/kercylan98/minotaur/engine/vivid/dispatcher"
	"github.com/panjf2000/ants/v2"
	"verif/harness/vh"
)

type Case struct {
	Kind     string `json:"kind"` // goroutine | ants
	Size     int    `json:"size"` // ants: pool size (0 = default, unbounded)
	Blocking bool   `json:"blocking"`
	BusyMs   int    `json:"busy_ms"` // every worker is occupied for this long when the counted functions arrive
	Callers  int    `json:"callers"`
	Funcs    int    `json:"funcs"` // counted functions per caller
	WorkUs   int    `json:"work_us"`
	// observed
	Twice, Never int
}

func build(c *Case) (dispatcher.Dispatcher, error) {
	if c.Kind == "goroutine" {
		return dispatcher.NewGoroutine(), nil
	}
	if c.Size == 0 {
		return dispatcher.NewAnts(ants.DefaultAntsPoolSize, ants.WithNonblocking(true))
	}
	return dispatcher.NewAnts(c.Size, ants.WithNonblocking(!c.Blocking))
}

func runCase(c *Case) (viol []vh.Violation) {
	add := func(kind, detail string) {
		viol = append(viol, vh.Violation{Kind: kind, Sig: map[string]string{"dispatcher": c.Kind, "blocking": fmt.Sprint(c.Blocking)},
			Detail: fmt.Sprintf("dispatcher=%s size=%d blocking=%v workers busy %d ms, %d callers x %d functions: %s", c.Kind, c.Size, c.Blocking, c.BusyMs, c.Callers, c.Funcs, detail)})
	}
	if runtime.GOMAXPROCS(0) < 4 {
		runtime.GOMAXPROCS(4)
	}
	d, err := build(c)
	if err != nil {
		add("C01:disp:harness", "cannot build the dispatcher: "+err.Error())
		return
	}
	// occupy the workers (a bounded pool: exactly its size; otherwise a few)
	nblock := c.Size
	if nblock == 0 {
		nblock = 4
	}
	release := make(chan struct{})
	var occupied sync.WaitGroup
	if c.BusyMs > 0 {
		occupied.Add(nblock)
		for i := 0; i < nblock; i++ {
			go d.Dispatch(func() { occupied.Done(); <-release })
		}
		ok := make(chan struct{})
		go func() { occupied.Wait(); close(ok) }()
		select {
		case <-ok:
		case <-time.After(5 * time.Second):
			close(release)
			add("C01:disp:harness", "the blockers did not start within 5 s")
			return
		}
	} else {
		close(release)
	}
	total := c.Callers * c.Funcs
	counts := make([]atomic.Int32, total)
	var callers sync.WaitGroup
	for k := 0; k < c.Callers; k++ {
		callers.Add(1)
		go func(k int) {
			defer callers.Done()
			for j := 0; j < c.Funcs; j++ {
				i := k*c.Funcs + j
				d.Dispatch(func() {
					counts[i].Add(1)
					if c.WorkUs > 0 {
						time.Sleep(time.Duration(c.WorkUs) * time.Microsecond)
					}
				})
			}
		}(k)
	}
	if c.BusyMs > 0 {
		time.Sleep(time.Duration(c.BusyMs) * time.Millisecond)
		close(release)
	}
	done := make(chan struct{})
	go func() { callers.Wait(); close(done) }()
	select {
	case <-done:
	case <-time.After(20 * time.Second):
		add("C01:disp:dispatch-blocks", "a caller was still inside Dispatch 20 s after every worker had been released")
		return
	}
	// everything has been handed over: wait until every function has run, then a little longer for a second run
	dl := time.Now().Add(10 * time.Second)
	for time.Now().Before(dl) {
		all := true
		for i := range counts {
			if counts[i].Load() == 0 {
				all = false
				break
			}
		}
		if all {
			break
		}
		time.Sleep(time.Millisecond)
	}
	time.Sleep(250 * time.Millisecond)
	var twice, never []int
	for i := range counts {
		switch n := counts[i].Load(); {
		case n == 0:
			never = append(never, i)
		case n > 1:
			twice = append(twice, i)
		}
	}
	c.Twice, c.Never = len(twice), len(never)
	if len(twice) > 0 {
		add("C01:disp:ran-twice", fmt.Sprintf("%d of %d functions handed to Dispatch ran more than once (first: #%d)", len(twice), total, twice[0]))
	}
	if len(never) > 0 {
		add("C01:disp:never-ran", fmt.Sprintf("%d of %d functions handed to Dispatch had not run 10 s after the workers were released (first: #%d)", len(never), total, never[0]))
	}
	return
}

func gen(rng *vh.RNG, tier string) []*Case {
	var cs []*Case
	reps := 1
	if tier == "thorough" {
		reps = 5
	}
	for r := 0; r < reps; r++ {
		for _, busy := range []int{0, 30, 150, 250} {
			cs = append(cs, &Case{Kind: "goroutine", BusyMs: busy, Callers: rng.Range(1, 4), Funcs: rng.Range(5, 40), WorkUs: rng.Intn(300)})
			cs = append(cs, &Case{Kind: "ants", Size: 0, BusyMs: busy, Callers: rng.Range(1, 4), Funcs: rng.Range(5, 40), WorkUs: rng.Intn(300)})
			for _, size := range []int{1, 2, 4} {
				for _, blocking := range []bool{false, true} {
					cs = append(cs, &Case{Kind: "ants", Size: size, Blocking: blocking, BusyMs: busy, Callers: rng.Range(1, 4), Funcs: rng.Range(5, 40), WorkUs: rng.Intn(300)})
				}
			}
		}
	}
	return cs
}

func main() {
	f := vh.ParseFlags()
	if f.Replay != "" {
		var c Case
		vh.LoadReplayCase(f.Replay, &c)
		var viol []vh.Violation
		for k := 0; k < 5 && len(viol) == 0; k++ {
			viol = runCase(&c)
		}
		b, _ := json.MarshalIndent(map[string]interface{}{"case": c, "monitor_hits": viol}, "", " ")
		fmt.Println(string(b))
		if len(viol) > 0 {
			os.Exit(1)
		}
		return
	}
	out := vh.NewOut(f.Out, "disp", "", "", "", f.Seed,
		"the shipped dispatchers in every configuration of their constructors (goroutine; ants unbounded / bounded non-blocking / bounded blocking, sizes 1, 2, 4), all workers occupied for 0 / 30 / 150 / 250 ms while 1-4 goroutines hand over 5-40 counted functions each; monitor: every function runs exactly once (never twice — two runners for one mailbox; never zero — a mailbox marked running and not served), no caller stays inside Dispatch once the workers are free; non-trivial = workers occupied for at least 150 ms; search oracle only (no model evaluation)")
	cases := gen(vh.NewRNG(f.Seed), f.Tier)
	if f.N > 0 && f.N < len(cases) {
		cases = cases[:f.N]
	}
	type job struct {
		c    *Case
		viol []vh.Violation
	}
	// the cases are independent and mostly sleep: run them eight at a time
	jobs := make([]job, len(cases))
	sem := make(chan struct{}, 8)
	var wg sync.WaitGroup
	for i, c := range cases {
		wg.Add(1)
		sem <- struct{}{}
		go func(i int, c *Case) {
			defer wg.Done()
			defer func() { <-sem }()
			jobs[i] = job{c, runCase(c)}
		}(i, c)
	}
	wg.Wait()
	for _, j := range jobs {
		out.Count("dispatcher", fmt.Sprintf("%s/size=%d/blocking=%v", j.c.Kind, j.c.Size, j.c.Blocking))
		out.Count("busy_ms", fmt.Sprint(j.c.BusyMs))
		out.Add(j.c, "", j.c.BusyMs >= 150, j.viol)
	}
	out.Close()
}
