package c08probe

import (
	"fmt"
	"reflect"
	"testing"
	"testing/synctest"
	"time"
	"unsafe"

	"github.com/RussellLuo/timingwheel"
	"github.com/kercylan98/minotaur/toolkit/chrono"
)

func emergencyStop(s *chrono.Scheduler) (err string) {
	defer func() {
		if e := recover(); e != nil {
			err = fmt.Sprint(e)
		}
	}()
	f := reflect.ValueOf(s).Elem().FieldByName("wheel")
	w := reflect.NewAt(f.Type(), unsafe.Pointer(f.UnsafeAddr())).Elem().Interface().(*timingwheel.TimingWheel)
	w.Stop()
	return ""
}

func TestProbe(t *testing.T) {
	synctest.Test(t, func(t *testing.T) {
		start := time.Now()
		rel := func() string { return fmt.Sprintf("%.3fms", float64(time.Since(start))/1e6) }
		fmt.Println("start", start.UTC(), start.UnixMilli()%7)
		time.Sleep(1500 * time.Microsecond)
		s := chrono.NewScheduler(10*time.Millisecond, 10)
		s.RegisterAfterTask("a", 25*time.Millisecond, func() { fmt.Println("a fires", rel()) })
		s.RegisterRepeatedTask("r", 15*time.Millisecond, 30*time.Millisecond, 3, func() { fmt.Println("r fires", rel()) })
		s.RegisterRepeatedTask("f", 0, 0, -1, func() { fmt.Println("f fires", rel()) })
		if err := s.RegisterCronTask("c", "* * * * * * *", func() { fmt.Println("c fires", rel()) }); err != nil {
			fmt.Println("cron err", err)
		}
		s.RegisterAfterTask("long", 2500*time.Millisecond, func() { fmt.Println("long fires", rel()) })
		time.Sleep(45 * time.Millisecond)
		synctest.Wait()
		func() {
			defer func() {
				if e := recover(); e != nil {
					fmt.Println("unregister f panicked:", e)
				}
			}()
			s.UnregisterTask("f")
		}()
		fmt.Println("tasks", s.GetRegisteredTasks())
		time.Sleep(3 * time.Second)
		synctest.Wait()
		func() {
			defer func() {
				if e := recover(); e != nil {
					fmt.Println("close panicked:", e)
					fmt.Println("emergency:", emergencyStop(s))
				}
			}()
			s.Close()
		}()
		fmt.Println("closed at", rel())
	})
}
