// c04esc: search oracle of properties C04 / C02 for the ORDER of the steps of ReportAbnormal against a supervisor that
// decides on another goroutine (real ActorSystem, real time, GOMAXPROCS >= 4). The lock-step harness klock runs the
// victim's whole failing step before the supervisor's, so it can never see the supervisor's Resume overtake the victim's
// own Suspend.
//
// The Coq machine MV.C04.EscModel executes "record ; suspend self ; hand the record over" in the order it is given against
// the supervisor's directive and proves (MV.C04.EscProofs, every interleaving) that with the suspension BEFORE the hand-over
// a Resume leaves the mailbox open; for "hand over, then suspend" it has the refuting schedule (Resume first, Suspend
// afterwards: suspended for ever). Tie T3 (harness/translate/c04esc) reads the order from the tree under test. This family
// looks for the lost resume on the REAL code:
//
//	2-8 supervisors, each with 4-24 workers whose supervision strategy answers EVERY accident with DirectiveResume
//	(OneForOne + FunctionalDecide, on the worker's descriptor); the supervisor's mailbox runs on the default (ants pool)
//	dispatcher — "pool": the decision is taken on another goroutine, truly in parallel — or on a calling-thread dispatcher
//	— "inline": the decision is taken as soon as the record reaches the supervisor's mailbox, on whichever goroutine
//	delivered it; 1-4 sender goroutines send serials 1..N to every worker (one sender per worker, round-robin over its
//	workers, so failures of siblings coincide); a worker fails on every k-th serial — by panicking, or by calling
//	ctx.ReportAbnormal and returning — while later serials are already queued behind the failing one.
//
// After the burst (quiescence: everything sent is handled or a dead letter, or no progress for 1.5 s) every worker must have
// handled exactly 1..N, in order, once each:
//
//	C04:esc:resume-lost                     a worker that is alive and was resumed by its supervisor (every accident decided) no longer
//	                                        takes messages — not even one sent later
//	C02:esc:message-stranded                the same observation as C02 reads it: serials neither handled nor dead letters (with the serials)
//	C02:esc:stranded-until-later-traffic    the missing serials were handled only after a later message arrived
//	C02:esc:duplicate / C02:esc:order       a serial handled twice (the failing message redelivered) / out of order
//	C02:esc:dead-letter-while-alive         a serial became a dead letter although no worker terminates in this family
//	C04:esc:user-message-before-decision    a worker handled a user message while its accident was not decided yet
//	C04:esc:failure-not-decided             an accident no supervisor ever decided (quiescent, nothing stranded)
//	C04:esc:worker-terminated-under-resume  a worker saw OnTerminate although every directive was Resume
//	C04:esc:shutdown-hangs                  Shutdown(true) did not return within 30 s (3 s when the case is a monitor hit already)
//
// Always on (quick: 12 cases, ~130 000 messages / ~55 000 accidents, 4-8 s; thorough 5x) and silent on the unchanged tree; the failing-input
// search of checks/c04.py / c02.py runs the thorough volume under fresh seeds when the tie is broken. The interleavings
// explored in the "pool" configurations are those the Go runtime happens to produce. A replay re-runs the configuration
// (up to 10 attempts).
package main

import (
	"encoding/json"
	"fmt"
	"io"
	"log/slog"
	"os"
	"runtime"
	"sort"
	"sync"
	"sync/atomic"
	"time"

	"github.com/kercylan98/minotaur/engine/prc"
	"github.com/kercylan98/minotaur/engine/vivid"
	"github.com/kercylan98/minotaur/engine/vivid/dispatcher"
	"github.com/kercylan98/minotaur/engine/vivid/supervision"
	"github.com/kercylan98/minotaur/toolkit/log"
	"verif/harness/vh"
)

type Case struct {
	Stress  string `json:"stress"`  // esc-resume
	Sup     string `json:"sup"`     // pool | inline   (dispatcher of the supervisors)
	Fail    string `json:"fail"`    // panic | report
	Parents int    `json:"parents"` // supervisors
	Workers int    `json:"workers"` // per supervisor
	Msgs    int    `json:"msgs"`    // serials per worker
	K       int    `json:"k"`       // every k-th serial fails
	Senders int    `json:"senders"`
	Oversub int    `json:"oversub"` // GOMAXPROCS = max(4, NumCPU) * oversub
	// observed
	Procs          int      `json:"procs"`
	Sent           int      `json:"sent"`
	Handled        int      `json:"handled"`
	Dead           int      `json:"dead_letters"`
	Failures       int      `json:"failures"`
	WithBacklog    int      `json:"failures_with_backlog"` // accidents with later serials already sent to the worker
	Decisions      int      `json:"decisions"`             // accidents decided (Resume) by a supervisor
	Stuck          int      `json:"stuck_workers"`
	StuckIdx       []int    `json:"stuck_idx,omitempty"`
	Stranded       int      `json:"stranded_messages"`
	StrandedSample []string `json:"stranded_sample,omitempty"`
	ProbeTaken     int      `json:"probes_taken"` // stuck workers that handled the message sent afterwards
	BeforeDecision int      `json:"handled_before_decision"`
	BurstMs        int      `json:"burst_ms"`
	SettleMs       int      `json:"settle_ms"`
	ShutdownMs     int      `json:"shutdown_ms"`
}

var silent = log.FunctionalLoggerProvider(func() *log.Logger {
	return slog.New(slog.NewTextHandler(io.Discard, &slog.HandlerOptions{Level: slog.Level(100)}))
})

// callerRuns runs a mailbox on the goroutine that woke it up
type callerRuns struct{}

func (callerRuns) Dispatch(f func()) { f() }

type work struct {
	W      int
	Serial int
}
type probe struct{ W int }
type spawnCmd struct{ lo, hi int }

type wcell struct {
	mu         sync.Mutex
	got        []int32
	sent       atomic.Int32 // serials handed to Tell so far
	pending    atomic.Int32 // 1: an accident of this worker is not decided yet
	early      atomic.Int32 // user messages handled while pending
	probed     atomic.Int32
	terminated atomic.Int32
	_          [24]byte
}

// recording dead-letter process (public API: WithAbyss)
type recAbyss struct {
	n     atomic.Int64
	mu    sync.Mutex
	perW  map[int][]int
	probe atomic.Int64
}

func (a *recAbyss) OnInitialize(system *vivid.ActorSystem)                      {}
func (a *recAbyss) Initialize(rc *prc.ResourceController, id *prc.ProcessId)    {}
func (a *recAbyss) IsTerminated() bool                                          { return false }
func (a *recAbyss) Terminate(source *prc.ProcessId)                             {}
func (a *recAbyss) DeliverySystemMessage(r, s, f *prc.ProcessId, m prc.Message) {}
func (a *recAbyss) DeliveryUserMessage(r, s, f *prc.ProcessId, message prc.Message) {
	if w, ok := message.(*prc.MessageWrapper); ok {
		message = w.Message
	}
	switch m := message.(type) {
	case *work:
		a.n.Add(1)
		a.mu.Lock()
		a.perW[m.W] = append(a.perW[m.W], m.Serial)
		a.mu.Unlock()
	case *probe:
		a.probe.Add(1)
	}
}

func ranges(xs []int) string {
	sort.Ints(xs)
	s := ""
	for i := 0; i < len(xs); {
		j := i
		for j+1 < len(xs) && xs[j+1] == xs[j]+1 {
			j++
		}
		if s != "" {
			s += ","
		}
		if j > i {
			s += fmt.Sprintf("%d-%d", xs[i], xs[j])
		} else {
			s += fmt.Sprint(xs[i])
		}
		i = j + 1
	}
	return s
}

func runCase(c *Case) (viol []vh.Violation) {
	sig := map[string]string{"sup": c.Sup, "fail": c.Fail}
	add := func(kind, detail string) {
		for _, v := range viol {
			if v.Kind == kind {
				return
			}
		}
		viol = append(viol, vh.Violation{Kind: kind, Sig: sig,
			Detail: fmt.Sprintf("esc-resume sup=%s fail=%s supervisors=%d workers=%d msgs=%d k=%d senders=%d GOMAXPROCS=%d: %s",
				c.Sup, c.Fail, c.Parents, c.Workers, c.Msgs, c.K, c.Senders, c.Procs, detail)})
	}
	c.Sent, c.Handled, c.Dead, c.Failures, c.WithBacklog, c.Decisions, c.Stuck, c.StuckIdx, c.Stranded, c.StrandedSample, c.ProbeTaken, c.BeforeDecision = 0, 0, 0, 0, 0, 0, 0, nil, 0, nil, 0, 0
	procs := runtime.NumCPU()
	if procs < 4 {
		procs = 4 // the slip needs the supervisor to run beside the failing actor
	}
	if c.Oversub > 1 {
		procs *= c.Oversub
	}
	runtime.GOMAXPROCS(procs)
	c.Procs = procs

	ab := &recAbyss{perW: map[int][]int{}}
	sys := vivid.NewActorSystem(vivid.FunctionalActorSystemConfigurator(func(cfg *vivid.ActorSystemConfiguration) {
		cfg.WithLoggerProvider(silent)
		cfg.WithAbyss(ab)
	}))
	nw := c.Parents * c.Workers
	cells := make([]wcell, nw)
	refs := make([]vivid.ActorRef, nw)
	var handled, failures, backlog, decisions atomic.Int64

	resumeAlways := supervision.FunctionalStrategyProvider(func() supervision.Strategy {
		return supervision.OneForOne(-1, 0, 0, supervision.FunctionalDecide(func(record *supervision.AccidentRecord) supervision.Directive {
			if m, ok := record.Message.(*work); ok {
				cells[m.W].pending.Store(0)
			}
			decisions.Add(1)
			return supervision.DirectiveResume
		}))
	})
	worker := func(i int) vivid.FunctionalActorProvider {
		return func() vivid.Actor {
			return vivid.FunctionalActor(func(ctx vivid.ActorContext) {
				x := &cells[i]
				switch m := ctx.Message().(type) {
				case *work:
					if x.pending.Load() != 0 {
						x.early.Add(1)
					}
					x.mu.Lock()
					x.got = append(x.got, int32(m.Serial))
					x.mu.Unlock()
					handled.Add(1)
					if m.Serial%c.K == 0 {
						failures.Add(1)
						if int(x.sent.Load()) > m.Serial {
							backlog.Add(1)
						}
						x.pending.Store(1)
						if c.Fail == "panic" {
							panic("c04esc: scripted failure")
						}
						ctx.ReportAbnormal("c04esc: scripted failure")
					}
				case *probe:
					x.probed.Add(1)
				case *vivid.OnTerminate:
					x.terminated.Add(1)
				}
			})
		}
	}
	var spawned sync.WaitGroup
	spawned.Add(c.Parents)
	for p := 0; p < c.Parents; p++ {
		pr := sys.ActorOfF(func() vivid.Actor {
			return vivid.FunctionalActor(func(ctx vivid.ActorContext) {
				if m, ok := ctx.Message().(spawnCmd); ok {
					for i := m.lo; i < m.hi; i++ {
						refs[i] = ctx.ActorOfF(worker(i), func(d *vivid.ActorDescriptor) { d.WithSupervisionStrategyProvider(resumeAlways) })
					}
					spawned.Done()
				}
			})
		}, func(d *vivid.ActorDescriptor) {
			if c.Sup == "inline" {
				d.WithDispatcherProvider(vivid.FunctionalDispatcherProvider(func() dispatcher.Dispatcher { return callerRuns{} }))
			}
		})
		sys.Tell(pr, spawnCmd{lo: p * c.Workers, hi: (p + 1) * c.Workers})
	}
	wait := func(wg *sync.WaitGroup, limit time.Duration) bool {
		ch := make(chan struct{})
		go func() { wg.Wait(); close(ch) }()
		select {
		case <-ch:
			return true
		case <-time.After(limit):
			return false
		}
	}
	shutdown := func() {
		t0 := time.Now()
		limit := 30 * time.Second
		if len(viol) > 0 {
			limit = 3 * time.Second // the case is a monitor hit already: do not spend the search budget on a system that is stuck
		}
		sd := make(chan struct{})
		go func() { defer close(sd); defer func() { _ = recover() }(); sys.Shutdown(true) }()
		select {
		case <-sd:
		case <-time.After(limit):
			add("C04:esc:shutdown-hangs", fmt.Sprintf("Shutdown(true) did not return within %v", limit))
		}
		c.ShutdownMs = int(time.Since(t0) / time.Millisecond)
	}
	if !wait(&spawned, 30*time.Second) {
		add("C04:esc:harness-timeout", "the supervisors did not finish spawning within 30 s")
		shutdown()
		return viol
	}

	// ---- burst: sender s owns the workers i with i % Senders == s and walks them round-robin, serial by serial
	t0 := time.Now()
	var senders sync.WaitGroup
	for s := 0; s < c.Senders; s++ {
		senders.Add(1)
		go func(s int) {
			defer senders.Done()
			for serial := 1; serial <= c.Msgs; serial++ {
				for i := s; i < nw; i += c.Senders {
					sys.Tell(refs[i], &work{W: i, Serial: serial})
					cells[i].sent.Store(int32(serial))
				}
			}
		}(s)
	}
	senders.Wait()
	c.Sent = nw * c.Msgs
	c.BurstMs = int(time.Since(t0) / time.Millisecond)

	// ---- quiescence
	t1 := time.Now()
	last, lastAt := int64(-1), time.Now()
	for {
		n := handled.Load() + ab.n.Load()
		if n >= int64(c.Sent) {
			break
		}
		if n != last {
			last, lastAt = n, time.Now()
		} else if time.Since(lastAt) > 1500*time.Millisecond || time.Since(t1) > 60*time.Second {
			break
		}
		time.Sleep(time.Millisecond)
	}
	time.Sleep(20 * time.Millisecond)
	c.SettleMs = int(time.Since(t1) / time.Millisecond)

	// ---- verdict
	type miss struct {
		w       int
		serials []int
		upto    int
	}
	var missing []miss
	dup, ooo := "", ""
	for i := range cells {
		x := &cells[i]
		x.mu.Lock()
		got := append([]int32{}, x.got...)
		x.mu.Unlock()
		seen := make([]int8, c.Msgs+1)
		prev := int32(0)
		for _, g := range got {
			if g < 1 || int(g) > c.Msgs {
				continue
			}
			if seen[g] > 0 && dup == "" {
				dup = fmt.Sprintf("worker %d handled serial %d twice (handled: … %v)", i, g, tail(got, 6))
			}
			seen[g]++
			if g < prev && ooo == "" {
				ooo = fmt.Sprintf("worker %d handled serial %d after serial %d (one sender, sent in increasing order)", i, g, prev)
			}
			prev = g
		}
		ab.mu.Lock()
		for _, d := range ab.perW[i] {
			if d >= 1 && d <= c.Msgs {
				seen[d]++
			}
		}
		ab.mu.Unlock()
		var ms []int
		for s := 1; s <= c.Msgs; s++ {
			if seen[s] == 0 {
				ms = append(ms, s)
			}
		}
		if len(ms) > 0 {
			missing = append(missing, miss{w: i, serials: ms, upto: int(prev)})
		}
		c.BeforeDecision += int(x.early.Load())
		if x.terminated.Load() > 0 {
			add("C04:esc:worker-terminated-under-resume", fmt.Sprintf("worker %d handled OnTerminate although every accident was answered with DirectiveResume", i))
		}
	}
	c.Handled, c.Dead = int(handled.Load()), int(ab.n.Load())
	c.Failures, c.WithBacklog, c.Decisions = int(failures.Load()), int(backlog.Load()), int(decisions.Load())
	if dup != "" {
		add("C02:esc:duplicate", dup)
	}
	if ooo != "" {
		add("C02:esc:order", ooo)
	}
	if c.Dead > 0 {
		add("C02:esc:dead-letter-while-alive", fmt.Sprintf("%d serials became dead letters although no worker terminates in this family", c.Dead))
	}
	if c.BeforeDecision > 0 {
		add("C04:esc:user-message-before-decision", fmt.Sprintf("%d user messages were handled by a worker whose accident no supervisor had decided yet", c.BeforeDecision))
	}
	if len(missing) > 0 {
		// later traffic: one more message to every worker that is behind
		for _, m := range missing {
			sys.Tell(refs[m.w], &probe{W: m.w})
		}
		time.Sleep(300 * time.Millisecond)
		flushed := 0
		for _, m := range missing {
			c.Stranded += len(m.serials)
			if len(c.StrandedSample) < 6 {
				c.StrandedSample = append(c.StrandedSample, fmt.Sprintf("worker %d: handled up to serial %d, stranded %s", m.w, m.upto, ranges(m.serials)))
			}
			x := &cells[m.w]
			if x.probed.Load() > 0 {
				c.ProbeTaken++
				x.mu.Lock()
				if len(x.got) >= c.Msgs {
					flushed++
				}
				x.mu.Unlock()
				continue
			}
			c.Stuck++
			if len(c.StuckIdx) < 8 {
				c.StuckIdx = append(c.StuckIdx, m.w)
			}
		}
		undecided := 0
		for _, m := range missing {
			if cells[m.w].pending.Load() != 0 {
				undecided++
			}
		}
		add("C02:esc:message-stranded", fmt.Sprintf("%d serials sent to %d live workers were neither handled nor dead letters %d ms after the last progress (%d handled + %d dead letters of %d sent): %v",
			c.Stranded, len(missing), 1500, c.Handled, c.Dead, c.Sent, c.StrandedSample))
		if c.Stuck > 0 {
			add("C04:esc:resume-lost", fmt.Sprintf("%d of %d workers are alive but no longer take messages — not even one sent 300 ms ago — although their supervisor answered every accident with Resume (%d accidents, %d decided, %d of the stuck workers with an undecided accident): the directive did not lift the suspension; e.g. %v",
				c.Stuck, nw, c.Failures, c.Decisions, undecided, c.StrandedSample))
		}
		if flushed > 0 {
			add("C02:esc:stranded-until-later-traffic", fmt.Sprintf("%d workers handled their stranded serials only after a later message arrived", flushed))
		}
	} else if c.Failures > c.Decisions {
		add("C04:esc:failure-not-decided", fmt.Sprintf("%d accidents, only %d decided by a supervisor (system quiescent, nothing stranded)", c.Failures, c.Decisions))
	}
	shutdown()
	return viol
}

func tail(xs []int32, n int) []int32 {
	if len(xs) > n {
		return xs[len(xs)-n:]
	}
	return xs
}

func gen(rng *vh.RNG, tier string) []*Case {
	rounds := 3 // 12 cases
	if tier == "thorough" {
		rounds = 15
	}
	var cs []*Case
	for r := 0; r < rounds; r++ {
		for _, sup := range []string{"pool", "inline"} {
			for _, fl := range []string{"panic", "report"} {
				c := &Case{Stress: "esc-resume", Sup: sup, Fail: fl, Parents: []int{2, 4, 8}[rng.Intn(3)], Workers: rng.Range(4, 24),
					K: []int{1, 2, 3, 5, 8}[rng.Intn(5)], Senders: rng.Range(1, 4), Oversub: []int{1, 1, 4}[rng.Intn(3)]}
				// volume per case: <= 16 000 messages, <= 4 000 (panic: the recover path is slow) / 8 000 (report) accidents
				nw, maxAcc := c.Parents*c.Workers, 8000
				if fl == "panic" {
					maxAcc = 4000
				}
				c.Msgs = 400
				for _, lim := range []int{16000 / nw, maxAcc * c.K / nw} {
					if c.Msgs > lim {
						c.Msgs = lim
					}
				}
				if c.Msgs < 3*c.K {
					c.Msgs = 3 * c.K
				}
				cs = append(cs, c)
			}
		}
	}
	return cs
}

func main() {
	f := vh.ParseFlags()
	if f.Replay != "" {
		var c Case
		vh.LoadReplayCase(f.Replay, &c)
		var viol []vh.Violation
		attempts := 0
		for attempts < 10 && len(viol) == 0 {
			viol = runCase(&c)
			attempts++
		}
		b, _ := json.MarshalIndent(map[string]interface{}{"case": c, "monitor_hits": viol, "attempts": attempts}, "", " ")
		fmt.Println(string(b))
		if len(viol) > 0 {
			os.Exit(1)
		}
		return
	}
	out := vh.NewOut(f.Out, "esc", "", "", "", f.Seed,
		"real ActorSystem, real time, GOMAXPROCS>=4: 2-8 supervisors (default pool dispatcher or calling-thread dispatcher) x 4-24 workers whose strategy answers every accident with Resume; 1-4 senders send serials 1..N to every worker, every k-th serial fails (panic / ReportAbnormal) with later serials queued behind; monitor: after quiescence every worker has handled exactly 1..N in order (stranded / resume lost / duplicate / order / dead letter / handled before the decision / accident never decided), Shutdown returns; non-trivial = GOMAXPROCS>=4, >= 100 accidents, >= 50% of them with later serials already sent; search oracle only (no model evaluation): the pool interleavings are the Go runtime's")
	cases := gen(vh.NewRNG(f.Seed), f.Tier)
	if f.N > 0 && f.N < len(cases) {
		cases = cases[:f.N]
	}
	violating := 0
	for _, c := range cases {
		if violating >= 2 {
			out.Count("skipped_after_two_violating_cases", c.Sup+"/"+c.Fail)
			continue
		}
		viol := runCase(c)
		if len(viol) > 0 {
			violating++
		}
		out.Count("supervisor_dispatcher", c.Sup)
		out.Count("failure", c.Fail)
		out.Count("shape", fmt.Sprintf("%dx%d", c.Parents, c.Workers))
		out.Count("k", fmt.Sprint(c.K))
		out.Count("senders", fmt.Sprint(c.Senders))
		out.Count("gomaxprocs", fmt.Sprint(c.Procs))
		out.Count("burst_ms", vh.Bucket(c.BurstMs))
		out.Count("settle_ms", vh.Bucket(c.SettleMs))
		out.Count("shutdown_ms", vh.Bucket(c.ShutdownMs))
		out.Count("stuck_workers", vh.Bucket(c.Stuck))
		for k, n := range map[string]int{"messages_sent": c.Sent, "messages_handled": c.Handled, "accidents": c.Failures, "accidents_with_backlog": c.WithBacklog,
			"accidents_decided_resume": c.Decisions, "messages_stranded": c.Stranded, "dead_letters": c.Dead} {
			for i := 0; i < n; i += 1000 { // in thousands (rounded up)
				out.Count("volume_thousands", k)
			}
		}
		out.Add(c, "", c.Procs >= 4 && c.Failures >= 100 && c.WithBacklog*2 >= c.Failures, viol)
	}
	out.Close()
}
