package main

import (
	"github.com/kercylan98/minotaur/toolkit/collection"
)

func r1(v Val) []Val { return []Val{v} }

func registerSlices() {
	eq0 := cmpk(0)

	// ------------------------------------------------------------ duplicate.go
	reg("DeduplicateSliceInPlace", "s", 1, func(c *cx) []Val {
		p := c.S(0)
		collection.DeduplicateSliceInPlace(&p)
		return r1(VL(c.out(p)))
	}, func(a, res, aft []Val) []hit { return dedupLaw(a[0].slice(), res[0].L, eq0) }).ip()
	reg("DeduplicateSlice", "s", 1, func(c *cx) []Val {
		return r1(VL(c.out(collection.DeduplicateSlice(c.S(0)))))
	}, func(a, res, aft []Val) []hit { return dedupLaw(a[0].slice(), res[0].L, eq0) }).returnsArg() // len < 2: "return s"
	reg("DeduplicateSliceInPlaceWithCompare", "s,k", 1, func(c *cx) []Val {
		p := c.S(0)
		collection.DeduplicateSliceInPlaceWithCompare(&p, cmpk(c.Z(1)))
		return r1(VL(c.out(p)))
	}, func(a, res, aft []Val) []hit { return dedupLaw(a[0].slice(), res[0].L, cmpk(a[1].Z)) }).ip()
	reg("DeduplicateSliceWithCompare", "s,k", 1, func(c *cx) []Val {
		return r1(VL(c.out(collection.DeduplicateSliceWithCompare(c.S(0), cmpk(c.Z(1))))))
	}, func(a, res, aft []Val) []hit { return dedupLaw(a[0].slice(), res[0].L, cmpk(a[1].Z)) }).returnsArg() // len < 2: "return s"

	// ------------------------------------------------------------ sort.go
	reg("Asc", "s,g01", 1, func(c *cx) []Val {
		p, key := c.S(0), keyk(c.Z(1))
		collection.Asc(&p, func(i int) int64 { return key(p[i]) })
		return r1(VL(c.out(p)))
	}, func(a, res, aft []Val) []hit { return sortLaw(a[0].slice(), res[0].L, keyk(a[1].Z), false) }).ip()
	reg("Desc", "s,g01", 1, func(c *cx) []Val {
		p, key := c.S(0), keyk(c.Z(1))
		collection.Desc(&p, func(i int) int64 { return key(p[i]) })
		return r1(VL(c.out(p)))
	}, func(a, res, aft []Val) []hit { return sortLaw(a[0].slice(), res[0].L, keyk(a[1].Z), true) }).ip()
	// the getter of the copying variants is addressed by indices of the argument (as in the package's examples)
	reg("AscByClone", "s,g", 1, func(c *cx) []Val {
		s, key := c.S(0), keyk(c.Z(1))
		return r1(VL(c.out(collection.AscByClone(s, func(i int) int64 { return key(s[i]) }))))
	}, func(a, res, aft []Val) []hit { return sortLaw(a[0].slice(), res[0].L, keyk(a[1].Z), false) })
	reg("DescByClone", "s,g", 1, func(c *cx) []Val {
		s, key := c.S(0), keyk(c.Z(1))
		return r1(VL(c.out(collection.DescByClone(s, func(i int) int64 { return key(s[i]) }))))
	}, func(a, res, aft []Val) []hit { return sortLaw(a[0].slice(), res[0].L, keyk(a[1].Z), true) })
	reg("AscBy", "z,z", 1, func(c *cx) []Val { return r1(VB(collection.AscBy(c.Z(0), c.Z(1)))) },
		func(a, res, aft []Val) []hit { return expectB(res[0], a[0].Z < a[1].Z, "wrong-result") })
	reg("DescBy", "z,z", 1, func(c *cx) []Val { return r1(VB(collection.DescBy(c.Z(0), c.Z(1)))) },
		func(a, res, aft []Val) []hit { return expectB(res[0], a[0].Z > a[1].Z, "wrong-result") })
	permLaw := func(a, res, aft []Val) []hit {
		if !sameMultiset(a[0].slice(), a[1].L) {
			return one("not-a-permutation", "input %v result %v", a[0].L, a[1].L)
		}
		return nil
	}
	reg("Shuffle", "s", 1, func(c *cx) []Val {
		p := c.matS(0) // not re-read as an argument: the permutation is handed to the law as the oracle argument
		collection.Shuffle(&p)
		c.out(p)
		c.a = append(c.a[:1:1], VL(p))
		c.live = append(c.live[:1:1], nil)
		return r1(VB(true))
	}, permLaw).orc().ip()
	reg("ShuffleByClone", "s", 1, func(c *cx) []Val {
		r := c.out(collection.ShuffleByClone(c.S(0)))
		c.a = append(c.a[:1:1], VL(r))
		c.live = append(c.live[:1:1], nil)
		return r1(VB(true))
	}, permLaw).orc()

	// ------------------------------------------------------------ drop.go
	reg("ClearSlice", "s", 1, func(c *cx) []Val {
		p := c.S(0)
		collection.ClearSlice(&p)
		return r1(VL(c.out(p)))
	}, func(a, res, aft []Val) []hit { return expectL(res[0], []int64{}, "not-empty") }).ip()
	reg("DropSliceByIndices", "s,idx", 1, func(c *cx) []Val {
		p := c.S(0)
		collection.DropSliceByIndices(&p, c.Ints(1)...)
		return r1(VL(c.out(p)))
	}, func(a, res, aft []Val) []hit {
		return expectL(res[0], keepWhere(a[0].slice(), func(i int, v int64) bool { return !hasIdx(a[1].L, i) }), "wrong-elements")
	}).ip()
	reg("DropSliceByCondition", "s,p", 1, func(c *cx) []Val {
		p := c.S(0)
		collection.DropSliceByCondition(&p, predk(c.Z(1), c.Z(2)))
		return r1(VL(c.out(p)))
	}, func(a, res, aft []Val) []hit {
		cond := predk(a[1].Z, a[2].Z)
		return expectL(res[0], keepWhere(a[0].slice(), func(i int, v int64) bool { return !cond(v) }), "wrong-elements")
	}).ip()
	reg("DropSliceOverlappingElements", "s,t,k", 1, func(c *cx) []Val {
		p := c.S(0)
		collection.DropSliceOverlappingElements(&p, c.S(1), cmpk(c.Z(2)))
		return r1(VL(c.out(p)))
	}, func(a, res, aft []Val) []hit {
		eq, t := cmpk(a[2].Z), a[1].slice()
		return expectL(res[0], keepWhere(a[0].slice(), func(i int, v int64) bool { return !member(t, v, eq) }), "wrong-elements")
	}).ip()

	// ------------------------------------------------------------ filter.go
	reg("FilterOutByIndices", "s,idx", 1, func(c *cx) []Val {
		return r1(VL(c.out(collection.FilterOutByIndices(c.S(0), c.Ints(1)...))))
	}, func(a, res, aft []Val) []hit {
		return expectL(res[0], keepWhere(a[0].slice(), func(i int, v int64) bool { return !hasIdx(a[1].L, i) }), "wrong-elements")
	}).returnsArg() // nothing to filter out: "return slice"
	reg("FilterOutByCondition", "s,p", 1, func(c *cx) []Val {
		return r1(VL(c.out(collection.FilterOutByCondition(c.S(0), predk(c.Z(1), c.Z(2))))))
	}, func(a, res, aft []Val) []hit {
		cond := predk(a[1].Z, a[2].Z)
		return expectL(res[0], keepWhere(a[0].slice(), func(i int, v int64) bool { return !cond(v) }), "wrong-elements")
	})

	// ------------------------------------------------------------ merge.go, clone.go
	reg("MergeSlice", "s", 1, func(c *cx) []Val { return r1(VL(c.out(collection.MergeSlice(c.S(0)...)))) },
		func(a, res, aft []Val) []hit { return expectL(res[0], a[0].L, "wrong-elements") })
	reg("MergeSlices", "ss", 1, func(c *cx) []Val { return r1(VL(c.out(collection.MergeSlices(c.SS(0)...)))) },
		func(a, res, aft []Val) []hit { return expectL(res[0], concat(a[0].LL), "wrong-elements") })
	reg("CloneSlice", "s", 1, func(c *cx) []Val {
		r := c.out(collection.CloneSlice(c.S(0)))
		v := VL(r)
		for i := range r { // a clone must not share storage with its source
			r[i] += 1000
		}
		return r1(v)
	}, func(a, res, aft []Val) []hit { return expectL(res[0], a[0].L, "wrong-elements") })
	reg("CloneSliceN", "s,n", 1, func(c *cx) []Val {
		r := c.outLL(collection.CloneSliceN(c.S(0), c.I(1)))
		v := VLL(r)
		for _, x := range r {
			for i := range x {
				x[i] += 1000
			}
		}
		return r1(v)
	}, func(a, res, aft []Val) []hit {
		want := [][]int64{}
		if a[0].T != "N" {
			for i := int64(0); i < a[1].Z; i++ {
				want = append(want, a[0].L)
			}
		}
		return expectLL(res[0], want, "wrong-elements")
	})
	reg("CloneSlices", "ss", 1, func(c *cx) []Val {
		r := c.outLL(collection.CloneSlices(c.SS(0)...))
		v := VLL(r)
		for _, x := range r {
			for i := range x {
				x[i] += 1000
			}
		}
		return r1(v)
	}, func(a, res, aft []Val) []hit { return expectLL(res[0], a[0].LL, "wrong-elements") })

	// ------------------------------------------------------------ convert.go
	reg("ConvertSliceToBatches", "s,nb", 1, func(c *cx) []Val {
		return r1(VLL(c.outLL(collection.ConvertSliceToBatches(c.S(0), c.I(1)))))
	}, func(a, res, aft []Val) []hit {
		s, n, got := a[0].slice(), a[1].Z, res[0].LL
		if len(s) == 0 || n <= 0 {
			return expectLL(res[0], [][]int64{}, "not-empty")
		}
		if !eqL(concat(got), s) {
			return one("concat-differs", "batches %v do not concatenate to %v", got, s)
		}
		for i, b := range got {
			if len(b) == 0 || int64(len(b)) > n {
				return one("batch-size", "batch #%d of %v has size %d, limit %d", i, got, len(b), n)
			}
			if i < len(got)-1 && int64(len(b)) != n {
				return one("batch-size", "batch #%d of %v is not full (limit %d)", i, got, n)
			}
		}
		return nil
	}).subSlices() // "batches = append(batches, s[i:end])"
	reg("ConvertSliceToAny", "s", 1, func(c *cx) []Val {
		r := collection.ConvertSliceToAny(c.S(0))
		regOut(c, "the result", r)
		l := make([]int64, len(r))
		for i, x := range r {
			v, ok := x.(int64)
			if !ok {
				return r1(VX("not an int64"))
			}
			l[i] = v
		}
		return r1(VL(l))
	}, func(a, res, aft []Val) []hit { return expectL(res[0], a[0].L, "wrong-elements") })
	reg("ConvertSliceToIndexMap", "s", 1, func(c *cx) []Val {
		m := map[int64]int64{}
		for k, v := range collection.ConvertSliceToIndexMap(c.S(0)) {
			m[int64(k)] = v
		}
		return r1(VM(m))
	}, func(a, res, aft []Val) []hit {
		want := map[int64]int64{}
		for i, v := range a[0].L {
			want[int64(i)] = v
		}
		return expectM(res[0], want, "wrong-entries")
	})
	reg("ConvertSliceToIndexOnlyMap", "s", 1, func(c *cx) []Val {
		m := map[int64]int64{}
		for k := range collection.ConvertSliceToIndexOnlyMap(c.S(0)) {
			m[int64(k)] = 0
		}
		return r1(VL(keysOf(m)))
	}, func(a, res, aft []Val) []hit {
		want := []int64{}
		for i := range a[0].L {
			want = append(want, int64(i))
		}
		return expectL(res[0], want, "wrong-keys")
	})
	reg("ConvertSliceToMap", "s", 1, func(c *cx) []Val {
		m := map[int64]int64{}
		for k := range collection.ConvertSliceToMap(c.S(0)) {
			m[k] = 0
		}
		return r1(VL(keysOf(m)))
	}, func(a, res, aft []Val) []hit {
		return expectL(res[0], sortedCopy(firstOccurrences(a[0].L, eq0)), "wrong-keys")
	})
	reg("ConvertSliceToBoolMap", "s", 1, func(c *cx) []Val {
		m := map[int64]int64{}
		for k, b := range collection.ConvertSliceToBoolMap(c.S(0)) {
			if b {
				m[k] = 1
			} else {
				m[k] = 0
			}
		}
		return r1(VM(m))
	}, func(a, res, aft []Val) []hit {
		want := map[int64]int64{}
		for _, v := range a[0].L {
			want[v] = 1
		}
		return expectM(res[0], want, "wrong-entries")
	})
	reg("ReverseSlice", "s", 1, func(c *cx) []Val {
		p := c.S(0)
		collection.ReverseSlice(&p)
		return r1(VL(c.out(p)))
	}, func(a, res, aft []Val) []hit {
		if h := expectL(res[0], reversed(a[0].L), "not-reversed"); h != nil {
			return h
		}
		p := append([]int64{}, res[0].L...)
		collection.ReverseSlice(&p)
		if !eqL(p, a[0].L) {
			return one("not-involutive", "reversing %v again gives %v, expected %v", res[0].L, p, a[0].L)
		}
		return nil
	}).ip()

	// ------------------------------------------------------------ contains.go (slices)
	equalLaw := func(f func(s, t []int64) bool, eq func(a []Val) func(x, y int64) bool) func(a, res, aft []Val) []hit {
		return func(a, res, aft []Val) []hit {
			s, t, e := a[0].slice(), a[1].slice(), eq(a)
			want := len(s) == len(t)
			for i := 0; want && i < len(s); i++ {
				want = e(s[i], t[i])
			}
			if h := expectB(res[0], want, "wrong-verdict"); h != nil {
				return h
			}
			if f(t, s) != res[0].B {
				return one("not-symmetric", "(s,t) gives %v, (t,s) gives %v", res[0].B, !res[0].B)
			}
			if !f(s, s) || !f(t, t) {
				return one("not-reflexive", "a slice is reported different from itself")
			}
			return nil
		}
	}
	reg("EqualSlice", "s,t,k", 1, func(c *cx) []Val {
		return r1(VB(collection.EqualSlice(c.S(0), c.S(1), cmpk(c.Z(2)))))
	}, func(a, res, aft []Val) []hit {
		return equalLaw(func(s, t []int64) bool { return collection.EqualSlice(s, t, cmpk(a[2].Z)) },
			func(a []Val) func(x, y int64) bool { return cmpk(a[2].Z) })(a, res, aft)
	})
	reg("EqualComparableSlice", "s,t", 1, func(c *cx) []Val {
		return r1(VB(collection.EqualComparableSlice(c.S(0), c.S(1))))
	}, equalLaw(func(s, t []int64) bool { return collection.EqualComparableSlice(s, t) },
		func(a []Val) func(x, y int64) bool { return eq0 }))

	allIn := func(s, vs []int64, eq func(a, b int64) bool) bool { // as documented + as pinned by the tests: empty slice => false
		if len(s) == 0 {
			return false
		}
		for _, v := range vs {
			if !member(s, v, eq) {
				return false
			}
		}
		return true
	}
	anyIn := func(s, vs []int64, eq func(a, b int64) bool) bool {
		for _, v := range vs {
			if member(s, v, eq) {
				return true
			}
		}
		return false
	}
	reg("InSlice", "s,v,k", 1, func(c *cx) []Val { return r1(VB(collection.InSlice(c.S(0), c.Z(1), cmpk(c.Z(2))))) },
		func(a, res, aft []Val) []hit {
			return expectB(res[0], member(a[0].L, a[1].Z, cmpk(a[2].Z)), "wrong-verdict")
		})
	reg("InComparableSlice", "s,v", 1, func(c *cx) []Val { return r1(VB(collection.InComparableSlice(c.S(0), c.Z(1)))) },
		func(a, res, aft []Val) []hit { return expectB(res[0], member(a[0].L, a[1].Z, eq0), "wrong-verdict") })
	reg("AllInSlice", "s,t,k", 1, func(c *cx) []Val { return r1(VB(collection.AllInSlice(c.S(0), c.S(1), cmpk(c.Z(2))))) },
		func(a, res, aft []Val) []hit {
			return expectB(res[0], allIn(a[0].L, a[1].L, cmpk(a[2].Z)), "wrong-verdict")
		})
	reg("AllInComparableSlice", "s,t", 1, func(c *cx) []Val { return r1(VB(collection.AllInComparableSlice(c.S(0), c.S(1)))) },
		func(a, res, aft []Val) []hit { return expectB(res[0], allIn(a[0].L, a[1].L, eq0), "wrong-verdict") })
	reg("AnyInSlice", "s,t,k", 1, func(c *cx) []Val { return r1(VB(collection.AnyInSlice(c.S(0), c.S(1), cmpk(c.Z(2))))) },
		func(a, res, aft []Val) []hit {
			return expectB(res[0], anyIn(a[0].L, a[1].L, cmpk(a[2].Z)), "wrong-verdict")
		})
	reg("AnyInComparableSlice", "s,t", 1, func(c *cx) []Val { return r1(VB(collection.AnyInComparableSlice(c.S(0), c.S(1)))) },
		func(a, res, aft []Val) []hit { return expectB(res[0], anyIn(a[0].L, a[1].L, eq0), "wrong-verdict") })
	reg("InSlices", "ss,v,k", 1, func(c *cx) []Val { return r1(VB(collection.InSlices(c.SS(0), c.Z(1), cmpk(c.Z(2))))) },
		func(a, res, aft []Val) []hit {
			return expectB(res[0], member(concat(a[0].LL), a[1].Z, cmpk(a[2].Z)), "wrong-verdict")
		})
	reg("InComparableSlices", "ss,v", 1, func(c *cx) []Val { return r1(VB(collection.InComparableSlices(c.SS(0), c.Z(1)))) },
		func(a, res, aft []Val) []hit {
			return expectB(res[0], member(concat(a[0].LL), a[1].Z, eq0), "wrong-verdict")
		})
	reg("AllInSlices", "ss,t,k", 1, func(c *cx) []Val { return r1(VB(collection.AllInSlices(c.SS(0), c.S(1), cmpk(c.Z(2))))) },
		func(a, res, aft []Val) []hit {
			return expectB(res[0], allIn(concat(a[0].LL), a[1].L, cmpk(a[2].Z)), "wrong-verdict")
		})
	reg("AllInComparableSlices", "ss,t", 1, func(c *cx) []Val { return r1(VB(collection.AllInComparableSlices(c.SS(0), c.S(1)))) },
		func(a, res, aft []Val) []hit {
			return expectB(res[0], allIn(concat(a[0].LL), a[1].L, eq0), "wrong-verdict")
		})
	reg("AnyInSlices", "ss,t,k", 1, func(c *cx) []Val { return r1(VB(collection.AnyInSlices(c.SS(0), c.S(1), cmpk(c.Z(2))))) },
		func(a, res, aft []Val) []hit {
			return expectB(res[0], anyIn(concat(a[0].LL), a[1].L, cmpk(a[2].Z)), "wrong-verdict")
		})
	reg("AnyInComparableSlices", "ss,t", 1, func(c *cx) []Val { return r1(VB(collection.AnyInComparableSlices(c.SS(0), c.S(1)))) },
		func(a, res, aft []Val) []hit {
			return expectB(res[0], anyIn(concat(a[0].LL), a[1].L, eq0), "wrong-verdict")
		})
	inAll := func(ss [][]int64, v int64, eq func(a, b int64) bool) bool {
		for _, s := range ss {
			if !member(s, v, eq) {
				return false
			}
		}
		return len(ss) > 0
	}
	anyInAll := func(ss [][]int64, vs []int64, eq func(a, b int64) bool) bool {
		for _, s := range ss {
			if !anyIn(s, vs, eq) {
				return false
			}
		}
		return len(ss) > 0
	}
	reg("InAllSlices", "ss,v,k", 1, func(c *cx) []Val { return r1(VB(collection.InAllSlices(c.SS(0), c.Z(1), cmpk(c.Z(2))))) },
		func(a, res, aft []Val) []hit {
			return expectB(res[0], inAll(a[0].LL, a[1].Z, cmpk(a[2].Z)), "wrong-verdict")
		})
	reg("InAllComparableSlices", "ss,v", 1, func(c *cx) []Val { return r1(VB(collection.InAllComparableSlices(c.SS(0), c.Z(1)))) },
		func(a, res, aft []Val) []hit { return expectB(res[0], inAll(a[0].LL, a[1].Z, eq0), "wrong-verdict") })
	reg("AnyInAllSlices", "ss,t,k", 1, func(c *cx) []Val { return r1(VB(collection.AnyInAllSlices(c.SS(0), c.S(1), cmpk(c.Z(2))))) },
		func(a, res, aft []Val) []hit {
			return expectB(res[0], anyInAll(a[0].LL, a[1].L, cmpk(a[2].Z)), "wrong-verdict")
		})
	reg("AnyInAllComparableSlices", "ss,t", 1, func(c *cx) []Val { return r1(VB(collection.AnyInAllComparableSlices(c.SS(0), c.S(1)))) },
		func(a, res, aft []Val) []hit { return expectB(res[0], anyInAll(a[0].LL, a[1].L, eq0), "wrong-verdict") })

	// ------------------------------------------------------------ find.go (slices)
	reg("FindLoopedNextInSlice", "s+,i", 2, func(c *cx) []Val {
		n, v := collection.FindLoopedNextInSlice(c.S(0), c.I(1))
		return []Val{VZ(int64(n)), VZ(v)}
	}, func(a, res, aft []Val) []hit {
		s, i := a[0].L, a[1].Z
		want := (i + 1) % int64(len(s))
		if i < 0 {
			want = 0
		}
		if res[0].Z != want || res[1].Z != s[want] {
			return one("wrong-neighbour", "expected (%d,%d) got (%d,%d)", want, s[want], res[0].Z, res[1].Z)
		}
		return nil
	})
	reg("FindLoopedPrevInSlice", "s+,i", 2, func(c *cx) []Val {
		n, v := collection.FindLoopedPrevInSlice(c.S(0), c.I(1))
		return []Val{VZ(int64(n)), VZ(v)}
	}, func(a, res, aft []Val) []hit {
		s, i := a[0].L, a[1].Z
		want := (i - 1 + int64(len(s))) % int64(len(s))
		if i < 0 {
			want = int64(len(s)) - 1
		}
		if res[0].Z != want || res[1].Z != s[want] {
			return one("wrong-neighbour", "expected (%d,%d) got (%d,%d)", want, s[want], res[0].Z, res[1].Z)
		}
		return nil
	})
	reg("FindCombinationsInSliceByRange", "s5,lo,hi", 1, func(c *cx) []Val {
		return r1(VLL(c.outLL(collection.FindCombinationsInSliceByRange(c.S(0), c.I(1), c.I(2)))))
	}, func(a, res, aft []Val) []hit {
		s, lo, hi := a[0].L, a[1].Z, a[2].Z
		// every non-empty set of positions (bit mask) whose size lies within [lo,hi] gives one combination
		want := [][]int64{}
		if len(s) > 0 && lo > 0 && hi > 0 && lo <= hi {
			for mask := 1; mask < 1<<uint(len(s)); mask++ {
				c := []int64{}
				for i := range s {
					if mask&(1<<uint(i)) != 0 {
						c = append(c, s[i])
					}
				}
				if int64(len(c)) >= lo && int64(len(c)) <= hi {
					want = append(want, c)
				}
			}
		}
		got := res[0].LL
		if len(got) != len(want) {
			return one("wrong-number", "expected %d combinations %v, got %d: %v", len(want), want, len(got), got)
		}
		// as a multiset of combinations (the order of the result is not part of the law)
		used := make([]bool, len(want))
		for _, g := range got {
			ok := false
			for j, w := range want {
				if !used[j] && eqL(g, w) {
					used[j], ok = true, true
					break
				}
			}
			if !ok {
				return one("not-a-combination", "%v is not a (further) sub-sequence of %v with size in [%d,%d]", g, s, lo, hi)
			}
		}
		return nil
	})
	reg("FindFirstOrDefaultInSlice", "s,v", 1, func(c *cx) []Val { return r1(VZ(collection.FindFirstOrDefaultInSlice(c.S(0), c.Z(1)))) },
		func(a, res, aft []Val) []hit {
			want := a[1].Z
			if len(a[0].L) > 0 {
				want = a[0].L[0]
			}
			return expectZ(res[0], want, "wrong-element")
		})
	firstMatch := func(s []int64, p func(int64) bool) (int64, int64, bool) {
		for i, v := range s {
			if p(v) {
				return int64(i), v, true
			}
		}
		return -1, 0, false
	}
	reg("FindOrDefaultInSlice", "s,v,p", 1, func(c *cx) []Val {
		return r1(VZ(collection.FindOrDefaultInSlice(c.S(0), c.Z(1), predk(c.Z(2), c.Z(3)))))
	}, func(a, res, aft []Val) []hit {
		_, v, ok := firstMatch(a[0].L, predk(a[2].Z, a[3].Z))
		if !ok {
			v = a[1].Z
		}
		return expectZ(res[0], v, "not-first-match")
	})
	reg("FindOrDefaultInComparableSlice", "s,v,v", 1, func(c *cx) []Val {
		return r1(VZ(collection.FindOrDefaultInComparableSlice(c.S(0), c.Z(1), c.Z(2))))
	}, func(a, res, aft []Val) []hit {
		_, v, ok := firstMatch(a[0].L, predk(0, a[1].Z))
		if !ok {
			v = a[2].Z
		}
		return expectZ(res[0], v, "not-first-match")
	})
	findLaw := func(p func(a []Val) func(int64) bool, withValue bool) func(a, res, aft []Val) []hit {
		return func(a, res, aft []Val) []hit {
			i, v, _ := firstMatch(a[0].L, p(a))
			if res[0].Z != i || (withValue && res[1].Z != v) {
				return one("not-first-match", "expected index %d value %d, got %s", i, v, showVals(res))
			}
			return nil
		}
	}
	pk := func(a []Val) func(int64) bool { return predk(a[1].Z, a[2].Z) }
	pv := func(a []Val) func(int64) bool { return predk(0, a[1].Z) }
	reg("FindInSlice", "s,p", 2, func(c *cx) []Val {
		i, v := collection.FindInSlice(c.S(0), predk(c.Z(1), c.Z(2)))
		return []Val{VZ(int64(i)), VZ(v)}
	}, findLaw(pk, true))
	reg("FindIndexInSlice", "s,p", 1, func(c *cx) []Val {
		return r1(VZ(int64(collection.FindIndexInSlice(c.S(0), predk(c.Z(1), c.Z(2))))))
	}, findLaw(pk, false))
	reg("FindInComparableSlice", "s,v", 2, func(c *cx) []Val {
		i, v := collection.FindInComparableSlice(c.S(0), c.Z(1))
		return []Val{VZ(int64(i)), VZ(v)}
	}, findLaw(pv, true))
	reg("FindIndexInComparableSlice", "s,v", 1, func(c *cx) []Val {
		return r1(VZ(int64(collection.FindIndexInComparableSlice(c.S(0), c.Z(1)))))
	}, findLaw(pv, false))

	// extremal member; among several extremal elements the first one (the comparison is strict)
	extreme := func(s []int64, key func(int64) int64, max bool) int64 {
		if len(s) == 0 {
			return 0
		}
		best := -1
		for i, v := range s {
			better := true
			for j, w := range s {
				if (max && key(w) > key(v)) || (!max && key(w) < key(v)) || (key(w) == key(v) && j < i) {
					better = false
				}
			}
			if better {
				best = i
			}
		}
		return s[best]
	}
	extLaw := func(key func(a []Val) func(int64) int64, wantMin, wantMax bool) func(a, res, aft []Val) []hit {
		return func(a, res, aft []Val) []hit {
			k, i := key(a), 0
			if wantMin {
				if m := extreme(a[0].L, k, false); res[i].Z != m {
					return one("not-the-minimum", "expected %d got %d", m, res[i].Z)
				}
				i++
			}
			if wantMax {
				if m := extreme(a[0].L, k, true); res[i].Z != m {
					return one("not-the-maximum", "expected %d got %d", m, res[i].Z)
				}
			}
			return nil
		}
	}
	kid := func(a []Val) func(int64) int64 { return keyk(0) }
	kg := func(a []Val) func(int64) int64 { return keyk(a[1].Z) }
	reg("FindMinimumInComparableSlice", "s", 1, func(c *cx) []Val { return r1(VZ(collection.FindMinimumInComparableSlice(c.S(0)))) }, extLaw(kid, true, false))
	reg("FindMinimumInSlice", "s,g", 1, func(c *cx) []Val {
		return r1(VZ(collection.FindMinimumInSlice(c.S(0), collection.OrderedValueGetter[int64, int64](keyk(c.Z(1))))))
	}, extLaw(kg, true, false))
	reg("FindMaximumInComparableSlice", "s", 1, func(c *cx) []Val { return r1(VZ(collection.FindMaximumInComparableSlice(c.S(0)))) }, extLaw(kid, false, true))
	reg("FindMaximumInSlice", "s,g", 1, func(c *cx) []Val {
		return r1(VZ(collection.FindMaximumInSlice(c.S(0), collection.OrderedValueGetter[int64, int64](keyk(c.Z(1))))))
	}, extLaw(kg, false, true))
	reg("FindMin2MaxInComparableSlice", "s", 2, func(c *cx) []Val {
		lo, hi := collection.FindMin2MaxInComparableSlice(c.S(0))
		return []Val{VZ(lo), VZ(hi)}
	}, extLaw(kid, true, true))
	reg("FindMin2MaxInSlice", "s,g", 2, func(c *cx) []Val {
		lo, hi := collection.FindMin2MaxInSlice(c.S(0), collection.OrderedValueGetter[int64, int64](keyk(c.Z(1))))
		return []Val{VZ(lo), VZ(hi)}
	}, extLaw(kg, true, true))
	reg("IsFirst", "s,v", 1, func(c *cx) []Val { return r1(VB(collection.IsFirst(c.S(0), c.Z(1)))) },
		func(a, res, aft []Val) []hit {
			return expectB(res[0], len(a[0].L) > 0 && a[0].L[0] == a[1].Z, "wrong-verdict")
		})

	// ------------------------------------------------------------ loop.go (slices)
	loopWant := func(s []int64, f func(int, int64) bool, rev bool) [][2]int64 {
		want := [][2]int64{}
		for n := 0; n < len(s); n++ {
			i := n
			if rev {
				i = len(s) - 1 - n
			}
			want = append(want, [2]int64{int64(i), s[i]})
			if !f(i, s[i]) {
				break
			}
		}
		return want
	}
	reg("LoopSlice", "s,n,x", 1, func(c *cx) []Val {
		f, got := contk(c.Z(1), c.Z(2)), [][2]int64{}
		collection.LoopSlice(c.S(0), func(i int, v int64) bool { got = append(got, [2]int64{int64(i), v}); return f(i, v) })
		return r1(VP(got))
	}, func(a, res, aft []Val) []hit {
		return expectP(res[0], loopWant(a[0].L, contk(a[1].Z, a[2].Z), false), "wrong-visits")
	})
	reg("ReverseLoopSlice", "s,n,x", 1, func(c *cx) []Val {
		f, got := contk(c.Z(1), c.Z(2)), [][2]int64{}
		collection.ReverseLoopSlice(c.S(0), func(i int, v int64) bool { got = append(got, [2]int64{int64(i), v}); return f(i, v) })
		return r1(VP(got))
	}, func(a, res, aft []Val) []hit {
		return expectP(res[0], loopWant(a[0].L, contk(a[1].Z, a[2].Z), true), "wrong-visits")
	})
}
