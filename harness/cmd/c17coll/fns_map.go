package main

import (
	"errors"
	"fmt"

	"github.com/kercylan98/minotaur/toolkit/collection"
)

type amap = map[int64]int64

func cloneM(m amap) amap {
	r := amap{}
	for k, v := range m {
		r[k] = v
	}
	return r
}
func never(a []Val) bool { return false }

func registerMaps() {
	eq0 := cmpk(0)

	// ------------------------------------------------------------ clone.go, merge.go
	reg("CloneMap", "m", 1, func(c *cx) []Val {
		r := collection.CloneMap(c.M(0))
		v := VM(r)
		for k := range r { // a clone must not share storage with its source
			r[k] += 1000
		}
		return r1(v)
	}, func(a, res, aft []Val) []hit { return expectM(res[0], a[0].amap(), "wrong-entries") })
	reg("CloneMapN", "m,n", 1, func(c *cx) []Val {
		r := collection.CloneMapN(c.M(0), c.I(1))
		v := VMM(r)
		for _, x := range r {
			for k := range x {
				x[k] += 1000
			}
		}
		return r1(v)
	}, func(a, res, aft []Val) []hit {
		n := 0
		if a[0].T != "N" && a[1].Z > 0 {
			n = int(a[1].Z)
		}
		if len(res[0].MM) != n {
			return one("wrong-count", "expected %d clones got %d", n, len(res[0].MM))
		}
		for _, x := range res[0].MM {
			if !eqP(x, a[0].M) {
				return one("wrong-entries", "clone %v of %v", x, a[0].M)
			}
		}
		return nil
	})
	reg("CloneMaps", "mm", 1, func(c *cx) []Val {
		r := collection.CloneMaps(c.MM(0)...)
		v := VMM(r)
		for _, x := range r {
			for k := range x {
				x[k] += 1000
			}
		}
		return r1(v)
	}, func(a, res, aft []Val) []hit {
		if !eqVal(Val{T: "MM", MM: res[0].MM}, Val{T: "MM", MM: a[0].MM}) {
			return one("wrong-entries", "got %s", showVal(res[0]))
		}
		return nil
	})
	reg("MergeMaps", "mm", 1, func(c *cx) []Val { return r1(VM(collection.MergeMaps(c.MM(0)...))) },
		func(a, res, aft []Val) []hit {
			want := amap{}
			for _, m := range a[0].MM { // the last map that has the key wins
				for _, p := range m {
					want[p[0]] = p[1]
				}
			}
			return expectM(res[0], want, "wrong-entries")
		})
	reg("MergeMapsWithSkip", "mm", 1, func(c *cx) []Val { return r1(VM(collection.MergeMapsWithSkip(c.MM(0)...))) },
		func(a, res, aft []Val) []hit {
			want := amap{}
			for i := len(a[0].MM) - 1; i >= 0; i-- { // the first map that has the key wins
				for _, p := range a[0].MM[i] {
					want[p[0]] = p[1]
				}
			}
			return expectM(res[0], want, "wrong-entries")
		})

	// ------------------------------------------------------------ filter.go, drop.go
	filterLaw := func(drop func(a []Val) func(k, v int64) bool) func(a, res, aft []Val) []hit {
		return func(a, res, aft []Val) []hit {
			want, d := amap{}, drop(a)
			for _, p := range a[0].M {
				if !d(p[0], p[1]) {
					want[p[0]] = p[1]
				}
			}
			return expectM(res[0], want, "wrong-entries")
		}
	}
	reg("FilterOutByKey", "m,v", 1, func(c *cx) []Val { return r1(VM(collection.FilterOutByKey(c.M(0), c.Z(1)))) },
		filterLaw(func(a []Val) func(k, v int64) bool { return func(k, v int64) bool { return k == a[1].Z } }))
	reg("FilterOutByValue", "m,v,k", 1, func(c *cx) []Val { return r1(VM(collection.FilterOutByValue(c.M(0), c.Z(1), cmpk(c.Z(2))))) },
		filterLaw(func(a []Val) func(k, v int64) bool { return func(k, v int64) bool { return cmpk(a[2].Z)(a[1].Z, v) } }))
	reg("FilterOutByKeys", "m,t", 1, func(c *cx) []Val { return r1(VM(collection.FilterOutByKeys(c.M(0), c.S(1)...))) },
		filterLaw(func(a []Val) func(k, v int64) bool { return func(k, v int64) bool { return member(a[1].L, k, eq0) } }))
	reg("FilterOutByValues", "m,t,k", 1, func(c *cx) []Val { return r1(VM(collection.FilterOutByValues(c.M(0), c.S(1), cmpk(c.Z(2))))) },
		filterLaw(func(a []Val) func(k, v int64) bool {
			return func(k, v int64) bool { return member(a[1].L, v, cmpk(a[2].Z)) }
		}))
	reg("FilterOutByMap", "m,p", 1, func(c *cx) []Val {
		p := predk(c.Z(1), c.Z(2))
		return r1(VM(collection.FilterOutByMap(c.M(0), func(k, v int64) bool { return p(k + v) })))
	}, filterLaw(func(a []Val) func(k, v int64) bool {
		return func(k, v int64) bool { return predk(a[1].Z, a[2].Z)(k + v) }
	}))
	reg("ClearMap", "m", 0, func(c *cx) []Val {
		collection.ClearMap(c.M(0))
		return nil
	}, func(a, res, aft []Val) []hit {
		if len(aft[0].M) != 0 {
			return one("not-empty", "after ClearMap the map is %s", showVal(aft[0]))
		}
		return nil
	}).ip()

	// ------------------------------------------------------------ convert.go (maps)
	batchLens := func(b [][]int64) []int64 {
		r := []int64{}
		for _, x := range b {
			r = append(r, int64(len(x)))
		}
		return r
	}
	batchLaw := func(src func(m amap) []int64) func(a, res, aft []Val) []hit {
		return func(a, res, aft []Val) []hit {
			want, n, lens := sortedCopy(src(a[0].amap())), a[1].Z, res[1].L
			if len(want) == 0 || n <= 0 {
				if len(res[0].L) != 0 || len(lens) != 0 {
					return one("not-empty", "got %s", showVals(res))
				}
				return nil
			}
			if !eqL(res[0].L, want) {
				return one("concat-differs", "batches hold %v, the map holds %v", res[0].L, want)
			}
			for i, l := range lens {
				if l <= 0 || l > n || (i < len(lens)-1 && l != n) {
					return one("batch-size", "batch sizes %v, limit %d", lens, n)
				}
			}
			return nil
		}
	}
	reg("ConvertMapKeysToBatches", "m,nb", 2, func(c *cx) []Val {
		b := collection.ConvertMapKeysToBatches(c.M(0), c.I(1))
		return []Val{VL(sortedCopy(concat(b))), VL(batchLens(b))}
	}, batchLaw(keysOf))
	reg("ConvertMapValuesToBatches", "m,nb", 2, func(c *cx) []Val {
		b := collection.ConvertMapValuesToBatches(c.M(0), c.I(1))
		return []Val{VL(sortedCopy(concat(b))), VL(batchLens(b))}
	}, batchLaw(valsOf))
	reg("ConvertMapKeysToSlice", "m", 1, func(c *cx) []Val { return r1(VL(sortedCopy(collection.ConvertMapKeysToSlice(c.M(0))))) },
		func(a, res, aft []Val) []hit { return expectL(res[0], keysOf(a[0].amap()), "wrong-keys") })
	reg("ConvertMapValuesToSlice", "m", 1, func(c *cx) []Val { return r1(VL(sortedCopy(collection.ConvertMapValuesToSlice(c.M(0))))) },
		func(a, res, aft []Val) []hit { return expectL(res[0], sortedCopy(valsOf(a[0].amap())), "wrong-values") })
	trueKeys := func(m map[int64]bool) Val {
		r := amap{}
		for k, b := range m {
			if !b {
				return VX("false entry")
			}
			r[k] = 0
		}
		return VL(keysOf(r))
	}
	reg("ConvertMapValuesToBoolMap", "m", 1, func(c *cx) []Val { return r1(trueKeys(collection.ConvertMapValuesToBoolMap(c.M(0)))) },
		func(a, res, aft []Val) []hit { return expectL(res[0], keysOf(a[0].amap()), "wrong-keys") })
	reg("ConvertMapValuesToBool", "m", 1, func(c *cx) []Val {
		return r1(trueKeys(collection.ConvertMapValuesToBool[amap, map[int64]bool](c.M(0))))
	}, func(a, res, aft []Val) []hit { return expectL(res[0], keysOf(a[0].amap()), "wrong-keys") })
	distinctVals := func(a []Val) bool { return distinct(valsOf(a[0].amap())) }
	reg("InvertMap", "m", 1, func(c *cx) []Val { return r1(VM(collection.InvertMap[amap, amap](c.M(0)))) },
		func(a, res, aft []Val) []hit {
			// every entry (v,k) of the result comes from an entry (k,v) of the map, and every value is a key of the result
			m := a[0].amap()
			for _, p := range res[0].M {
				if v, ok := m[p[1]]; !ok || v != p[0] {
					return one("wrong-entries", "result entry %v has no source entry in %v", p, a[0].M)
				}
			}
			got := Val{T: "M", M: res[0].M}.amap()
			for _, v := range m {
				if _, ok := got[v]; !ok {
					return one("value-lost", "value %d is not a key of %v", v, res[0].M)
				}
			}
			return nil
		}).onlyCoqIf(distinctVals)

	// ------------------------------------------------------------ contains.go (maps)
	equalMapLaw := func(f func(a []Val, m1, m2 amap) bool, eq func(a []Val) func(x, y int64) bool) func(a, res, aft []Val) []hit {
		return func(a, res, aft []Val) []hit {
			m1, m2, e := a[0].amap(), a[1].amap(), eq(a)
			want := len(m1) == len(m2)
			for k, v1 := range m1 {
				v2, ok := m2[k]
				if !ok || !e(v1, v2) {
					want = false
				}
			}
			if h := expectB(res[0], want, "wrong-verdict"); h != nil {
				return h
			}
			if f(a, m2, m1) != res[0].B {
				return one("not-symmetric", "(m1,m2) gives %v, (m2,m1) gives %v", res[0].B, !res[0].B)
			}
			if !f(a, m1, m1) || !f(a, m2, m2) {
				return one("not-reflexive", "a map is reported different from itself")
			}
			return nil
		}
	}
	reg("EqualMap", "m,m,k", 1, func(c *cx) []Val { return r1(VB(collection.EqualMap(c.M(0), c.M(1), cmpk(c.Z(2))))) },
		equalMapLaw(func(a []Val, m1, m2 amap) bool { return collection.EqualMap(m1, m2, cmpk(a[2].Z)) },
			func(a []Val) func(x, y int64) bool { return cmpk(a[2].Z) }))
	reg("EqualComparableMap", "m,m", 1, func(c *cx) []Val { return r1(VB(collection.EqualComparableMap(c.M(0), c.M(1)))) },
		equalMapLaw(func(a []Val, m1, m2 amap) bool { return collection.EqualComparableMap(m1, m2) },
			func(a []Val) func(x, y int64) bool { return eq0 }))
	hasKey := func(m amap, k int64) bool { _, ok := m[k]; return ok }
	hasVal := func(m amap, v int64, eq func(a, b int64) bool) bool { return member(valsOf(m), v, eq) }
	// the "all/any" helpers: laws as documented and as pinned by the package's tests (an empty container gives false;
	// AllKeyInMap compares the sizes first; AnyValueInMaps requires every map to contain some value)
	allKey := func(m amap, ks []int64) bool {
		if len(m) < len(ks) {
			return false
		}
		for _, k := range ks {
			if !hasKey(m, k) {
				return false
			}
		}
		return true
	}
	allVal := func(m amap, vs []int64, eq func(a, b int64) bool) bool {
		for _, v := range vs {
			if !hasVal(m, v, eq) {
				return false
			}
		}
		return len(m) > 0
	}
	anyKey := func(m amap, ks []int64) bool {
		for _, k := range ks {
			if hasKey(m, k) {
				return true
			}
		}
		return false
	}
	anyVal := func(m amap, vs []int64, eq func(a, b int64) bool) bool {
		for _, v := range vs {
			if hasVal(m, v, eq) {
				return true
			}
		}
		return false
	}
	every := func(ms []amap, f func(m amap) bool) bool {
		for _, m := range ms {
			if !f(m) {
				return false
			}
		}
		return len(ms) > 0
	}
	some := func(ms []amap, f func(m amap) bool) bool {
		for _, m := range ms {
			if f(m) {
				return true
			}
		}
		return false
	}
	reg("KeyInMap", "m,v", 1, func(c *cx) []Val { return r1(VB(collection.KeyInMap(c.M(0), c.Z(1)))) },
		func(a, res, aft []Val) []hit { return expectB(res[0], hasKey(a[0].amap(), a[1].Z), "wrong-verdict") })
	reg("ValueInMap", "m,v,k", 1, func(c *cx) []Val { return r1(VB(collection.ValueInMap(c.M(0), c.Z(1), cmpk(c.Z(2))))) },
		func(a, res, aft []Val) []hit {
			return expectB(res[0], hasVal(a[0].amap(), a[1].Z, cmpk(a[2].Z)), "wrong-verdict")
		})
	reg("AllKeyInMap", "m,t", 1, func(c *cx) []Val { return r1(VB(collection.AllKeyInMap(c.M(0), c.S(1)...))) },
		func(a, res, aft []Val) []hit { return expectB(res[0], allKey(a[0].amap(), a[1].L), "wrong-verdict") })
	reg("AllValueInMap", "m,t,k", 1, func(c *cx) []Val { return r1(VB(collection.AllValueInMap(c.M(0), c.S(1), cmpk(c.Z(2))))) },
		func(a, res, aft []Val) []hit {
			return expectB(res[0], allVal(a[0].amap(), a[1].L, cmpk(a[2].Z)), "wrong-verdict")
		})
	reg("AnyKeyInMap", "m,t", 1, func(c *cx) []Val { return r1(VB(collection.AnyKeyInMap(c.M(0), c.S(1)...))) },
		func(a, res, aft []Val) []hit { return expectB(res[0], anyKey(a[0].amap(), a[1].L), "wrong-verdict") })
	reg("AnyValueInMap", "m,t,k", 1, func(c *cx) []Val { return r1(VB(collection.AnyValueInMap(c.M(0), c.S(1), cmpk(c.Z(2))))) },
		func(a, res, aft []Val) []hit {
			return expectB(res[0], anyVal(a[0].amap(), a[1].L, cmpk(a[2].Z)), "wrong-verdict")
		})
	reg("AllKeyInMaps", "mm,t", 1, func(c *cx) []Val { return r1(VB(collection.AllKeyInMaps(c.MM(0), c.S(1)...))) },
		func(a, res, aft []Val) []hit {
			return expectB(res[0], every(a[0].maps(), func(m amap) bool { return allKey(m, a[1].L) }), "wrong-verdict")
		})
	reg("AllValueInMaps", "mm,t,k", 1, func(c *cx) []Val { return r1(VB(collection.AllValueInMaps(c.MM(0), c.S(1), cmpk(c.Z(2))))) },
		func(a, res, aft []Val) []hit {
			return expectB(res[0], every(a[0].maps(), func(m amap) bool { return allVal(m, a[1].L, cmpk(a[2].Z)) }), "wrong-verdict")
		})
	reg("AnyKeyInMaps", "mm,t", 1, func(c *cx) []Val { return r1(VB(collection.AnyKeyInMaps(c.MM(0), c.S(1)...))) },
		func(a, res, aft []Val) []hit {
			return expectB(res[0], some(a[0].maps(), func(m amap) bool { return anyKey(m, a[1].L) }), "wrong-verdict")
		})
	reg("AnyValueInMaps", "mm,t,k", 1, func(c *cx) []Val { return r1(VB(collection.AnyValueInMaps(c.MM(0), c.S(1), cmpk(c.Z(2))))) },
		func(a, res, aft []Val) []hit {
			return expectB(res[0], every(a[0].maps(), func(m amap) bool { return anyVal(m, a[1].L, cmpk(a[2].Z)) }), "wrong-verdict")
		})
	reg("KeyInAllMaps", "mm,v", 1, func(c *cx) []Val { return r1(VB(collection.KeyInAllMaps(c.MM(0), c.Z(1)))) },
		func(a, res, aft []Val) []hit {
			return expectB(res[0], every(a[0].maps(), func(m amap) bool { return hasKey(m, a[1].Z) }), "wrong-verdict")
		})
	reg("AnyKeyInAllMaps", "mm,t", 1, func(c *cx) []Val { return r1(VB(collection.AnyKeyInAllMaps(c.MM(0), c.S(1)))) },
		func(a, res, aft []Val) []hit {
			return expectB(res[0], every(a[0].maps(), func(m amap) bool { return anyKey(m, a[1].L) }), "wrong-verdict")
		})

	// ------------------------------------------------------------ find.go (maps)
	mapExt := func(key func(a []Val) func(int64) int64, wantMin, wantMax bool) func(a, res, aft []Val) []hit {
		return func(a, res, aft []Val) []hit {
			vals, k, i := valsOf(a[0].amap()), key(a), 0
			chk := func(max bool, got int64, class string) []hit {
				if len(vals) == 0 {
					if got != 0 {
						return one(class, "empty map: expected the zero value, got %d", got)
					}
					return nil
				}
				if !member(vals, got, eq0) {
					return one("not-a-member", "%d is not a value of %v", got, a[0].M)
				}
				for _, w := range vals {
					if (max && k(w) > k(got)) || (!max && k(w) < k(got)) {
						return one(class, "got %d but the map also holds %d", got, w)
					}
				}
				return nil
			}
			if wantMin {
				if h := chk(false, res[i].Z, "not-the-minimum"); h != nil {
					return h
				}
				i++
			}
			if wantMax {
				return chk(true, res[i].Z, "not-the-maximum")
			}
			return nil
		}
	}
	kid := func(a []Val) func(int64) int64 { return keyk(0) }
	kg := func(a []Val) func(int64) int64 { return keyk(a[1].Z) }
	reg("FindMinFromComparableMap", "m", 1, func(c *cx) []Val { return r1(VZ(collection.FindMinFromComparableMap(c.M(0)))) }, mapExt(kid, true, false))
	reg("FindMinFromMap", "m,g01", 1, func(c *cx) []Val {
		return r1(VZ(collection.FindMinFromMap(c.M(0), collection.OrderedValueGetter[int64, int64](keyk(c.Z(1))))))
	}, mapExt(kg, true, false))
	reg("FindMaxFromComparableMap", "m", 1, func(c *cx) []Val { return r1(VZ(collection.FindMaxFromComparableMap(c.M(0)))) }, mapExt(kid, false, true))
	reg("FindMaxFromMap", "m,g01", 1, func(c *cx) []Val {
		return r1(VZ(collection.FindMaxFromMap(c.M(0), collection.OrderedValueGetter[int64, int64](keyk(c.Z(1))))))
	}, mapExt(kg, false, true))
	reg("FindMin2MaxFromComparableMap", "m", 2, func(c *cx) []Val {
		lo, hi := collection.FindMin2MaxFromComparableMap(c.M(0))
		return []Val{VZ(lo), VZ(hi)}
	}, mapExt(kid, true, true))
	reg("FindMin2MaxFromMap", "m", 2, func(c *cx) []Val {
		lo, hi := collection.FindMin2MaxFromMap(c.M(0))
		return []Val{VZ(lo), VZ(hi)}
	}, mapExt(kid, true, true))

	// ------------------------------------------------------------ loop.go (maps)
	// visits: the (key, value) pairs handed to f, in call order; the index argument must count the calls
	type looper func(m amap, f func(i int, k, v int64) bool)
	runLoop := func(c *cx, lp looper) []Val {
		f, got, bad := contk(c.Z(1), c.Z(2)), [][2]int64{}, ""
		lp(c.M(0), func(i int, k, v int64) bool {
			if i != len(got) {
				bad = fmt.Sprintf("call #%d received index %d", len(got), i)
			}
			got = append(got, [2]int64{k, v})
			return f(i, v)
		})
		if bad != "" {
			return r1(VX(bad))
		}
		return r1(VP(got))
	}
	// sortKey == nil: no order promised (LoopMap)
	loopLaw := func(sortKey func(a []Val) func(k, v int64) int64, desc bool) func(a, res, aft []Val) []hit {
		return func(a, res, aft []Val) []hit {
			if res[0].T != "M" {
				return one("wrong-index", "%s", res[0].E)
			}
			m, got, f := a[0].amap(), res[0].M, contk(a[1].Z, a[2].Z)
			seen := map[int64]bool{}
			for _, p := range got {
				if v, ok := m[p[0]]; !ok || v != p[1] {
					return one("pair-not-in-map", "f received (%d,%d), which is not an entry of %v", p[0], p[1], a[0].M)
				}
				if seen[p[0]] {
					return one("key-visited-twice", "key %d in %v", p[0], got)
				}
				seen[p[0]] = true
			}
			for j, p := range got {
				cont := f(j, p[1])
				if !cont && j < len(got)-1 {
					return one("continued-after-false", "f returned false at call #%d but %d calls were made", j, len(got))
				}
				if cont && j == len(got)-1 && len(got) < len(m) {
					return one("stopped-early", "%d of %d entries visited and f never returned false", len(got), len(m))
				}
			}
			if len(got) == 0 && len(m) > 0 {
				return one("stopped-early", "no entry of %v visited", a[0].M)
			}
			if sortKey != nil {
				sk := sortKey(a)
				all := []int64{}
				for k, v := range m {
					all = append(all, sk(k, v))
				}
				all = sortedCopy(all)
				if desc {
					all = reversed(all)
				}
				for j, p := range got {
					if sk(p[0], p[1]) != all[j] {
						return one("wrong-order", "call #%d got sort key %d, the %d-th in order is %d (visits %v)", j, sk(p[0], p[1]), j, all[j], got)
					}
				}
			}
			return nil
		}
	}
	byK := func(a []Val) func(k, v int64) int64 { return func(k, v int64) int64 { return k } }
	byV := func(a []Val) func(k, v int64) int64 { return func(k, v int64) int64 { return v } }
	byGK := func(a []Val) func(k, v int64) int64 { return func(k, v int64) int64 { return keyk(a[3].Z)(k) } }
	byGV := func(a []Val) func(k, v int64) int64 { return func(k, v int64) int64 { return keyk(a[3].Z)(v) } }
	distinctBy := func(sk func(a []Val) func(k, v int64) int64) func(a []Val) bool {
		return func(a []Val) bool {
			ks := []int64{}
			for _, p := range a[0].M {
				ks = append(ks, sk(a)(p[0], p[1]))
			}
			return distinct(ks)
		}
	}
	reg("LoopMap", "m,n,x", 1, func(c *cx) []Val {
		return runLoop(c, func(m amap, f func(i int, k, v int64) bool) { collection.LoopMap(m, f) })
	}, loopLaw(nil, false)).onlyCoqIf(never)
	reg("LoopMapByOrderedKeyAsc", "m,n,x", 1, func(c *cx) []Val {
		return runLoop(c, func(m amap, f func(i int, k, v int64) bool) { collection.LoopMapByOrderedKeyAsc(m, f) })
	}, loopLaw(byK, false))
	reg("LoopMapByOrderedKeyDesc", "m,n,x", 1, func(c *cx) []Val {
		return runLoop(c, func(m amap, f func(i int, k, v int64) bool) { collection.LoopMapByOrderedKeyDesc(m, f) })
	}, loopLaw(byK, true))
	reg("LoopMapByOrderedValueAsc", "m,n,x", 1, func(c *cx) []Val {
		return runLoop(c, func(m amap, f func(i int, k, v int64) bool) { collection.LoopMapByOrderedValueAsc(m, f) })
	}, loopLaw(byV, false)).onlyCoqIf(distinctBy(byV))
	reg("LoopMapByOrderedValueDesc", "m,n,x", 1, func(c *cx) []Val {
		return runLoop(c, func(m amap, f func(i int, k, v int64) bool) { collection.LoopMapByOrderedValueDesc(m, f) })
	}, loopLaw(byV, true)).onlyCoqIf(distinctBy(byV))
	reg("LoopMapByKeyGetterAsc", "m,n,x,g", 1, func(c *cx) []Val {
		g := keyk(c.Z(3))
		return runLoop(c, func(m amap, f func(i int, k, v int64) bool) { collection.LoopMapByKeyGetterAsc(m, g, f) })
	}, loopLaw(byGK, false)).onlyCoqIf(distinctBy(byGK))
	reg("LoopMapByKeyGetterDesc", "m,n,x,g", 1, func(c *cx) []Val {
		g := keyk(c.Z(3))
		return runLoop(c, func(m amap, f func(i int, k, v int64) bool) { collection.LoopMapByKeyGetterDesc(m, g, f) })
	}, loopLaw(byGK, true)).onlyCoqIf(distinctBy(byGK))
	reg("LoopMapByValueGetterAsc", "m,n,x,g", 1, func(c *cx) []Val {
		g := keyk(c.Z(3))
		return runLoop(c, func(m amap, f func(i int, k, v int64) bool) { collection.LoopMapByValueGetterAsc(m, g, f) })
	}, loopLaw(byGV, false)).onlyCoqIf(distinctBy(byGV))
	reg("LoopMapByValueGetterDesc", "m,n,x,g", 1, func(c *cx) []Val {
		g := keyk(c.Z(3))
		return runLoop(c, func(m amap, f func(i int, k, v int64) bool) { collection.LoopMapByValueGetterDesc(m, g, f) })
	}, loopLaw(byGV, true)).onlyCoqIf(distinctBy(byGV))
}

// ---------------------------------------------------------------- random.go (checked results) and topological.go

func registerMisc() {
	oracle := func(c *cx, n int, v Val) {
		c.a = append(c.a[:n:n], v)
		c.live = append(c.live[:n:n], nil)
	}
	membersLaw := func(src func(a []Val) []int64, noRepeat bool) func(a, res, aft []Val) []hit {
		return func(a, res, aft []Val) []hit {
			s, n, r := src(a), a[1].Z, a[2].L
			if int64(len(r)) != n {
				return one("wrong-count", "asked for %d, got %v", n, r)
			}
			for _, x := range r {
				if !member(s, x, cmpk(0)) {
					return one("not-a-member", "%d is not in %v", x, s)
				}
			}
			if noRepeat && !subMultiset(r, s) {
				return one("repeated-choice", "%v takes an element of %v more often than it occurs", r, s)
			}
			return nil
		}
	}
	srcS := func(a []Val) []int64 { return a[0].L }
	// a random choice is drawn 40 times on the same arguments; the law judges a draw that breaks "no repetition" if there
	// is one, the last draw otherwise (a defect that shows on a few per cent of the calls is not left to luck)
	worstOf := func(draw func() []int64, ok func([]int64) bool) []int64 {
		var r []int64
		for k := 0; k < 40; k++ {
			r = draw()
			if !ok(r) {
				return r
			}
		}
		return r
	}
	reg("ChooseRandomSliceElementN", "s+,nsel", 1, func(c *cx) []Val {
		src := append([]int64{}, c.S(0)...)
		oracle(c, 2, VL(c.out(worstOf(func() []int64 { return collection.ChooseRandomSliceElementN(c.S(0), c.I(1)) },
			func(r []int64) bool { return subMultiset(r, src) }))))
		return r1(VB(true))
	}, membersLaw(srcS, true)).orc()
	reg("ChooseRandomIndexN", "s+,nsel0", 1, func(c *cx) []Val {
		var r []int
		l := worstOf(func() []int64 {
			r = collection.ChooseRandomIndexN(c.S(0), c.I(1))
			l := make([]int64, len(r))
			for i, x := range r {
				l[i] = int64(x)
			}
			return l
		}, func(l []int64) bool {
			seen := map[int64]bool{}
			for _, x := range l {
				if seen[x] {
					return false
				}
				seen[x] = true
			}
			return true
		})
		regOut(c, "the result", r)
		oracle(c, 2, VL(l))
		return r1(VB(true))
	}, membersLaw(func(a []Val) []int64 {
		r := []int64{}
		for i := range a[0].L {
			r = append(r, int64(i))
		}
		return r
	}, true)).orc()
	reg("ChooseRandomSliceElementRepeatN", "s+,nsel", 1, func(c *cx) []Val {
		oracle(c, 2, VL(c.out(collection.ChooseRandomSliceElementRepeatN(c.S(0), c.I(1)))))
		return r1(VB(true))
	}, membersLaw(srcS, false)).orc().onlyCoqIf(never)
	reg("ChooseRandomMapKeyN", "m,nselm", 1, func(c *cx) []Val {
		oracle(c, 2, VL(collection.ChooseRandomMapKeyN(c.M(0), c.I(1))))
		return r1(VB(true))
	}, membersLaw(func(a []Val) []int64 { return keysOf(a[0].amap()) }, true)).orc()
	reg("ChooseRandomMapValueN", "m,nselm", 1, func(c *cx) []Val {
		oracle(c, 2, VL(collection.ChooseRandomMapValueN(c.M(0), c.I(1))))
		return r1(VB(true))
	}, membersLaw(func(a []Val) []int64 { return valsOf(a[0].amap()) }, true)).orc()
	reg("ChooseRandomMapKeyAndValueN", "m,nselm", 1, func(c *cx) []Val {
		oracle(c, 2, VM(collection.ChooseRandomMapKeyAndValueN(c.M(0), c.I(1))))
		return r1(VB(true))
	}, func(a, res, aft []Val) []hit {
		m, r := a[0].amap(), a[2].M
		if int64(len(r)) != a[1].Z {
			return one("wrong-count", "asked for %d, got %v", a[1].Z, r)
		}
		for _, p := range r {
			if v, ok := m[p[0]]; !ok || v != p[1] {
				return one("not-a-member", "%v is not an entry of %v", p, a[0].M)
			}
		}
		return nil
	}).orc()

	// ---- TopologicalSort: items = [index, dependencies...]
	type item struct {
		ID   int64
		Deps []int64
	}
	reg("TopologicalSort", "topo", 2, func(c *cx) []Val {
		src := c.a[0].LL
		items := make([]item, len(src))
		for i, l := range src {
			items[i] = item{ID: l[0], Deps: spare(l[1:], xsAt(c.a[0].XS, i), sentinel)}
		}
		// the item list and the dependency lists are slice arguments as well (shape: Val.X / Val.XS)
		items = spare(items, c.a[0].X, func(j int) item { return item{ID: sentinel(j)} })
		watch(c, 0, "", true, items, func(a, b item) bool { return a.ID == b.ID && sameHdr(a.Deps, b.Deps) },
			func(a item) string { return fmt.Sprintf("{%s %s}", showZ(a.ID), showHdr(a.Deps)) })
		for i := range items {
			watch(c, 0, fmt.Sprintf("dependencies of item #%d", i), false, items[i].Deps, sameZ, showZ)
		}
		sorted, err := collection.TopologicalSort(items, func(it item) int64 { return it.ID }, func(it item) []int64 { return it.Deps })
		regOut(c, "the result", sorted)
		// the order in which the implementation ranged over its node map is not observable; for a correct result
		// it is reproduced by the result itself (see TopoModel.v); otherwise any order gives the same verdict
		order := []int64{}
		if err == nil {
			for _, it := range sorted {
				order = append(order, it.ID)
			}
		} else {
			seen := map[int64]bool{}
			for _, l := range src {
				if !seen[l[0]] {
					order = append(order, l[0])
				}
				seen[l[0]] = true
			}
		}
		oracle(c, 1, VL(order))
		if err != nil {
			if !errors.Is(err, collection.ErrCircularDependencyDetected) {
				return r1(VX(err.Error()))
			}
			return []Val{VB(false), VL(nil)}
		}
		return []Val{VB(true), VL(order)}
	}, func(a, res, aft []Val) []hit {
		src := a[0].LL
		idsL := []int64{}
		pos := map[int64]int{}
		for _, l := range src {
			idsL = append(idsL, l[0])
		}
		if !distinct(idsL) {
			return nil // malformed input: indices must identify the items
		}
		exists := map[int64]bool{}
		for _, id := range idsL {
			exists[id] = true
		}
		// reach[x][y]: y is reachable from x through >= 1 dependency edges (between existing items)
		reach := map[int64]map[int64]bool{}
		for _, l := range src {
			reach[l[0]] = map[int64]bool{}
			for _, d := range l[1:] {
				if exists[d] {
					reach[l[0]][d] = true
				}
			}
		}
		for _, k := range idsL {
			for _, i := range idsL {
				for _, j := range idsL {
					if reach[i][k] && reach[k][j] {
						reach[i][j] = true
					}
				}
			}
		}
		cyclic := false
		for _, i := range idsL {
			if reach[i][i] {
				cyclic = true
			}
		}
		ok := res[0].B
		if cyclic && ok {
			return one("cycle-not-reported", "the dependencies contain a cycle but the result is %v with a nil error", res[1].L)
		}
		if !cyclic && !ok {
			return one("acyclic-rejected", "no cycle, but ErrCircularDependencyDetected was returned")
		}
		if ok {
			if !sameMultiset(res[1].L, idsL) {
				return one("not-a-permutation", "items %v result %v", idsL, res[1].L)
			}
			for i, id := range res[1].L {
				pos[id] = i
			}
			for _, l := range src {
				for _, d := range l[1:] {
					if exists[d] && pos[l[0]] >= pos[d] {
						return one("dependency-order", "item %d depends on %d but does not come before it in %v", l[0], d, res[1].L)
					}
				}
			}
		}
		return nil
	}).orc()
}

func registerAll() {
	registerSlices()
	registerMaps()
	registerMisc()
}
