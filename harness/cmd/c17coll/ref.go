package main

import "fmt"

// callback families, mirrored by cmpk/predk/keyk/contk of MV.C17.CollModel

func cmpk(k int64) func(a, b int64) bool {
	if k == 0 {
		return func(a, b int64) bool { return a == b }
	}
	return func(a, b int64) bool { return a%k == b%k }
}
func predk(c, x int64) func(v int64) bool {
	switch c {
	case 0:
		return func(v int64) bool { return v == x }
	case 1:
		return func(v int64) bool { return v > x }
	case 2:
		return func(v int64) bool { return v%2 == x }
	case 3:
		return func(v int64) bool { return true }
	}
	return func(v int64) bool { return false }
}
func keyk(g int64) func(v int64) int64 {
	switch g {
	case 0:
		return func(v int64) int64 { return v }
	case 1:
		return func(v int64) int64 { return -v }
	case 2:
		return func(v int64) int64 {
			if v < 0 {
				return -v
			}
			return v
		}
	}
	return func(v int64) int64 { return v / 2 }
}
func contk(n, x int64) func(i int, v int64) bool {
	return func(i int, v int64) bool { return !(int64(i) == n || v == x) }
}

// ---- small brute-force helpers for the monitors

func one(class, format string, a ...interface{}) []hit {
	return []hit{{class, fmt.Sprintf(format, a...)}}
}
func member(s []int64, v int64, eq func(a, b int64) bool) bool {
	for _, x := range s {
		if eq(v, x) {
			return true
		}
	}
	return false
}
func counts(s []int64) map[int64]int {
	m := map[int64]int{}
	for _, x := range s {
		m[x]++
	}
	return m
}
func sameMultiset(a, b []int64) bool {
	if len(a) != len(b) {
		return false
	}
	ca, cb := counts(a), counts(b)
	if len(ca) != len(cb) {
		return false
	}
	for k, n := range ca {
		if cb[k] != n {
			return false
		}
	}
	return true
}
func subMultiset(r, s []int64) bool {
	cs := counts(s)
	for _, x := range r {
		cs[x]--
		if cs[x] < 0 {
			return false
		}
	}
	return true
}
func expectL(got Val, want []int64, class string) []hit {
	if got.T != "L" || !eqL(got.L, want) {
		return one(class, "expected %v got %s", want, showVal(got))
	}
	return nil
}
func expectLL(got Val, want [][]int64, class string) []hit {
	if got.T != "LL" || !eqLL(got.LL, want) {
		return one(class, "expected %v got %s", want, showVal(got))
	}
	return nil
}
func expectB(got Val, want bool, class string) []hit {
	if got.T != "B" || got.B != want {
		return one(class, "expected %v got %s", want, showVal(got))
	}
	return nil
}
func expectZ(got Val, want int64, class string) []hit {
	if got.T != "Z" || got.Z != want {
		return one(class, "expected %v got %s", want, showVal(got))
	}
	return nil
}
func expectM(got Val, want map[int64]int64, class string) []hit {
	w := pairsOf(want)
	if got.T != "M" || !eqP(got.M, w) {
		return one(class, "expected map%v got %s", w, showVal(got))
	}
	return nil
}
func expectP(got Val, want [][2]int64, class string) []hit {
	if got.T != "M" || !eqP(got.M, want) {
		return one(class, "expected %v got %s", want, showVal(got))
	}
	return nil
}

// first occurrence of every equivalence class, in order
func firstOccurrences(s []int64, eq func(a, b int64) bool) []int64 {
	want := []int64{}
	for i, x := range s {
		first := true
		for j := 0; j < i; j++ {
			if eq(x, s[j]) {
				first = false
			}
		}
		if first {
			want = append(want, x)
		}
	}
	return want
}

func dedupLaw(s, got []int64, eq func(a, b int64) bool) []hit {
	for i := range got {
		for j := 0; j < i; j++ {
			if eq(got[i], got[j]) {
				return one("duplicate-kept", "result %v keeps both %d and %d", got, got[j], got[i])
			}
		}
	}
	for _, x := range s {
		if !member(got, x, eq) {
			return one("element-lost", "result %v has nothing equal to input element %d", got, x)
		}
	}
	want := firstOccurrences(s, eq)
	if !eqL(got, want) {
		return one("not-first-occurrences", "expected %v got %v", want, got)
	}
	return nil
}

func sortLaw(s, got []int64, key func(int64) int64, desc bool) []hit {
	if !sameMultiset(s, got) {
		return one("not-a-permutation", "input %v result %v", s, got)
	}
	for i := 1; i < len(got); i++ {
		a, b := key(got[i-1]), key(got[i])
		if (!desc && a > b) || (desc && a < b) {
			return one("not-sorted", "result %v: position %d out of order", got, i)
		}
	}
	return nil
}

func keepWhere(s []int64, keep func(i int, v int64) bool) []int64 {
	r := []int64{}
	for i, v := range s {
		if keep(i, v) {
			r = append(r, v)
		}
	}
	return r
}
func hasIdx(idx []int64, i int) bool {
	for _, x := range idx {
		if x == int64(i) {
			return true
		}
	}
	return false
}
func concat(ss [][]int64) []int64 {
	r := []int64{}
	for _, s := range ss {
		r = append(r, s...)
	}
	return r
}
func reversed(s []int64) []int64 {
	r := make([]int64, len(s))
	for i, v := range s {
		r[len(s)-1-i] = v
	}
	return r
}
func sortedCopy(s []int64) []int64 {
	r := append([]int64{}, s...)
	for i := 1; i < len(r); i++ {
		for j := i; j > 0 && r[j] < r[j-1]; j-- {
			r[j], r[j-1] = r[j-1], r[j]
		}
	}
	return r
}
func keysOf(m map[int64]int64) []int64 {
	r := []int64{}
	for _, p := range pairsOf(m) {
		r = append(r, p[0])
	}
	return r
}
func valsOf(m map[int64]int64) []int64 { // in key order
	r := []int64{}
	for _, p := range pairsOf(m) {
		r = append(r, p[1])
	}
	return r
}
func distinct(s []int64) bool {
	seen := map[int64]bool{}
	for _, x := range s {
		if seen[x] {
			return false
		}
		seen[x] = true
	}
	return true
}
