package main

// Physical layer of the "leave inputs alone" clause: what a Go caller can observe of a slice argument is not only
// its len elements but the whole backing array.  A slice argument may therefore be materialised as a prefix x[:len]
// of a longer array whose slots len..cap hold sentinel values (Val.X / Val.XS = number of such slots); every backing
// array handed to the implementation is copied before the call and compared afterwards (visible part and the part
// behind len), and every slice the implementation returns is compared by address range with every array handed in.

import (
	"fmt"
	"reflect"
	"strings"
	"unsafe"

	"verif/harness/vh"
)

const sentinelBase = -(int64(1) << 52) // far away from every generated element (|element| <= 2^39)

func sentinel(j int) int64 { return sentinelBase - int64(j) }

// spare materialises s as the prefix x[:len(s)] of a fresh array with extra more slots holding fill(j).
func spare[T any](s []T, extra int, fill func(j int) T) []T {
	r := make([]T, len(s), len(s)+extra)
	copy(r, s)
	t := r[len(r):cap(r)]
	for j := range t {
		t[j] = fill(j)
	}
	return r
}

// span: the memory of one slice: [lo,vis) its len elements, [vis,hi) its spare capacity
type span struct {
	lo, vis, hi uintptr
	esz         uintptr
}

func spanOf[T any](s []T) span {
	if cap(s) == 0 {
		return span{}
	}
	var z T
	sz := unsafe.Sizeof(z)
	p := uintptr(unsafe.Pointer(unsafe.SliceData(s)))
	return span{lo: p, vis: p + uintptr(len(s))*sz, hi: p + uintptr(cap(s))*sz, esz: sz}
}
func (a span) overlaps(b span) bool { return a.hi > a.lo && b.hi > b.lo && a.lo < b.hi && b.lo < a.hi }

// block: one backing array handed to the implementation, with the comparison against the copy taken before the call
type block struct {
	arg  int    // argument number
	what string // "" = the argument itself, otherwise which part of it (an inner slice of a list of slices)
	top  bool   // the argument's own array (the aliasing allowances refer to it)
	n, c int    // len, cap
	sp   span
	diff func() (vis, tail []string) // slots whose content differs now: inside len / behind len
}

func (b *block) name() string {
	s := fmt.Sprintf("argument #%d", b.arg)
	if b.what != "" {
		s += " " + b.what
	}
	return fmt.Sprintf("%s (len %d, cap %d)", s, b.n, b.c)
}

// watch copies the whole backing array of s (all cap(s) slots) and registers the comparison.
func watch[T any](c *cx, arg int, what string, top bool, s []T, same func(a, b T) bool, show func(T) string) {
	full := s[:cap(s)]
	snap := append([]T(nil), full...)
	n := len(s)
	c.blocks = append(c.blocks, &block{arg: arg, what: what, top: top, n: n, c: cap(s), sp: spanOf(s), diff: func() (vis, tail []string) {
		for i := range full {
			if !same(full[i], snap[i]) {
				d := fmt.Sprintf("slot %d was %s, is %s", i, show(snap[i]), show(full[i]))
				if i < n {
					vis = append(vis, d)
				} else {
					tail = append(tail, d)
				}
			}
		}
		return
	}})
}

func sameZ(a, b int64) bool { return a == b }
func showZ(a int64) string {
	if a <= sentinelBase {
		return fmt.Sprintf("sentinel#%d", sentinelBase-a)
	}
	return fmt.Sprint(a)
}
func sameI(a, b int) bool { return a == b }
func showI(a int) string  { return showZ(int64(a)) }

// slice headers: same array, same len, same cap
func sameHdr(a, b []int64) bool {
	return len(a) == len(b) && cap(a) == cap(b) && unsafe.SliceData(a) == unsafe.SliceData(b)
}
func showHdr(a []int64) string {
	return fmt.Sprintf("%s@%p/cap %d", showL(a), unsafe.SliceData(a), cap(a))
}
func showL(a []int64) string {
	it := make([]string, len(a))
	for i, x := range a {
		it[i] = showZ(x)
	}
	return fmt.Sprint(it)
}
func sameMapObj(a, b map[int64]int64) bool {
	return reflect.ValueOf(a).Pointer() == reflect.ValueOf(b).Pointer()
}
func showMapObj(a map[int64]int64) string {
	return fmt.Sprintf("map%v@%#x", pairsOf(a), reflect.ValueOf(a).Pointer())
}

// ---------------------------------------------------------------- materialising the arguments

// matS: argument i as a live []int64 (nil for N), with Val.X slots of spare capacity
func (c *cx) matS(i int) []int64 {
	v := c.a[i]
	if v.T != "L" {
		return nil
	}
	if v.V > 0 && i > 0 && c.a[0].T == "L" {
		base, off := c.S(0), v.V-1
		if off+len(v.L) <= len(base) && len(v.L) > 0 {
			w := base[off : off+len(v.L)]
			ok := true
			for k := range w {
				ok = ok && w[k] == v.L[k]
			}
			if ok {
				watch(c, i, "(a window of argument #0)", false, w, sameZ, showZ)
				return w
			}
		}
	}
	s := spare(v.L, v.X, sentinel)
	watch(c, i, "", true, s, sameZ, showZ)
	return s
}

// viewShape: the call with argument #1 handed over as a window of argument #0's array, when its value occurs there
func viewShape(d *fnDef, a []Val, r *vh.RNG) ([]Val, bool) {
	if ps := strings.Split(d.shape, ","); len(ps) < 2 || ps[1] != "t" { // the second argument is a slice of elements
		return nil, false
	}
	if d.inplace || d.oracle || len(a) < 2 || a[0].T != "L" || a[1].T != "L" || len(a[1].L) == 0 || len(a[1].L) > len(a[0].L) {
		return nil, false
	}
	var offs []int
	for off := 0; off+len(a[1].L) <= len(a[0].L); off++ {
		ok := true
		for k, x := range a[1].L {
			ok = ok && a[0].L[off+k] == x
		}
		if ok {
			offs = append(offs, off)
		}
	}
	if len(offs) == 0 {
		return nil, false
	}
	b := append([]Val{}, a...)
	b[1].V, b[1].X = offs[r.Intn(len(offs))]+1, 0
	return b, true
}

// matInts: an index list (variadic ...int)
func (c *cx) matInts(i int) []int {
	v := c.a[i]
	r := make([]int, len(v.L))
	for j, x := range v.L {
		r[j] = int(x)
	}
	r = spare(r, v.X, func(j int) int { return int(sentinel(j)) })
	watch(c, i, "", true, r, sameI, showI)
	return r
}

func xsAt(xs []int, k int) int {
	if k < len(xs) {
		return xs[k]
	}
	return 0
}

// matSS: a list of slices: the outer slice has Val.X spare slots (holding sentinel slices), inner slice k has Val.XS[k]
func (c *cx) matSS(i int) [][]int64 {
	v := c.a[i]
	if v.T != "LL" {
		return nil
	}
	r := make([][]int64, len(v.LL))
	for k, x := range v.LL {
		r[k] = spare(x, xsAt(v.XS, k), sentinel)
	}
	r = spare(r, v.X, func(j int) []int64 { return []int64{sentinel(j)} })
	watch(c, i, "", true, r, sameHdr, showHdr)
	for k, x := range r[:cap(r)] {
		watch(c, i, fmt.Sprintf("element #%d", k), false, x, sameZ, showZ)
	}
	return r
}

// matMM: a list of maps: the outer slice has Val.X spare slots (holding sentinel maps)
func (c *cx) matMM(i int) []map[int64]int64 {
	v := c.a[i]
	if v.T != "MM" {
		return nil
	}
	r := make([]map[int64]int64, len(v.MM))
	for k, x := range v.MM {
		r[k] = Val{T: "M", M: x}.amap()
	}
	for _, k := range v.NM {
		if k < len(r) && len(r[k]) == 0 {
			r[k] = nil
		}
	}
	r = spare(r, v.X, func(j int) map[int64]int64 { return map[int64]int64{sentinel(j): sentinel(j)} })
	watch(c, i, "", true, r, sameMapObj, showMapObj)
	return r
}

// ---------------------------------------------------------------- results

type resSlice struct {
	what string
	sp   span
}

func regOut[T any](c *cx, what string, s []T) {
	c.results = append(c.results, resSlice{what, spanOf(s)})
	c.keep = append(c.keep, s) // the memory stays allocated until the comparison is done
}

// out / outLL register a slice result of the implementation for the aliasing check and pass it through
func (c *cx) out(s []int64) []int64 { regOut(c, "the result", s); return s }
func (c *cx) outLL(ss [][]int64) [][]int64 {
	regOut(c, "the result", ss)
	for k, x := range ss {
		regOut(c, fmt.Sprintf("element #%d of the result", k), x)
	}
	return ss
}

// aliasing modes of a helper that is not in-place
const (
	aliasNone = iota // returns a new container: no memory in common with any argument
	aliasSelf        // may hand back argument #0 itself (same array, same len) when there is nothing to remove
	aliasSub         // returns sub-slices x[i:j], j <= len, of argument #0
)

// physObs: what the physical layer observed on one call
type physObs struct {
	mutated     []physHit
	alias       []string
	verdict     string // no-slice-result | fresh | allowed:<why> | shares-memory
	sliceInputs int    // backing arrays handed in
	spareInputs int    // ... of which with cap > len
	maxSpare    int
}
type physHit struct {
	arg    int
	tail   bool
	detail string
}

func (c *cx) observe(d *fnDef) (o physObs) {
	for _, b := range c.blocks {
		o.sliceInputs++
		if b.c > b.n {
			o.spareInputs++
			if b.c-b.n > o.maxSpare {
				o.maxSpare = b.c - b.n
			}
		}
		vis, tail := b.diff()
		if len(tail) > 0 {
			o.mutated = append(o.mutated, physHit{b.arg, true, fmt.Sprintf("the backing array of %s was written behind its length: %s", b.name(), tail[0])})
		}
		if len(vis) > 0 {
			o.mutated = append(o.mutated, physHit{b.arg, false, fmt.Sprintf("%s was written: %s", b.name(), vis[0])})
		}
	}
	o.verdict = "no-slice-result"
	for _, r := range c.results {
		if r.sp.hi == r.sp.lo {
			continue
		}
		if o.verdict == "no-slice-result" {
			o.verdict = "fresh"
		}
		for _, b := range c.blocks {
			if !r.sp.overlaps(b.sp) {
				continue
			}
			why := ""
			if b.top && b.arg == 0 {
				switch {
				case d.inplace:
					why = "in-place"
				case d.alias == aliasSelf && r.sp.lo == b.sp.lo && r.sp.vis == b.sp.vis:
					why = "returns-argument"
				case d.alias == aliasSub && r.sp.lo >= b.sp.lo && r.sp.vis <= b.sp.vis:
					why = "sub-slice"
				}
			}
			if why != "" {
				if o.verdict == "fresh" {
					o.verdict = "allowed:" + why
				}
				continue
			}
			o.verdict = "shares-memory"
			where := "starts before it"
			if r.sp.lo >= b.sp.lo {
				where = fmt.Sprintf("starts at its slot %d", (r.sp.lo-b.sp.lo)/b.sp.esz)
			}
			o.alias = append(o.alias, fmt.Sprintf("%s (len %d, cap %d) shares the backing array of %s: it %s",
				r.what, (r.sp.vis-r.sp.lo)/r.sp.esz, (r.sp.hi-r.sp.lo)/r.sp.esz, b.name(), where))
		}
	}
	return
}

// ---------------------------------------------------------------- input shapes

var spareChoices = []int{1, 1, 2, 3, 4, 6, 9, 17}

func shaped(a []Val) bool {
	for _, v := range a {
		if v.X != 0 || v.V != 0 {
			return true
		}
		for _, x := range v.XS {
			if x != 0 {
				return true
			}
		}
	}
	return false
}

// spareShape: the same arguments with slice arguments (lists of values, of indices, of slices, of maps) materialised as
// prefixes of longer arrays; at least one of them gets spare capacity.  false: the call has no (non-nil) slice argument.
func spareShape(a []Val, r *vh.RNG) ([]Val, bool) {
	b := append([]Val{}, a...)
	var slots []*int
	for i := range b {
		switch b[i].T {
		case "L", "MM":
			slots = append(slots, &b[i].X)
		case "LL":
			b[i].XS = make([]int, len(b[i].LL))
			slots = append(slots, &b[i].X)
			for k := range b[i].XS {
				slots = append(slots, &b[i].XS[k])
			}
		}
	}
	if len(slots) == 0 {
		return a, false
	}
	must := r.Intn(len(slots))
	for k, p := range slots {
		if k == must || r.Chance(2, 3) {
			*p = spareChoices[r.Intn(len(spareChoices))]
		}
	}
	for i := range b { // canonical form: no list of zeros
		if !shaped(b[i : i+1]) {
			b[i].XS = nil
		}
	}
	return b, true
}
