package main

import (
	"math"
	"strings"

	"verif/harness/vh"
)

// ---------------------------------------------------------------- exhaustive scopes

// all slices over {1..alpha} with length <= maxLen, shortest first
func allSlices(alpha, maxLen int) [][]int64 {
	r := [][]int64{{}}
	prev := [][]int64{{}}
	for l := 1; l <= maxLen; l++ {
		var cur [][]int64
		for _, p := range prev {
			for a := 1; a <= alpha; a++ {
				cur = append(cur, append(append([]int64{}, p...), int64(a)))
			}
		}
		r = append(r, cur...)
		prev = cur
	}
	return r
}

// all maps with keys among ks and values among vs
func allMaps(ks, vs []int64) []amap {
	r := []amap{{}}
	for _, k := range ks {
		var cur []amap
		for _, m := range r {
			cur = append(cur, cloneM(m))
			for _, v := range vs {
				n := cloneM(m)
				n[k] = v
				cur = append(cur, n)
			}
		}
		r = cur
	}
	return r
}

// all lists of at most n elements drawn from pool (indices)
func allTuples(pool, n int) [][]int {
	r := [][]int{{}}
	prev := [][]int{{}}
	for l := 1; l <= n; l++ {
		var cur [][]int
		for _, p := range prev {
			for a := 0; a < pool; a++ {
				cur = append(cur, append(append([]int{}, p...), a))
			}
		}
		r = append(r, cur...)
		prev = cur
	}
	return r
}

// ---------------------------------------------------------------- random inputs

func randSlice(r *vh.RNG) []int64 {
	var n int
	switch r.Intn(6) {
	case 0:
		n = r.Range(0, 3)
	case 1:
		n = r.Range(13, 60) // beyond the insertion-sort threshold of package sort
	default:
		n = r.Range(2, 12)
	}
	s := make([]int64, n)
	switch r.Intn(6) {
	case 0: // all equal
		v := int64(r.Range(-3, 3))
		for i := range s {
			s[i] = v
		}
	case 1: // large magnitudes, both signs
		for i := range s {
			s[i] = int64(r.U64()>>24) - (1 << 39)
		}
	case 2: // negative only
		for i := range s {
			s[i] = -int64(r.Range(1, 5))
		}
	case 3: // duplicate heavy
		for i := range s {
			s[i] = int64(r.Range(1, 2))
		}
	case 4: // few large values repeated
		pool := []int64{int64(r.U64()>>24) - (1 << 39), int64(r.U64()>>24) - (1 << 39), -7, 0}
		for i := range s {
			s[i] = pool[r.Intn(len(pool))]
		}
	default:
		for i := range s {
			s[i] = int64(r.Range(-4, 4))
		}
	}
	return s
}
func randArgSlice(r *vh.RNG) Val {
	if r.Chance(1, 25) {
		return VN()
	}
	return VL(randSlice(r))
}
func randMap(r *vh.RNG) amap {
	n := r.Range(0, 8)
	m := amap{}
	mode := r.Intn(4)
	for i := 0; i < n; i++ {
		k := int64(r.Range(-5, 5))
		switch mode {
		case 0:
			m[k] = -int64(r.Range(1, 6)) // all negative
		case 1:
			m[k] = 0 // zero values only
		case 2:
			m[k] = int64(r.U64()>>24) - (1 << 39)
		default:
			m[k] = int64(r.Range(-3, 3))
		}
	}
	return m
}
func randArgMap(r *vh.RNG) Val {
	if r.Chance(1, 25) {
		return VN()
	}
	return VM(randMap(r))
}

var ks = []int64{0, 2, 3}

// ---------------------------------------------------------------- shapes

type tuple struct {
	args  []Val
	small bool // inside the scope that is always evaluated by the Coq model
}

type scope struct {
	thorough bool
	rng      *vh.RNG
	sl       [][]int64 // unary scope
	slSmall  int       // length bound of "small"
	pr       [][]int64 // pair scope
	prSmall  int
	ssPool   [][]int64
	mp       []amap
	mmPool   []amap
}

func argS(s []int64) Val { return VL(s) }

var preds = [][2]int64{{0, 1}, {0, 2}, {1, 1}, {1, 2}, {2, 0}, {2, 1}, {3, 0}, {4, 0}}
var idxLists = [][]int64{{}, {0}, {1}, {0, 2}, {-1}, {7}, {1, 1, 3}, {0, 1, 2, 3, 4, 5}, {2, -1, 9}}

func (sc *scope) slicesArg(nonEmpty bool, maxLen int) []tuple {
	var r []tuple
	if !nonEmpty {
		r = append(r, tuple{[]Val{VN()}, true})
	}
	for _, s := range sc.sl {
		if (nonEmpty && len(s) == 0) || (maxLen > 0 && len(s) > maxLen) {
			continue
		}
		r = append(r, tuple{[]Val{VL(s)}, len(s) <= sc.slSmall})
	}
	return r
}

// extend every tuple with each of the given trailing argument lists; tuples beyond "smallLen" lose smallness
func cross(base []tuple, ext [][]Val, keepSmall bool) []tuple {
	var r []tuple
	for _, b := range base {
		for _, e := range ext {
			r = append(r, tuple{append(append([]Val{}, b.args...), e...), b.small && keepSmall})
		}
	}
	return r
}
func zs(vals ...int64) [][]Val {
	r := make([][]Val, len(vals))
	for i, v := range vals {
		r[i] = []Val{VZ(v)}
	}
	return r
}
func pairsZ(ps [][2]int64) [][]Val {
	r := make([][]Val, len(ps))
	for i, p := range ps {
		r[i] = []Val{VZ(p[0]), VZ(p[1])}
	}
	return r
}
func listsZ(ls [][]int64) [][]Val {
	r := make([][]Val, len(ls))
	for i, l := range ls {
		r[i] = []Val{VL(l)}
	}
	return r
}

func (sc *scope) tuples(shape string) []tuple {
	short := func(t []tuple, n int) []tuple { // smallness only up to length n of the first argument
		for i := range t {
			if len(t[i].args[0].L) > n {
				t[i].small = false
			}
		}
		return t
	}
	maps := func() []tuple {
		r := []tuple{{[]Val{VN()}, true}}
		for _, m := range sc.mp {
			r = append(r, tuple{[]Val{VM(m)}, true})
		}
		return r
	}
	lists := func(pool int, n int, mk func(ix []int) Val) []tuple {
		var r []tuple
		for _, ix := range allTuples(pool, n) {
			r = append(r, tuple{[]Val{mk(ix)}, len(ix) <= 2})
		}
		return r
	}
	ss := func() []tuple {
		return lists(len(sc.ssPool), 3, func(ix []int) Val {
			l := make([][]int64, len(ix))
			for i, j := range ix {
				l[i] = sc.ssPool[j]
			}
			return VLL(l)
		})
	}
	mms := func() []tuple {
		return lists(len(sc.mmPool), 3, func(ix []int) Val {
			l := make([]amap, len(ix))
			for i, j := range ix {
				l[i] = sc.mmPool[j]
			}
			return VMM(l)
		})
	}
	shortLists := listsZ(allSlices(3, 2))
	pairs := func() []tuple {
		var r []tuple
		withNil := append([][]int64{nil}, sc.pr...)
		for _, s := range withNil {
			for _, t := range withNil {
				r = append(r, tuple{[]Val{AL(s), AL(t)}, len(s) <= sc.prSmall && len(t) <= sc.prSmall})
			}
		}
		return r
	}
	switch shape {
	case "s":
		return sc.slicesArg(false, 0)
	case "s,k":
		return cross(sc.slicesArg(false, 0), zs(0, 2), true)
	case "s,g":
		return short(cross(sc.slicesArg(false, 0), zs(0, 1, 2, 3), true), 3)
	case "s,g01":
		return short(cross(sc.slicesArg(false, 0), zs(0, 1), true), 3)
	case "s,idx":
		return short(cross(sc.slicesArg(false, 0), listsZ(idxLists), true), 3)
	case "s,p":
		return short(cross(sc.slicesArg(false, 0), pairsZ(preds), true), 3)
	case "s,n":
		return short(cross(sc.slicesArg(false, 0), zs(-1, 0, 1, 2, 3, 4, 7), true), 3)
	case "s,nb": // a batch size: also the "no limit" sentinels around MaxInt
		return short(cross(sc.slicesArg(false, 0), zs(-1, 0, 1, 2, 3, 4, 7, math.MaxInt64, math.MaxInt64-1, math.MaxInt64-2, math.MinInt64, 1<<62), true), 3)
	case "s,v":
		return short(cross(sc.slicesArg(false, 0), zs(0, 1, 2, 3), true), 3)
	case "s,v,k":
		return short(cross(cross(sc.slicesArg(false, 0), zs(0, 1, 2, 3), true), zs(0, 2), true), 3)
	case "s,v,v":
		return short(cross(cross(sc.slicesArg(false, 4), zs(1, 2, 4), true), zs(0, 9), true), 2)
	case "s,v,p":
		return short(cross(cross(sc.slicesArg(false, 4), zs(0, 9), true), pairsZ(preds), true), 2)
	case "s,n,x":
		return short(cross(cross(sc.slicesArg(false, 0), zs(-1, 0, 1, 3), true), zs(0, 2), true), 3)
	case "s5,lo,hi":
		return short(cross(cross(sc.slicesArg(false, 5), zs(-1, 0, 1, 2, 3), true), zs(0, 1, 2, 3, 6), true), 3)
	case "s+,i":
		var r []tuple
		for _, t := range sc.slicesArg(true, 0) {
			for i := -2; i < len(t.args[0].L); i++ {
				r = append(r, tuple{[]Val{t.args[0], VZ(int64(i))}, len(t.args[0].L) <= 3})
			}
		}
		return r
	case "s+,nsel", "s+,nsel0":
		var r []tuple
		for _, t := range sc.slicesArg(true, 0) {
			lo := 1
			if shape == "s+,nsel0" {
				lo = 0
			}
			for n := lo; n <= len(t.args[0].L); n++ {
				r = append(r, tuple{[]Val{t.args[0], VZ(int64(n))}, len(t.args[0].L) <= 3})
			}
		}
		return r
	case "z,z":
		return cross([]tuple{{[]Val{VZ(-2)}, true}, {[]Val{VZ(0)}, true}, {[]Val{VZ(3)}, true}}, zs(-2, 0, 3, 5), true)
	case "s,t":
		return pairs()
	case "s,t,k":
		return cross(pairs(), zs(0, 2), true)
	case "ss":
		return ss()
	case "ss,v":
		return cross(ss(), zs(1, 2, 3), true)
	case "ss,v,k":
		return cross(cross(ss(), zs(1, 2, 3), true), zs(0, 2), true)
	case "ss,t":
		return cross(ss(), shortLists, true)
	case "ss,t,k":
		return cross(cross(ss(), shortLists, true), zs(0, 2), true)
	case "m":
		return maps()
	case "m,n":
		return cross(maps(), zs(-1, 0, 1, 2, 3, 5), true)
	case "m,nb":
		return cross(maps(), zs(-1, 0, 1, 2, 3, 5, math.MaxInt64, math.MaxInt64-1, math.MinInt64), true)
	case "m,v":
		return cross(maps(), zs(0, 1, 2, 3), true)
	case "m,v,k":
		return cross(cross(maps(), zs(0, 1, 2, 3), true), zs(0, 2), true)
	case "m,t":
		return cross(maps(), append(shortLists, []Val{VL([]int64{1, 1})}, []Val{VL([]int64{1, 2, 3, 3})}), true)
	case "m,t,k":
		return cross(cross(maps(), shortLists, true), zs(0, 2), true)
	case "m,p":
		return cross(maps(), pairsZ(preds), true)
	case "m,g01":
		return cross(maps(), zs(0, 1), true)
	case "m,n,x":
		return cross(cross(maps(), zs(-1, 0, 1, 2), true), zs(-9, 1, 2), true)
	case "m,n,x,g":
		return cross(cross(cross(maps(), zs(-1, 0, 1, 2), true), zs(-9, 1), true), zs(0, 1, 2, 3), true)
	case "m,nselm":
		var r []tuple
		for _, t := range maps() {
			for n := 0; n <= len(t.args[0].M); n++ {
				r = append(r, tuple{[]Val{t.args[0], VZ(int64(n))}, true})
			}
		}
		return r
	case "m,m":
		var r []tuple
		for _, a := range maps() {
			for _, b := range maps() {
				r = append(r, tuple{[]Val{a.args[0], b.args[0]}, len(a.args[0].M)+len(b.args[0].M) <= 3})
			}
		}
		return r
	case "m,m,k":
		return cross(sc.tuples("m,m"), zs(0, 2), true)
	case "mm":
		return mms()
	case "mm,v":
		return cross(mms(), zs(0, 1, 2), true)
	case "mm,t":
		return cross(mms(), listsZ(allSlices(2, 2)), true)
	case "mm,t,k":
		return cross(cross(mms(), listsZ([][]int64{{}, {0}, {1}, {2}, {0, 1}, {1, 2}, {2, 2}, {3}}), true), zs(0, 2), true)
	case "topo":
		return sc.topoTuples()
	}
	panic("unknown shape " + shape)
}

// all dependency graphs on n items (indices 1..n, each depending on a subset of {1..n+1}; n+1 names no item)
func (sc *scope) topoTuples() []tuple {
	var r []tuple
	maxN := 2
	if sc.thorough {
		maxN = 3
	}
	for n := 0; n <= maxN; n++ {
		nsub := 1 << uint(n+1)
		total := 1
		for i := 0; i < n; i++ {
			total *= nsub
		}
		for code := 0; code < total; code++ {
			items := make([][]int64, n)
			c := code
			for i := 0; i < n; i++ {
				sub := c % nsub
				c /= nsub
				it := []int64{int64(i + 1)}
				for d := 0; d <= n; d++ {
					if sub&(1<<uint(d)) != 0 {
						it = append(it, int64(d+1))
					}
				}
				items[i] = it
			}
			r = append(r, tuple{[]Val{VLL(items)}, true})
		}
	}
	return r
}

func randTopo(r *vh.RNG) []Val {
	n := r.Range(0, 7)
	perm := make([]int64, n)
	for i := range perm {
		perm[i] = int64(i + 1)
	}
	for i := n - 1; i > 0; i-- {
		j := r.Intn(i + 1)
		perm[i], perm[j] = perm[j], perm[i]
	}
	acyclic := r.Chance(3, 5) // mostly valid inputs: edges only towards larger rank
	rank := map[int64]int{}
	for i, id := range perm {
		rank[id] = i
	}
	order := append([]int64{}, perm...)
	for i := n - 1; i > 0; i-- {
		j := r.Intn(i + 1)
		order[i], order[j] = order[j], order[i]
	}
	items := make([][]int64, n)
	for i, id := range order {
		it := []int64{id}
		for _, d := range perm {
			if d == id && (acyclic || !r.Chance(1, 12)) {
				continue
			}
			if acyclic && rank[d] < rank[id] {
				continue
			}
			if r.Chance(1, 3) {
				it = append(it, d)
				if r.Chance(1, 8) {
					it = append(it, d) // repeated dependency
				}
			}
		}
		if r.Chance(1, 6) {
			it = append(it, int64(n+1+r.Intn(3))) // names no item
		}
		items[i] = it
	}
	if n >= 2 && r.Chance(1, 30) { // malformed: two items with the same index
		items[0][0] = items[1][0]
		out.Malformed()
	}
	return []Val{VLL(items)}
}

// random arguments for a shape
func (sc *scope) randomArgs(shape string, r *vh.RNG) []Val {
	if shape == "topo" {
		return randTopo(r)
	}
	var a []Val
	rz := func() int64 { return int64(r.Range(-4, 4)) }
	firstS := func() []int64 {
		if len(a) > 0 && a[0].T == "L" {
			return a[0].L
		}
		return nil
	}
	for _, p := range strings.Split(shape, ",") {
		switch p {
		case "s", "t", "s5":
			v := randArgSlice(r)
			if p == "s5" && len(v.L) > 7 {
				v.L = v.L[:7]
			}
			if p == "t" && r.Chance(1, 3) && len(firstS()) > 0 { // related to the first slice
				t := append([]int64{}, firstS()...)
				if r.Bool() && len(t) > 0 {
					t[r.Intn(len(t))] = rz()
				}
				v = VL(t)
			} else if p == "t" && r.Chance(1, 4) && len(firstS()) > 0 { // a window of the first slice (view shape)
				f := firstS()
				lo := r.Intn(len(f))
				hi := lo + 1 + r.Intn(len(f)-lo)
				v = VL(append([]int64{}, f[lo:hi]...))
			}
			a = append(a, v)
		case "s+":
			s := randSlice(r)
			if len(s) == 0 {
				s = []int64{rz()}
			}
			a = append(a, VL(s))
		case "k":
			a = append(a, VZ(ks[r.Intn(len(ks))]))
		case "g":
			a = append(a, VZ(int64(r.Intn(4))))
		case "g01":
			a = append(a, VZ(int64(r.Intn(2))))
		case "idx":
			n := r.Range(0, 6)
			l := make([]int64, n)
			for i := range l {
				l[i] = int64(r.Range(-2, 14))
			}
			a = append(a, VL(l))
		case "p":
			c := int64(r.Intn(5))
			x := rz()
			if c == 2 {
				x = int64(r.Range(-1, 1))
			}
			a = append(a, VZ(c), VZ(x))
		case "n":
			a = append(a, VZ(int64(r.Range(-2, 9))))
		case "nb":
			if r.Chance(1, 5) {
				a = append(a, VZ([]int64{math.MaxInt64, math.MaxInt64 - 1, math.MaxInt64 - int64(r.Intn(12)), math.MinInt64, 1 << 62, 1 << 31}[r.Intn(6)]))
			} else {
				a = append(a, VZ(int64(r.Range(-2, 9))))
			}
		case "v", "x", "z":
			if s := firstS(); len(s) > 0 && r.Bool() {
				a = append(a, VZ(s[r.Intn(len(s))]))
			} else {
				a = append(a, VZ(rz()))
			}
		case "lo":
			a = append(a, VZ(int64(r.Range(-1, 4))))
		case "hi":
			a = append(a, VZ(int64(r.Range(0, 7))))
		case "i":
			a = append(a, VZ(int64(r.Range(-3, len(a[0].L)-1))))
		case "nsel":
			a = append(a, VZ(int64(r.Range(1, len(a[0].L)))))
		case "nsel0":
			a = append(a, VZ(int64(r.Range(0, len(a[0].L)))))
		case "nselm":
			a = append(a, VZ(int64(r.Range(0, len(a[0].M)))))
		case "ss":
			n := r.Range(0, 4)
			l := make([][]int64, n)
			for i := range l {
				l[i] = randSlice(r)
				if len(l[i]) > 6 {
					l[i] = l[i][:6]
				}
			}
			a = append(a, VLL(l))
		case "m":
			a = append(a, randArgMap(r))
		case "mm":
			n := r.Range(0, 4)
			l := make([]amap, n)
			for i := range l {
				l[i] = randMap(r)
			}
			v := VMM(l)
			// a third of the lists carry NIL maps (mostly in front): nil and empty are the same value, not the same Go object
			if n > 0 && r.Chance(1, 3) {
				for i := range l {
					if (i == 0 && r.Chance(3, 4)) || r.Chance(1, 5) {
						l[i] = amap{}
						v.MM[i] = nil
						v.NM = append(v.NM, i)
					}
				}
			}
			a = append(a, v)
		default:
			panic("randomArgs: " + p + " in " + shape)
		}
	}
	return a
}

// ---------------------------------------------------------------- driver

func generate(f vh.Flags) {
	thorough := f.Tier == "thorough"
	rng := vh.NewRNG(f.Seed)
	sc := &scope{thorough: thorough, rng: rng}
	if thorough {
		sc.sl, sc.slSmall = allSlices(3, 6), 6
		sc.pr, sc.prSmall = allSlices(3, 4), 4
		sc.ssPool = allSlices(3, 2)
	} else {
		sc.sl, sc.slSmall = allSlices(3, 5), 4
		sc.pr, sc.prSmall = allSlices(3, 3), 2
		sc.ssPool = allSlices(2, 2)
	}
	sc.mp = allMaps([]int64{1, 2, 3}, []int64{0, 1, 2})
	sc.mmPool = allMaps([]int64{1, 2}, []int64{0, 1})

	for _, c := range corpus() {
		record(byName[c.Fn], c.Args, true)
	}
	nrand := f.N
	if nrand == 0 {
		nrand = 30
		if thorough {
			nrand = 300
		}
	}
	sampler := vh.NewRNG(f.Seed ^ 0x5eed)
	budget := 70 // calls per helper evaluated by the Coq model (the monitors see every call)
	if thorough {
		budget = 2500
	}
	for _, d := range fns {
		ts := sc.tuples(d.shape)
		// quick tier: the model evaluates a stratified sample (half from the small scope, half from the rest);
		// the monitors see every tuple
		pick := make([]bool, len(ts))
		if len(ts) <= budget {
			for i := range pick {
				pick[i] = true
			}
		} else {
			var small, big []int
			for i, t := range ts {
				if t.small {
					small = append(small, i)
				} else {
					big = append(big, i)
				}
			}
			take := func(ix []int, n int) {
				for ; n > 0 && len(ix) > 0; n-- {
					j := sampler.Intn(len(ix))
					pick[ix[j]] = true
					ix[j] = ix[len(ix)-1]
					ix = ix[:len(ix)-1]
				}
			}
			ns := budget / 2
			if len(big) < budget-ns {
				ns = budget - len(big)
			}
			if len(small) < ns {
				ns = len(small)
			}
			take(small, ns)
			take(big, budget-ns)
		}
		for i, t := range ts {
			record(d, t.args, pick[i])
		}
		for i := 0; i < nrand; i++ {
			cr, _ := rng.Derive()
			record(d, sc.randomArgs(d.shape, cr), true)
		}
	}
}

func corpus() []Case {
	L := func(v ...int64) Val { return VL(v) }
	M := func(p ...int64) Val {
		m := amap{}
		for i := 0; i+1 < len(p); i += 2 {
			m[p[i]] = p[i+1]
		}
		return VM(m)
	}
	LX := func(x int, v ...int64) Val { r := VL(v); r.X = x; return r } // prefix of an array with x more slots
	LLX := func(x int, xs []int, l ...[]int64) Val { r := VLL(l); r.X, r.XS = x, xs; return r }
	return []Case{
		// slices with capacity behind their length: a merge must not append into its first argument (nor may the membership
		// tests built on it), a single merged slice is still a copy; the allowed cases: the argument itself handed back when
		// there is nothing to remove, batches as sub-slices (the last one reaches into the spare capacity), in-place
		// compaction inside len
		{Fn: "MergeSlices", Args: []Val{LLX(0, []int{4, 0}, []int64{1, 2}, []int64{9, 9})}},
		{Fn: "MergeSlices", Args: []Val{LLX(2, []int{3}, []int64{1, 2})}},
		{Fn: "MergeSlice", Args: []Val{LX(4, 1, 2)}},
		{Fn: "InComparableSlices", Args: []Val{LLX(0, []int{5, 0}, []int64{1}, []int64{7, 8}), VZ(3)}},
		{Fn: "AllInSlices", Args: []Val{LLX(1, []int{6, 2}, []int64{}, []int64{1}), LX(2, 1), VZ(0)}},
		{Fn: "CloneSlice", Args: []Val{LX(3, 1, 2)}},
		{Fn: "DeduplicateSlice", Args: []Val{LX(3, 1)}},
		{Fn: "DeduplicateSlice", Args: []Val{LX(3, 1, 1, 2)}},
		{Fn: "FilterOutByIndices", Args: []Val{LX(2, 1, 2, 3), LX(1, 7)}},
		{Fn: "FilterOutByIndices", Args: []Val{LX(2, 1, 2, 3), LX(1, 0)}},
		{Fn: "ConvertSliceToBatches", Args: []Val{LX(3, 1, 2, 3, 4, 5), VZ(2)}},
		{Fn: "DropSliceByIndices", Args: []Val{LX(2, 1, 2, 3), LX(1, 0)}},
		{Fn: "DeduplicateSliceInPlace", Args: []Val{LX(2, 1, 1, 2)}},
		{Fn: "TopologicalSort", Args: []Val{LLX(2, []int{3, 1}, []int64{1, 2}, []int64{2})}},
		// DESIGN §6 C17 probe: in-place de-duplication compares against overwritten positions
		{Fn: "DeduplicateSliceInPlaceWithCompare", Args: []Val{L(1, 1, 2, 3, 2), VZ(0)}},
		{Fn: "DeduplicateSliceWithCompare", Args: []Val{L(1, 1, 2, 3, 2), VZ(0)}},
		{Fn: "DeduplicateSliceInPlace", Args: []Val{L(1, 1, 2, 3, 2)}},
		// a 2-cycle, a self-dependency, and the package's own example
		{Fn: "TopologicalSort", Args: []Val{VLL([][]int64{{1, 2}, {2, 1}})}},
		{Fn: "TopologicalSort", Args: []Val{VLL([][]int64{{1, 1}})}},
		{Fn: "TopologicalSort", Args: []Val{VLL([][]int64{{2, 4}, {1, 2, 3}, {3, 4}, {4, 5}, {5}})}},
		// a missing key reads as the zero value
		{Fn: "EqualComparableMap", Args: []Val{M(1, 0), M(2, 0)}},
		{Fn: "EqualMap", Args: []Val{M(1, 0, 2, 5), M(3, 0, 2, 5), VZ(0)}},
		// maximum of negative values
		{Fn: "FindMaxFromComparableMap", Args: []Val{M(1, -5, 2, -3)}},
		{Fn: "FindMaxFromMap", Args: []Val{M(1, -5), VZ(0)}},
		// values sorted without their keys
		{Fn: "LoopMapByOrderedValueAsc", Args: []Val{M(1, 20, 2, 10), VZ(-1), VZ(-9)}},
		{Fn: "LoopMapByOrderedValueDesc", Args: []Val{M(1, 10, 2, 20, 3, 15), VZ(-1), VZ(-9)}},
		// the clone is sorted through a getter that reads the argument
		{Fn: "DescByClone", Args: []Val{L(1, 3, 2), VZ(0)}},
		{Fn: "AscByClone", Args: []Val{L(3, 1, 2), VZ(0)}},
		{Fn: "ChooseRandomIndexN", Args: []Val{L(1, 2, 3, 4, 5, 6, 7, 8), VZ(8)}},
		{Fn: "ReverseSlice", Args: []Val{L(1, 2, 3, 4, 5)}},
		{Fn: "ConvertSliceToBatches", Args: []Val{L(1, 2, 3, 4, 5), VZ(2)}},
	}
}
