// c17coll: correspondence harness (T1/T4) for toolkit/collection against MV.C17.CollModel.
//
// A case = (helper name, arguments, what the implementation produced: results followed by the arguments
// re-read after the call).  Every helper is registered in fns_*.go with: how to call the real exported
// function, and a monitor restating its law by brute force (independent of the Coq model).
// Slice arguments are Go objects, not only values: phys.go gives some of them capacity behind their length (sentinels),
// compares the whole backing arrays after the call and compares slice results by address with the arrays handed in
// (monitor classes input-mutated / result-aliases-input).
package main

import (
	"encoding/json"
	"fmt"
	"os"
	"sort"
	"strings"

	"verif/harness/vh"
)

// ---------------------------------------------------------------- values

// Val mirrors MV.C17.CollModel.val.  T: Z B L N(nil slice/map) LL M MM X(bad: panic etc.)
type Val struct {
	T  string       `json:"t"`
	Z  int64        `json:"z,omitempty"`
	B  bool         `json:"b,omitempty"`
	L  []int64      `json:"l,omitempty"`
	LL [][]int64    `json:"ll,omitempty"`
	M  [][2]int64   `json:"m,omitempty"`
	MM [][][2]int64 `json:"mm,omitempty"`
	E  string       `json:"e,omitempty"`
	// shape of a slice argument as a Go object (not part of its value, invisible to the Coq model): the live slice is
	// the prefix x[:len] of an array with X more slots holding sentinels; LL: X for the outer slice, XS[k] for element k
	X  int   `json:"x,omitempty"`
	XS []int `json:"xs,omitempty"`
	// V > 0: this slice argument is handed over as the window arg0[V-1 : V-1+len] of argument #0's own array (two arguments
	// sharing memory; its value is still L — invisible to the Coq model like X)
	V int `json:"v,omitempty"`
	// NM: elements of an MM argument that are handed over as NIL maps (their value is the empty map — invisible to the Coq model)
	NM []int `json:"nm,omitempty"`
}

func VZ(z int64) Val { return Val{T: "Z", Z: z} }
func VB(b bool) Val  { return Val{T: "B", B: b} }
func VL(l []int64) Val {
	return Val{T: "L", L: append([]int64{}, l...)}
}
func VN() Val { return Val{T: "N"} }
func VLL(l [][]int64) Val {
	r := make([][]int64, len(l))
	for i, x := range l {
		r[i] = append([]int64{}, x...)
	}
	return Val{T: "LL", LL: r}
}
func VM(m map[int64]int64) Val { return Val{T: "M", M: pairsOf(m)} }
func VP(p [][2]int64) Val      { return Val{T: "M", M: append([][2]int64{}, p...)} }
func VMM(ms []map[int64]int64) Val {
	r := make([][][2]int64, len(ms))
	for i, m := range ms {
		r[i] = pairsOf(m)
	}
	return Val{T: "MM", MM: r}
}
func VX(e string) Val { return Val{T: "X", E: e} }

// argument forms: nil is kept apart from empty
func AL(l []int64) Val {
	if l == nil {
		return VN()
	}
	return VL(l)
}
func AM(m map[int64]int64) Val {
	if m == nil {
		return VN()
	}
	return VM(m)
}

func pairsOf(m map[int64]int64) [][2]int64 {
	r := make([][2]int64, 0, len(m))
	for k, v := range m {
		r = append(r, [2]int64{k, v})
	}
	sort.Slice(r, func(i, j int) bool { return r[i][0] < r[j][0] })
	return r
}

func (v Val) slice() []int64 { // nil for N
	if v.T != "L" {
		return nil
	}
	return spare(v.L, v.X, sentinel)
}
func (v Val) amap() map[int64]int64 {
	if v.T != "M" {
		return nil
	}
	m := make(map[int64]int64, len(v.M))
	for _, p := range v.M {
		m[p[0]] = p[1]
	}
	return m
}
func (v Val) slices() [][]int64 {
	if v.T != "LL" {
		return nil
	}
	r := make([][]int64, len(v.LL))
	for i, x := range v.LL {
		r[i] = spare(x, xsAt(v.XS, i), sentinel)
	}
	return r
}
func (v Val) maps() []map[int64]int64 {
	if v.T != "MM" {
		return nil
	}
	r := make([]map[int64]int64, len(v.MM))
	for i, x := range v.MM {
		r[i] = Val{T: "M", M: x}.amap()
	}
	return r
}

func eqL(a, b []int64) bool {
	if len(a) != len(b) {
		return false
	}
	for i := range a {
		if a[i] != b[i] {
			return false
		}
	}
	return true
}
func eqLL(a, b [][]int64) bool {
	if len(a) != len(b) {
		return false
	}
	for i := range a {
		if !eqL(a[i], b[i]) {
			return false
		}
	}
	return true
}
func eqP(a, b [][2]int64) bool {
	if len(a) != len(b) {
		return false
	}
	for i := range a {
		if a[i] != b[i] {
			return false
		}
	}
	return true
}
func eqVal(a, b Val) bool {
	if a.T != b.T {
		return false
	}
	switch a.T {
	case "Z":
		return a.Z == b.Z
	case "B":
		return a.B == b.B
	case "L":
		return eqL(a.L, b.L)
	case "N":
		return true
	case "LL":
		return eqLL(a.LL, b.LL)
	case "M":
		return eqP(a.M, b.M)
	case "MM":
		if len(a.MM) != len(b.MM) {
			return false
		}
		for i := range a.MM {
			if !eqP(a.MM[i], b.MM[i]) {
				return false
			}
		}
		return true
	}
	return false
}
func eqVals(a, b []Val) bool {
	if len(a) != len(b) {
		return false
	}
	for i := range a {
		if !eqVal(a[i], b[i]) {
			return false
		}
	}
	return true
}

func coqPairs(p [][2]int64) string {
	it := make([]string, len(p))
	for i, x := range p {
		it[i] = vh.Pair(vh.Z(x[0]), vh.Z(x[1]))
	}
	return vh.List(it)
}
func coqVal(v Val) string {
	switch v.T {
	case "Z":
		return vh.App("VZ", vh.Z(v.Z))
	case "B":
		return vh.App("VB", vh.Bool(v.B))
	case "L":
		return vh.App("VL", vh.ListZ(v.L))
	case "N":
		return "VNil"
	case "LL":
		it := make([]string, len(v.LL))
		for i, x := range v.LL {
			it[i] = vh.ListZ(x)
		}
		return vh.App("VLL", vh.List(it))
	case "M":
		return vh.App("VM", coqPairs(v.M))
	case "MM":
		it := make([]string, len(v.MM))
		for i, x := range v.MM {
			it[i] = coqPairs(x)
		}
		return vh.App("VMM", vh.List(it))
	}
	return "VBad"
}
func coqVals(vs []Val) string {
	it := make([]string, len(vs))
	for i, v := range vs {
		it[i] = coqVal(v)
	}
	return vh.List(it)
}

// ---------------------------------------------------------------- call context

// cx materialises the arguments of one call as live Go objects and re-reads them afterwards.
type cx struct {
	a       []Val
	live    []interface{}
	blocks  []*block      // every backing array handed to the implementation (phys.go)
	results []resSlice    // every slice the implementation returned
	keep    []interface{} // keeps the results allocated
}

func newCx(a []Val) *cx { return &cx{a: a, live: make([]interface{}, len(a))} }

func (c *cx) S(i int) []int64 {
	if c.live[i] == nil {
		c.live[i] = c.matS(i)
	}
	return c.live[i].([]int64)
}
func (c *cx) M(i int) map[int64]int64 {
	if c.live[i] == nil {
		c.live[i] = c.a[i].amap()
	}
	return c.live[i].(map[int64]int64)
}
func (c *cx) SS(i int) [][]int64 {
	if c.live[i] == nil {
		c.live[i] = c.matSS(i)
	}
	return c.live[i].([][]int64)
}
func (c *cx) MM(i int) []map[int64]int64 {
	if c.live[i] == nil {
		c.live[i] = c.matMM(i)
	}
	return c.live[i].([]map[int64]int64)
}
func (c *cx) Z(i int) int64    { return c.a[i].Z }
func (c *cx) I(i int) int      { return int(c.a[i].Z) }
func (c *cx) Ints(i int) []int { return c.matInts(i) }

// after re-reads every materialised argument (same printing as the inputs: nil stays nil).
func (c *cx) after() []Val {
	r := make([]Val, len(c.a))
	for i, v := range c.a {
		switch o := c.live[i].(type) {
		case []int64:
			r[i] = AL(o)
		case map[int64]int64:
			r[i] = AM(o)
		case [][]int64:
			if v.T == "LL" {
				r[i] = VLL(o)
			} else {
				r[i] = v
			}
		case []map[int64]int64:
			if v.T == "MM" {
				r[i] = VMM(o)
			} else {
				r[i] = v
			}
		default:
			r[i] = v
		}
	}
	return r
}

// ---------------------------------------------------------------- registry

type hit struct{ class, detail string }

type fnDef struct {
	name    string
	shape   string
	nres    int                                       // number of result values (before the re-read arguments)
	call    func(c *cx) []Val                         // runs the real function
	law     func(a []Val, res []Val, aft []Val) []hit // brute-force restatement of the property
	inplace bool                                      // rewrites its first argument by design
	coq     func(a []Val) bool                        // false: monitor only (result not determined by the inputs)
	oracle  bool                                      // the call rewrites trailing arguments with implementation outputs (checker / order)
	alias   int                                       // what a slice result may have in common with argument #0 (phys.go: aliasNone/Self/Sub)
}

var fns []*fnDef
var byName = map[string]*fnDef{}

func reg(name, shape string, nres int, call func(c *cx) []Val, law func(a, res, aft []Val) []hit) *fnDef {
	d := &fnDef{name: name, shape: shape, nres: nres, call: call, law: law}
	fns = append(fns, d)
	byName[name] = d
	return d
}
func (d *fnDef) ip() *fnDef                            { d.inplace = true; return d }
func (d *fnDef) onlyCoqIf(f func(a []Val) bool) *fnDef { d.coq = f; return d }
func (d *fnDef) orc() *fnDef                           { d.oracle = true; return d }

// returnsArg: by its code and its tests the helper hands back argument #0 itself when there is nothing to remove
func (d *fnDef) returnsArg() *fnDef { d.alias = aliasSelf; return d }

// subSlices: the results are sub-slices of argument #0 by design
func (d *fnDef) subSlices() *fnDef { d.alias = aliasSub; return d }

type Case struct {
	Fn   string `json:"fn"`
	Args []Val  `json:"args"`
	Impl []Val  `json:"impl"`
}

// execute runs the implementation on fresh copies of the arguments.
func execute(d *fnDef, args []Val) (c Case, res, aft []Val, panicked bool, ph physObs) {
	cc := newCx(append([]Val{}, args...))
	func() {
		defer func() {
			if e := recover(); e != nil {
				panicked = true
				res = []Val{VX(fmt.Sprint(e))}
			}
		}()
		res = d.call(cc)
	}()
	aft = cc.after()
	ph = cc.observe(d)
	c = Case{Fn: d.name, Args: cc.a, Impl: append(append([]Val{}, res...), aft...)}
	return
}

func monitor(d *fnDef, c *Case, res, aft []Val, panicked bool, ph physObs) (viol []vh.Violation) {
	add := func(class, detail string) {
		if len(viol) < 3 {
			viol = append(viol, vh.Violation{Kind: "coll:" + d.name + ":" + class,
				Detail: fmt.Sprintf("%s%s: %s", d.name, showVals(c.Args), detail), Sig: map[string]string{"fn": d.name, "class": class}})
		}
	}
	if panicked {
		add("panic", res[0].E)
		return
	}
	// helpers that return new containers never modify their arguments
	told := map[int]bool{}
	for i := range c.Args {
		if d.inplace && i == 0 {
			continue
		}
		if !eqVal(c.Args[i], aft[i]) {
			told[i] = true
			add("input-mutated", fmt.Sprintf("argument #%d was %s, after the call it is %s", i, showVal(c.Args[i]), showVal(aft[i])))
		}
	}
	// ... nor the rest of the arrays behind them: the slots between len and cap of every slice handed in (also of the
	// in-place argument: compaction works inside len), and the slots inside len of the arguments not re-read above
	for _, h := range ph.mutated {
		if h.tail || !(told[h.arg] || (d.inplace && h.arg == 0)) {
			add("input-mutated", h.detail)
		}
	}
	// a slice result has no memory in common with an argument, unless the helper works in place / is declared to
	// hand back (a part of) its first argument
	for _, a := range ph.alias {
		add("result-aliases-input", a)
	}
	if d.law != nil {
		for _, h := range d.law(c.Args, res, aft) {
			add(h.class, h.detail)
		}
	}
	return
}

func showVal(v Val) string {
	switch v.T {
	case "Z":
		return fmt.Sprint(v.Z)
	case "B":
		return fmt.Sprint(v.B)
	case "L":
		return fmt.Sprint(v.L) + showSpare(v.X)
	case "N":
		return "nil"
	case "LL":
		if len(v.XS) == 0 {
			return fmt.Sprint(v.LL) + showSpare(v.X)
		}
		it := make([]string, len(v.LL))
		for i, x := range v.LL {
			it[i] = fmt.Sprint(x) + showSpare(xsAt(v.XS, i))
		}
		return "[" + strings.Join(it, " ") + "]" + showSpare(v.X)
	case "M":
		return "map" + fmt.Sprint(v.M)
	case "MM":
		return "maps" + fmt.Sprint(v.MM) + showSpare(v.X)
	}
	return "panic(" + v.E + ")"
}
func showSpare(x int) string { // a slice with x slots of capacity behind its length
	if x == 0 {
		return ""
	}
	return fmt.Sprintf("+%dcap", x)
}
func showVals(vs []Val) string {
	it := make([]string, len(vs))
	for i, v := range vs {
		it[i] = showVal(v)
	}
	return "(" + strings.Join(it, ", ") + ")"
}

// non-triviality (DESIGN §6a): the first container argument has length >= 2 and, for slices, a repeated element.
func nontrivial(a []Val) (bool, int, bool) {
	for _, v := range a {
		switch v.T {
		case "L":
			dup := false
			seen := map[int64]bool{}
			for _, x := range v.L {
				if seen[x] {
					dup = true
				}
				seen[x] = true
			}
			return len(v.L) >= 2 && dup, len(v.L), dup
		case "M":
			return len(v.M) >= 2, len(v.M), false
		case "LL":
			n := 0
			for _, x := range v.LL {
				n += len(x)
			}
			return len(v.LL) >= 2 && n >= 2, n, false
		case "MM":
			n := 0
			for _, x := range v.MM {
				n += len(x)
			}
			return len(v.MM) >= 2 && n >= 2, n, false
		case "N":
			return false, -1, false
		}
	}
	return false, 0, false
}

// ---- output: vlib reads case ids back as Coq nat numerals, so ids must stay small: a new sub-harness
// output (own id space, own summary) is started every 6400 recorded cases (16 shards: one per core)
var (
	out      *vh.Out
	outDir   string
	outSeed  uint64
	outCount int
	ruleText string
)

// malformed: the call is outside the helper's ordinary domain (it must still behave as documented)
func malformed(d *fnDef, a []Val) bool {
	parts := strings.Split(d.shape, ",")
	for i, v := range a {
		if v.T == "N" {
			return true
		}
		if i < len(parts) {
			switch parts[i] {
			case "n", "nb", "lo", "hi":
				if v.Z <= 0 {
					return true
				}
			case "idx":
				for _, x := range v.L {
					if x < 0 || int(x) >= len(a[0].L) {
						return true
					}
				}
			case "i":
				if v.Z < 0 {
					return true
				}
			}
		}
	}
	return false
}

func rotate() {
	if out != nil {
		out.Close()
	}
	rule := ruleText
	if outCount > 0 {
		rule = "as coll000"
	}
	out = vh.NewOut(outDir, fmt.Sprintf("coll%03d", outCount), "From MV Require Import Lib.ListX C17.CollModel C17.CollRun.", "case", "mismatches", outSeed, rule)
	outCount++
}

// vh keeps at most 200 monitor hits per output: report at most 3 per kind so that no kind is crowded out
var kindSeen = map[string]int{}

// record runs one call on the implementation and its monitors.  Cases that the Coq model evaluates, and cases
// with a monitor hit, are written out; the others (monitors only, nothing found) are only counted.
//
// Every call with a slice argument is made in two shapes: every slice with cap == len, and some slices as prefixes of
// longer arrays (spareShape).  Which of the two is the one offered to the Coq model is drawn at random; the other one
// is seen by the monitors only.  (The model works on values: both shapes give it the same term.)
func record(d *fnDef, args []Val, coqWanted bool) {
	if shaped(args) { // corpus: the shape is part of the witness
		record1(d, args, coqWanted)
		return
	}
	sp, ok := spareShape(args, shapeRNG)
	switch {
	case !ok:
		record1(d, args, coqWanted)
	case shapeRNG.Bool():
		record1(d, sp, coqWanted)
		record1(d, args, false)
	default:
		record1(d, args, coqWanted)
		record1(d, sp, false)
	}
	// third shape, monitors only: a second slice argument whose value occurs as a window of the first one is handed over
	// as that window of the first one's array (a helper that does not write must not care)
	if va, ok := viewShape(d, args, shapeRNG); ok {
		out.Count("view_shape_calls", d.name)
		record1(d, va, false)
	}
}

var shapeRNG *vh.RNG

func record1(d *fnDef, args []Val, coqWanted bool) {
	c, res, aft, pan, ph := execute(d, args)
	var v []vh.Violation
	for _, h := range monitor(d, &c, res, aft, pan, ph) {
		kindSeen[h.Kind]++
		if kindSeen[h.Kind] <= 3 {
			v = append(v, h)
		}
	}
	// input shapes and aliasing verdicts of ALL calls (also those seen by the monitors only)
	switch {
	case ph.sliceInputs == 0:
		out.Count("slice_input_shape", "no-slice-argument")
	case ph.spareInputs == 0:
		out.Count("slice_input_shape", "every-slice-cap=len")
	default:
		out.Count("slice_input_shape", "some-slice-with-spare-capacity")
		out.Count("spare_capacity_calls", d.name)
		out.Count("spare_capacity_max_slots", vh.Bucket(ph.maxSpare))
		out.Count("spare_capacity_slices_per_call", vh.Bucket(ph.spareInputs))
	}
	out.Count("slice_result_vs_inputs", ph.verdict)
	coqWanted = coqWanted && (d.coq == nil || d.coq(c.Args))
	if !coqWanted && len(v) == 0 {
		out.Count("monitor_only_calls", d.name)
		return
	}
	if out.N() >= 6400 {
		rotate()
	}
	nt, n, dup := nontrivial(c.Args)
	if malformed(d, c.Args) { // separate stream: nil containers, non-positive counts/sizes, positions that do not exist
		out.Malformed()
		out.Count("malformed", d.name)
		nt = false
	}
	if n < 0 {
		out.Count("first_container", "nil")
	} else {
		out.Count("first_container_len", vh.Bucket(n))
	}
	if dup {
		out.Count("duplicates", "yes")
	} else {
		out.Count("duplicates", "no")
	}
	out.Count("helper", d.name)
	term := ""
	if coqWanted {
		term = fmt.Sprintf("{| cid := %s; cfn := F%s; cargs := %s; cimpl := %s |}", vh.Z(int64(out.N())), d.name, coqVals(c.Args), coqVals(c.Impl))
	}
	out.Add(c, term, nt, v)
}

func main() {
	f := vh.ParseFlags()
	registerAll()
	if f.Replay != "" {
		var c Case
		vh.LoadReplayCase(f.Replay, &c)
		d := byName[c.Fn]
		if d == nil {
			fmt.Println("unknown helper " + c.Fn)
			os.Exit(2)
		}
		args := c.Args
		if d.oracle { // trailing oracle arguments are recomputed by the call
			args = append([]Val{}, c.Args...)
		}
		c2, res, aft, pan, ph := execute(d, args)
		v := monitor(d, &c2, res, aft, pan, ph)
		b, _ := json.Marshal(map[string]interface{}{"case": c2, "recorded_impl": c.Impl, "monitor": v})
		fmt.Println(string(b))
		if len(v) > 0 {
			os.Exit(1)
		}
		return
	}
	outDir, outSeed = f.Out, f.Seed
	shapeRNG = vh.NewRNG(f.Seed ^ 0x5a9e)
	ruleText = "every helper on: corpus; all slices over {1,2,3} up to length 5 (quick) / 6 (thorough) and nil; pairs of such slices up to length 3 / 4; " +
		"all maps over keys {1,2,3} x values {0,1,2} and nil, pairs of them; lists of up to 3 slices/maps; all dependency graphs on <= 2 / 3 items; " +
		"random large, negative, all-equal and duplicate-heavy inputs; every call with a slice argument is made twice: all slices with cap == len, and " +
		"some of them as prefixes of longer arrays with sentinels behind len (slice_input_shape; the arrays are compared after the call, results " +
		"are compared by address with the arrays handed in); the monitors see every call, the Coq model a stratified sample of 70 (quick) / " +
		"2500 (thorough) calls per helper plus all random ones (calls seen by the monitors only are counted under monitor_only_calls); " +
		"non-trivial = first container argument has >= 2 elements and (slices) a repeated element; distinct by hash of (helper, arguments, outputs)"
	rotate()
	generate(f)
	out.Close()
}
