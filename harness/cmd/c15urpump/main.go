// c15urpump: stress harness (plain, uninstrumented, public API only) for toolkit/channels.UnboundedRing.
// A case is a scenario: P producers doing sequences of Put(v...), a single consumer reading r.Get(), and a
// way the stream ends (explicit Close / context cancellation, at various moments). The harness records what
// every Put returned and what the consumer received, judges the property with an independent monitor and
// emits the OBSERVABLE trace for evaluation against MV.C15.UrPumpRun (tie by observable traces only).
package main

import (
	"context"
	"encoding/json"
	"fmt"
	"os"
	"runtime"
	"sync"
	"sync/atomic"
	"time"

	"github.com/kercylan98/minotaur/toolkit/channels"
	"verif/harness/vh"
)

const tagBase = 100000 // value = producer*tagBase + seq   (producer = 1..3)

// ---------------------------------------------------------------- case

type PutPlan struct {
	V []int64 `json:"v"`           // values of one Put call (empty = Put() without arguments: malformed stream)
	D int     `json:"d,omitempty"` // pause before the call: 0 none, -1 runtime.Gosched(), n>0 = n microseconds
}
type PutRes struct {
	V    []int64 `json:"v"`
	Acc  bool    `json:"acc"`            // Put returned nil
	Late bool    `json:"late,omitempty"` // the call started after an explicit Close() had returned
	Err  string  `json:"err,omitempty"`  // panic text
}
type Plan struct {
	End      string      `json:"end"`   // family, see families
	Prods    [][]PutPlan `json:"prods"` // per producer: the Puts it issues from its own goroutine
	Late     [][]PutPlan `json:"late"`  // per producer: Puts issued after the end was issued (and the producers returned)
	Cons     string      `json:"cons"`  // consumer starts: early (before the producers) | mid | late (after the end)
	ConsD    int         `json:"cons_d,omitempty"`
	EndD     int         `json:"end_d,omitempty"`     // pause before a concurrent end
	EndFirst bool        `json:"end_first,omitempty"` // mid consumer and concurrent end: which comes first
	Twice    string      `json:"twice,omitempty"`     // close-twice: "seq" | "par"
	ConsSlow int         `json:"cons_slow,omitempty"` // consumer yields every k elements (0 = never)
}
type Case struct {
	Plan
	Puts         [][]PutRes `json:"puts"` // per producer, in program order (own Puts, then the late ones)
	Recv         []int64    `json:"recv"`
	Closed       bool       `json:"closed"`  // the consumer saw the channel closed
	Outcome      string     `json:"outcome"` // ok | timeout:<which wait> | panic:<text>
	PendingAtEnd int64      `json:"pending_at_end"`
}

var families = []string{"close-after", "close-concurrent", "close-before", "close-twice", "close-backlog",
	"cancel-after", "cancel-concurrent", "cancel-backlog", "cancel-idle", "cancel-close"}

func isCancel(end string) bool { return len(end) >= 6 && end[:6] == "cancel" }

// ---------------------------------------------------------------- waits

// Healthy-path waits are generous (a loaded machine must never trip them). On a tree with the cancellation
// defect every cancel scenario runs into closeWait and leaves a spinning pump goroutine behind; the damage is
// capped by (a) shortening the close-wait of CANCEL scenarios once one of them has timed out and (b) not
// running further cases of a family after two of its cases have timed out (six over all cancel families).
const (
	longWait  = 2500 * time.Millisecond
	shortWait = 350 * time.Millisecond
)

// relCtx is a real cancellable context whose Done() can be made never-ready again AFTER the verdict of a case
// has been recorded. It is used for one purpose only: on a tree with the cancellation defect the pump of a
// cancelled ring spins for ever on ctx.Done() at 100% CPU; releasing the context lets that leaked goroutine
// fall into its default branch and end (or block), so that it does not starve the cases that follow.
// Until release() the behaviour is exactly that of the embedded context; release() is called only after a
// close-wait timeout, never on a healthy run.
type relCtx struct {
	context.Context
	released int32
}

func (c *relCtx) Done() <-chan struct{} {
	if atomic.LoadInt32(&c.released) == 1 {
		return nil
	}
	return c.Context.Done()
}
func (c *relCtx) release() { atomic.StoreInt32(&c.released, 1) }

var cancelTimeouts int32

func closeWaitFor(end string) time.Duration {
	if isCancel(end) && atomic.LoadInt32(&cancelTimeouts) > 0 {
		return shortWait
	}
	return longWait
}

func pause(d int) {
	switch {
	case d == 0:
	case d < 0:
		runtime.Gosched()
	case d <= 40:
		t := time.Now()
		for time.Since(t) < time.Duration(d)*time.Microsecond {
		}
	default:
		time.Sleep(time.Duration(d) * time.Microsecond)
	}
}

// ---------------------------------------------------------------- running one scenario

func runCase(c *Case) {
	c.Puts = make([][]PutRes, len(c.Prods))
	for p := range c.Puts {
		c.Puts[p] = []PutRes{}
	}
	c.Recv = []int64{}
	c.Closed = false
	c.Outcome = "ok"
	c.PendingAtEnd = 0
	fail := func(s string) {
		if c.Outcome == "ok" {
			c.Outcome = s
		}
	}

	inner, cancel := context.WithCancel(context.Background())
	defer cancel()
	ctx := &relCtx{Context: inner}
	var r *channels.UnboundedRing[int64]
	func() {
		defer func() {
			if e := recover(); e != nil {
				fail("panic:new:" + fmt.Sprint(e))
			}
		}()
		r = channels.NewUnboundedRing[int64](ctx)
	}()
	if r == nil {
		return
	}
	ch := r.Get()

	var accCount, recvCount int64
	var closeReturned int32 // an explicit Close() has returned
	var mu sync.Mutex       // guards c.Puts (a stuck producer must not race with the reader)

	put := func(p int, pp PutPlan) {
		late := atomic.LoadInt32(&closeReturned) == 1
		res := PutRes{V: pp.V, Late: late}
		func() {
			defer func() {
				if e := recover(); e != nil {
					res.Err = fmt.Sprint(e)
				}
			}()
			err := r.Put(pp.V...)
			res.Acc = err == nil
		}()
		if res.Acc {
			atomic.AddInt64(&accCount, int64(len(pp.V)))
		}
		mu.Lock()
		c.Puts[p] = append(c.Puts[p], res)
		mu.Unlock()
	}

	// consumer
	var recv []int64
	closed := false
	consPanic := ""
	stop := make(chan struct{})
	consDone := make(chan struct{})
	consStarted := false
	startConsumer := func() {
		consStarted = true
		go func() {
			defer close(consDone)
			defer func() {
				if e := recover(); e != nil {
					consPanic = fmt.Sprint(e)
				}
			}()
			n := 0
			for {
				select {
				case v, ok := <-ch:
					if !ok {
						closed = true
						return
					}
					recv = append(recv, v)
					atomic.AddInt64(&recvCount, 1)
					n++
					if c.ConsSlow > 0 && n%c.ConsSlow == 0 {
						runtime.Gosched()
					}
				case <-stop:
					return
				}
			}
		}()
	}

	safeClose := func() {
		defer func() {
			if e := recover(); e != nil {
				fail("panic:close:" + fmt.Sprint(e))
			}
		}()
		r.Close()
	}
	issueEnd := func() {
		a := atomic.LoadInt64(&accCount)
		rc := atomic.LoadInt64(&recvCount)
		c.PendingAtEnd = a - rc
		switch c.End {
		case "close-after", "close-concurrent", "close-before", "close-backlog":
			safeClose()
			atomic.StoreInt32(&closeReturned, 1)
		case "close-twice":
			if c.Twice == "par" {
				d := make(chan struct{})
				go func() { defer close(d); safeClose() }()
				safeClose()
				select {
				case <-d:
				case <-time.After(longWait):
					fail("timeout:second-close")
				}
			} else {
				safeClose()
				safeClose()
			}
			atomic.StoreInt32(&closeReturned, 1)
		case "cancel-after", "cancel-concurrent", "cancel-backlog", "cancel-idle":
			cancel()
		case "cancel-close":
			cancel()
			pause(c.EndD)
			safeClose()
			atomic.StoreInt32(&closeReturned, 1)
		}
	}

	if c.Cons == "early" {
		startConsumer()
	}
	if c.End == "close-before" {
		issueEnd()
	}
	var wg sync.WaitGroup
	for p := range c.Prods {
		wg.Add(1)
		go func(p int) {
			defer wg.Done()
			for _, pp := range c.Prods[p] {
				pause(pp.D)
				put(p, pp)
			}
		}(p)
	}
	prodDone := make(chan struct{})
	go func() { wg.Wait(); close(prodDone) }()
	waitProducers := func() bool {
		select {
		case <-prodDone:
			return true
		case <-time.After(longWait):
			fail("timeout:producers")
			return false
		}
	}
	concurrent := c.End == "close-concurrent" || c.End == "cancel-concurrent" || (c.End == "close-twice" && c.EndD != 0)
	midCons := func() {
		if c.Cons == "mid" {
			pause(c.ConsD)
			startConsumer()
		}
	}
	prodsOK := true
	switch {
	case c.End == "close-before":
		midCons()
		prodsOK = waitProducers()
	case concurrent:
		if c.EndFirst {
			pause(c.EndD)
			issueEnd()
			midCons()
		} else {
			midCons()
			pause(c.EndD)
			issueEnd()
		}
		prodsOK = waitProducers()
	default:
		midCons()
		prodsOK = waitProducers()
		if prodsOK {
			issueEnd()
		}
	}
	if prodsOK {
		for p := range c.Late {
			for _, pp := range c.Late[p] {
				pause(pp.D)
				put(p, pp)
			}
		}
	}
	if !consStarted {
		startConsumer()
	}
	// the stream must end: the consumer drains and then sees the channel closed
	select {
	case <-consDone:
	case <-time.After(closeWaitFor(c.End)):
		fail("timeout:close-wait")
		close(stop)
		defer ctx.release() // verdict reached: un-spin a leaked pump (see relCtx)
		select {
		case <-consDone:
		case <-time.After(longWait):
			fail("timeout:consumer-stuck")
			return // recv is still owned by the consumer goroutine: report nothing received
		}
	}
	if consPanic != "" {
		fail("panic:consumer:" + consPanic)
	}
	if recv != nil {
		c.Recv = recv
	}
	c.Closed = closed
	mu.Lock()
	for p := range c.Puts {
		c.Puts[p] = append([]PutRes{}, c.Puts[p]...)
		for _, pr := range c.Puts[p] {
			if pr.Err != "" {
				fail("panic:put:" + pr.Err)
			}
		}
	}
	mu.Unlock()
}

// ---------------------------------------------------------------- monitor (independent restatement of the property)

func endClass(end string) string {
	if isCancel(end) {
		return "cancel"
	}
	return "close"
}

func monitor(c *Case) (viol []vh.Violation) {
	sig := map[string]string{"container": "UnboundedRing", "end": endClass(c.End)}
	add := func(kind, detail string) {
		if len(viol) < 4 {
			viol = append(viol, vh.Violation{Kind: "urpump:" + kind, Detail: detail, Sig: sig})
		}
	}
	if len(c.Outcome) >= 5 && c.Outcome[:5] == "panic" {
		add("panic", c.Outcome)
		return
	}
	switch c.Outcome {
	case "ok":
	case "timeout:close-wait":
		n := 0
		for _, ps := range c.Puts {
			for _, pr := range ps {
				if pr.Acc {
					n += len(pr.V)
				}
			}
		}
		add("never-closed-after-"+endClass(c.End), fmt.Sprintf("end=%s: %d accepted, %d received, output channel still open %v after the end was issued and the consumer drained",
			c.End, n, len(c.Recv), closeWaitFor(c.End)))
	default:
		add("stuck", c.Outcome)
	}
	P := len(c.Prods)
	recvBy := make([][]int64, P+1)
	for i, v := range c.Recv {
		p := int(v / tagBase)
		if v < 0 || p < 1 || p > P {
			add("invented", fmt.Sprintf("received #%d = %d belongs to no producer", i, v))
			continue
		}
		recvBy[p] = append(recvBy[p], v)
	}
	for p := 1; p <= P; p++ {
		var acc []int64
		refused := map[int64]bool{}
		for _, pr := range c.Puts[p-1] {
			for _, v := range pr.V {
				if pr.Acc {
					acc = append(acc, v)
				} else {
					refused[v] = true
				}
			}
		}
		pos := map[int64]int{}
		for i, v := range acc {
			pos[v] = i
		}
		got := recvBy[p]
		bad := false
		for i, v := range got {
			if i < len(acc) && acc[i] == v {
				continue
			}
			bad = true
			j, ok := pos[v]
			switch {
			case !ok && refused[v]:
				add("invented", fmt.Sprintf("producer %d: received %d although its Put returned an error", p, v))
			case !ok:
				add("invented", fmt.Sprintf("producer %d: received %d which was never put", p, v))
			case j < i:
				add("duplicate", fmt.Sprintf("producer %d: %d (accepted #%d) received again at position %d", p, v, j, i))
			default:
				later := false
				if i < len(acc) {
					for _, w := range got[i:] {
						if w == acc[i] {
							later = true
						}
					}
				}
				if later || !c.Closed {
					add("order", fmt.Sprintf("producer %d: position %d expected %d got %d", p, i, acc[i], v))
				} else {
					add("lost-before-close", fmt.Sprintf("producer %d: accepted %d never received (position %d got %d), channel closed", p, acc[i], i, v))
				}
			}
			break
		}
		if !bad && c.Closed && len(got) < len(acc) {
			add("lost-before-close", fmt.Sprintf("producer %d: %d accepted, only %d received before the channel closed (first missing %d)", p, len(acc), len(got), acc[len(got)]))
		}
	}
	return
}

// ---------------------------------------------------------------- non-triviality, distribution

func interleaved(c *Case) bool {
	// some producer appears, then another one, then the first again
	seenThenLeft := map[int]bool{}
	cur := -1
	for _, v := range c.Recv {
		p := int(v / tagBase)
		if p != cur {
			if seenThenLeft[p] {
				return true
			}
			if cur >= 0 {
				seenThenLeft[cur] = true
			}
			cur = p
		}
	}
	return false
}

func accepted(c *Case) int {
	n := 0
	for _, ps := range c.Puts {
		for _, pr := range ps {
			if pr.Acc {
				n += len(pr.V)
			}
		}
	}
	return n
}

func nontrivial(c *Case) bool {
	return (accepted(c) >= 1 && c.PendingAtEnd > 0) || interleaved(c)
}

// ---------------------------------------------------------------- Coq term

// The Coq term is run-length compressed (lossless): a Put is written as the runs (first, count) of consecutive
// values it carries (by construction one run), the received sequence as its maximal runs of consecutive values;
// MV.C15.UrPumpRun expands them again before judging.
func zs(v int64) string {
	if v < 0 {
		return fmt.Sprintf("(%d)", v)
	}
	return fmt.Sprintf("%d", v)
}
func runsOf(vs []int64) [][2]int64 {
	var rs [][2]int64
	for _, v := range vs {
		if n := len(rs); n > 0 && rs[n-1][0]+rs[n-1][1] == v {
			rs[n-1][1]++
		} else {
			rs = append(rs, [2]int64{v, 1})
		}
	}
	return rs
}
func coqCase(id int, c *Case) string {
	prods := make([]string, len(c.Puts))
	for p, ps := range c.Puts {
		var items []string
		for _, pr := range ps {
			rs := runsOf(pr.V)
			if len(rs) == 0 {
				rs = [][2]int64{{0, 0}}
			}
			for _, r := range rs {
				items = append(items, vh.App("UrPut", zs(r[0]), zs(r[1]), vh.Bool(pr.Acc), vh.Bool(pr.Late)))
			}
		}
		prods[p] = vh.List(items)
	}
	var rr []string
	for _, r := range runsOf(c.Recv) {
		rr = append(rr, vh.Pair(zs(r[0]), zs(r[1])))
	}
	outc := "UrOk"
	if c.Outcome != "ok" {
		outc = "UrBad" // timeout / panic: never an observable behaviour of the machine
	}
	return fmt.Sprintf("{| urcid := %d%%nat; urprods := %s; urrecv := %s; urclosed := %s; uroutcome := %s |}",
		id, vh.List(prods), vh.List(rr), vh.Bool(c.Closed), outc)
}

// ---------------------------------------------------------------- generator

func genDelay(rng *vh.RNG) int {
	switch rng.Intn(10) {
	case 0, 1, 2, 3, 4:
		return 0
	case 5, 6:
		return -1
	case 7, 8:
		return rng.Range(1, 40)
	}
	return rng.Range(60, 250)
}

func genPuts(rng *vh.RNG, p int, seq *int64, n int, maxBatch int, malformed *bool) []PutPlan {
	var out []PutPlan
	for i := 0; i < n; i++ {
		k := rng.Range(1, maxBatch)
		if maxBatch <= 3 && rng.Chance(1, 60) {
			k = 0 // Put() without arguments
			*malformed = true
		}
		pp := PutPlan{V: []int64{}, D: genDelay(rng)}
		for j := 0; j < k; j++ {
			*seq++
			pp.V = append(pp.V, int64(p)*tagBase+*seq)
		}
		out = append(out, pp)
	}
	return out
}

func genCase(rng *vh.RNG, big bool) (c Case, malformed bool) {
	drain := false
	// family weights (backlog cases are large: few of them)
	w := rng.Intn(100)
	switch {
	case w < 2:
		c.End = "close-backlog"
	case w < 5:
		c.End = "close-after"
		drain = true // a deep backlog that is being drained while the producers go on putting
	case w < 16:
		c.End = "close-after"
	case w < 34:
		c.End = "close-concurrent"
	case w < 40:
		c.End = "close-before"
	case w < 50:
		c.End = "close-twice"
	case w < 68:
		c.End = "cancel-after"
	case w < 84:
		c.End = "cancel-concurrent"
	case w < 86:
		c.End = "cancel-backlog"
	case w < 90:
		c.End = "cancel-idle"
	default:
		c.End = "cancel-close"
	}
	switch rng.Intn(5) {
	case 0, 1:
		c.Cons = "early"
	case 2, 3:
		c.Cons = "mid"
		c.ConsD = genDelay(rng)
	default:
		c.Cons = "late"
	}
	if rng.Chance(1, 4) {
		c.ConsSlow = rng.Range(1, 4)
	}
	c.EndD = genDelay(rng)
	c.EndFirst = rng.Bool()
	P := rng.Range(1, 3)
	seqs := make([]int64, P+1)
	if drain {
		// more than the channel holds is put first (the pump fills the channel and parks on its send, holding the rest of
		// the batch it took out of the ring), then the consumer starts and the producers go on with many small Puts while the
		// backlog drains: whatever is put now must come out after everything the pump still holds
		P = rng.Range(1, 2)
		seqs = make([]int64, P+1)
		c.Cons, c.ConsD, c.ConsSlow = "mid", rng.Range(500, 900), 0
		if rng.Chance(1, 3) {
			c.ConsSlow = rng.Range(2, 6)
		}
		c.Prods = make([][]PutPlan, P)
		for p := 0; p < P; p++ {
			left := rng.Range(1100, 1500) / P
			for left > 0 {
				k := rng.Range(100, 400)
				if k > left {
					k = left
				}
				pp := PutPlan{V: []int64{}}
				for j := 0; j < k; j++ {
					seqs[p+1]++
					pp.V = append(pp.V, int64(p+1)*tagBase+seqs[p+1])
				}
				c.Prods[p] = append(c.Prods[p], pp)
				left -= k
			}
			for i, n := 0, rng.Range(60, 200); i < n; i++ {
				pp := PutPlan{V: []int64{}, D: []int{0, 0, -1, -1, 1, 3}[rng.Intn(6)]}
				if i == 0 {
					pp.D = rng.Range(900, 1300) // the pump has parked and the consumer has started by now
				}
				for j, k := 0, rng.Range(1, 2); j < k; j++ {
					seqs[p+1]++
					pp.V = append(pp.V, int64(p+1)*tagBase+seqs[p+1])
				}
				c.Prods[p] = append(c.Prods[p], pp)
			}
		}
		c.Late = make([][]PutPlan, P)
		for p := 0; p < P; p++ {
			c.Late[p] = []PutPlan{}
		}
		return
	}
	switch c.End {
	case "cancel-idle":
		// nothing is put before the end; the pump is idle (parked) when the context is cancelled
		c.Prods = make([][]PutPlan, P)
		for p := range c.Prods {
			c.Prods[p] = []PutPlan{}
		}
		if rng.Bool() {
			c.EndD = rng.Range(60, 250) // give the pump time to park
		}
	case "cancel-backlog", "close-backlog":
		// more than the channel capacity (1024) is put while the consumer has not started
		c.Cons = "late"
		P = rng.Range(1, 2)
		seqs = make([]int64, P+1)
		total := rng.Range(1100, 1700)
		if big {
			total = rng.Range(1100, 3000)
		}
		c.Prods = make([][]PutPlan, P)
		for p := 0; p < P; p++ {
			left := total / P
			put := 0
			for left > 0 {
				k := rng.Range(40, 300)
				if k > left {
					k = left
				}
				pp := PutPlan{V: []int64{}}
				switch {
				case put*P > 1100 && rng.Chance(1, 2):
					// the channel is full by now: sleep so that the pump certainly blocks on its send while holding
					// what it read, and what is put afterwards certainly stays in the ring
					pp.D = rng.Range(150, 400)
				case rng.Chance(1, 4):
					pp.D = -1
				}
				for j := 0; j < k; j++ {
					seqs[p+1]++
					pp.V = append(pp.V, int64(p+1)*tagBase+seqs[p+1])
				}
				c.Prods[p] = append(c.Prods[p], pp)
				left -= k
				put += k
			}
		}
	default:
		c.Prods = make([][]PutPlan, P)
		for p := 0; p < P; p++ {
			c.Prods[p] = genPuts(rng, p+1, &seqs[p+1], rng.Range(1, 8), 3, &malformed)
		}
		if c.End == "close-twice" {
			c.Twice = "seq"
			if rng.Bool() {
				c.Twice = "par"
			}
			if rng.Bool() {
				c.EndD = 0 // after the producers returned
			} else if c.EndD == 0 {
				c.EndD = -1 // concurrent with them
			}
		}
	}
	c.Late = make([][]PutPlan, P)
	for p := 0; p < P; p++ {
		c.Late[p] = []PutPlan{}
		if rng.Chance(1, 3) {
			c.Late[p] = genPuts(rng, p+1, &seqs[p+1], rng.Range(1, 2), 3, &malformed)
		}
	}
	return
}

func corpus() []Case {
	seq := func(p int, from, to int64) []int64 {
		var l []int64
		for i := from; i <= to; i++ {
			l = append(l, int64(p)*tagBase+i)
		}
		return l
	}
	none := [][]PutPlan{{}}
	var big []PutPlan
	for i := int64(0); i < 20; i++ {
		pp := PutPlan{V: seq(1, i*100+1, i*100+100)}
		if i == 12 || i == 16 {
			pp.D = 400 // let the pump fill the channel and block: the rest certainly stays in the ring
		}
		big = append(big, pp)
	}
	return []Case{
		// Put(1,2,3); cancel; read all, expect close
		{Plan: Plan{End: "cancel-after", Prods: [][]PutPlan{{{V: seq(1, 1, 3)}}}, Late: none, Cons: "early"}},
		// cancel on empty; expect close
		{Plan: Plan{End: "cancel-idle", Prods: none, Late: none, Cons: "early", EndD: 200}},
		// Put 1..2000 (consumer not started); cancel; read all
		{Plan: Plan{End: "cancel-backlog", Prods: [][]PutPlan{big}, Late: none, Cons: "late"}},
		// Put 1..2000 (consumer not started); Close(); read all
		{Plan: Plan{End: "close-backlog", Prods: [][]PutPlan{big}, Late: none, Cons: "late"}},
		// Put(7); Close(); read all
		{Plan: Plan{End: "close-after", Prods: [][]PutPlan{{{V: seq(1, 7, 7)}}}, Late: none, Cons: "late"}},
		// Close on empty
		{Plan: Plan{End: "close-after", Prods: none, Late: none, Cons: "early"}},
		// Close before any Put: every Put must be refused
		{Plan: Plan{End: "close-before", Prods: [][]PutPlan{{{V: seq(1, 1, 2)}, {V: seq(1, 3, 3)}}}, Late: none, Cons: "mid"}},
		// Put; Close; Put again (late, refused); two producers
		{Plan: Plan{End: "close-after", Prods: [][]PutPlan{{{V: seq(1, 1, 3)}, {V: seq(1, 4, 4)}}, {{V: seq(2, 1, 2)}}},
			Late: [][]PutPlan{{{V: seq(1, 5, 6)}}, {}}, Cons: "late"}},
		// cancel, then explicit Close
		{Plan: Plan{End: "cancel-close", Prods: [][]PutPlan{{{V: seq(1, 1, 2)}}}, Late: none, Cons: "late", EndD: 100}},
		// Close twice, concurrently, while the pump is parked
		{Plan: Plan{End: "close-twice", Twice: "par", Prods: [][]PutPlan{{{V: seq(1, 1, 1)}}}, Late: none, Cons: "early"}},
		// Put() without arguments only
		{Plan: Plan{End: "close-after", Prods: [][]PutPlan{{{V: []int64{}}}}, Late: none, Cons: "early"}},
	}
}

// ---------------------------------------------------------------- driver

func record(out *vh.Out, c *Case, malformed bool, famTimeouts map[string]int) {
	if famTimeouts[c.End] >= 2 || (isCancel(c.End) && atomic.LoadInt32(&cancelTimeouts) >= 6) {
		// a defective tree: every such case would run into the close-wait and leak one more spinning pump
		out.Count("skipped_after_timeouts", c.End)
		return
	}
	runCase(c)
	if c.Outcome == "timeout:close-wait" {
		famTimeouts[c.End]++
		if isCancel(c.End) {
			atomic.AddInt32(&cancelTimeouts, 1)
		}
	}
	v := monitor(c)
	if malformed {
		out.Malformed()
	}
	out.Count("producers", fmt.Sprint(len(c.Prods)))
	out.Count("end_kind", c.End)
	out.Count("consumer_start", c.Cons)
	out.Count("outcome", c.Outcome)
	out.Count("closed_seen", fmt.Sprint(c.Closed))
	out.Count("accepted_elements", vh.Bucket(accepted(c)))
	out.Count("pending_at_end", vh.Bucket(int(c.PendingAtEnd)))
	out.Count("interleaved", fmt.Sprint(interleaved(c)))
	for _, ps := range c.Puts {
		for _, pr := range ps {
			out.Count("batch_size", vh.Bucket(len(pr.V)))
			if len(pr.V) == 0 {
				out.Count("puts_without_arguments", fmt.Sprintf("late=%v nil=%v", pr.Late, pr.Acc))
			} else if pr.Late {
				if pr.Acc {
					out.Count("puts_after_close", "accepted")
				} else {
					out.Count("puts_after_close", "refused")
				}
			} else if !pr.Acc {
				out.Count("puts_refused_not_late", c.End)
			}
		}
	}
	out.Add(c, coqCase(out.N(), c), nontrivial(c), v)
}

func main() {
	f := vh.ParseFlags()
	if f.Replay != "" {
		var c Case
		vh.LoadReplayCase(f.Replay, &c)
		type runRep struct {
			Outcome string         `json:"outcome"`
			Closed  bool           `json:"closed"`
			Recv    int            `json:"received"`
			Acc     int            `json:"accepted"`
			Monitor []vh.Violation `json:"monitor"`
		}
		var runs []runRep
		fired := false
		var last Case
		for i := 0; i < 10 && !fired; i++ { // racy: repeat; the first run on which the monitor fires decides
			k := Case{Plan: c.Plan}
			runCase(&k)
			v := monitor(&k)
			runs = append(runs, runRep{k.Outcome, k.Closed, len(k.Recv), accepted(&k), v})
			fired = len(v) > 0
			last = k
		}
		b, _ := json.Marshal(map[string]interface{}{"plan": c.Plan, "runs": runs, "last_run": last, "monitor_fired": fired})
		fmt.Println(string(b))
		if fired {
			os.Exit(1)
		}
		os.Exit(0)
	}
	out := vh.NewOut(f.Out, "urpump", "From MV Require Import Lib.ListX C15.UrPumpRun.", "urcase", "urmismatches", f.Seed,
		"scenarios over channels.UnboundedRing: 1..3 producers x 1..8 Put calls of 0..3 tagged values (backlog family: 1100..3000 values in batches of 40..300 with the consumer not started), "+
			"end = Close after/concurrent/before/twice/with backlog or context cancel after/concurrent/with backlog/idle/then Close, consumer started early/mid/late, Puts after the end; "+
			"non-trivial = at least one accepted element and the end was issued while an accepted element had not been received, or two producers interleaved in the received sequence; "+
			"distinct by hash of the whole case (plan and observed trace)")
	out.PerShard = 100 // elaboration of the case terms dominates: more, smaller shards use all cores
	rng := vh.NewRNG(f.Seed)
	famTimeouts := map[string]int{}
	for _, c := range corpus() {
		c := c
		mal := false
		for _, ps := range c.Prods {
			for _, pp := range ps {
				if len(pp.V) == 0 {
					mal = true
				}
			}
		}
		record(out, &c, mal, famTimeouts)
	}
	n := f.N
	if n == 0 {
		n = 1500
		if f.Tier == "thorough" {
			n = 30000
		}
	}
	for i := 0; i < n; i++ {
		cr, _ := rng.Derive()
		c, mal := genCase(cr, f.Tier == "thorough")
		record(out, &c, mal, famTimeouts)
	}
	out.Close()
	os.Exit(0) // leaked pump goroutines of a defective tree must not keep the process alive
}
