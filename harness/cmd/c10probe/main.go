package main

import (
	"fmt"
	"io"
	"log/slog"
	"sync"
	"time"

	"github.com/kercylan98/minotaur/engine/prc"
	"github.com/kercylan98/minotaur/engine/vivid"
	"github.com/kercylan98/minotaur/engine/vivid/dispatcher"
	"github.com/kercylan98/minotaur/engine/vivid/supervision"
	"github.com/kercylan98/minotaur/toolkit/log"
)

type track struct {
	mu     sync.Mutex
	cond   *sync.Cond
	active int
}

func (t *track) Dispatch(f func()) {
	t.mu.Lock()
	t.active++
	t.mu.Unlock()
	go func() {
		defer func() { t.mu.Lock(); t.active--; t.cond.Broadcast(); t.mu.Unlock() }()
		f()
	}()
}
func (t *track) quiet(d time.Duration) bool {
	dl := time.Now().Add(d)
	t.mu.Lock()
	defer t.mu.Unlock()
	for t.active != 0 {
		if time.Now().After(dl) {
			return false
		}
		tm := time.AfterFunc(5*time.Millisecond, func() { t.mu.Lock(); t.cond.Broadcast(); t.mu.Unlock() })
		t.cond.Wait()
		tm.Stop()
	}
	return true
}

var _ dispatcher.Dispatcher = (*track)(nil)

type cmd struct {
	do func(ctx vivid.ActorContext)
}
type pay struct{ v int }

var silent = log.FunctionalLoggerProvider(func() *log.Logger {
	return slog.New(slog.NewTextHandler(io.Discard, &slog.HandlerOptions{Level: slog.Level(100)}))
})
var restartNow = supervision.FunctionalStrategyProvider(func() supervision.Strategy {
	return supervision.FunctionalStrategy(func(record *supervision.AccidentRecord) {
		record.Supervisor.Restart(record.Victim)
	})
})

var mu sync.Mutex

func logf(f string, a ...any) { mu.Lock(); fmt.Printf(f+"\n", a...); mu.Unlock() }

type act struct {
	name string
	inst int
	onTerminated func(ctx vivid.ActorContext)
}

func (a *act) OnReceive(ctx vivid.ActorContext) {
	switch m := ctx.Message().(type) {
	case *cmd:
		m.do(ctx)
	case *pay:
		logf("  %s#%d got pay %d from %v", a.name, a.inst, m.v, ctx.Sender())
	case *vivid.OnAbyssMessageEvent:
		logf("  %s#%d got abyss event: sender=%v receiver=%v msg=%T %+v  from %v", a.name, a.inst, m.Sender, m.Receiver, m.Message, m.Message, ctx.Sender())
		if w, ok := m.Message.(*prc.MessageWrapper); ok {
			logf("      wrapped: %T %+v", w.Message, w.Message)
		}
	case *vivid.OnLaunch:
		logf("  %s#%d launch", a.name, a.inst)
	case *vivid.OnTerminated:
		if a.onTerminated != nil && m.TerminatedActor.Equal(ctx.Ref()) {
			a.onTerminated(ctx)
		}
	default:
		logf("  %s#%d other %T", a.name, a.inst, m)
	}
}

func main() {
	t := &track{}
	t.cond = sync.NewCond(&t.mu)
	vivid.VerifSetDefaultDispatcher(t)
	sys := vivid.NewActorSystem(vivid.FunctionalActorSystemConfigurator(func(c *vivid.ActorSystemConfiguration) {
		c.WithLoggerProvider(silent)
	}))
	insts := map[string]int{}
	var hookT func(ctx vivid.ActorContext)
	spawn := func(name string) vivid.ActorRef {
		return sys.ActorOfF(func() vivid.Actor {
			mu.Lock()
			insts[name]++
			i := insts[name]
			mu.Unlock()
			a := &act{name: name, inst: i}
			if name == "c" {
				a.onTerminated = hookT
			}
			return a
		}, func(d *vivid.ActorDescriptor) {
			d.WithName(name)
			d.WithSupervisionStrategyProvider(restartNow)
			d.WithDispatcherProvider(vivid.FunctionalDispatcherProvider(func() dispatcher.Dispatcher { return t }))
		})
	}
	q := func(what string) {
		if !t.quiet(5 * time.Second) {
			logf("NOT QUIET after %s", what)
		}
	}
	a, b, c, d := spawn("a"), spawn("b"), spawn("c"), spawn("d")
	q("spawn")
	do := func(what string, ref vivid.ActorRef, f func(ctx vivid.ActorContext)) {
		logf("== %s", what)
		sys.Tell(ref, &cmd{do: f})
		q(what)
	}
	var s1, s2, s3 vivid.Subscription
	do("a sub t twice", a, func(ctx vivid.ActorContext) { s1 = ctx.Subscribe("t"); s2 = ctx.Subscribe("t"); logf("  ids %d %d", s1.SubscriptionId(), s2.SubscriptionId()) })
	do("b sub t", b, func(ctx vivid.ActorContext) { s3 = ctx.Subscribe("t"); logf("  id %d", s3.SubscriptionId()) })
	do("d sub abyss", d, func(ctx vivid.ActorContext) { s := ctx.Subscribe(vivid.AbyssTopic); logf("  id %d", s.SubscriptionId()) })
	do("c pub t 1", c, func(ctx vivid.ActorContext) { ctx.Publish("t", &pay{1}) })
	do("b unsub a's s1 (foreign)", b, func(ctx vivid.ActorContext) { ctx.UnSubscribe(s1) })
	do("c pub t 2", c, func(ctx vivid.ActorContext) { ctx.Publish("t", &pay{2}) })
	logf("== sys pub t 3")
	sys.Publish("t", &pay{3})
	q("syspub")
	do("a panics (restart)", a, func(ctx vivid.ActorContext) { panic("boom") })
	do("c pub t 4", c, func(ctx vivid.ActorContext) { ctx.Publish("t", &pay{4}) })
	do("b terminates self", b, func(ctx vivid.ActorContext) { ctx.Terminate(ctx.Ref(), false) })
	do("c pub t 5", c, func(ctx vivid.ActorContext) { ctx.Publish("t", &pay{5}) })
	do("c tells dead b pay 6", c, func(ctx vivid.ActorContext) { ctx.Tell(b, &pay{6}) })
	do("c asks dead b pay 7", c, func(ctx vivid.ActorContext) { ctx.Ask(b, &pay{7}) })
	do("a sub empty topic", a, func(ctx vivid.ActorContext) { ctx.Subscribe("") })
	do("c pub nobody", c, func(ctx vivid.ActorContext) { ctx.Publish("zzz", &pay{8}) })
	// leak: subscribe in OnTerminated handler
	hookT = nil
	logf("== leak scenario: c subscribes to t inside OnTerminated(self)")
	c2 := c
	_ = c2
	// respawn c with hook: terminate c, spawn new c with hook
	do("c terminates", c, func(ctx vivid.ActorContext) { ctx.Terminate(ctx.Ref(), false) })
	hookT = func(ctx vivid.ActorContext) {
		defer func() {
			if r := recover(); r != nil {
				logf("  subscribe in OnTerminated panicked: %v", r)
			}
		}()
		s := ctx.Subscribe("t")
		logf("  c subscribed in OnTerminated id=%d", s.SubscriptionId())
	}
	c = spawn("c")
	q("respawn c")
	do("c terminates (hook subscribes)", c, func(ctx vivid.ActorContext) { ctx.Terminate(ctx.Ref(), false) })
	do("a pub t 9 (c dead, leaked sub?)", a, func(ctx vivid.ActorContext) { ctx.Publish("t", &pay{9}) })
	hookT = nil
	c = spawn("c")
	q("respawn c again")
	do("a pub t 10 (c respawned)", a, func(ctx vivid.ActorContext) { ctx.Publish("t", &pay{10}) })
	// leak on abyss topic: infinite loop?
	do("c terminates", c, func(ctx vivid.ActorContext) { ctx.Terminate(ctx.Ref(), false) })
	hookT = func(ctx vivid.ActorContext) {
		s := ctx.Subscribe(vivid.AbyssTopic)
		logf("  c subscribed abyss in OnTerminated id=%d", s.SubscriptionId())
	}
	c = spawn("c")
	q("respawn c 3")
	do("d unsub all by terminate", d, func(ctx vivid.ActorContext) { ctx.Terminate(ctx.Ref(), false) })
	do("c terminates (hook subscribes abyss)", c, func(ctx vivid.ActorContext) { ctx.Terminate(ctx.Ref(), false) })
	logf("== tell dead b: loop?")
	sys.Tell(b, &pay{11})
	if !t.quiet(2 * time.Second) {
		logf("NOT QUIET: livelock (dead-letter loop)")
	}
	done := make(chan struct{})
	go func() { sys.Shutdown(false); close(done) }()
	select {
	case <-done:
		logf("shutdown ok")
	case <-time.After(3 * time.Second):
		logf("shutdown hung")
	}
}
