// c02term: "terminate under fire" — search oracle (monitors only) for property C02 on the real ActorSystem in real time.
// Several goroutines Tell numbered messages to an actor while it is being terminated (immediately or gracefully, with or
// without a child that delays the end). Afterwards EVERY message must have ended in exactly one of two ways: handled once, or
// reported once as a dead letter — never both, never twice, never neither. The interleavings are those the Go runtime
// produces (GOMAXPROCS >= 4): a sender that resolved the receiver before it was unregistered and finishes after, a message
// queued while the actor is terminating, a message arriving after the address is free.
package main

import (
	"encoding/json"
	"fmt"
	"io"
	"log/slog"
	"os"
	"runtime"
	"sync"
	"sync/atomic"
	"time"

	"github.com/kercylan98/minotaur/engine/prc"
	"github.com/kercylan98/minotaur/engine/vivid"
	"github.com/kercylan98/minotaur/toolkit/log"
	"verif/harness/vh"
)

type Case struct {
	Senders  int   `json:"senders"`
	Msgs     int   `json:"msgs"`      // per sender
	Graceful bool  `json:"graceful"`  // the terminate request is graceful
	Child    bool  `json:"child"`     // the receiver has a child (its end waits for the child's notice)
	DelayUs  int   `json:"delay_us"`  // the terminate request is sent this long after the senders start
	Rounds   int   `json:"rounds"`    // independent systems per case
	Salt     int64 `json:"salt"`
	// observed (summed over the rounds)
	Sent, Handled, Dead int
	BothWays            int `json:"rounds_with_handled_and_dead"` // rounds in which the receiver handled some and missed some: the race was live
}

var silent = log.FunctionalLoggerProvider(func() *log.Logger {
	return slog.New(slog.NewTextHandler(io.Discard, &slog.HandlerOptions{Level: slog.Level(100)}))
})

type work struct{ N int }

// recording dead-letter process (public API: WithAbyss)
type recAbyss struct {
	mu   sync.Mutex
	seen map[int]int
	n    atomic.Int64
}

func (a *recAbyss) OnInitialize(system *vivid.ActorSystem)                      {}
func (a *recAbyss) Initialize(rc *prc.ResourceController, id *prc.ProcessId)    {}
func (a *recAbyss) IsTerminated() bool                                          { return false }
func (a *recAbyss) Terminate(source *prc.ProcessId)                             {}
func (a *recAbyss) DeliverySystemMessage(r, s, f *prc.ProcessId, m prc.Message) {}
func (a *recAbyss) DeliveryUserMessage(r, s, f *prc.ProcessId, message prc.Message) {
	if w, ok := message.(*prc.MessageWrapper); ok {
		message = w.Message
	}
	if m, ok := message.(*work); ok {
		a.mu.Lock()
		a.seen[m.N]++
		a.mu.Unlock()
		a.n.Add(1)
	}
}

func runRound(c *Case, round int) (viol []vh.Violation, sent, handledN, deadN int) {
	add := func(kind, detail string) {
		for _, v := range viol {
			if v.Kind == kind {
				return
			}
		}
		viol = append(viol, vh.Violation{Kind: kind, Sig: map[string]string{"graceful": fmt.Sprint(c.Graceful), "child": fmt.Sprint(c.Child)},
			Detail: fmt.Sprintf("terminate under fire (senders=%d msgs=%d graceful=%v child=%v delay=%dus round=%d): %s", c.Senders, c.Msgs, c.Graceful, c.Child, c.DelayUs, round, detail)})
	}
	ab := &recAbyss{seen: map[int]int{}}
	sys := vivid.NewActorSystem(vivid.FunctionalActorSystemConfigurator(func(cfg *vivid.ActorSystemConfiguration) {
		cfg.WithLoggerProvider(silent)
		cfg.WithAbyss(ab)
	}))
	var mu sync.Mutex
	got := map[int]int{}
	var handled atomic.Int64
	ready := make(chan struct{})
	target := sys.ActorOfF(func() vivid.Actor {
		return vivid.FunctionalActor(func(ctx vivid.ActorContext) {
			switch m := ctx.Message().(type) {
			case *vivid.OnLaunch:
				if c.Child {
					ctx.ActorOfF(func() vivid.Actor { return vivid.FunctionalActor(func(ctx vivid.ActorContext) {}) })
				}
				close(ready)
			case *work:
				mu.Lock()
				got[m.N]++
				mu.Unlock()
				handled.Add(1)
			}
		})
	})
	select {
	case <-ready:
	case <-time.After(10 * time.Second):
		add("C02:term:harness-timeout", "the receiver was not launched within 10 s")
		return
	}
	total := c.Senders * c.Msgs
	start := make(chan struct{})
	var wg sync.WaitGroup
	var panics atomic.Int64
	for s := 0; s < c.Senders; s++ {
		wg.Add(1)
		go func(s int) {
			defer wg.Done()
			defer func() {
				if r := recover(); r != nil {
					panics.Add(1)
				}
			}()
			<-start
			for k := 0; k < c.Msgs; k++ {
				sys.Tell(target, &work{N: s*c.Msgs + k})
			}
		}(s)
	}
	wg.Add(1)
	go func() {
		defer wg.Done()
		<-start
		if c.DelayUs > 0 {
			t := time.Now()
			for time.Since(t) < time.Duration(c.DelayUs)*time.Microsecond {
				runtime.Gosched()
			}
		}
		sys.Terminate(target, c.Graceful)
	}()
	close(start)
	done := make(chan struct{})
	go func() { wg.Wait(); close(done) }()
	select {
	case <-done:
	case <-time.After(30 * time.Second):
		add("C02:term:send-blocks", "a sender (or the terminate request) had not returned after 30 s")
	}
	if panics.Load() > 0 {
		add("C02:term:send-panics", fmt.Sprintf("%d senders panicked inside Tell", panics.Load()))
	}
	// quiescence: every message accounted for, or 5 s without any progress
	last, lastAt := int64(-1), time.Now()
	for {
		n := handled.Load() + ab.n.Load()
		if n >= int64(total) {
			time.Sleep(20 * time.Millisecond) // a duplicate would arrive now
			break
		}
		if n != last {
			last, lastAt = n, time.Now()
		} else if time.Since(lastAt) > 5*time.Second {
			break
		}
		time.Sleep(2 * time.Millisecond)
	}
	mu.Lock()
	ab.mu.Lock()
	var twiceH, twiceD, both, lost []int
	for n := 0; n < total; n++ {
		h, d := got[n], ab.seen[n]
		switch {
		case h > 1:
			twiceH = append(twiceH, n)
		case d > 1:
			twiceD = append(twiceD, n)
		case h == 1 && d == 1:
			both = append(both, n)
		case h == 0 && d == 0:
			lost = append(lost, n)
		}
		handledN += h
		deadN += d
	}
	ab.mu.Unlock()
	mu.Unlock()
	sent = total
	sample := func(xs []int) string {
		if len(xs) > 6 {
			return fmt.Sprintf("%v… (%d)", xs[:6], len(xs))
		}
		return fmt.Sprint(xs)
	}
	if len(twiceH) > 0 {
		add("C02:term:duplicate-handled", "handled twice: "+sample(twiceH))
	}
	if len(twiceD) > 0 {
		add("C02:term:duplicate-dead-letter", "reported as a dead letter twice: "+sample(twiceD))
	}
	if len(both) > 0 {
		add("C02:term:handled-and-dead-letter", "handled and also reported as a dead letter: "+sample(both))
	}
	if len(lost) > 0 {
		add("C02:term:lost", fmt.Sprintf("neither handled nor reported as dead letters 5 s after the last progress: %s (handled %d, dead letters %d of %d)", sample(lost), handledN, deadN, total))
	}
	sd := make(chan struct{})
	go func() { defer close(sd); defer func() { _ = recover() }(); sys.Shutdown(false) }()
	select {
	case <-sd:
	case <-time.After(20 * time.Second):
		// not C02's business; the system is abandoned
	}
	return
}

func runCase(c *Case) (viol []vh.Violation) {
	procs := runtime.NumCPU()
	if procs < 4 {
		procs = 4
	}
	runtime.GOMAXPROCS(procs)
	c.Sent, c.Handled, c.Dead, c.BothWays = 0, 0, 0, 0
	for r := 0; r < c.Rounds; r++ {
		v, s, h, d := runRound(c, r)
		c.Sent += s
		c.Handled += h
		c.Dead += d
		if h > 0 && d > 0 {
			c.BothWays++
		}
		if len(v) > 0 {
			return v
		}
	}
	return nil
}

func gen(rng *vh.RNG, tier string) []*Case {
	n := 12
	if tier == "thorough" {
		n = 60
	}
	var cs []*Case
	for i := 0; i < n; i++ {
		c := &Case{Senders: rng.Range(2, 4), Msgs: []int{200, 400, 800}[rng.Intn(3)], Graceful: rng.Chance(1, 3), Child: rng.Chance(1, 3),
			DelayUs: []int{0, 20, 50, 100, 200, 400}[rng.Intn(6)], Rounds: 10, Salt: int64(rng.Intn(1 << 30))}
		cs = append(cs, c)
	}
	return cs
}

func main() {
	f := vh.ParseFlags()
	if f.Replay != "" {
		var c Case
		vh.LoadReplayCase(f.Replay, &c)
		var viol []vh.Violation
		attempts := 0
		for attempts < 10 && len(viol) == 0 {
			viol = runCase(&c)
			attempts++
		}
		b, _ := json.MarshalIndent(map[string]interface{}{"case": c, "monitor_hits": viol, "attempts": attempts}, "", " ")
		fmt.Println(string(b))
		if len(viol) > 0 {
			os.Exit(1)
		}
		return
	}
	out := vh.NewOut(f.Out, "term", "", "", "", f.Seed,
		"real ActorSystem, real time, GOMAXPROCS>=4: 2-4 goroutines Tell 200-800 numbered messages each to one actor (with or without a child) while a terminate request (immediate or graceful) is sent 0-400 us after they start, 10 independent systems per case; monitor: every message is handled exactly once or reported exactly once as a dead letter (recording dead-letter process via WithAbyss) — never both, twice or neither (5 s without progress), no sender blocks or panics; non-trivial = a case in which at least one round saw messages end both ways (the race was live); search oracle only (no model evaluation): the interleavings are the Go runtime's")
	cases := gen(vh.NewRNG(f.Seed), f.Tier)
	if f.N > 0 && f.N < len(cases) {
		cases = cases[:f.N]
	}
	violating := 0
	for _, c := range cases {
		if violating >= 2 {
			out.Count("skipped_after_two_violating_cases", "x")
			continue
		}
		viol := runCase(c)
		if len(viol) > 0 {
			violating++
		}
		out.Count("graceful", fmt.Sprint(c.Graceful))
		out.Count("child", fmt.Sprint(c.Child))
		out.Count("delay_us", fmt.Sprint(c.DelayUs))
		out.Count("senders", fmt.Sprint(c.Senders))
		out.Count("rounds_both_ways", vh.Bucket(c.BothWays))
		for k, n := range map[string]int{"messages_sent": c.Sent, "messages_handled": c.Handled, "dead_letters": c.Dead} {
			for i := 0; i < n; i += 1000 {
				out.Count("volume_thousands", k)
			}
		}
		out.Add(c, "", c.BothWays > 0, viol)
	}
	out.Close()
}
