// klock: lockstep harness for the actor kernel (properties C02 actor level, C03, C04, C05, C06).
package main

import (
	"encoding/json"
	"fmt"
	"os"

	"verif/harness/klock"
	"verif/harness/vh"
)

func main() {
	f := vh.ParseFlags()
	if f.Replay != "" {
		var c klock.Case
		vh.LoadReplayCase(f.Replay, &c)
		res := klock.Replay(&c)
		b, _ := json.MarshalIndent(res, "", " ")
		fmt.Println(string(b))
		if len(res.Viol) > 0 {
			os.Exit(1)
		}
		return
	}
	klock.Main(f)
}
