// kscript: run a hand-written scenario on the real actor system under the gating scheduler, following a given label
// list ("run" steps by mailbox uid; any other label takes the next external action of the scenario), and print the case
// (with the scheduler choices, so that it can be used as a replay file) and what the monitors say. After the label list the
// default schedule runs the system to its end (then shutdown).
//   kscript file.json      where file.json = {"scn": Scenario, "labels": [Label...]}
package main

import (
	"encoding/json"
	"fmt"
	"os"

	"verif/harness/klock"
)

func main() {
	var in struct {
		Scn    klock.Scenario `json:"scn"`
		Labels []klock.Label  `json:"labels"`
	}
	b, err := os.ReadFile(os.Args[1])
	if err != nil {
		panic(err)
	}
	if err := json.Unmarshal(b, &in); err != nil {
		panic(err)
	}
	k := 0
	h := klock.New(&in.Scn)
	c := &klock.Case{Scn: in.Scn}
	exts := append([]klock.Label(nil), in.Scn.Exts...)
	for _, l := range in.Labels {
		en := h.Enabled()
		if l.K == "run" {
			at := -1
			for i, u := range en {
				if u == l.T {
					at = i
				}
			}
			if at < 0 {
				fmt.Fprintf(os.Stderr, "label %d: mailbox %d is not enabled (enabled %v)\n", k, l.T, en)
				os.Exit(2)
			}
			c.Choices = append(c.Choices, at)
			h.Do(l)
		} else {
			c.Choices = append(c.Choices, len(en))
			h.Do(exts[0])
			exts = exts[1:]
		}
		k++
	}
	// then the default schedule to the end: lowest enabled mailbox first, externals last, shutdown when nothing is left
	shutdown := false
	for len(h.Steps) < 600 && h.Stuck == "" {
		en := h.Enabled()
		if len(en) > 0 {
			c.Choices = append(c.Choices, 0)
			h.Do(klock.Label{K: "run", T: en[0]})
		} else if len(exts) > 0 {
			c.Choices = append(c.Choices, 0)
			h.Do(exts[0])
			exts = exts[1:]
		} else if !shutdown {
			shutdown = true
			h.Do(klock.Label{K: "shutdown", G: in.Scn.Final})
		} else {
			break
		}
	}
	h.End()
	c.Steps, c.Stuck = h.Steps, h.Stuck
	res := &klock.Result{Case: *c, Viol: klock.Monitors(c)}
	out, _ := json.MarshalIndent(res, "", " ")
	fmt.Println(string(out))
}
