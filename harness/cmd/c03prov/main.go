// c03prov: a PROVIDER that fails while a restart is being completed (outside the kernel model, whose provider cannot fail):
// whatever happens to the restart, every incarnation's trace stays well-formed — in particular nothing is handled by an
// incarnation after its own OnTerminated — and a later terminate request / Shutdown still ends the actor. Monitors only.
// (Defect repaired by the fix "the new instance is obtained from the provider first".)
package main

import (
	"encoding/json"
	"fmt"
	"os"
	"sync"
	"time"

	"github.com/kercylan98/minotaur/engine/vivid"
	"github.com/kercylan98/minotaur/engine/vivid/supervision"
	"github.com/kercylan98/minotaur/toolkit/log"
	"verif/harness/vh"
)

type Case struct {
	FailAt   []int `json:"fail_at"`  // the provider panics when it is asked for these instance numbers (2 = first restart)
	Failures int   `json:"failures"` // scripted handler failures sent one after the other
	Children int   `json:"children"` // children of the victim (their stopping delays the completion of a restart)
	Graceful bool  `json:"graceful"` // the final terminate request
	Traces   map[string][]string `json:"traces,omitempty"`
}

type rec struct {
	mu  sync.Mutex
	log map[int][]string
}

func (r *rec) add(inst int, s string) { r.mu.Lock(); r.log[inst] = append(r.log[inst], s); r.mu.Unlock() }

func runCase(c *Case) (viol []vh.Violation) {
	add := func(kind, detail string) {
		viol = append(viol, vh.Violation{Kind: kind, Detail: fmt.Sprintf("provider fails at instances %v, %d failures, %d children, graceful=%v: %s", c.FailAt, c.Failures, c.Children, c.Graceful, detail)})
	}
	sys := vivid.NewActorSystem(vivid.FunctionalActorSystemConfigurator(func(cfg *vivid.ActorSystemConfiguration) {
		cfg.WithLoggerProvider(log.FunctionalLoggerProvider(func() *log.Logger { return log.NewSilentLogger() }))
	}))
	r := &rec{log: map[int][]string{}}
	failAt := map[int]bool{}
	for _, k := range c.FailAt {
		failAt[k] = true
	}
	n := 0
	provider := vivid.FunctionalActorProvider(func() vivid.Actor {
		n++
		inst := n
		if failAt[inst] {
			panic("c03prov: the provider fails")
		}
		return vivid.FunctionalActor(func(ctx vivid.ActorContext) {
			switch m := ctx.Message().(type) {
			case *vivid.OnLaunch:
				r.add(inst, "L")
				for k := 0; k < c.Children; k++ {
					ctx.ActorOfF(func() vivid.Actor { return vivid.FunctionalActor(func(ctx vivid.ActorContext) {}) })
				}
			case *vivid.OnRestarted:
				r.add(inst, "RD")
			case *vivid.OnRestarting:
				r.add(inst, "RG")
			case *vivid.OnTerminate:
				r.add(inst, "T")
			case *vivid.OnTerminated:
				if m.TerminatedActor.Equal(ctx.Ref()) {
					r.add(inst, "TS")
				} else {
					r.add(inst, "TO")
				}
			case string:
				r.add(inst, "P")
				if m == "fail" {
					panic("c03prov: scripted failure")
				}
			}
		})
	})
	restart := supervision.FunctionalStrategyProvider(func() supervision.Strategy {
		return supervision.FunctionalStrategy(func(record *supervision.AccidentRecord) { record.Supervisor.Restart(record.Victim) })
	})
	ref := sys.ActorOf(provider, vivid.FunctionalActorDescriptorConfigurator(func(d *vivid.ActorDescriptor) {
		d.WithName("v").WithSupervisionStrategyProvider(restart)
	}))
	for k := 0; k < c.Failures; k++ {
		sys.Tell(ref, "fail")
		time.Sleep(60 * time.Millisecond)
	}
	sys.Tell(ref, "ping")
	time.Sleep(60 * time.Millisecond)
	sys.Terminate(ref, c.Graceful)
	time.Sleep(150 * time.Millisecond)
	done := make(chan struct{})
	go func() { defer close(done); defer func() { _ = recover() }(); sys.Shutdown(false) }()
	select {
	case <-done:
	case <-time.After(10 * time.Second):
		add("C03:provider:shutdown-hangs", "Shutdown(false) did not return within 10 s")
	}
	r.mu.Lock()
	defer r.mu.Unlock()
	c.Traces = map[string][]string{}
	for inst, tr := range r.log {
		c.Traces[fmt.Sprint(inst)] = tr
		own := -1
		for i, s := range tr {
			if s == "TS" {
				own = i
				break
			}
		}
		if own >= 0 && own != len(tr)-1 {
			add("C03:provider:handled-after-own-terminated", fmt.Sprintf("instance %d handled %v after its own OnTerminated: %v", inst, tr[own+1:], tr))
		}
		if len(tr) > 0 && !(tr[0] == "L" || (tr[0] == "RD" && (len(tr) == 1 || tr[1] == "L"))) {
			add("C03:provider:first-not-launch", fmt.Sprintf("instance %d first handled %s: %v", inst, tr[0], tr))
		}
	}
	return
}

func main() {
	f := vh.ParseFlags()
	if f.Replay != "" {
		var c Case
		vh.LoadReplayCase(f.Replay, &c)
		viol := runCase(&c)
		b, _ := json.MarshalIndent(map[string]interface{}{"case": c, "monitor_hits": viol}, "", " ")
		fmt.Println(string(b))
		if len(viol) > 0 {
			os.Exit(1)
		}
		return
	}
	out := vh.NewOut(f.Out, "prov", "", "", "", f.Seed,
		"real ActorSystem: a top-level actor (0-2 children) under a restart-always strategy whose provider panics when asked for chosen instance numbers; 1-3 scripted handler failures, a user message, a terminate request (graceful or not), Shutdown; monitor: per instance the trace is well-formed (first OnLaunch, preceded only by OnRestarted; nothing after the own OnTerminated), Shutdown returns; search oracle only (provider faults are outside the kernel model)")
	rng := vh.NewRNG(f.Seed)
	var cases []*Case
	for _, fa := range [][]int{{2}, {3}, {2, 3}, {2, 4}, {}} {
		for ch := 0; ch <= 2; ch++ {
			cases = append(cases, &Case{FailAt: fa, Failures: rng.Range(1, 3), Children: ch, Graceful: rng.Bool()})
		}
	}
	type job struct {
		c    *Case
		viol []vh.Violation
	}
	jobs := make([]job, len(cases))
	var wg sync.WaitGroup
	for i, c := range cases {
		wg.Add(1)
		go func(i int, c *Case) { defer wg.Done(); jobs[i] = job{c, runCase(c)} }(i, c)
	}
	wg.Wait()
	for _, j := range jobs {
		out.Count("provider_fails_at", fmt.Sprint(j.c.FailAt))
		out.Add(j.c, "", len(j.c.FailAt) > 0, j.viol)
	}
	out.Close()
}
