// c12addr: correspondence harness (T1) for the address algebra of engine/prc/process_id.go
// (Derivation, Equal, URL, Clone) and the name rule of vivid.ActorDescriptor.WithName against
// MV.C12.AddrModel, over random and edge byte strings.
package main

import (
	"encoding/json"
	"fmt"
	"os"
	"strings"

	"github.com/kercylan98/minotaur/engine/prc"
	"github.com/kercylan98/minotaur/engine/vivid"
	"verif/harness/vh"
)

// strings travel as byte slices rendered as arrays of numbers (JSON strings would mangle invalid UTF-8)
type B []int

func toB(s string) B {
	b := make(B, len(s))
	for i := 0; i < len(s); i++ {
		b[i] = int(s[i])
	}
	return b
}
func (b B) str() string {
	x := make([]byte, len(b))
	for i, v := range b {
		x[i] = byte(v)
	}
	return string(x)
}

type Pid struct {
	Nil bool `json:"nil,omitempty"`
	Ph  B    `json:"ph"`
	Ld  B    `json:"ld"`
}

func (p Pid) mk() *prc.ProcessId {
	if p.Nil {
		return nil
	}
	return prc.NewProcessId(p.Ph.str(), p.Ld.str())
}

type Case struct {
	K     string `json:"k"` // deriv equal url name
	A     Pid    `json:"a"`
	Bp    Pid    `json:"b"`
	Names []B    `json:"names,omitempty"`
	// implementation outputs
	Children [][2]B `json:"children,omitempty"`
	Accepted []bool `json:"accepted,omitempty"` // per name: WithName accepts it
	Eq       bool   `json:"eq,omitempty"`
	Url      [3]B   `json:"url,omitempty"`
	Text     *B     `json:"text,omitempty"`
	Crash    string `json:"crash,omitempty"`
}

func accepts(name string) (ok bool) {
	defer func() {
		if recover() != nil {
			ok = false
		}
	}()
	new(vivid.ActorDescriptor).WithName(name)
	return true
}

func safe(s string, extra byte) bool {
	for i := 0; i < len(s); i++ {
		c := s[i]
		if c >= '0' && c <= '9' || c >= 'a' && c <= 'z' || c >= 'A' && c <= 'Z' || c == '-' || c == '.' || c == '_' || c == '~' || c == extra {
			continue
		}
		return false
	}
	return true
}

func runImpl(c *Case) {
	defer func() {
		if e := recover(); e != nil {
			c.Crash = fmt.Sprint(e)
		}
	}()
	c.Children, c.Accepted, c.Text, c.Crash = nil, nil, nil, ""
	switch c.K {
	case "deriv":
		p := c.A.mk()
		for _, n := range c.Names {
			d := p.Derivation(n.str())
			c.Children = append(c.Children, [2]B{toB(d.GetPhysicalAddress()), toB(d.GetLogicalAddress())})
			c.Accepted = append(c.Accepted, accepts(n.str()))
		}
	case "equal":
		c.Eq = c.A.mk().Equal(c.Bp.mk())
	case "clone":
		c.Eq = c.A.mk().Clone().Equal(c.A.mk()) && c.A.mk().Equal(c.A.mk().Clone())
	case "url":
		p := c.A.mk()
		u := p.URL()
		c.Url = [3]B{toB(u.Scheme), toB(u.Host), toB(u.Path)}
		if !c.A.Nil && safe(c.A.Ph.str(), ':') && safe(c.A.Ld.str(), '/') {
			t := toB(u.String())
			c.Text = &t
		}
	case "name":
		c.Accepted = []bool{accepts(c.Names[0].str())}
	}
}

// ---- property monitor (independent of the Coq model)
func monitor(c *Case) (viol []vh.Violation) {
	add := func(fn, class, detail string) {
		viol = append(viol, vh.Violation{Kind: "addr:" + fn + ":" + class, Detail: detail, Sig: map[string]string{"function": fn, "class": class}})
	}
	if c.Crash != "" {
		add(c.K, "crash", c.Crash)
		return
	}
	switch c.K {
	case "deriv":
		// addresses derived from one parent are distinct for distinct names (names the actor API accepts)
		for i := range c.Names {
			for j := i + 1; j < len(c.Names); j++ {
				if !c.Accepted[i] || !c.Accepted[j] || c.Names[i].str() == c.Names[j].str() {
					continue
				}
				if c.Children[i][1].str() == c.Children[j][1].str() && c.Children[i][0].str() == c.Children[j][0].str() {
					add("Derivation", "collision", fmt.Sprintf("parent %q: names %q and %q both give %q", c.A.Ld.str(), c.Names[i].str(), c.Names[j].str(), c.Children[i][1].str()))
					return
				}
			}
		}
	case "equal":
		if !c.A.Nil && !c.Bp.Nil {
			want := c.A.Ph.str() == c.Bp.Ph.str() && c.A.Ld.str() == c.Bp.Ld.str()
			if c.Eq != want {
				add("Equal", "wrong-verdict", fmt.Sprintf("(%q,%q) vs (%q,%q): Equal=%v", c.A.Ph.str(), c.A.Ld.str(), c.Bp.Ph.str(), c.Bp.Ld.str(), c.Eq))
			}
		}
	case "clone":
		if !c.Eq {
			add("Equal", "clone-not-equal", fmt.Sprintf("(%q,%q) is not Equal to its Clone", c.A.Ph.str(), c.A.Ld.str()))
		}
	}
	return
}

func coqS(b B) string {
	it := make([]string, len(b))
	for i, v := range b {
		it[i] = fmt.Sprintf("%d%%N", v)
	}
	return "(S [" + strings.Join(it, "; ") + "])"
}
func coqPid(p Pid) string { return fmt.Sprintf("{| phys := %s; logic := %s |}", coqS(p.Ph), coqS(p.Ld)) }
func coqOPid(p Pid) string {
	if p.Nil {
		return "None"
	}
	return "(Some " + coqPid(p) + ")"
}

func coqCase(id int, c *Case) string {
	if c.Crash != "" {
		return fmt.Sprintf("(CCrash %d%%nat)", id)
	}
	switch c.K {
	case "deriv":
		ns := make([]string, len(c.Names))
		ch := make([]string, len(c.Names))
		for i, n := range c.Names {
			ns[i] = coqS(n)
			ch[i] = vh.Pair(coqS(c.Children[i][0]), coqS(c.Children[i][1]))
		}
		return fmt.Sprintf("(CDeriv %d%%nat %s %s %s)", id, coqPid(c.A), vh.List(ns), vh.List(ch))
	case "equal":
		return fmt.Sprintf("(CEqual %d%%nat %s %s %s)", id, coqOPid(c.A), coqOPid(c.Bp), vh.Bool(c.Eq))
	case "clone":
		return fmt.Sprintf("(CEqual %d%%nat (Some (Clone %s)) %s %s)", id, coqPid(c.A), coqOPid(c.A), vh.Bool(c.Eq))
	case "url":
		t := "None"
		if c.Text != nil {
			t = "(Some " + coqS(*c.Text) + ")"
		}
		return fmt.Sprintf("(CUrl %d%%nat %s %s %s %s %s)", id, coqOPid(c.A), coqS(c.Url[0]), coqS(c.Url[1]), coqS(c.Url[2]), t)
	case "name":
		return fmt.Sprintf("(CName %d%%nat %s %s)", id, coqS(c.Names[0]), vh.Bool(c.Accepted[0]))
	}
	panic(c.K)
}

var edge = []string{"", "/", "a", "/a", "a/", "//", "a/b", "/a/b", " ", "a b", "\t", "\n", "a\n", "\f", "\r", "\\", "a\\b", "é", "日本", "\xff", "\xc3",
	"user", "abyss", "0", "18446744073709551615", "prefix-7", "-", ".", "..", "~", "A_b.c-d~", "a:b", "%2F", "a%", "?", "#", "\x00"}
var parents = []string{"/", "", "/user", "/user/a", "/user/", "//", "user", "/é", "/a b", "/user/sub"}
var nodes = []string{"localhost", "", "127.0.0.1:8080", "node-1:9000", "[::1]:80", "h st", "é", "a/b"}
var alphabet = []string{"a", "b", "/", "/", "\\", " ", "\n", "0", "-", ".", ":", "\xc3\xa9", "\xff", "Z", "_", "~"}

func genStr(rng *vh.RNG) string {
	if rng.Chance(1, 2) {
		return edge[rng.Intn(len(edge))]
	}
	n := rng.Range(0, 8)
	var sb strings.Builder
	for i := 0; i < n; i++ {
		sb.WriteString(alphabet[rng.Intn(len(alphabet))])
	}
	return sb.String()
}
func genSafe(rng *vh.RNG, extra string) string {
	al := "abcXYZ019-._~" + extra + extra
	n := rng.Range(0, 9)
	var sb strings.Builder
	for i := 0; i < n; i++ {
		sb.WriteByte(al[rng.Intn(len(al))])
	}
	return sb.String()
}
func genPid(rng *vh.RNG, nilOK bool) Pid {
	if nilOK && rng.Chance(1, 10) {
		return Pid{Nil: true, Ph: B{}, Ld: B{}}
	}
	ph := nodes[rng.Intn(len(nodes))]
	ld := parents[rng.Intn(len(parents))]
	if rng.Chance(1, 3) {
		ld = genStr(rng)
	}
	if rng.Chance(1, 6) {
		ph = genStr(rng)
	}
	return Pid{Ph: toB(ph), Ld: toB(ld)}
}

func genCase(rng *vh.RNG) Case {
	switch rng.Intn(10) {
	case 0, 1, 2, 3:
		c := Case{K: "deriv", A: genPid(rng, false)}
		n := rng.Range(1, 6)
		for i := 0; i < n; i++ {
			s := genStr(rng)
			if i > 0 && rng.Chance(1, 2) { // a close variant of an earlier name: likeliest collisions
				prev := c.Names[rng.Intn(i)].str()
				switch rng.Intn(5) {
				case 0:
					s = "/" + prev
				case 1:
					s = prev + "/"
				case 2:
					s = strings.TrimPrefix(prev, "/")
				case 3:
					s = prev + "a"
				case 4:
					s = prev
				}
			}
			c.Names = append(c.Names, toB(s))
		}
		return c
	case 4, 5, 6:
		a := genPid(rng, true)
		b := genPid(rng, true)
		switch rng.Intn(4) {
		case 0:
			b = a
		case 1:
			b = Pid{Nil: a.Nil, Ph: a.Ph, Ld: b.Ld}
		case 2:
			b = Pid{Nil: a.Nil, Ph: b.Ph, Ld: a.Ld}
		}
		return Case{K: "equal", A: a, Bp: b}
	case 7:
		return Case{K: "clone", A: genPid(rng, false)}
	case 8:
		a := genPid(rng, true)
		if rng.Chance(2, 3) {
			a = Pid{Ph: toB(genSafe(rng, ":")), Ld: toB(genSafe(rng, "/"))}
		}
		return Case{K: "url", A: a}
	default:
		return Case{K: "name", Names: []B{toB(genStr(rng))}}
	}
}

func interesting(s string) bool {
	if s == "" || strings.HasPrefix(s, "/") || strings.HasSuffix(s, "/") {
		return true
	}
	for i := 0; i < len(s); i++ {
		if s[i] >= 0x80 || s[i] <= ' ' || s[i] == '\\' {
			return true
		}
	}
	return false
}

func record(out *vh.Out, c *Case) {
	runImpl(c)
	v := monitor(c)
	nt := interesting(c.A.Ld.str()) || interesting(c.Bp.Ld.str())
	for _, n := range c.Names {
		nt = nt || interesting(n.str())
		out.Count("name_len", vh.Bucket(len(n)))
	}
	if c.K == "deriv" && len(c.Names) < 2 {
		nt = false
	}
	out.Count("kind", c.K)
	if c.K == "deriv" {
		acc := 0
		for _, a := range c.Accepted {
			if a {
				acc++
			}
		}
		out.Count("deriv_names_accepted_by_actor_api", vh.Bucket(acc))
		out.Count("deriv_parent", fmt.Sprintf("%q", c.A.Ld.str()))
	}
	if c.K == "equal" {
		out.Count("equal_verdict", fmt.Sprint(c.Eq))
	}
	out.Add(c, coqCase(out.N(), c), nt, v)
}

func corpus() []Case {
	return []Case{
		{K: "deriv", A: Pid{Ph: toB("localhost"), Ld: toB("/user")}, Names: []B{toB("a"), toB("/a"), toB("b"), toB("a/b"), toB("")}},
		{K: "deriv", A: Pid{Ph: toB("localhost"), Ld: toB("/")}, Names: []B{toB("a"), toB("/a"), toB("abyss"), toB("user")}},
		{K: "deriv", A: Pid{Ph: toB("localhost"), Ld: toB("")}, Names: []B{toB("a"), toB("/a")}},
		{K: "equal", A: Pid{Ph: toB("n1"), Ld: toB("/a")}, Bp: Pid{Ph: toB("n2"), Ld: toB("/a")}},
		{K: "equal", A: Pid{Nil: true, Ph: B{}, Ld: B{}}, Bp: Pid{Nil: true, Ph: B{}, Ld: B{}}},
		{K: "url", A: Pid{Ph: toB("127.0.0.1:8080"), Ld: toB("/user/a")}},
		{K: "url", A: Pid{Ph: toB("h"), Ld: toB("rel")}},
		{K: "url", A: Pid{Ph: toB(""), Ld: toB("")}},
		{K: "url", A: Pid{Nil: true, Ph: B{}, Ld: B{}}},
	}
}

func main() {
	f := vh.ParseFlags()
	if f.Replay != "" {
		var c Case
		vh.LoadReplayCase(f.Replay, &c)
		runImpl(&c)
		v := monitor(&c)
		b, _ := json.Marshal(map[string]interface{}{"case": c, "monitor": v})
		fmt.Println(string(b))
		if len(v) > 0 {
			os.Exit(1)
		}
		return
	}
	out := vh.NewOut(f.Out, "addr", "From MV Require Import Lib.ListX C12.AddrModel C12.AddrRun.", "acase", "mismatches", f.Seed,
		"ProcessId.Derivation over parents {/, empty, /user, /user/a, trailing slash, no leading slash, non-ASCII, random} x 1..6 names (edge strings: empty, slashes in every position, whitespace, backslash, multi-byte and invalid UTF-8, digits; random strings; close variants of earlier names); Equal/Clone over pairs sharing node, local address, both or neither, nil included; URL fields, and URL.String() for never-escaped characters; the name rule through ActorDescriptor.WithName; non-trivial = an empty string, a leading/trailing slash, a control/space/backslash or non-ASCII byte is involved (Derivation: with at least 2 names); distinct by hash of the inputs")
	out.PerShard = 130
	rng := vh.NewRNG(f.Seed)
	for _, c := range corpus() {
		c := c
		record(out, &c)
	}
	n := f.N
	if n == 0 {
		n = 2000
		if f.Tier == "thorough" {
			n = 40000
		}
	}
	for i := 0; i < n; i++ {
		cr, _ := rng.Derive()
		c := genCase(cr)
		record(out, &c)
	}
	if f.Tier == "thorough" { // every pair of edge names under every listed parent
		for _, p := range parents {
			for i := range edge {
				c := Case{K: "deriv", A: Pid{Ph: toB("localhost"), Ld: toB(p)}}
				for j := i; j < len(edge) && j < i+6; j++ {
					c.Names = append(c.Names, toB(edge[j]))
				}
				record(out, &c)
			}
		}
		for _, e := range edge {
			c := Case{K: "name", Names: []B{toB(e)}}
			record(out, &c)
		}
	}
	out.Close()
}
