// c18retry: correspondence harness (T1) for the retry helpers of toolkit/retry.go against MV.C18.RetryModel.
//
// It is a test binary (go1.26.8, `go test -c`) because the helpers really call time.Sleep: every case runs
// inside a testing/synctest bubble, where time is virtual, so sleeps of days cost nothing and the gap between
// two invocations of the operation is exactly what was slept (Sleep(d<=0) shows as 0).
// rand.Float64() of math/rand is controlled by replacing the package's global generator (go:linkname, needs
// -ldflags=-checklinkname=0) with one whose source returns chosen 53-bit integers k: r = k / 2^53 exactly.
// math.Pow(mult, retry) is computed here with the same toolchain and handed to the model as bits.
package c18retry

import (
	"encoding/json"
	"errors"
	"fmt"
	"math"
	"math/rand"
	"os"
	"strconv"
	"strings"
	"sync/atomic"
	"testing"
	"testing/synctest"
	"time"
	_ "unsafe"

	"github.com/kercylan98/minotaur/toolkit"
	"verif/harness/cmd/c18lib"
	"verif/harness/vh"
)

//go:linkname globalRandGenerator math/rand.globalRandGenerator
var globalRandGenerator atomic.Pointer[rand.Rand]

type kSrc struct {
	ks    []uint64
	draws int
}

func (s *kSrc) Int63() int64 {
	var k uint64
	if s.draws < len(s.ks) {
		k = s.ks[s.draws]
	}
	s.draws++
	return int64(k << 10) // Float64() = float64(Int63()) / 2^63 = k / 2^53
}
func (s *kSrc) Seed(int64) {}

var src = &kSrc{}

type Case struct {
	Kind       string   `json:"kind"` // retry async forever byrule cond exp
	Count      int64    `json:"count,omitempty"`
	Interval   int64    `json:"interval,omitempty"`
	Cb         bool     `json:"cb,omitempty"`
	Rule       []int64  `json:"rule,omitempty"`
	HasCond    bool     `json:"has_cond,omitempty"`
	Cond       []bool   `json:"cond,omitempty"`
	MaxRetries int64    `json:"max_retries,omitempty"`
	Base       int64    `json:"base,omitempty"`
	Max        int64    `json:"max,omitempty"`
	Mult       float64  `json:"mult,omitempty"`
	Rnd        float64  `json:"rnd,omitempty"`
	Ks         []uint64 `json:"ks,omitempty"`
	Ign        []int    `json:"ign,omitempty"`
	Pat        [][]int  `json:"pat"` // per invocation: [] = success, [ids...] = error whose Unwrap chain shows these sentinels
	PBits      []string `json:"p_bits,omitempty"`
	Calls      int      `json:"calls"`
	Conds      int      `json:"conds"`
	Gaps       []int64  `json:"gaps"`
	Res        string   `json:"res"` // nil err max interrupted none bad
	ResCall    int      `json:"res_call"`
	Note       string   `json:"note,omitempty"`
	Draws      int      `json:"draws"`
}

// ---- errors: sentinel i is found by errors.Is along the chain iff i is in the list
var sentinels = func() (s [8]error) {
	for i := range s {
		s[i] = fmt.Errorf("sentinel-%d", i)
	}
	return
}()

type link struct {
	self error
	next error
}

func (l *link) Error() string        { return "link(" + l.self.Error() + ")" }
func (l *link) Is(target error) bool { return l.self == target }
func (l *link) Unwrap() error        { return l.next }

func mkErr(ids []int) error {
	var e error
	for i := len(ids) - 1; i >= 0; i-- {
		e = &link{self: sentinels[ids[i]], next: e}
	}
	return e
}

func fnName(c *Case) string {
	switch c.Kind {
	case "retry":
		return "Retry"
	case "async":
		return "RetryAsync"
	case "forever":
		return "RetryForever"
	case "byrule":
		return "RetryByRule"
	case "cond":
		return "ConditionalRetryByExponentialBackoff"
	}
	return "RetryByExponentialBackoff"
}

func runImpl(t *testing.T, c *Case) {
	c.PBits = nil
	for i := range c.Ks {
		c.PBits = append(c.PBits, strconv.FormatUint(math.Float64bits(math.Pow(c.Mult, float64(i))), 10))
	}
	src.ks, src.draws = c.Ks, 0
	var times []time.Time
	var errs []error
	var end time.Time
	var ret error
	returned, exhausted := false, false
	conds := 0
	panicked := ""
	synctest.Test(t, func(t *testing.T) {
		op := func() error {
			times = append(times, time.Now())
			i := len(errs)
			if i >= len(c.Pat) {
				exhausted = true
				errs = append(errs, nil)
				return nil
			}
			e := mkErr(c.Pat[i])
			errs = append(errs, e)
			return e
		}
		cond := func() bool {
			i := conds
			conds++
			if i < len(c.Cond) {
				return c.Cond[i]
			}
			return true
		}
		ign := make([]error, len(c.Ign))
		for i, g := range c.Ign {
			ign[i] = sentinels[g]
		}
		defer func() {
			if e := recover(); e != nil {
				panicked = fmt.Sprint(e)
			}
		}()
		switch c.Kind {
		case "retry":
			ret = toolkit.Retry(int(c.Count), time.Duration(c.Interval), op)
			returned = true
		case "async":
			if c.Cb {
				ch := make(chan struct{})
				toolkit.RetryAsync(int(c.Count), time.Duration(c.Interval), op, func(err error) {
					ret, returned, end = err, true, time.Now()
					close(ch)
				})
				<-ch
				return
			}
			toolkit.RetryAsync(int(c.Count), time.Duration(c.Interval), op, nil)
			for i := int64(0); i <= c.Count; i++ { // virtual time only advances while the root goroutine lives
				time.Sleep(time.Duration(max(c.Interval, 0)))
				synctest.Wait()
			}
			return
		case "forever":
			toolkit.RetryForever(time.Duration(c.Interval), op)
		case "byrule":
			ret = toolkit.RetryByRule(op, func(count int) time.Duration {
				if count >= 1 && count <= len(c.Rule) {
					return time.Duration(c.Rule[count-1])
				}
				return 0
			})
			returned = true
		case "cond":
			var cf func() bool
			if c.HasCond {
				cf = cond
			}
			ret = toolkit.ConditionalRetryByExponentialBackoff(op, cf, int(c.MaxRetries), time.Duration(c.Base), time.Duration(c.Max), c.Mult, c.Rnd, ign...)
			returned = true
		case "exp":
			ret = toolkit.RetryByExponentialBackoff(op, int(c.MaxRetries), time.Duration(c.Base), time.Duration(c.Max), c.Mult, c.Rnd, ign...)
			returned = true
		}
		end = time.Now()
	})
	c.Draws = src.draws
	c.Calls, c.Conds = len(times), conds
	c.Gaps = make([]int64, len(times))
	for i := range times {
		switch {
		case i+1 < len(times):
			c.Gaps[i] = int64(times[i+1].Sub(times[i]))
		case !end.IsZero():
			c.Gaps[i] = int64(end.Sub(times[i]))
		}
	}
	c.Note, c.ResCall = "", 0
	switch {
	case panicked != "":
		c.Res, c.Note = "bad", "panic: "+panicked
	case exhausted:
		c.Res, c.Note = "bad", "outcome script exhausted"
	case !returned:
		c.Res = "none"
	default:
		c.Res, c.ResCall, c.Note = classifyErr(ret, errs)
	}
}

func classifyErr(ret error, errs []error) (string, int, string) {
	if ret == nil {
		return "nil", 0, ""
	}
	for i := len(errs) - 1; i >= 0; i-- {
		if errs[i] != nil && ret == errs[i] {
			return "err", i, ""
		}
	}
	if ret.Error() == "interrupted" {
		return "interrupted", 0, ""
	}
	if strings.HasPrefix(ret.Error(), "max retries reached") {
		u := errors.Unwrap(ret)
		for i := len(errs) - 1; i >= 0; i-- {
			if errs[i] != nil && u == errs[i] {
				return "max", i, ""
			}
		}
	}
	return "bad", 0, "unrecognised error value: " + ret.Error()
}

// ---- property monitor: the statement of C18 for the retry helpers, from inputs and observations only
func matches(ids []int, ign []int) bool {
	for _, g := range ign {
		for _, x := range ids {
			if x == g {
				return true
			}
		}
	}
	return false
}

func monitor(c *Case) (viol []vh.Violation) {
	fn := fnName(c)
	add := func(class, detail string) {
		if len(viol) < 3 {
			viol = append(viol, vh.Violation{Kind: "retry:" + fn + ":" + class, Detail: detail, Case: *c, Sig: map[string]string{"fn": fn}})
		}
	}
	if c.Res == "bad" {
		add("bad-result", c.Note)
		return
	}
	calls := int64(c.Calls)
	// documented number of invocations
	limit := int64(math.MaxInt64)
	switch c.Kind {
	case "retry", "async":
		limit = max(c.Count, 0)
	case "cond", "exp":
		limit = max(c.MaxRetries, 0) + 1
	case "byrule":
		limit = int64(len(c.Rule)) + 1
		for i, r := range c.Rule {
			if r <= 0 {
				limit = int64(i) + 1
				break
			}
		}
	}
	if calls > limit {
		add("too-many-calls", fmt.Sprintf("%d invocations, documented at most %d", calls, limit))
	}
	// first success / first ignored error / interruption end the run
	firstOk, firstIgn := int64(-1), int64(-1)
	for i, o := range c.Pat {
		if len(o) == 0 && firstOk < 0 {
			firstOk = int64(i)
		}
		if len(o) > 0 && firstIgn < 0 && (c.Kind == "cond" || c.Kind == "exp") && matches(o, c.Ign) {
			firstIgn = int64(i)
		}
	}
	firstStop := int64(-1) // index of the cond() call that returns false
	if c.Kind == "cond" && c.HasCond {
		for i, b := range c.Cond {
			if !b {
				firstStop = int64(i)
				break
			}
		}
	}
	want := "" // what has to come back when the run ended for that reason
	if firstOk >= 0 && calls > firstOk+1 {
		add("called-after-success", fmt.Sprintf("invocation %d succeeded, %d invocations made", firstOk, calls))
	}
	if firstIgn >= 0 && calls > firstIgn+1 {
		add("ignored-error-retried", fmt.Sprintf("invocation %d returned an error of the ignore-list, %d invocations made", firstIgn, calls))
	}
	if firstStop >= 0 && calls > firstStop {
		add("called-after-interrupt", fmt.Sprintf("cond() call %d returned false, %d invocations made", firstStop, calls))
	}
	switch {
	case firstStop >= 0 && calls == firstStop && int64(c.Conds) == firstStop+1:
		want = "interrupted"
	case firstOk >= 0 && calls == firstOk+1:
		want = "nil"
	case firstIgn >= 0 && calls == firstIgn+1:
		want = "err"
	case calls == 0:
		want = "nil" // nothing was tried (count <= 0): no error to report
	case c.Kind == "cond" || c.Kind == "exp":
		want = "max"
	default:
		want = "err"
	}
	if c.Kind == "forever" || (c.Kind == "async" && !c.Cb) {
		want = "none"
	}
	if c.Res != want {
		add("wrong-result", fmt.Sprintf("expected %s, got %s (call %d) after %d invocations", want, c.Res, c.ResCall, calls))
	} else if (c.Res == "err" || c.Res == "max") && int64(c.ResCall) != calls-1 {
		add("not-last-error", fmt.Sprintf("returned the error of invocation %d, last invocation was %d", c.ResCall, calls-1))
	}
	// sleeps: gap i follows invocation i
	for i := 0; i < c.Calls; i++ {
		last := i == c.Calls-1
		if last && c.Kind == "async" && !c.Cb {
			continue
		}
		g := c.Gaps[i]
		failed := i < len(c.Pat) && len(c.Pat[i]) > 0
		switch c.Kind {
		case "retry", "async", "forever":
			w := int64(0)
			if failed {
				w = max(c.Interval, 0)
			}
			if g != w {
				add("wrong-sleep", fmt.Sprintf("after invocation %d: slept %d ns, interval %d ns", i, g, c.Interval))
			}
		case "byrule":
			w := int64(0)
			if failed && i < len(c.Rule) && !last {
				w = c.Rule[i]
			}
			if g != w {
				add("wrong-sleep", fmt.Sprintf("after invocation %d: slept %d ns, rule says %d ns", i, g, w))
			}
		case "cond", "exp":
			if last && want != "interrupted" {
				if g != 0 {
					add("wrong-sleep", fmt.Sprintf("slept %d ns after the final invocation", g))
				}
				continue
			}
			if !c18lib.InRange(int64(i), c.Base, c.Max, c.Mult, c.Rnd) {
				continue
			}
			if class, detail := c18lib.Delay(int64(i), c.Base, c.Max, c.Mult, c.Rnd, g); class != "" {
				add("sleep-"+class, "sleep after invocation "+strconv.Itoa(i)+": "+detail)
			}
		}
	}
	return
}

// ---- Coq terms
func coqPat(p [][]int) string {
	it := make([]string, len(p))
	for i, o := range p {
		if len(o) == 0 {
			it[i] = "Ok"
		} else {
			ids := make([]string, len(o))
			for j, x := range o {
				ids[j] = c18lib.Nat(x)
			}
			it[i] = "Fail " + vh.List(ids)
		}
	}
	return vh.List(it)
}
func coqZs(v []int64) string {
	it := make([]string, len(v))
	for i, x := range v {
		it[i] = c18lib.Z(x)
	}
	return vh.List(it)
}
func coqCase(id int, c *Case) string {
	var call string
	switch c.Kind {
	case "retry":
		call = vh.App("CRetry", c18lib.Z(c.Count), c18lib.Z(c.Interval))
	case "async":
		call = vh.App("CAsync", c18lib.Z(c.Count), c18lib.Z(c.Interval), vh.Bool(c.Cb))
	case "forever":
		call = vh.App("CForever", c18lib.Z(c.Interval))
	case "byrule":
		call = vh.App("CByRule", coqZs(c.Rule))
	default:
		conds := make([]string, len(c.Cond))
		for i, b := range c.Cond {
			conds[i] = vh.Bool(b)
		}
		orc := make([]string, len(c.Ks))
		for i, k := range c.Ks {
			pb, _ := strconv.ParseUint(c.PBits[i], 10, 64)
			orc[i] = vh.Pair(c18lib.Bits(pb), c18lib.Z(int64(k)))
		}
		ign := make([]string, len(c.Ign))
		for i, g := range c.Ign {
			ign[i] = c18lib.Nat(g)
		}
		call = vh.App("CCond", vh.Bool(c.Kind == "cond" && c.HasCond), vh.List(conds), c18lib.Z(c.MaxRetries), c18lib.Z(c.Base), c18lib.Z(c.Max),
			c18lib.Bits(math.Float64bits(c.Rnd)), vh.List(orc), vh.List(ign))
	}
	res := "RBad"
	switch c.Res {
	case "nil":
		res = "RNil"
	case "err":
		res = vh.App("RErr", c18lib.Nat(c.ResCall))
	case "max":
		res = vh.App("RMax", c18lib.Nat(c.ResCall))
	case "interrupted":
		res = "RInterrupted"
	case "none":
		res = "RNone"
	}
	return fmt.Sprintf("Build_case %s %s %s %s %s %s %s", c18lib.Nat(id), call, coqPat(c.Pat), c18lib.Nat(c.Calls), c18lib.Nat(c.Conds), coqZs(c.Gaps), res)
}

// ---- generators
func genPat(rng *vh.RNG, n int, failPct int, endOk bool) [][]int {
	p := make([][]int, 0, n+1)
	for i := 0; i < n; i++ {
		if rng.Intn(100) < failPct {
			ids := []int{rng.Intn(6)}
			for rng.Chance(1, 4) && len(ids) < 3 {
				ids = append(ids, rng.Intn(6))
			}
			p = append(p, ids)
		} else {
			p = append(p, []int{})
		}
	}
	if endOk {
		p = append(p, []int{})
	}
	return p
}

func genInterval(rng *vh.RNG) int64 {
	switch rng.Intn(8) {
	case 0:
		return -int64(rng.Range(1, 1000))
	case 1:
		return 0
	case 2:
		return math.MaxInt64 / int64(rng.Range(8, 16)) // count <= 7 of them fit the virtual clock
	default:
		return c18lib.GenDur(rng)
	}
}

func genCase(rng *vh.RNG) Case {
	var c Case
	failPct := []int{50, 80, 95, 100}[rng.Intn(4)]
	switch rng.Intn(10) {
	case 0, 1:
		c.Kind, c.Count, c.Interval = "retry", int64(rng.Range(-1, 7)), genInterval(rng)
		c.Pat = genPat(rng, int(max(c.Count, 0))+rng.Intn(3), failPct, false)
	case 2:
		c.Kind, c.Count, c.Interval, c.Cb = "async", int64(rng.Range(-1, 7)), genInterval(rng), rng.Chance(3, 4)
		c.Pat = genPat(rng, int(max(c.Count, 0))+rng.Intn(3), failPct, false)
	case 3:
		c.Kind, c.Interval = "forever", genInterval(rng)
		c.Pat = genPat(rng, rng.Intn(8), failPct, true)
	case 4:
		c.Kind = "byrule"
		n := rng.Intn(7)
		for i := 0; i < n; i++ {
			switch rng.Intn(8) {
			case 0:
				c.Rule = append(c.Rule, 0)
			case 1:
				c.Rule = append(c.Rule, -int64(rng.Range(1, 100)))
			default:
				c.Rule = append(c.Rule, 1+c18lib.GenDur(rng))
			}
		}
		c.Pat = genPat(rng, n+1+rng.Intn(2), failPct, false)
	default:
		c.Kind = []string{"cond", "exp"}[rng.Intn(2)]
		c.Base, c.Max = c18lib.GenDur(rng), c18lib.GenDur(rng)
		if rng.Chance(3, 4) && c.Base > c.Max {
			c.Base, c.Max = c.Max, c.Base
		}
		c.Mult, c.Rnd = c18lib.GenMult(rng), c18lib.GenRnd(rng)
		switch rng.Intn(6) {
		case 0: // deep: reaches the counts where the product leaves the int64 range
			c.MaxRetries = c18lib.Crossing(max(c.Base, 1), c.Mult, 0x1p63) + int64(rng.Range(-2, 3))
			if c.MaxRetries > 90 {
				c.MaxRetries = int64(rng.Range(0, 12))
			}
			failPct = 100
		case 1:
			c.MaxRetries = int64(rng.Range(-2, 1))
		default:
			c.MaxRetries = int64(rng.Range(0, 12))
		}
		n := int(max(c.MaxRetries, 0)) + 2
		c.Pat = genPat(rng, n, failPct, false)
		for i := 0; i < n; i++ {
			c.Ks = append(c.Ks, c18lib.GenK(rng))
		}
		if rng.Chance(1, 2) {
			k := rng.Range(1, 2)
			for i := 0; i < k; i++ {
				c.Ign = append(c.Ign, rng.Intn(6))
			}
		}
		if c.Kind == "cond" && rng.Chance(3, 4) {
			c.HasCond = true
			m := rng.Intn(n + 1)
			for i := 0; i < m; i++ {
				c.Cond = append(c.Cond, !rng.Chance(1, 8))
			}
		}
		if rng.Chance(1, 25) { // malformed: outside the documented ranges (model comparison + call-count monitors only)
			switch rng.Intn(4) {
			case 0:
				c.Base = -c.Base - 1
			case 1:
				c.Max = -c.Max - 1
			case 2:
				c.Mult = []float64{0, 0.5, -2, 11}[rng.Intn(4)]
			case 3:
				c.Rnd = []float64{-1, 2, 1e300}[rng.Intn(3)]
			}
		}
	}
	return c
}

func corpus() []Case {
	f := func(n int) [][]int {
		p := make([][]int, n)
		for i := range p {
			p[i] = []int{i % 6}
		}
		return p
	}
	ks := func(n int) []uint64 {
		k := make([]uint64, n)
		for i := range k {
			k[i] = 1 << 52
		}
		return k
	}
	return []Case{
		// the back-off overflow inside the retry loop: 1 ms * 2^44 > 2^63 ns, the sleep becomes Sleep(-2^63)
		{Kind: "exp", MaxRetries: 50, Base: 1_000_000, Max: 1_000_000_000, Mult: 2, Rnd: 0.5, Pat: f(52), Ks: ks(52)},
		{Kind: "cond", HasCond: true, MaxRetries: 22, Base: 1, Max: 1_000_000, Mult: 10, Rnd: 0, Pat: f(24), Ks: ks(24)},
		{Kind: "exp", MaxRetries: 3, Base: 200_000_000, Max: 3_000_000_000, Mult: 2, Rnd: 0.5, Pat: f(5), Ks: ks(5), Ign: []int{3}},
		{Kind: "cond", HasCond: true, Cond: []bool{true, true, false}, MaxRetries: 5, Base: 1000, Max: 1_000_000, Mult: 2, Rnd: 1, Pat: f(7), Ks: ks(7)},
		{Kind: "retry", Count: 3, Interval: 1000, Pat: f(3)},
		{Kind: "retry", Count: 3, Interval: 1000, Pat: [][]int{{1}, {}, {2}}},
		{Kind: "retry", Count: 0, Interval: 1000, Pat: f(1)},
		{Kind: "async", Count: 2, Interval: 5, Cb: true, Pat: f(2)},
		{Kind: "async", Count: 2, Interval: 5, Pat: f(2)},
		{Kind: "forever", Interval: 7, Pat: [][]int{{1}, {2}, {}}},
		{Kind: "byrule", Rule: []int64{10, 20, 0, 5}, Pat: f(5)},
		{Kind: "byrule", Rule: []int64{10, 20}, Pat: f(5)},
	}
}

func record(t *testing.T, out *vh.Out, c *Case) {
	runImpl(t, c)
	v := monitor(c)
	out.Count("helper", fnName(c))
	out.Count("invocations", vh.Bucket(c.Calls))
	out.Count("result", c.Res)
	mal := false
	if c.Kind == "cond" || c.Kind == "exp" {
		deep := "no"
		for i := 0; i+1 < c.Calls; i++ {
			if !c18lib.InRange(int64(i), c.Base, c.Max, c.Mult, c.Rnd) {
				mal = true
				break
			}
			if _, big := c18lib.Region(int64(i), c.Base, c.Max, c.Mult); big {
				deep = "yes"
			}
		}
		out.Count("sleep_near_max_or_overflow", deep)
	}
	if mal {
		out.Malformed()
	}
	out.Add(c, coqCase(out.N(), c), c.Calls >= 2 && !mal, v)
}

var flags vh.Flags

func TestMain(m *testing.M) {
	flags = vh.ParseFlags()
	os.Exit(m.Run())
}

func TestC18Retry(t *testing.T) {
	globalRandGenerator.Store(rand.New(src))
	f := flags
	if f.Replay != "" {
		var c Case
		vh.LoadReplayCase(f.Replay, &c)
		want := c
		runImpl(t, &c)
		v := monitor(&c)
		b, _ := json.Marshal(map[string]interface{}{"case": c, "recorded": map[string]interface{}{"calls": want.Calls, "conds": want.Conds, "gaps": want.Gaps, "res": want.Res, "res_call": want.ResCall}, "monitor": v})
		fmt.Println(string(b))
		if len(v) > 0 {
			os.Exit(1)
		}
		return
	}
	out := vh.NewOut(f.Out, "retry", "From Coq Require Import Uint63.\nFrom MV Require Import Lib.ListX C18.BackoffModel C18.BackoffRun C18.RetryModel C18.RetryRun.", "RetryRun.case", "RetryRun.mismatches", f.Seed,
		"helper x outcome pattern of the operation (success / error with a chain of 1..3 sentinels out of 6) x parameters: Retry/RetryAsync count -1..7, intervals negative/0/1ns..30d/MaxInt64; RetryForever; RetryByRule with rules of 0..6 entries incl. 0 and negative; (Conditional)RetryByExponentialBackoff with maxRetries -2..12 and deep runs up to where base*mult^retry crosses 2^63, ignore-lists of 0..2 sentinels, cond scripts with an occasional false; run in virtual time, r injected; thorough adds every pattern of length <= 4 over {ok, e0, e1, e2>e0} for each helper; non-trivial = at least 2 invocations; malformed = back-off parameters outside the documented ranges")
	rng := vh.NewRNG(f.Seed)
	for _, c := range corpus() {
		c := c
		record(t, out, &c)
	}
	n := f.N
	if n == 0 {
		n = 4000
		if f.Tier == "thorough" {
			n = 25000
		}
	}
	for i := 0; i < n; i++ {
		cr, _ := rng.Derive()
		c := genCase(cr)
		record(t, out, &c)
	}
	if f.Tier == "thorough" {
		alpha := [][]int{{}, {0}, {1}, {2, 0}}
		var pats [][][]int
		var rec func(prefix [][]int, depth int)
		rec = func(prefix [][]int, depth int) {
			pats = append(pats, append([][]int(nil), prefix...))
			if depth == 0 {
				return
			}
			for _, o := range alpha {
				rec(append(prefix, o), depth-1)
			}
		}
		rec(nil, 4)
		pad := func(p [][]int, n int) [][]int { // never let the script run dry
			q := append([][]int(nil), p...)
			for len(q) < n {
				q = append(q, []int{})
			}
			return q
		}
		for _, p := range pats {
			for _, cnt := range []int64{0, 1, 2, 3, 4, 5} {
				if int(cnt) <= len(p) {
					record(t, out, &Case{Kind: "retry", Count: cnt, Interval: 10, Pat: p})
					record(t, out, &Case{Kind: "async", Count: cnt, Interval: 10, Cb: cnt%2 == 0, Pat: p})
				}
			}
			record(t, out, &Case{Kind: "forever", Interval: 3, Pat: pad(p, len(p)+1)})
			record(t, out, &Case{Kind: "byrule", Rule: []int64{5, 6, 0, 7}, Pat: pad(p, 5)})
			record(t, out, &Case{Kind: "byrule", Rule: []int64{5, 6, 7, 8, 9}, Pat: pad(p, 6)})
			for _, mr := range []int64{-1, 0, 1, 2, 3, 4} {
				ks := []uint64{0, 1 << 52, 1<<53 - 1, 12345, 1 << 51, 7}
				record(t, out, &Case{Kind: "exp", MaxRetries: mr, Base: 1000, Max: 6000, Mult: 2, Rnd: 0.5, Ks: ks, Ign: []int{0}, Pat: pad(p, 6)})
				record(t, out, &Case{Kind: "cond", HasCond: true, Cond: []bool{true, true, mr%2 == 0, true, false}, MaxRetries: mr, Base: 1000, Max: 6000, Mult: 2, Rnd: 0.5, Ks: ks, Ign: []int{1}, Pat: pad(p, 6)})
			}
		}
	}
	out.Close()
}
