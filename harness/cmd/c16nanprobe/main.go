// c16nanprobe: stand-alone witness (not part of bin/check C16) for a defect outside the modelled domain:
// with Score = float64 and NaN scores, Cmp is not a total order (Cmp(NaN, x) = 0 for every x), the score
// list loses its order, and the tie scan of BinarySearch.GetRank can miss the competitor without narrowing
// [low, high]: the loop never ends.   go run ./cmd/c16nanprobe   prints HANG and exits 1 on such a tree.
// The Coq model (integer scores) proves that this cannot happen when Cmp is a total order
// (C16_binary_search_terminates); see docs/C16-NOTES.md and checks/c16_findings.json.
package main

import (
	"fmt"
	"math"
	"os"
	"time"

	"github.com/kercylan98/minotaur/toolkit/ranking"
)

func main() {
	nan := math.NaN()
	ops := [][2]float64{{1, nan}, {2, nan}, {3, nan}, {4, 5}, {5, nan}, {6, nan}, {7, 10}}
	done := make(chan string, 1)
	go func() {
		b := ranking.NewBinarySearch[int64, float64]()
		for _, o := range ops {
			b.Competitor(int64(o[0]), o[1])
		}
		ids := b.GetAllCompetitor()
		r, err := b.GetRank(7)
		done <- fmt.Sprintf("board %v: GetRank(7) = %d, %v", ids, r, err)
	}()
	select {
	case s := <-done:
		fmt.Println("returned:", s)
	case <-time.After(3 * time.Second):
		fmt.Println("HANG: Competitor(1,NaN) (2,NaN) (3,NaN) (4,5) (5,NaN) (6,NaN) (7,10); GetRank(7) did not return within 3 s")
		os.Exit(1)
	}
}
