// c16maps: correspondence harnesses (T1) for mappings.Order/OrderSync, mappings.Bucket/MutexBucket,
// mappings.SyncMap and listings.SyncSlice against MV.C16.MapsModel, with brute-force monitors
// (plain Go map / slice).  One binary, four sub-harnesses: order, bucket, syncmap, syncslice.
package main

import (
	"encoding/json"
	"flag"
	"fmt"
	"os"
	"os/exec"
	"sort"
	"time"

	"github.com/kercylan98/minotaur/toolkit/collection/listings"
	"github.com/kercylan98/minotaur/toolkit/collection/mappings"
	"verif/harness/vh"
)

type Op struct {
	K  string  `json:"k"`
	A  int64   `json:"a,omitempty"`
	B  int64   `json:"b,omitempty"`
	Vs []int64 `json:"vs,omitempty"`
}
type Res struct {
	K   string     `json:"k"` // unit get len pairs getset val bool valbool list panic fatal diverge
	Ok  bool       `json:"ok,omitempty"`
	V   int64      `json:"v,omitempty"`
	P   [][2]int64 `json:"p,omitempty"`
	L   []int64    `json:"l,omitempty"`
	Msg string     `json:"msg,omitempty"`
}
type Case struct {
	Kind string     `json:"kind"` // order bucket syncmap syncslice
	Impl string     `json:"impl,omitempty"`
	Size int        `json:"size,omitempty"` // bucket count / initial slice length
	Cap  int        `json:"cap,omitempty"`
	Init [][2]int64 `json:"init,omitempty"`
	Ops  []Op       `json:"ops"`
	Out  []Res      `json:"out"`
	Dom  int        `json:"dom,omitempty"`
}

func guard(f func() Res) (res Res) {
	defer func() {
		if e := recover(); e != nil {
			res = Res{K: "panic", Msg: fmt.Sprint(e)}
		}
	}()
	return f()
}

func resEq(a, b Res) bool {
	x, _ := json.Marshal(a)
	y, _ := json.Marshal(b)
	return string(x) == string(y)
}

// ------------------------------------------------------------------ order

func applyOrder(o mappings.OrderInterface[int64, int64], op Op) Res {
	return guard(func() Res {
		switch op.K {
		case "get":
			v, ok := o.Get(op.A)
			return Res{K: "get", Ok: ok, V: v}
		case "add":
			o.Add(op.A, op.B)
		case "set":
			o.Set(op.A, op.B)
		case "len":
			return Res{K: "len", V: int64(o.Len())}
		case "del":
			o.Del(op.A)
		case "range":
			var p [][2]int64
			n := 0
			o.Range(func(k, v int64) bool {
				p = append(p, [2]int64{k, v})
				n++
				return !(op.A > 0 && int64(n) == op.A)
			})
			return Res{K: "pairs", P: p}
		default:
			panic("bad op " + op.K)
		}
		return Res{K: "unit"}
	})
}

func runOrder(c *Case) {
	a := mappings.NewOrder[int64, int64]()
	b := mappings.NewOrderSync[int64, int64]()
	c.Out = c.Out[:0]
	for _, op := range c.Ops {
		ra, rb := applyOrder(a, op), applyOrder(b, op)
		if !resEq(ra, rb) {
			ja, _ := json.Marshal(ra)
			jb, _ := json.Marshal(rb)
			ra = Res{K: "diverge", Msg: fmt.Sprintf("Order %s, OrderSync %s", ja, jb)}
		}
		c.Out = append(c.Out, ra)
	}
}

func monitorOrder(c *Case) (viol []vh.Violation) {
	ref := map[int64]int64{}
	var insertion []int64
	deleted := false
	add := func(i int, fn, class, detail string) {
		if len(viol) < 3 {
			viol = append(viol, vh.Violation{Kind: "order:" + fn + ":" + class,
				Detail: fmt.Sprintf("op #%d %s(%d,%d): %s", i, c.Ops[i].K, c.Ops[i].A, c.Ops[i].B, detail),
				Sig:    map[string]string{"fn": fn, "class": class}})
		}
	}
	for i, op := range c.Ops {
		got := c.Out[i]
		fn := map[string]string{"get": "Get", "add": "Add", "set": "Set", "len": "Len", "del": "Del", "range": "Range"}[op.K]
		if got.K == "panic" {
			add(i, fn, "crash", got.Msg)
			return
		}
		if got.K == "diverge" {
			add(i, fn, "sync-variant-differs", got.Msg)
			return
		}
		switch op.K {
		case "get":
			v, ok := ref[op.A]
			if got.Ok != ok || (ok && got.V != v) {
				add(i, fn, "wrong-answer", fmt.Sprintf("map has (%d,%v), Get=(%d,%v)", v, ok, got.V, got.Ok))
			}
		case "add":
			if _, ok := ref[op.A]; !ok {
				ref[op.A] = op.B
				insertion = append(insertion, op.A)
			}
		case "set":
			if _, ok := ref[op.A]; !ok {
				insertion = append(insertion, op.A)
			}
			ref[op.A] = op.B
		case "len":
			if got.V != int64(len(ref)) {
				add(i, fn, "wrong-length", fmt.Sprintf("map has %d, Len=%d", len(ref), got.V))
			}
		case "del":
			if _, ok := ref[op.A]; ok {
				delete(ref, op.A)
				deleted = true
			}
		case "range":
			want := len(ref)
			if op.A > 0 && int(op.A) < want {
				want = int(op.A)
			}
			seen := map[int64]bool{}
			bad := len(got.P) != want
			for _, p := range got.P {
				if v, ok := ref[p[0]]; !ok || v != p[1] || seen[p[0]] {
					bad = true
				}
				seen[p[0]] = true
			}
			if bad {
				add(i, fn, "wrong-entries", fmt.Sprintf("map %v, Range(stop=%d) visited %v", ref, op.A, got.P))
			} else if !deleted {
				for j, p := range got.P {
					if insertion[j] != p[0] {
						add(i, fn, "not-insertion-order", fmt.Sprintf("inserted %v, visited %v", insertion, got.P))
						break
					}
				}
			}
		}
	}
	return
}

func coqPairs(p [][2]int64) string {
	it := make([]string, len(p))
	for i, x := range p {
		it[i] = vh.Pair(vh.Z(x[0]), vh.Z(x[1]))
	}
	return vh.List(it)
}

func coqOrder(id int, c *Case) string {
	ops := make([]string, len(c.Ops))
	for i, o := range c.Ops {
		switch o.K {
		case "get":
			ops[i] = vh.App("Order.Get", vh.Z(o.A))
		case "add":
			ops[i] = vh.App("Order.Add", vh.Z(o.A), vh.Z(o.B))
		case "set":
			ops[i] = vh.App("Order.Set_", vh.Z(o.A), vh.Z(o.B))
		case "len":
			ops[i] = "Order.Len"
		case "del":
			ops[i] = vh.App("Order.Del", vh.Z(o.A))
		case "range":
			ops[i] = vh.App("Order.Range", vh.Nat(int(o.A)))
		}
	}
	rs := make([]string, len(c.Out))
	for i, r := range c.Out {
		switch r.K {
		case "unit":
			rs[i] = "Order.OUnit"
		case "get":
			if r.Ok {
				rs[i] = vh.App("Order.OGet", vh.Some(vh.Z(r.V)))
			} else {
				rs[i] = "(Order.OGet None)"
			}
		case "len":
			rs[i] = vh.App("Order.OLen", vh.Nat(int(r.V)))
		case "pairs":
			rs[i] = vh.App("Order.OPairs", coqPairs(r.P))
		default:
			rs[i] = "Order.OBad"
		}
	}
	return fmt.Sprintf("{| OrderRun.cid := %d; OrderRun.cops := %s; OrderRun.cimpl := %s |}", id, vh.List(ops), vh.List(rs))
}

// ------------------------------------------------------------------ bucket

type bucketAPI interface {
	Get(int64) (int64, bool)
	Set(int64, int64)
	Del(int64)
	Len() int
	Clear()
}

func hashFn(size int, key int64) int { return int(((key % int64(size)) + int64(size)) % int64(size)) }

func runBucket(c *Case) {
	var b bucketAPI
	var mb *mappings.MutexBucket[int64, int64]
	if c.Impl == "mutex" {
		mb = mappings.NewMutexBucket[int64, int64](c.Size, hashFn)
		b = mb
	} else {
		b = mappings.NewBucket[int64, int64](c.Size, hashFn)
	}
	c.Out = c.Out[:0]
	for _, op := range c.Ops {
		op := op
		c.Out = append(c.Out, guard(func() Res {
			switch op.K {
			case "get":
				v, ok := b.Get(op.A)
				return Res{K: "get", Ok: ok, V: v}
			case "set":
				b.Set(op.A, op.B)
			case "del":
				b.Del(op.A)
			case "len":
				return Res{K: "len", V: int64(b.Len())}
			case "clear":
				b.Clear()
			case "iget":
				v, ok := mb.GetBucket(op.A).Get(op.A)
				return Res{K: "get", Ok: ok, V: v}
			case "igetorset":
				v, ok := mb.GetBucket(op.A).GetOrSet(op.A, op.B)
				return Res{K: "getset", Ok: ok, V: v}
			case "igetdel":
				v, ok := mb.GetBucket(op.A).GetAndDel(op.A)
				return Res{K: "get", Ok: ok, V: v}
			case "inlgetdel":
				v, ok := mb.GetBucket(op.A).NoneLockGetAndDel(op.A)
				return Res{K: "get", Ok: ok, V: v}
			default:
				panic("bad op " + op.K)
			}
			return Res{K: "unit"}
		}))
	}
}

func monitorBucket(c *Case) (viol []vh.Violation) {
	ref := map[int64]int64{}
	typ := "Bucket"
	if c.Impl == "mutex" {
		typ = "MutexBucket"
	}
	add := func(i int, fn, class, detail string) {
		if len(viol) < 3 {
			viol = append(viol, vh.Violation{Kind: "bucket:" + typ + "." + fn + ":" + class,
				Detail: fmt.Sprintf("op #%d %s(%d,%d): %s", i, c.Ops[i].K, c.Ops[i].A, c.Ops[i].B, detail),
				Sig:    map[string]string{"fn": fn, "class": class, "type": typ}})
		}
	}
	for i, op := range c.Ops {
		got := c.Out[i]
		fn := map[string]string{"get": "Get", "set": "Set", "del": "Del", "len": "Len", "clear": "Clear", "iget": "Item.Get",
			"igetorset": "Item.GetOrSet", "igetdel": "Item.GetAndDel", "inlgetdel": "Item.NoneLockGetAndDel"}[op.K]
		if got.K == "panic" {
			add(i, fn, "crash", got.Msg)
			return
		}
		v, ok := ref[op.A]
		switch op.K {
		case "get", "iget", "igetdel", "inlgetdel":
			if got.Ok != ok || (ok && got.V != v) {
				add(i, fn, "wrong-answer", fmt.Sprintf("map has (%d,%v), got (%d,%v)", v, ok, got.V, got.Ok))
			}
			if op.K == "igetdel" || op.K == "inlgetdel" {
				delete(ref, op.A)
			}
		case "set":
			ref[op.A] = op.B
		case "del":
			delete(ref, op.A)
		case "len":
			if got.V != int64(len(ref)) {
				add(i, fn, "wrong-length", fmt.Sprintf("map has %d, Len=%d", len(ref), got.V))
			}
		case "clear":
			ref = map[int64]int64{}
		case "igetorset":
			if ok {
				if !got.Ok || got.V != v {
					add(i, fn, "wrong-answer", fmt.Sprintf("map has %d, got (%d,%v)", v, got.V, got.Ok))
				}
			} else {
				if got.Ok || got.V != op.B {
					add(i, fn, "wrong-answer", fmt.Sprintf("absent, got (%d,%v)", got.V, got.Ok))
				}
				ref[op.A] = op.B
			}
		}
	}
	return
}

func coqBucket(id int, c *Case) string {
	ops := make([]string, len(c.Ops))
	for i, o := range c.Ops {
		switch o.K {
		case "get":
			ops[i] = vh.App("Bucket.Get", vh.Z(o.A))
		case "set":
			ops[i] = vh.App("Bucket.Set_", vh.Z(o.A), vh.Z(o.B))
		case "del":
			ops[i] = vh.App("Bucket.Del", vh.Z(o.A))
		case "len":
			ops[i] = "Bucket.Len"
		case "clear":
			ops[i] = "Bucket.Clear"
		case "iget":
			ops[i] = vh.App("Bucket.ItemGet", vh.Z(o.A))
		case "igetorset":
			ops[i] = vh.App("Bucket.ItemGetOrSet", vh.Z(o.A), vh.Z(o.B))
		case "igetdel":
			ops[i] = vh.App("Bucket.ItemGetAndDel", vh.Z(o.A))
		case "inlgetdel":
			ops[i] = vh.App("Bucket.ItemNoLockGetAndDel", vh.Z(o.A))
		}
	}
	rs := make([]string, len(c.Out))
	for i, r := range c.Out {
		switch r.K {
		case "unit":
			rs[i] = "Bucket.OUnit"
		case "get":
			if r.Ok {
				rs[i] = vh.App("Bucket.OGet", vh.Some(vh.Z(r.V)))
			} else {
				rs[i] = "(Bucket.OGet None)"
			}
		case "len":
			rs[i] = vh.App("Bucket.OLen", vh.Nat(int(r.V)))
		case "getset":
			rs[i] = vh.App("Bucket.OGetSet", vh.Z(r.V), vh.Bool(r.Ok))
		default:
			rs[i] = "Bucket.OBad"
		}
	}
	return fmt.Sprintf("{| BucketRun.cid := %d; BucketRun.csize := %s; BucketRun.cops := %s; BucketRun.cimpl := %s |}", id, vh.Nat(c.Size), vh.List(ops), vh.List(rs))
}

// ------------------------------------------------------------------ syncmap

// deleteExistSafe: does SyncMap.DeleteExist survive an absent key?  Decided once per run in a child
// process, because the failure mode is a fatal runtime error ("sync: Unlock of unlocked RWMutex") that
// recover() cannot catch.
var deleteExistSafe = true

func canary() {
	m := mappings.NewSyncMap[int64, int64]()
	m.Set(1, 1)
	_ = m.DeleteExist(2)
	m.Set(3, 3)
	_ = m.DeleteExist(3)
	os.Exit(0)
}

func probeDeleteExist() {
	cmd := exec.Command(os.Args[0], "-out", "canary", "-canary")
	done := make(chan error, 1)
	if err := cmd.Start(); err != nil {
		return
	}
	go func() { done <- cmd.Wait() }()
	select {
	case err := <-done:
		deleteExistSafe = err == nil
	case <-time.After(20 * time.Second):
		_ = cmd.Process.Kill()
		deleteExistSafe = false
	}
}

func sortedPairs(m map[int64]int64) [][2]int64 {
	p := make([][2]int64, 0, len(m))
	for k, v := range m {
		p = append(p, [2]int64{k, v})
	}
	sort.Slice(p, func(i, j int) bool { return p[i][0] < p[j][0] })
	return p
}
func sortedInts(l []int64) []int64 {
	l = append([]int64(nil), l...)
	sort.Slice(l, func(i, j int) bool { return l[i] < l[j] })
	return l
}

func runSyncMap(c *Case) {
	var m *mappings.SyncMap[int64, int64]
	if len(c.Init) > 0 {
		src := map[int64]int64{}
		for _, p := range c.Init {
			src[p[0]] = p[1]
		}
		m = mappings.NewSyncMap[int64, int64](src)
	} else {
		m = mappings.NewSyncMap[int64, int64]()
	}
	c.Out = c.Out[:0]
	for i, op := range c.Ops {
		op := op
		if op.K == "deleteexist" && !deleteExistSafe && !m.Exist(op.A) {
			// not executed: it would kill this process (see probeDeleteExist)
			c.Out = append(c.Out, Res{K: "fatal", Msg: "SyncMap.DeleteExist on an absent key: fatal error: sync: Unlock of unlocked RWMutex (observed in a child process)"})
			c.Ops = c.Ops[:i+1]
			return
		}
		c.Out = append(c.Out, guard(func() Res {
			switch op.K {
			case "set":
				m.Set(op.A, op.B)
			case "atomset":
				m.Atom(func(mm map[int64]int64) { mm[op.A] = op.B })
			case "get":
				return Res{K: "val", V: m.Get(op.A)}
			case "exist":
				return Res{K: "bool", Ok: m.Exist(op.A)}
			case "getexist":
				v, ok := m.GetExist(op.A)
				return Res{K: "valbool", V: v, Ok: ok}
			case "delete":
				m.Delete(op.A)
			case "deleteget":
				return Res{K: "val", V: m.DeleteGet(op.A)}
			case "deletegetexist":
				v, ok := m.DeleteGetExist(op.A)
				return Res{K: "valbool", V: v, Ok: ok}
			case "deleteexist":
				return Res{K: "bool", Ok: m.DeleteExist(op.A)}
			case "clear":
				m.Clear()
			case "clearhandle":
				got := map[int64]int64{}
				m.ClearHandle(func(k, v int64) { got[k] = v })
				return Res{K: "pairs", P: sortedPairs(got)}
			case "range":
				got := map[int64]int64{}
				m.Range(func(k, v int64) bool { got[k] = v; return false })
				return Res{K: "pairs", P: sortedPairs(got)}
			case "map":
				return Res{K: "pairs", P: sortedPairs(m.Map())}
			case "keys":
				return Res{K: "list", L: sortedInts(m.Keys())}
			case "slice":
				return Res{K: "list", L: sortedInts(m.Slice())}
			case "size":
				return Res{K: "len", V: int64(m.Size())}
			default:
				panic("bad op " + op.K)
			}
			return Res{K: "unit"}
		}))
	}
}

var smFn = map[string]string{"set": "Set", "atomset": "Atom", "get": "Get", "exist": "Exist", "getexist": "GetExist", "delete": "Delete",
	"deleteget": "DeleteGet", "deletegetexist": "DeleteGetExist", "deleteexist": "DeleteExist", "clear": "Clear", "clearhandle": "ClearHandle",
	"range": "Range", "map": "Map", "keys": "Keys", "slice": "Slice", "size": "Size"}

func monitorSyncMap(c *Case) (viol []vh.Violation) {
	ref := map[int64]int64{}
	for _, p := range c.Init {
		ref[p[0]] = p[1]
	}
	add := func(i int, class, detail string) {
		if len(viol) < 3 {
			fn := smFn[c.Ops[i].K]
			viol = append(viol, vh.Violation{Kind: "syncmap:" + fn + ":" + class,
				Detail: fmt.Sprintf("op #%d %s(%d,%d): %s", i, c.Ops[i].K, c.Ops[i].A, c.Ops[i].B, detail),
				Sig:    map[string]string{"fn": fn, "class": class}})
		}
	}
	pairsEq := func(p [][2]int64) bool {
		w := sortedPairs(ref)
		if len(w) != len(p) {
			return false
		}
		for i := range w {
			if w[i] != p[i] {
				return false
			}
		}
		return true
	}
	for i, op := range c.Ops {
		if i >= len(c.Out) {
			return
		}
		got := c.Out[i]
		if got.K == "panic" {
			add(i, "crash", got.Msg)
			return
		}
		if got.K == "fatal" {
			add(i, "absent-key-kills-process", got.Msg)
			return
		}
		v, ok := ref[op.A]
		switch op.K {
		case "set", "atomset":
			ref[op.A] = op.B
		case "get", "deleteget":
			if got.V != v {
				add(i, "wrong-answer", fmt.Sprintf("map has (%d,%v), got %d", v, ok, got.V))
			}
		case "exist", "deleteexist":
			if got.Ok != ok {
				add(i, "wrong-answer", fmt.Sprintf("present=%v, got %v", ok, got.Ok))
			}
		case "getexist", "deletegetexist":
			if got.Ok != ok || got.V != v {
				add(i, "wrong-answer", fmt.Sprintf("map has (%d,%v), got (%d,%v)", v, ok, got.V, got.Ok))
			}
		case "clearhandle", "range", "map":
			if !pairsEq(got.P) {
				add(i, "wrong-entries", fmt.Sprintf("map %v, got %v", sortedPairs(ref), got.P))
			}
		case "keys", "slice":
			var w []int64
			for k, x := range ref {
				if op.K == "keys" {
					w = append(w, k)
				} else {
					w = append(w, x)
				}
			}
			w = sortedInts(w)
			same := len(w) == len(got.L)
			for j := 0; same && j < len(w); j++ {
				same = w[j] == got.L[j]
			}
			if !same {
				add(i, "wrong-entries", fmt.Sprintf("expected %v got %v", w, got.L))
			}
		case "size":
			if got.V != int64(len(ref)) {
				add(i, "wrong-length", fmt.Sprintf("map has %d, Size=%d", len(ref), got.V))
			}
		}
		switch op.K {
		case "delete", "deleteget", "deletegetexist", "deleteexist":
			delete(ref, op.A)
		case "clear", "clearhandle":
			ref = map[int64]int64{}
		}
	}
	return
}

func coqSyncMap(id int, c *Case) string {
	ops := make([]string, len(c.Ops))
	name := map[string]string{"get": "Get", "exist": "Exist", "getexist": "GetExist", "delete": "Delete", "deleteget": "DeleteGet",
		"deletegetexist": "DeleteGetExist", "deleteexist": "DeleteExist"}
	for i, o := range c.Ops {
		switch o.K {
		case "set":
			ops[i] = vh.App("SMap.Set_", vh.Z(o.A), vh.Z(o.B))
		case "atomset":
			ops[i] = vh.App("SMap.AtomSet", vh.Z(o.A), vh.Z(o.B))
		case "clear":
			ops[i] = "SMap.Clear"
		case "clearhandle":
			ops[i] = "SMap.ClearHandle"
		case "range":
			ops[i] = "SMap.RangeAll"
		case "map":
			ops[i] = "SMap.Map"
		case "keys":
			ops[i] = "SMap.Keys"
		case "slice":
			ops[i] = "SMap.Slice"
		case "size":
			ops[i] = "SMap.Size"
		default:
			ops[i] = vh.App("SMap."+name[o.K], vh.Z(o.A))
		}
	}
	rs := make([]string, len(c.Out))
	for i, r := range c.Out {
		switch r.K {
		case "unit":
			rs[i] = "SMap.OUnit"
		case "val":
			rs[i] = vh.App("SMap.OVal", vh.Z(r.V))
		case "bool":
			rs[i] = vh.App("SMap.OBool", vh.Bool(r.Ok))
		case "valbool":
			rs[i] = vh.App("SMap.OValBool", vh.Z(r.V), vh.Bool(r.Ok))
		case "len":
			rs[i] = vh.App("SMap.OLen", vh.Nat(int(r.V)))
		case "pairs":
			rs[i] = vh.App("SMap.OPairs", coqPairs(r.P))
		case "list":
			rs[i] = vh.App("SMap.OList", vh.ListZ(r.L))
		default:
			rs[i] = "SMap.OBad"
		}
	}
	return fmt.Sprintf("{| SMapRun.cid := %d; SMapRun.cinit := %s; SMapRun.cops := %s; SMapRun.cimpl := %s |}", id, coqPairs(c.Init), vh.List(ops), vh.List(rs))
}

// ------------------------------------------------------------------ syncslice

func runSyncSlice(c *Case) {
	s := listings.NewSyncSlice[int64](c.Size, c.Cap)
	c.Out = c.Out[:0]
	for i, op := range c.Ops {
		op := op
		r := guard(func() Res {
			switch op.K {
			case "get":
				return Res{K: "val", V: s.Get(int(op.A))}
			case "getrange":
				return Res{K: "list", L: append([]int64(nil), s.GetWithRange(int(op.A), int(op.B))...)}
			case "set":
				s.Set(int(op.A), op.B)
			case "append":
				s.Append(op.Vs...)
			case "release":
				s.Release()
			case "clear":
				s.Clear()
			case "getdata":
				return Res{K: "list", L: s.GetData()}
			default:
				panic("bad op " + op.K)
			}
			return Res{K: "unit"}
		})
		c.Out = append(c.Out, r)
		if r.K == "panic" { // Set panics between Lock and Unlock: the object is unusable afterwards
			c.Ops = c.Ops[:i+1]
			return
		}
	}
}

func monitorSyncSlice(c *Case) (viol []vh.Violation) {
	ref := make([]int64, c.Size)
	add := func(i int, class, detail string) {
		if len(viol) < 3 {
			fn := map[string]string{"get": "Get", "getrange": "GetWithRange", "set": "Set", "append": "Append", "release": "Release", "clear": "Clear", "getdata": "GetData"}[c.Ops[i].K]
			viol = append(viol, vh.Violation{Kind: "syncslice:" + fn + ":" + class,
				Detail: fmt.Sprintf("op #%d %s(%d,%d,%v): %s", i, c.Ops[i].K, c.Ops[i].A, c.Ops[i].B, c.Ops[i].Vs, detail),
				Sig:    map[string]string{"fn": fn, "class": class}})
		}
	}
	eq := func(a, b []int64) bool {
		if len(a) != len(b) {
			return false
		}
		for i := range a {
			if a[i] != b[i] {
				return false
			}
		}
		return true
	}
	for i, op := range c.Ops {
		if i >= len(c.Out) {
			return
		}
		got := c.Out[i]
		inr := op.A >= 0 && op.A < int64(len(ref))
		valid := true
		switch op.K {
		case "get", "set":
			valid = inr
		case "getrange":
			valid = op.A >= 0 && op.A <= op.B && op.B <= int64(len(ref))
		}
		if !valid {
			return // a plain slice panics as well; nothing to compare afterwards
		}
		if got.K == "panic" {
			add(i, "crash", got.Msg)
			return
		}
		switch op.K {
		case "get":
			if got.V != ref[op.A] {
				add(i, "wrong-element", fmt.Sprintf("slice %v, got %d", ref, got.V))
			}
		case "getrange":
			if !eq(got.L, ref[op.A:op.B]) {
				add(i, "wrong-elements", fmt.Sprintf("slice %v, got %v", ref, got.L))
			}
		case "set":
			ref[op.A] = op.B
		case "append":
			ref = append(ref, op.Vs...)
		case "release", "clear":
			ref = nil
		case "getdata":
			if !eq(got.L, ref) {
				add(i, "wrong-elements", fmt.Sprintf("slice %v, got %v", ref, got.L))
			}
		}
	}
	return
}

func coqSyncSlice(id int, c *Case) string {
	ops := make([]string, len(c.Ops))
	for i, o := range c.Ops {
		switch o.K {
		case "get":
			ops[i] = vh.App("SSlice.Get", vh.Z(o.A))
		case "getrange":
			ops[i] = vh.App("SSlice.GetRange", vh.Z(o.A), vh.Z(o.B))
		case "set":
			ops[i] = vh.App("SSlice.Set_", vh.Z(o.A), vh.Z(o.B))
		case "append":
			ops[i] = vh.App("SSlice.Append", vh.ListZ(o.Vs))
		case "release":
			ops[i] = "SSlice.Release"
		case "clear":
			ops[i] = "SSlice.Clear"
		case "getdata":
			ops[i] = "SSlice.GetData"
		}
	}
	rs := make([]string, len(c.Out))
	for i, r := range c.Out {
		switch r.K {
		case "unit":
			rs[i] = "SSlice.OUnit"
		case "val":
			rs[i] = vh.App("SSlice.OVal", vh.Z(r.V))
		case "list":
			rs[i] = vh.App("SSlice.OList", vh.ListZ(r.L))
		case "panic":
			rs[i] = "SSlice.OPanic"
		default:
			rs[i] = "SSlice.OBad"
		}
	}
	return fmt.Sprintf("{| SSliceRun.cid := %d; SSliceRun.clen := %s; SSliceRun.cops := %s; SSliceRun.cimpl := %s |}", id, vh.Nat(c.Size), vh.List(ops), vh.List(rs))
}

// ------------------------------------------------------------------ generators

type keygen struct {
	rng   *vh.RNG
	dom   int
	known []int64
}

func (g *keygen) key() int64 {
	if g.dom > 100 && len(g.known) > 0 && g.rng.Chance(3, 5) {
		return g.known[g.rng.Intn(len(g.known))]
	}
	k := int64(g.rng.Intn(g.dom))
	if g.dom > 100 {
		if g.rng.Chance(1, 4) {
			k = -k
		}
		g.known = append(g.known, k)
	}
	return k
}

func domOf(rng *vh.RNG) int {
	switch rng.Intn(4) {
	case 0:
		return 1 << 20
	case 1:
		return 8
	}
	return 3
}

func genOrder(rng *vh.RNG, next *int64) Case {
	c := Case{Kind: "order", Dom: domOf(rng)}
	g := &keygen{rng: rng, dom: c.Dom}
	n := rng.Range(1, 40)
	for i := 0; i < n; i++ {
		*next++
		x := rng.Intn(100)
		switch {
		case x < 22:
			c.Ops = append(c.Ops, Op{K: "add", A: g.key(), B: *next})
		case x < 40:
			c.Ops = append(c.Ops, Op{K: "set", A: g.key(), B: *next})
		case x < 62:
			c.Ops = append(c.Ops, Op{K: "del", A: g.key()})
		case x < 76:
			c.Ops = append(c.Ops, Op{K: "get", A: g.key()})
		case x < 82:
			c.Ops = append(c.Ops, Op{K: "len"})
		case x < 94:
			c.Ops = append(c.Ops, Op{K: "range"})
		default:
			c.Ops = append(c.Ops, Op{K: "range", A: int64(rng.Range(1, 4))})
		}
	}
	c.Ops = append(c.Ops, Op{K: "range"}, Op{K: "len"})
	return c
}

func genBucket(rng *vh.RNG, next *int64) Case {
	c := Case{Kind: "bucket", Dom: domOf(rng), Size: []int{1, 2, 3, 8, 64}[rng.Intn(5)], Impl: "haxmap"}
	if rng.Bool() {
		c.Impl = "mutex"
	}
	g := &keygen{rng: rng, dom: c.Dom}
	n := rng.Range(1, 40)
	for i := 0; i < n; i++ {
		*next++
		x := rng.Intn(100)
		switch {
		case x < 30:
			c.Ops = append(c.Ops, Op{K: "set", A: g.key(), B: *next})
		case x < 50:
			c.Ops = append(c.Ops, Op{K: "del", A: g.key()})
		case x < 68:
			c.Ops = append(c.Ops, Op{K: "get", A: g.key()})
		case x < 78:
			c.Ops = append(c.Ops, Op{K: "len"})
		case x < 81:
			c.Ops = append(c.Ops, Op{K: "clear"})
		default:
			if c.Impl != "mutex" {
				c.Ops = append(c.Ops, Op{K: "get", A: g.key()})
				continue
			}
			k := []string{"iget", "igetorset", "igetdel", "inlgetdel"}[rng.Intn(4)]
			c.Ops = append(c.Ops, Op{K: k, A: g.key(), B: *next})
		}
	}
	c.Ops = append(c.Ops, Op{K: "len"})
	return c
}

func genSyncMap(rng *vh.RNG, next *int64) Case {
	c := Case{Kind: "syncmap", Dom: domOf(rng)}
	g := &keygen{rng: rng, dom: c.Dom}
	if rng.Chance(1, 4) {
		seen := map[int64]bool{}
		for i := rng.Range(1, 3); i > 0; i-- {
			k := g.key()
			if !seen[k] {
				*next++
				c.Init = append(c.Init, [2]int64{k, *next})
				seen[k] = true
			}
		}
	}
	n := rng.Range(1, 40)
	kinds := []string{"get", "exist", "getexist", "delete", "deleteget", "deletegetexist", "deleteexist"}
	for i := 0; i < n; i++ {
		*next++
		x := rng.Intn(100)
		switch {
		case x < 28:
			c.Ops = append(c.Ops, Op{K: "set", A: g.key(), B: *next})
		case x < 32:
			c.Ops = append(c.Ops, Op{K: "atomset", A: g.key(), B: *next})
		case x < 80:
			c.Ops = append(c.Ops, Op{K: kinds[rng.Intn(len(kinds))], A: g.key()})
		case x < 83:
			c.Ops = append(c.Ops, Op{K: "clear"})
		case x < 85:
			c.Ops = append(c.Ops, Op{K: "clearhandle"})
		default:
			c.Ops = append(c.Ops, Op{K: []string{"range", "map", "keys", "slice", "size"}[rng.Intn(5)]})
		}
	}
	c.Ops = append(c.Ops, Op{K: "map"}, Op{K: "size"})
	return c
}

func genSyncSlice(rng *vh.RNG, next *int64) Case {
	c := Case{Kind: "syncslice", Size: rng.Intn(4)}
	c.Cap = c.Size + rng.Intn(3)
	size := c.Size
	malformed := rng.Chance(1, 6)
	n := rng.Range(1, 30)
	idx := func() int64 {
		if malformed && rng.Chance(1, 3) {
			return int64(size + rng.Intn(2) - 2*rng.Intn(2)*(size+1))
		}
		if size == 0 {
			return -100 // replaced below
		}
		return int64(rng.Intn(size))
	}
	for i := 0; i < n; i++ {
		*next++
		x := rng.Intn(100)
		switch {
		case x < 30:
			k := rng.Range(0, 3)
			var vs []int64
			for j := 0; j < k; j++ {
				*next++
				vs = append(vs, *next)
			}
			c.Ops = append(c.Ops, Op{K: "append", Vs: vs})
			size += k
		case x < 50:
			if j := idx(); j != -100 {
				c.Ops = append(c.Ops, Op{K: "set", A: j, B: *next})
			}
		case x < 68:
			if j := idx(); j != -100 {
				c.Ops = append(c.Ops, Op{K: "get", A: j})
			}
		case x < 80:
			a := rng.Intn(size + 1)
			b := a + rng.Intn(size-a+1)
			c.Ops = append(c.Ops, Op{K: "getrange", A: int64(a), B: int64(b)})
		case x < 84:
			c.Ops = append(c.Ops, Op{K: "clear"})
			size = 0
		case x < 87:
			c.Ops = append(c.Ops, Op{K: "release"})
			size = 0
		default:
			c.Ops = append(c.Ops, Op{K: "getdata"})
		}
	}
	c.Ops = append(c.Ops, Op{K: "getdata"})
	return c
}

// ------------------------------------------------------------------ driver

type sub struct {
	out     *vh.Out
	run     func(*Case)
	monitor func(*Case) []vh.Violation
	coq     func(int, *Case) string
}

var subs = map[string]*sub{}

// absent-key operations / swap-deletes in a recorded case (non-triviality, distribution)
func shape(c *Case) (absent, swaps, present int) {
	ref := map[int64]bool{}
	var order []int64
	for _, p := range c.Init {
		ref[p[0]] = true
	}
	for _, op := range c.Ops {
		switch op.K {
		case "add", "set", "atomset", "igetorset":
			if !ref[op.A] {
				order = append(order, op.A)
			}
			ref[op.A] = true
		case "del", "delete", "deleteget", "deletegetexist", "deleteexist", "igetdel", "inlgetdel":
			if !ref[op.A] {
				absent++
			} else {
				present++
				for i, k := range order {
					if k == op.A {
						if i < len(order)-1 {
							swaps++
						}
						order[i] = order[len(order)-1]
						order = order[:len(order)-1]
						break
					}
				}
			}
			delete(ref, op.A)
		case "get", "exist", "getexist", "iget":
			if !ref[op.A] {
				absent++
			}
		case "clear", "clearhandle":
			ref = map[int64]bool{}
			order = nil
		}
	}
	return
}

func record(c *Case) {
	s := subs[c.Kind]
	s.run(c)
	v := s.monitor(c)
	nt := false
	switch c.Kind {
	case "syncslice":
		bad := 0
		for _, r := range c.Out {
			if r.K == "panic" {
				bad++
			}
		}
		if bad > 0 {
			s.out.Malformed()
		}
		nt = len(c.Ops) >= 4
		s.out.Count("init_len_cap", fmt.Sprintf("%d/%d", c.Size, c.Cap))
	default:
		absent, swaps, present := shape(c)
		nt = absent > 0 && present > 0
		if c.Kind == "order" {
			nt = absent > 0 && swaps > 0
			s.out.Count("swap_deletes", vh.Bucket(swaps))
		}
		s.out.Count("absent_key_ops", vh.Bucket(absent))
		s.out.Count("present_key_deletes", vh.Bucket(present))
		s.out.Count("key_domain", fmt.Sprint(c.Dom))
		if c.Kind == "bucket" {
			s.out.Count("buckets", fmt.Sprint(c.Size))
			s.out.Count("impl", c.Impl)
		}
	}
	s.out.Count("ops_len", vh.Bucket(len(c.Ops)))
	for _, o := range c.Ops {
		s.out.Count("op_mix", o.K)
	}
	s.out.Add(c, s.coq(s.out.N(), c), nt, v)
}

func corpus() []Case {
	return []Case{
		// order: delete of the middle, of the last, of an absent key; set of absent = add
		{Kind: "order", Dom: 3, Ops: []Op{{K: "add", A: 1, B: 10}, {K: "add", A: 2, B: 20}, {K: "add", A: 3, B: 30}, {K: "add", A: 2, B: 99}, {K: "range"},
			{K: "del", A: 1}, {K: "range"}, {K: "get", A: 3}, {K: "get", A: 1}, {K: "del", A: 1}, {K: "del", A: 2}, {K: "range"}, {K: "del", A: 3}, {K: "len"}, {K: "del", A: 3},
			{K: "set", A: 5, B: 50}, {K: "set", A: 5, B: 51}, {K: "range", A: 1}, {K: "get", A: 5}}},
		{Kind: "order", Dom: 3, Ops: []Op{{K: "get", A: 0}, {K: "del", A: 0}, {K: "len"}, {K: "range"}, {K: "range", A: 2}}},
		// buckets: absent keys, negative keys, one bucket
		{Kind: "bucket", Impl: "mutex", Size: 2, Dom: 3, Ops: []Op{{K: "del", A: 1}, {K: "get", A: 1}, {K: "igetdel", A: 1}, {K: "inlgetdel", A: -1}, {K: "igetorset", A: -3, B: 7}, {K: "igetorset", A: -3, B: 8},
			{K: "set", A: 2, B: 1}, {K: "len"}, {K: "igetdel", A: -3}, {K: "len"}, {K: "clear"}, {K: "len"}, {K: "get", A: 2}}},
		{Kind: "bucket", Impl: "haxmap", Size: 1, Dom: 3, Ops: []Op{{K: "del", A: 1}, {K: "get", A: 1}, {K: "set", A: 1, B: 5}, {K: "set", A: -1, B: 6}, {K: "len"}, {K: "del", A: 1}, {K: "del", A: 1}, {K: "len"}, {K: "clear"}, {K: "len"}}},
		// syncmap: every delete flavour on an absent key
		{Kind: "syncmap", Dom: 3, Ops: []Op{{K: "delete", A: 1}, {K: "deleteget", A: 1}, {K: "deletegetexist", A: 1}, {K: "get", A: 1}, {K: "getexist", A: 1}, {K: "exist", A: 1}, {K: "size"},
			{K: "set", A: 1, B: 5}, {K: "deleteexist", A: 1}, {K: "size"}, {K: "deleteexist", A: 1}, {K: "set", A: 2, B: 6}, {K: "map"}}},
		{Kind: "syncmap", Dom: 3, Init: [][2]int64{{1, 11}, {2, 22}}, Ops: []Op{{K: "map"}, {K: "keys"}, {K: "slice"}, {K: "range"}, {K: "clearhandle"}, {K: "size"}, {K: "atomset", A: 4, B: 44}, {K: "map"}}},
		// syncslice
		{Kind: "syncslice", Size: 2, Cap: 4, Ops: []Op{{K: "getdata"}, {K: "append", Vs: []int64{5, 6}}, {K: "set", A: 0, B: 9}, {K: "get", A: 3}, {K: "getrange", A: 1, B: 3}, {K: "getrange", A: 2, B: 2}, {K: "clear"}, {K: "getdata"}, {K: "append", Vs: []int64{7}}, {K: "release"}, {K: "append"}, {K: "getdata"}}},
	}
}

func main() {
	canaryMode := flag.Bool("canary", false, "internal: probe SyncMap.DeleteExist on an absent key and exit")
	f := vh.ParseFlags()
	if *canaryMode {
		canary()
	}
	probeDeleteExist()
	mk := func(kind, header, caseType, mism, rule string, run func(*Case), mon func(*Case) []vh.Violation, coq func(int, *Case) string) {
		var o *vh.Out
		if f.Replay == "" {
			o = vh.NewOut(f.Out, kind, header, caseType, mism, f.Seed, rule)
			o.PerShard = 100
		}
		subs[kind] = &sub{out: o, run: run, monitor: mon, coq: coq}
	}
	hdr := "From MV Require Import Lib.ListX C16.MapX C16.MapsModel C16.MapsRun."
	mk("order", hdr, "OrderRun.case", "OrderRun.mismatches",
		"random histories (1..40 ops + final Range/Len) run on Order and OrderSync in lockstep (any difference is a violation): Add/Set/Del/Get/Len/Range (full and stopped after 1..4 entries) over key domains {3,8,2^20 with negatives}; non-trivial = an absent-key operation and a swap-delete (delete of an entry that is not the last) in the same history",
		runOrder, monitorOrder, coqOrder)
	mk("bucket", hdr, "BucketRun.case", "BucketRun.mismatches",
		"random histories (1..40 ops) on Bucket (haxmap) or MutexBucket with 1,2,3,8,64 buckets, hash = key mod size: Get/Set/Del/Len/Clear and, for MutexBucket, the bucket item's Get/GetOrSet/GetAndDel/NoneLockGetAndDel; key domains {3,8,2^20 with negatives}; non-trivial = an absent-key operation and a delete of a present key in the same history",
		runBucket, monitorBucket, coqBucket)
	mk("syncmap", hdr, "SMapRun.case", "SMapRun.mismatches",
		"random histories (1..40 ops + final Map/Size) on SyncMap (optionally built from a source map): Set/Atom/Get/Exist/GetExist/Delete/DeleteGet/DeleteGetExist/DeleteExist/Clear/ClearHandle/Range/Map/Keys/Slice/Size over key domains {3,8,2^20 with negatives}; DeleteExist on an absent key is first tried in a child process; non-trivial = an absent-key operation and a delete of a present key in the same history",
		runSyncMap, monitorSyncMap, coqSyncMap)
	mk("syncslice", hdr, "SSliceRun.case", "SSliceRun.mismatches",
		"random histories (1..30 ops + final GetData) on SyncSlice(len 0..3, cap len..len+2): Get/GetWithRange/Set/Append/Release/Clear/GetData with in-range indices and, in a malformed stream (1 case in 6), indices -1, len, len+1 (a case ends at the first panic); non-trivial = at least 4 operations",
		runSyncSlice, monitorSyncSlice, coqSyncSlice)

	if f.Replay != "" {
		var c Case
		vh.LoadReplayCase(f.Replay, &c)
		s := subs[c.Kind]
		if s == nil {
			fmt.Fprintln(os.Stderr, "unknown case kind", c.Kind)
			os.Exit(2)
		}
		want := append([]Res(nil), c.Out...)
		s.run(&c)
		v := s.monitor(&c)
		b, _ := json.Marshal(map[string]interface{}{"case": c, "recorded_impl": want, "monitor": v, "deleteexist_absent_survives": deleteExistSafe})
		fmt.Println(string(b))
		if len(v) > 0 {
			os.Exit(1)
		}
		return
	}
	rng := vh.NewRNG(f.Seed)
	var next int64 = 1000
	for _, c := range corpus() {
		c := c
		record(&c)
	}
	n := f.N
	if n == 0 {
		n = 400
		if f.Tier == "thorough" {
			n = 8000
		}
	}
	gens := []func(*vh.RNG, *int64) Case{genOrder, genBucket, genSyncMap, genSyncSlice}
	for i := 0; i < n; i++ {
		for _, g := range gens {
			cr, _ := rng.Derive()
			c := g(cr, &next)
			record(&c)
		}
	}
	if f.Tier == "thorough" {
		// exhaustive small scope: every history of <= 5 ops over 2 keys for Order and SyncMap
		var alphaO, alphaM []Op
		for k := int64(1); k <= 2; k++ {
			alphaO = append(alphaO, Op{K: "add", A: k, B: 10 * k}, Op{K: "set", A: k, B: 10*k + 1}, Op{K: "del", A: k})
			alphaM = append(alphaM, Op{K: "set", A: k, B: 10 * k}, Op{K: "delete", A: k}, Op{K: "deleteexist", A: k}, Op{K: "deletegetexist", A: k})
		}
		var rec func(kind string, alpha []Op, tail []Op, prefix []Op, depth int)
		rec = func(kind string, alpha []Op, tail []Op, prefix []Op, depth int) {
			if len(prefix) > 0 {
				c := Case{Kind: kind, Dom: 3}
				c.Ops = append(append(c.Ops, prefix...), tail...)
				record(&c)
			}
			if depth == 0 {
				return
			}
			for _, o := range alpha {
				rec(kind, alpha, tail, append(prefix[:len(prefix):len(prefix)], o), depth-1)
			}
		}
		rec("order", alphaO, []Op{{K: "range"}, {K: "get", A: 1}, {K: "get", A: 2}, {K: "len"}}, nil, 5)
		rec("syncmap", alphaM, []Op{{K: "map"}, {K: "size"}}, nil, 4)
	}
	for _, s := range subs {
		s.out.Close()
	}
}
