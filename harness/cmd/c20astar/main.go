// c20astar: correspondence harness (T1) for toolkit/navigate/astar.Find against MV.C20.AstarModel.
//
// Inputs: every obstacle layout of 3x3 (and, thorough, 3x4) grids with every start/goal pair, random
// weighted directed/undirected graphs up to 200 nodes with integer costs (exact in float64) under
// several consistent heuristics and, as a separate stream, inconsistent ones.
// Monitors (independent of the Coq model): path validity, none <=> unreachable (BFS), and - when the
// heuristic is consistent - cost == Dijkstra distance.
package main

import (
	"encoding/json"
	"fmt"
	"os"
	"strings"

	"github.com/kercylan98/minotaur/toolkit/navigate/astar"
	"verif/harness/vh"
)

type Edge struct {
	To int   `json:"t"`
	C  int64 `json:"c"`
}
type Res struct {
	K   string `json:"k"` // path | none | panic
	P   []int  `json:"p,omitempty"`
	Err string `json:"err,omitempty"`
}
type GridSpec struct {
	W       int    `json:"w"`
	H       int    `json:"h"`
	Blocked uint64 `json:"blocked"` // bit r*w+c set = obstacle
	Diag    bool   `json:"diag"`
}
type Case struct {
	Kind  string    `json:"kind"`
	Grid  *GridSpec `json:"grid,omitempty"` // set for grid cases: Adj and H below are its expansion
	Adj   [][]Edge  `json:"adj"`
	H     []int64   `json:"h"`
	Start int       `json:"start"`
	Goal  int       `json:"goal"`
	Impl  Res       `json:"impl"`
}

// ---- the graph handed to astar.Find

type G struct{ adj [][]Edge }

func (g *G) GetNodeId(n int) int { return n }
func (g *G) GetNeighbours(n int) []int {
	if n < 0 || n >= len(g.adj) {
		return nil
	}
	r := make([]int, len(g.adj[n]))
	for i, e := range g.adj[n] {
		r[i] = e.To
	}
	return r
}

// cost(a,b): cost of the first edge a->b listed (0 if none) - the same convention as tbl_cost in Coq
func edgeCost(adj [][]Edge, a, b int) int64 {
	if a < 0 || a >= len(adj) {
		return 0
	}
	for _, e := range adj[a] {
		if e.To == b {
			return e.C
		}
	}
	return 0
}

func runImpl(c *Case) {
	c.Impl = func() (res Res) {
		defer func() {
			if e := recover(); e != nil {
				res = Res{K: "panic", Err: fmt.Sprint(e)}
			}
		}()
		g := &G{adj: c.Adj}
		p := astar.Find[int, int](g, c.Start, c.Goal,
			func(a, b int) float64 { return float64(edgeCost(c.Adj, a, b)) },
			func(a, b int) float64 {
				if a < 0 || a >= len(c.H) {
					return 0
				}
				return float64(c.H[a])
			})
		if len(p) == 0 {
			return Res{K: "none"}
		}
		return Res{K: "path", P: append([]int(nil), p...)}
	}()
}

// ---- monitors: brute-force restatement of the property

const inf = int64(1) << 60

func hasEdge(adj [][]Edge, a, b int) bool {
	if a < 0 || a >= len(adj) {
		return false
	}
	for _, e := range adj[a] {
		if e.To == b {
			return true
		}
	}
	return false
}

// dijkstra over first-listed edge costs (all costs >= 0), O(n^2)
func dijkstra(adj [][]Edge, src int) []int64 {
	n := len(adj)
	d := make([]int64, n)
	done := make([]bool, n)
	for i := range d {
		d[i] = inf
	}
	if src < 0 || src >= n {
		return d
	}
	d[src] = 0
	for {
		u := -1
		for i := 0; i < n; i++ {
			if !done[i] && d[i] < inf && (u < 0 || d[i] < d[u]) {
				u = i
			}
		}
		if u < 0 {
			return d
		}
		done[u] = true
		seen := map[int]bool{}
		for _, e := range adj[u] {
			if seen[e.To] || e.To < 0 || e.To >= n {
				continue
			}
			seen[e.To] = true // only the first listed cost counts: it is what cost(a,b) returns
			if d[u]+e.C < d[e.To] {
				d[e.To] = d[u] + e.C
			}
		}
	}
}

func consistent(c *Case) bool {
	h := func(n int) int64 {
		if n < 0 || n >= len(c.H) {
			return 0
		}
		return c.H[n]
	}
	for a := range c.Adj {
		for _, e := range c.Adj[a] {
			if h(a) > edgeCost(c.Adj, a, e.To)+h(e.To) {
				return false
			}
		}
	}
	return true
}

func nonneg(c *Case) bool {
	for a := range c.Adj {
		for _, e := range c.Adj[a] {
			if e.C < 0 {
				return false
			}
		}
	}
	return true
}

func pathCost(adj [][]Edge, p []int) int64 {
	var s int64
	for i := 1; i < len(p); i++ {
		s += edgeCost(adj, p[i-1], p[i])
	}
	return s
}

func monitor(c *Case) (viol []vh.Violation) {
	add := func(class, detail string) {
		viol = append(viol, vh.Violation{Kind: "astar:Find:" + class, Detail: detail,
			Sig: map[string]string{"function": "astar.Find", "class": class}})
	}
	if c.Impl.K == "panic" {
		add("crash", c.Impl.Err)
		return
	}
	dist := dijkstra(c.Adj, c.Start)
	reach := c.Start == c.Goal || (c.Goal >= 0 && c.Goal < len(dist) && dist[c.Goal] < inf)
	if c.Impl.K == "none" {
		if reach {
			add("none-but-reachable", fmt.Sprintf("goal %d is reachable from %d but nothing was returned", c.Goal, c.Start))
		}
		return
	}
	p := c.Impl.P
	if p[0] != c.Start {
		add("wrong-start", fmt.Sprintf("path starts at %d, expected %d", p[0], c.Start))
	}
	if p[len(p)-1] != c.Goal {
		add("wrong-end", fmt.Sprintf("path ends at %d, expected %d", p[len(p)-1], c.Goal))
	}
	for i := 1; i < len(p); i++ {
		if !hasEdge(c.Adj, p[i-1], p[i]) {
			add("non-edge", fmt.Sprintf("step %d: %d -> %d is not an edge", i, p[i-1], p[i]))
			break
		}
	}
	if len(viol) > 0 {
		return
	}
	if consistent(c) && nonneg(c) {
		want := dist[c.Goal] // dist[start] = 0, so this also covers start == goal
		if got := pathCost(c.Adj, p); got != want {
			add("suboptimal", fmt.Sprintf("consistent heuristic: path %v costs %d, minimum is %d", p, got, want))
		}
	}
	return
}

// number of minimum-cost paths start->goal (capped), for the non-triviality rule
func optimalAlternatives(c *Case) int {
	n := len(c.Adj)
	if c.Start < 0 || c.Start >= n || c.Goal < 0 || c.Goal >= n {
		return 0
	}
	ds := dijkstra(c.Adj, c.Start)
	if ds[c.Goal] >= inf {
		return 0
	}
	memo := map[int]int{}
	visiting := map[int]bool{}
	var cnt func(u int) int
	cnt = func(u int) int {
		if u == c.Goal {
			return 1
		}
		if v, ok := memo[u]; ok {
			return v
		}
		if visiting[u] {
			return 0
		}
		visiting[u] = true
		t := 0
		seen := map[int]bool{}
		for _, e := range c.Adj[u] {
			if seen[e.To] || e.To < 0 || e.To >= n {
				continue
			}
			seen[e.To] = true
			if ds[u]+e.C == ds[e.To] && ds[e.To] <= ds[c.Goal] {
				t += cnt(e.To)
				if t > 1000 {
					t = 1000
				}
			}
		}
		visiting[u] = false
		memo[u] = t
		return t
	}
	return cnt(c.Start)
}

// ---- Coq term

func implTerm(c *Case) string {
	switch c.Impl.K {
	case "none":
		return "ONone"
	case "path":
		for _, v := range c.Impl.P {
			if v < 0 {
				return "OBad"
			}
		}
		var pb strings.Builder
		pb.WriteString("(OPath ")
		for _, v := range c.Impl.P {
			fmt.Fprintf(&pb, "(ncns %d ", v)
		}
		pb.WriteString("nnil")
		pb.WriteString(strings.Repeat(")", len(c.Impl.P)+1))
		return pb.String()
	}
	return "OBad"
}

func coqCase(id int, c *Case) string {
	if c.Grid != nil {
		return fmt.Sprintf("(mkgrid %d %d %d %d %s %d %d %s %s)", id, c.Grid.W, c.Grid.H, c.Grid.Blocked, vh.Bool(c.Grid.Diag),
			c.Start, c.Goal, vh.Bool(consistent(c) && nonneg(c)), implTerm(c))
	}
	var sb strings.Builder
	fmt.Fprintf(&sb, "(mk %d ", id)
	for _, l := range c.Adj {
		sb.WriteString("(acns ")
		for _, e := range l {
			fmt.Fprintf(&sb, "(ecns %d %s ", e.To, zlit(e.C))
		}
		sb.WriteString("enil")
		sb.WriteString(strings.Repeat(")", len(l)))
		sb.WriteString(" ")
	}
	sb.WriteString("anil")
	sb.WriteString(strings.Repeat(")", len(c.Adj)))
	sb.WriteString(" ")
	for _, h := range c.H {
		fmt.Fprintf(&sb, "(zcns %s ", zlit(h))
	}
	sb.WriteString("znil")
	sb.WriteString(strings.Repeat(")", len(c.H)))
	impl := implTerm(c)
	fmt.Fprintf(&sb, " %d %d %s %s)", c.Start, c.Goal, vh.Bool(consistent(c) && nonneg(c)), impl)
	return sb.String()
}

func zlit(v int64) string {
	if v < 0 {
		return fmt.Sprintf("(%d)", v)
	}
	return fmt.Sprint(v)
}

// ---- generators

// grid cells r*w+c; neighbours in the order up, down, left, right (then the four diagonals when diag)
func gridCase(w, h int, blocked uint, start, goal int, diag bool) Case {
	n := w * h
	free := func(r, c int) bool { return r >= 0 && r < h && c >= 0 && c < w && blocked&(1<<uint(r*w+c)) == 0 }
	adj := make([][]Edge, n)
	hs := make([]int64, n)
	gr, gc := goal/w, goal%w
	abs := func(x int) int {
		if x < 0 {
			return -x
		}
		return x
	}
	for r := 0; r < h; r++ {
		for c := 0; c < w; c++ {
			i := r*w + c
			adj[i] = []Edge{}
			dirs := [][3]int{{-1, 0, 1}, {1, 0, 1}, {0, -1, 1}, {0, 1, 1}}
			if diag {
				dirs = [][3]int{{-1, 0, 10}, {1, 0, 10}, {0, -1, 10}, {0, 1, 10}, {-1, -1, 14}, {-1, 1, 14}, {1, -1, 14}, {1, 1, 14}}
			}
			for _, d := range dirs {
				if free(r+d[0], c+d[1]) {
					adj[i] = append(adj[i], Edge{To: (r+d[0])*w + c + d[1], C: int64(d[2])})
				}
			}
			dx, dy := abs(c-gc), abs(r-gr)
			if diag {
				mn, mx := dx, dy
				if mn > mx {
					mn, mx = mx, mn
				}
				hs[i] = int64(10*(mx-mn) + 14*mn) // octile distance
			} else {
				hs[i] = int64(dx + dy) // Manhattan distance
			}
		}
	}
	kind := fmt.Sprintf("grid%dx%d", h, w)
	if diag {
		kind += "d"
	}
	return Case{Kind: kind, Grid: &GridSpec{W: w, H: h, Blocked: uint64(blocked), Diag: diag}, Adj: adj, H: hs, Start: start, Goal: goal}
}

func randGraph(rng *vh.RNG) Case {
	var n int
	switch rng.Intn(10) {
	case 0:
		n = rng.Range(60, 200)
	case 1, 2:
		n = rng.Range(20, 60)
	default:
		n = rng.Range(2, 20)
	}
	undirected := rng.Bool()
	maxc := []int{1, 3, 9, 9, 50}[rng.Intn(5)]
	zeroBias := rng.Intn(4) == 0
	deg := rng.Range(1, 3)
	adj := make([][]Edge, n)
	for i := range adj {
		adj[i] = []Edge{}
	}
	pickCost := func() int64 {
		if zeroBias && rng.Chance(1, 3) {
			return 0
		}
		return int64(rng.Range(0, maxc))
	}
	m := n * deg
	local := rng.Bool() // edges mostly between nearby ids: long shortest paths
	for k := 0; k < m; k++ {
		a := rng.Intn(n)
		var b int
		if local {
			b = a + rng.Range(-3, 3)
			if b < 0 || b >= n {
				b = rng.Intn(n)
			}
		} else {
			b = rng.Intn(n)
		}
		c := pickCost()
		if hasEdge(adj, a, b) {
			c = edgeCost(adj, a, b) // duplicates keep the cost: cost(a,b) is a function of the pair
			if !rng.Chance(1, 4) {
				continue
			}
		}
		adj[a] = append(adj[a], Edge{To: b, C: c})
		if undirected && a != b {
			if !hasEdge(adj, b, a) {
				adj[b] = append(adj[b], Edge{To: a, C: c})
			}
		}
	}
	c := Case{Kind: "rand", Adj: adj, Start: rng.Intn(n), Goal: rng.Intn(n)}
	if rng.Chance(1, 25) {
		c.Goal = c.Start
	}
	// heuristics
	rev := make([][]Edge, n)
	for a := range adj {
		for _, e := range adj[a] {
			if e.C == edgeCost(adj, a, e.To) {
				rev[e.To] = append(rev[e.To], Edge{To: a, C: e.C})
			}
		}
	}
	toGoal := dijkstra(rev, c.Goal) // exact distance to the goal
	big := int64(1000000)
	exact := func(i int) int64 {
		if toGoal[i] >= inf {
			return big
		}
		return toGoal[i]
	}
	c.H = make([]int64, n)
	switch rng.Intn(6) {
	case 0: // zero heuristic (Dijkstra)
		c.Kind = "rand-h0"
	case 1: // perfect heuristic
		c.Kind = "rand-hexact"
		for i := range c.H {
			c.H[i] = exact(i)
		}
	case 2: // max(0, d-k): consistent
		c.Kind = "rand-hshift"
		k := int64(rng.Range(1, 2*maxc+1))
		for i := range c.H {
			c.H[i] = exact(i) - k
			if c.H[i] < 0 {
				c.H[i] = 0
			}
		}
	case 3: // d/2 rounded down is NOT consistent in general; halve costs instead: h = floor(d/2) when all costs even..
		// use the landmark bound max(0, d(n,L') - d(goal,L')) over the reversed graph: consistent
		c.Kind = "rand-hlandmark"
		L := rng.Intn(n)
		toL := dijkstra(rev, L)
		for i := range c.H {
			if toL[i] < inf && toL[c.Goal] < inf && toL[i]-toL[c.Goal] > 0 {
				c.H[i] = toL[i] - toL[c.Goal]
			}
		}
	case 4: // random, usually inconsistent (separate stream: only validity and reachability are claimed)
		c.Kind = "rand-hrandom"
		for i := range c.H {
			c.H[i] = int64(rng.Range(0, 3*maxc))
		}
	case 5: // overestimate: k * exact (inadmissible, weighted A*)
		c.Kind = "rand-hweighted"
		k := int64(rng.Range(2, 4))
		for i := range c.H {
			c.H[i] = k * exact(i)
		}
	}
	return c
}

func corpus() []Case {
	e := func(t int, c int64) Edge { return Edge{To: t, C: c} }
	return []Case{
		// start == goal: the one-node path is returned
		{Kind: "corpus", Adj: [][]Edge{{e(1, 1)}, {e(0, 1)}}, H: []int64{0, 1}, Start: 0, Goal: 0},
		// start == goal, isolated node
		{Kind: "corpus", Adj: [][]Edge{{}}, H: []int64{0}, Start: 0, Goal: 0},
		// unreachable goal
		{Kind: "corpus", Adj: [][]Edge{{e(1, 1)}, {e(0, 1)}, {}}, H: []int64{0, 0, 0}, Start: 0, Goal: 2},
		// diamond with a tie: 0->1->3 and 0->2->3 both cost 2
		{Kind: "corpus", Adj: [][]Edge{{e(1, 1), e(2, 1)}, {e(3, 1)}, {e(3, 1)}, {}}, H: []int64{2, 1, 1, 0}, Start: 0, Goal: 3},
		// zero-cost cycle next to the start
		{Kind: "corpus", Adj: [][]Edge{{e(1, 0), e(2, 5)}, {e(0, 0), e(2, 4)}, {}}, H: []int64{0, 0, 0}, Start: 0, Goal: 2},
		// duplicate neighbour entries and a self loop
		{Kind: "corpus", Adj: [][]Edge{{e(0, 1), e(1, 2), e(1, 2), e(2, 7)}, {e(2, 2), e(2, 2)}, {}}, H: []int64{4, 2, 0}, Start: 0, Goal: 2},
		// the cheaper route is found later: 0->1 (1), 1->3 (10), 0->2 (4), 2->3 (1)
		{Kind: "corpus", Adj: [][]Edge{{e(1, 1), e(2, 4)}, {e(3, 10)}, {e(3, 1)}, {}}, H: []int64{0, 0, 0, 0}, Start: 0, Goal: 3},
		// inconsistent (overestimating) heuristic: the returned path is valid but need not be optimal
		{Kind: "corpus", Adj: [][]Edge{{e(1, 1), e(2, 1)}, {e(3, 1)}, {e(3, 5)}, {}}, H: []int64{0, 9, 0, 0}, Start: 0, Goal: 3},
	}
}

func record(out *vh.Out, c *Case) {
	runImpl(c)
	v := monitor(c)
	cons := consistent(c) && nonneg(c)
	alts := 0
	if cons {
		alts = optimalAlternatives(c)
	}
	nt := cons && c.Impl.K == "path" && len(c.Impl.P) >= 3 && alts >= 2
	out.Count("kind", c.Kind)
	out.Count("nodes", vh.Bucket(len(c.Adj)))
	out.Count("result", c.Impl.K)
	if c.Impl.K == "path" {
		out.Count("path_nodes", vh.Bucket(len(c.Impl.P)))
	}
	if cons {
		out.Count("heuristic", "consistent")
		out.Count("optimal_alternatives", vh.Bucket(alts))
	} else {
		out.Count("heuristic", "inconsistent(separate stream)")
	}
	if c.Start == c.Goal {
		out.Count("start_eq_goal", "yes")
	}
	out.Add(c, coqCase(out.N(), c), nt, v)
}

func allGrid(out *vh.Out, w, h int, diag bool) {
	n := w * h
	for b := uint(0); b < 1<<uint(n); b++ {
		for s := 0; s < n; s++ {
			if b&(1<<uint(s)) != 0 {
				continue
			}
			for g := 0; g < n; g++ {
				if b&(1<<uint(g)) != 0 {
					continue
				}
				c := gridCase(w, h, b, s, g, diag)
				record(out, &c)
			}
		}
	}
}

const header = "From MV Require Import Lib.ListX C20.AstarModel C20.AstarRun."

func main() {
	f := vh.ParseFlags()
	if f.Replay != "" {
		var c Case
		vh.LoadReplayCase(f.Replay, &c)
		if c.Grid != nil { // the expansion is recomputed from the specification
			g := gridCase(c.Grid.W, c.Grid.H, uint(c.Grid.Blocked), c.Start, c.Goal, c.Grid.Diag)
			c.Adj, c.H = g.Adj, g.H
		}
		want := c.Impl
		runImpl(&c)
		v := monitor(&c)
		b, _ := json.Marshal(map[string]interface{}{"case": c, "recorded_impl": want, "monitor": v})
		fmt.Println(string(b))
		if len(v) > 0 {
			os.Exit(1)
		}
		return
	}
	thorough := f.Tier == "thorough"
	rng := vh.NewRNG(f.Seed)

	// ---- sub-harness "grid"
	grid := vh.NewOut(f.Out, "grid", header, "case", "mismatches", f.Seed,
		"every obstacle layout of the 3x3 grid (4-neighbour, unit cost, Manhattan heuristic) with every free start/goal pair; quick: random sample of 3x4 / 4x3 layouts and of 8-neighbour (10/14 costs, octile heuristic) layouts, thorough: all 3x4 and all 3x3 8-neighbour layouts with every pair; separate malformed stream: start or goal on an obstacle; non-trivial = returned path has >= 3 nodes and the instance has >= 2 minimum-cost paths; distinct by hash of the whole case")
	grid.PerShard = 1500
	allGrid(grid, 3, 3, false)
	if thorough {
		allGrid(grid, 4, 3, false)
		allGrid(grid, 3, 3, true)
	}
	nGrid, nRand := 2000, 1200
	if thorough {
		nGrid, nRand = 20000, 24000
	}
	if f.N > 0 {
		nRand = f.N
	}
	for i := 0; i < nGrid; i++ {
		cr, _ := rng.Derive()
		w, h := 4, 3
		diag := false
		switch cr.Intn(4) {
		case 0:
			w, h, diag = 3, 3, true
		case 1:
			w, h = 3, 4
		case 2:
			w, h, diag = 4, 3, true
		}
		n := w * h
		b := uint(cr.U64()) & (1<<uint(n) - 1)
		if cr.Bool() {
			b &= uint(cr.U64()) // sparser obstacles
		}
		s, g := cr.Intn(n), cr.Intn(n)
		if !cr.Chance(1, 12) { // mostly free endpoints
			for k := 0; k < n && b&(1<<uint(s)) != 0; k++ {
				s = (s + 1) % n
			}
			for k := 0; k < n && b&(1<<uint(g)) != 0; k++ {
				g = (g + 5) % n
			}
		}
		c := gridCase(w, h, b, s, g, diag)
		if b&(1<<uint(s)) != 0 || b&(1<<uint(g)) != 0 {
			grid.Malformed() // start or goal on an obstacle
			c.Kind += "-blocked-endpoint"
		}
		record(grid, &c)
	}
	grid.Close()

	// ---- sub-harness "graph"
	graph := vh.NewOut(f.Out, "graph", header, "case", "mismatches", f.Seed,
		"corpus (start = goal, unreachable goal, ties, zero-cost cycle, duplicate neighbours, self loop, late cheaper route, inconsistent heuristic) + random directed/undirected graphs of 2..200 nodes, integer costs 0..50 (exact in float64), heuristics zero / exact / shifted / landmark (consistent when the check says so) and random / weighted (inconsistent: separate stream, only validity and reachability are claimed); non-trivial = consistent heuristic, returned path has >= 3 nodes and the instance has >= 2 minimum-cost paths; distinct by hash of the whole case")
	graph.PerShard = 100
	for _, c := range corpus() {
		c := c
		record(graph, &c)
	}
	for i := 0; i < nRand; i++ {
		cr, _ := rng.Derive()
		c := randGraph(cr)
		record(graph, &c)
	}
	graph.Close()
}
