// c06remote: correspondence harness (T1) for the watch bookkeeping of one target actor with watchers on TWO nodes
// (property C06, second sub-check) against MV.C06.RemoteWatchModel.
//
// Two REAL vivid actor systems linked through sharing on 127.0.0.1 (ephemeral ports), reused across scripts. On both
// nodes live four recording actors with IDENTICAL names — "p", "w1", "w2", "w3" (logical addresses /user/p, /user/w1,
// ...): watcher (n, a) is the actor named a on node n. (0, 0) = /user/p on node 0 is the PARENT of the target: every
// script lets it spawn a fresh target /user/p/t<k> on node 0; the target spawns a child whose dispatcher the harness
// can hold, so that "the target has begun to terminate and waits for its child" is a state requests can race with.
//
// A script is a sequential history of
//
//	W n a   actor (n, a) calls ctx.Watch(target)   inside its own handler
//	U n a   actor (n, a) calls ctx.UnWatch(target) inside its own handler
//	TB      the child's dispatcher is held and the target is told to terminate (by the system or by its parent,
//	        gracefully or not): it becomes Terminating and waits
//	TE      the child's dispatcher is released: the child terminates, tryTerminated of the target completes
//
// After every operation: quiescence of every mailbox runner of both nodes (tracking dispatcher; the default
// dispatcher is replaced through the verif hook), a fence message over the link from the acting node, quiescence, a
// fence back, quiescence — the link is one FIFO stream, whatever the operation sent travels before the fence, and
// the longest chain is request -> answer. Then the number of OnTerminated naming the target that each of the eight
// recording actors has handled so far is recorded. Coq replays the operations on the model and must show the same
// eight numbers after every operation; the Go-side monitor restates the property on the harness's own ledger.
package main

import (
	"encoding/json"
	"flag"
	"fmt"
	"io"
	"log/slog"
	"os"
	"strconv"
	"strings"
	"sync"
	"time"

	"github.com/kercylan98/minotaur/engine/prc"
	"github.com/kercylan98/minotaur/engine/vivid"
	"github.com/kercylan98/minotaur/engine/vivid/dispatcher"
	"github.com/kercylan98/minotaur/toolkit/log"
	"verif/harness/vh"
)

// ---------------------------------------------------------------- case format

const nNames = 4 // 0 = "p", 1..3 = "w1".."w3"

type Op struct {
	K  string `json:"k"`            // W | U | TB | TE
	N  int    `json:"n,omitempty"`  // W, U: node of the acting watcher
	A  int    `json:"a,omitempty"`  // W, U: its name
	G  bool   `json:"g,omitempty"`  // TB: graceful
	By string `json:"by,omitempty"` // TB: "parent" = ctx.Terminate inside the parent's handler, otherwise ActorSystem.Terminate of node 0
}

type Case struct {
	Absent bool     `json:"absent,omitempty"` // the watched address never existed: no target is spawned
	Cached bool     `json:"cached,omitempty"` // every watcher keeps ONE reference to the target (its process cache is used); otherwise a fresh reference per request
	Ops    []Op     `json:"ops"`
	Impl   [][]int  `json:"impl"` // after each operation: notices handled so far by (0,0) (0,1) (0,2) (0,3) (1,0) (1,1) (1,2) (1,3)
	Err    string   `json:"err,omitempty"`
	Stray  []string `json:"stray,omitempty"` // OnTerminated naming something that looks like the target but is not its address
	// Twin: /user/p of node 1 has a living child under the SAME logical address as the target (both nodes run the same code, so
	// the names coincide) and watches the target; the notice about the target of node 0 must leave the children table of node 1's
	// /user/p alone. TwinLost: what ctx.Children() of that actor showed after the script (empty = the twin was still listed).
	Twin     bool   `json:"twin,omitempty"`
	TwinLost string `json:"twin_lost,omitempty"`
}

func actorName(a int) string {
	if a == 0 {
		return "p"
	}
	return fmt.Sprintf("w%d", a)
}

func opStr(o Op) string {
	switch o.K {
	case "W", "U":
		return fmt.Sprintf("%s(%d,%s)", o.K, o.N, actorName(o.A))
	case "TB":
		return fmt.Sprintf("TB(graceful=%v,by=%s)", o.G, map[bool]string{true: "parent", false: "system"}[o.By == "parent"])
	}
	return o.K
}

// ---------------------------------------------------------------- dispatchers

type tracker struct {
	mu     sync.Mutex
	cond   *sync.Cond
	active int
}

func newTracker() *tracker { t := &tracker{}; t.cond = sync.NewCond(&t.mu); return t }

func (t *tracker) Dispatch(f func()) {
	t.mu.Lock()
	t.active++
	t.mu.Unlock()
	go func() {
		defer func() { t.mu.Lock(); t.active--; t.cond.Broadcast(); t.mu.Unlock() }()
		f()
	}()
}

// quiet waits until no mailbox runner is active; false on timeout.
func (t *tracker) quiet(d time.Duration) bool {
	deadline := time.Now().Add(d)
	t.mu.Lock()
	defer t.mu.Unlock()
	for t.active != 0 {
		if time.Now().After(deadline) {
			return false
		}
		tm := time.AfterFunc(5*time.Millisecond, func() { t.mu.Lock(); t.cond.Broadcast(); t.mu.Unlock() })
		t.cond.Wait()
		tm.Stop()
	}
	return true
}

// holdDisp is the dispatcher of the target's child: while held, the mailbox runner it is asked to start is parked
// (the child does not handle the terminate request of its parent), release starts it under the tracker.
type holdDisp struct {
	mu   sync.Mutex
	held bool
	q    []func()
	tr   *tracker
}

func (h *holdDisp) Dispatch(f func()) {
	h.mu.Lock()
	if h.held {
		h.q = append(h.q, f)
		h.mu.Unlock()
		return
	}
	h.mu.Unlock()
	h.tr.Dispatch(f)
}

func (h *holdDisp) hold() {
	if h == nil {
		return
	}
	h.mu.Lock()
	h.held = true
	h.mu.Unlock()
}

func (h *holdDisp) release() {
	if h == nil {
		return
	}
	h.mu.Lock()
	h.held = false
	q := h.q
	h.q = nil
	h.mu.Unlock()
	for _, f := range q {
		h.tr.Dispatch(f)
	}
}

var (
	_ dispatcher.Dispatcher = (*tracker)(nil)
	_ dispatcher.Dispatcher = (*holdDisp)(nil)
)

// ---------------------------------------------------------------- the two systems

type cmd struct {
	do func(ctx vivid.ActorContext)
}

type env struct {
	mu     sync.Mutex
	sys    [2]*vivid.ActorSystem
	tr     *tracker
	fence  chan string
	fseq   int
	counts map[string]*[2][nNames]int // URL named by the notice -> handled by (node, name)
}

const (
	fenceTag     = "c06-fence"
	quietTimeout = 8 * time.Second
)

var silent = slog.New(slog.NewTextHandler(io.Discard, &slog.HandlerOptions{Level: slog.Level(100)}))

type obsActor struct {
	e          *env
	node, name int
}

func (a *obsActor) OnReceive(ctx vivid.ActorContext) {
	switch m := ctx.Message().(type) {
	case *vivid.OnTerminated:
		if m.TerminatedActor != nil && !m.TerminatedActor.Equal(ctx.Ref()) {
			u := m.TerminatedActor.URL().String()
			a.e.mu.Lock()
			c := a.e.counts[u]
			if c == nil {
				c = &[2][nNames]int{}
				a.e.counts[u] = c
			}
			c[a.node][a.name]++
			a.e.mu.Unlock()
		}
	case *cmd:
		m.do(ctx)
	}
}

type idleActor struct{}

func (idleActor) OnReceive(ctx vivid.ActorContext) {}

type targetActor struct {
	e    *env
	hold *holdDisp
}

func (t *targetActor) OnReceive(ctx vivid.ActorContext) {
	if _, ok := ctx.Message().(*vivid.OnLaunch); ok {
		ctx.ActorOfF(func() vivid.Actor { return idleActor{} }, func(d *vivid.ActorDescriptor) {
			d.WithName("c")
			d.WithDispatcherProvider(vivid.FunctionalDispatcherProvider(func() dispatcher.Dispatcher { return t.hold }))
		})
	}
}

type fenceActor struct{ e *env }

func (a *fenceActor) OnReceive(ctx vivid.ActorContext) {
	if m, ok := ctx.Message().(*prc.ProcessId); ok && m.LogicalAddress == fenceTag {
		select {
		case a.e.fence <- m.PhysicalAddress:
		default:
		}
	}
}

func (e *env) tracked() vivid.DispatcherProvider {
	return vivid.FunctionalDispatcherProvider(func() dispatcher.Dispatcher { return e.tr })
}

func newEnv() (e *env, err error) {
	defer func() {
		if r := recover(); r != nil {
			err = fmt.Errorf("%v", r)
		}
	}()
	e = &env{tr: newTracker(), fence: make(chan string, 64), counts: map[string]*[2][nNames]int{}}
	vivid.VerifSetDefaultDispatcher(e.tr)
	for i := 0; i < 2; i++ {
		i := i
		e.sys[i] = vivid.NewActorSystem(vivid.FunctionalActorSystemConfigurator(func(c *vivid.ActorSystemConfiguration) {
			c.WithLoggerProvider(log.FunctionalLoggerProvider(func() *log.Logger { return silent }))
			c.WithShared("127.0.0.1:0")
			c.WithName(fmt.Sprintf("c06n%d", i))
		}))
		e.sys[i].ActorOfF(func() vivid.Actor { return &fenceActor{e: e} }, func(d *vivid.ActorDescriptor) {
			d.WithName("fence")
			d.WithDispatcherProvider(e.tracked())
		})
		for a := 0; a < nNames; a++ {
			a := a
			e.sys[i].ActorOfF(func() vivid.Actor { return &obsActor{e: e, node: i, name: a} }, func(d *vivid.ActorDescriptor) {
				d.WithName(actorName(a))
				d.WithDispatcherProvider(e.tracked())
			})
		}
	}
	if !e.tr.quiet(quietTimeout) {
		return e, fmt.Errorf("system start did not become quiet")
	}
	// open the link (node 0 dials, node 1 reuses the stream): before the first script both directions work
	for round := 0; round < 2; round++ {
		for i := 0; i < 2; i++ {
			if !e.doFence(i) {
				return e, fmt.Errorf("the link between the two systems did not come up")
			}
		}
		time.Sleep(20 * time.Millisecond)
		if !e.tr.quiet(quietTimeout) {
			return e, fmt.Errorf("link setup did not become quiet")
		}
	}
	return e, nil
}

// doFence sends a fence from node `from` to the fence actor of the other node and waits for its arrival.
func (e *env) doFence(from int) bool {
	e.fseq++
	id := strconv.Itoa(e.fseq)
	to := 1 - from
	e.sys[from].Tell(vivid.NewActorRef(e.sys[to].PhysicalAddress(), "/user/fence"), &prc.ProcessId{LogicalAddress: fenceTag, PhysicalAddress: id})
	deadline := time.After(quietTimeout)
	for {
		select {
		case got := <-e.fence:
			if got == id {
				return true
			}
		case <-deadline:
			return false
		}
	}
}

// settle: everything the operation of node `node` caused, on either node, has been handled.
func (e *env) settle(node int) string {
	if !e.tr.quiet(quietTimeout) {
		return "the systems did not become quiescent within " + quietTimeout.String()
	}
	for _, from := range []int{node, 1 - node} {
		if !e.doFence(from) {
			return "a fence sent over the link did not arrive within " + quietTimeout.String()
		}
		if !e.tr.quiet(quietTimeout) {
			return "the systems did not become quiescent within " + quietTimeout.String()
		}
	}
	return ""
}

func (e *env) shutdown() {
	for i := 0; i < 2; i++ {
		s := e.sys[i]
		if s == nil {
			continue
		}
		done := make(chan struct{})
		go func() {
			defer func() { _ = recover(); close(done) }()
			s.Shutdown(false)
		}()
		select {
		case <-done:
		case <-time.After(3 * time.Second):
		}
	}
}

func (e *env) obsRef(n, a int) vivid.ActorRef {
	return vivid.NewActorRef(e.sys[n].PhysicalAddress(), "/user/"+actorName(a))
}

func (e *env) view(url string) []int {
	e.mu.Lock()
	defer e.mu.Unlock()
	v := make([]int, 0, 2*nNames)
	c := e.counts[url]
	for n := 0; n < 2; n++ {
		for a := 0; a < nNames; a++ {
			if c == nil {
				v = append(v, 0)
			} else {
				v = append(v, c[n][a])
			}
		}
	}
	return v
}

// ---------------------------------------------------------------- driver

type driver struct {
	e      *env
	tseq   int // targets are numbered across the whole run: never the same address twice
	lost   int // scripts repeated on fresh systems after a lost step
	prev   *done
	starts int
	stuck  int // scripts that lost a step even when repeated on fresh systems (each costs quietTimeout)
}

type done struct {
	c     Case
	url   string
	final []int
}

func (d *driver) fresh() error {
	if d.e != nil {
		go d.e.shutdown()
		d.e = nil
	}
	d.prev = nil
	e, err := newEnv()
	if err != nil {
		if e != nil {
			go e.shutdown()
		}
		return err
	}
	d.e = e
	d.starts++
	return nil
}

// runOnce runs the script on the current pair of systems with a fresh target; false = a step was lost.
func (d *driver) runOnce(c *Case) (url string, ok bool) {
	c.Impl, c.Err, c.Stray, c.TwinLost = c.Impl[:0], "", nil, ""
	if d.e == nil {
		if err := d.fresh(); err != nil {
			c.Err = err.Error()
			return "", false
		}
	}
	e := d.e
	d.tseq++
	tname := fmt.Sprintf("t%d", d.tseq)
	taddr := "/user/p/" + tname
	newRef := func() vivid.ActorRef { return vivid.NewActorRef(e.sys[0].PhysicalAddress(), taddr) }
	url = newRef().URL().String()
	var hold *holdDisp
	if !c.Absent {
		hold = &holdDisp{tr: e.tr}
		e.sys[0].Tell(e.obsRef(0, 0), &cmd{do: func(ctx vivid.ActorContext) {
			ctx.ActorOfF(func() vivid.Actor { return &targetActor{e: e, hold: hold} }, func(ds *vivid.ActorDescriptor) {
				ds.WithName(tname)
				ds.WithDispatcherProvider(e.tracked())
			})
		}})
		if why := e.settle(0); why != "" {
			c.Err = "spawning the target: " + why
			return url, false
		}
	}
	twinRef := vivid.NewActorRef(e.sys[1].PhysicalAddress(), taddr)
	if c.Twin {
		e.sys[1].Tell(e.obsRef(1, 0), &cmd{do: func(ctx vivid.ActorContext) {
			ctx.ActorOfF(func() vivid.Actor { return idleActor{} }, func(ds *vivid.ActorDescriptor) {
				ds.WithName(tname)
				ds.WithDispatcherProvider(e.tracked())
			})
		}})
		if why := e.settle(1); why != "" {
			c.Err = "spawning the twin child on node 1: " + why
			return url, false
		}
	}
	var kept [2][nNames]vivid.ActorRef
	refFor := func(n, a int) vivid.ActorRef {
		if !c.Cached {
			return newRef()
		}
		if kept[n][a] == nil {
			kept[n][a] = newRef()
		}
		return kept[n][a]
	}
	begun := false
	for i, o := range c.Ops {
		node := 0
		switch o.K {
		case "W", "U":
			if o.N < 0 || o.N > 1 || o.A < 0 || o.A >= nNames {
				panic("bad watcher in " + opStr(o))
			}
			node = o.N
			ref, watch := refFor(o.N, o.A), o.K == "W"
			e.sys[o.N].Tell(e.obsRef(o.N, o.A), &cmd{do: func(ctx vivid.ActorContext) {
				if watch {
					ctx.Watch(ref)
				} else {
					ctx.UnWatch(ref)
				}
			}})
		case "TB":
			hold.hold()
			begun = true
			ref, g := newRef(), o.G
			if o.By == "parent" {
				e.sys[0].Tell(e.obsRef(0, 0), &cmd{do: func(ctx vivid.ActorContext) { ctx.Terminate(ref, g) }})
			} else {
				e.sys[0].Terminate(ref, g)
			}
		case "TE":
			hold.release()
		default:
			panic("bad op " + o.K)
		}
		if why := e.settle(node); why != "" {
			c.Err = fmt.Sprintf("step #%d %s: %s", i, opStr(o), why)
			return url, false
		}
		c.Impl = append(c.Impl, e.view(url))
	}
	// leave nothing behind: a target that was never told to terminate, or whose child is still held
	if !c.Absent {
		hold.release()
		if !begun {
			e.sys[0].Terminate(newRef(), false)
		}
		if why := e.settle(0); why != "" {
			c.Err = "cleaning up after the script: " + why
			return url, false
		}
	}
	if c.Twin {
		// the children table of node 1's /user/p, read through the public API inside its own handler; then the twin is stopped
		seen := make(chan string, 1)
		e.sys[1].Tell(e.obsRef(1, 0), &cmd{do: func(ctx vivid.ActorContext) {
			var names []string
			found := false
			for _, r := range ctx.Children() {
				names = append(names, r.GetLogicalAddress())
				if r.GetLogicalAddress() == taddr {
					found = true
				}
			}
			ctx.Terminate(twinRef, false)
			if found {
				seen <- ""
			} else {
				seen <- fmt.Sprintf("ctx.Children() of /user/p on node 1 = %v: its living child %s is gone from the table", names, taddr)
			}
		}})
		select {
		case c.TwinLost = <-seen:
		case <-time.After(quietTimeout):
			c.Err = "reading the children table of /user/p on node 1 timed out"
			return url, false
		}
		if why := e.settle(1); why != "" {
			c.Err = "stopping the twin child: " + why
			return url, false
		}
	}
	e.mu.Lock()
	for u := range e.counts {
		if u != url && strings.HasSuffix(u, taddr) && !(c.Twin && u == twinRef.URL().String()) {
			c.Stray = append(c.Stray, u)
		}
	}
	e.mu.Unlock()
	return url, true
}

// run: a lost step (ports, connection set-up, an overloaded machine) is repeated on fresh systems before it counts.
func (d *driver) run(c *Case) (late []vh.Violation) {
	// whatever arrived for the previous target after its script ended arrived too late to be compared: report it
	check := func() {
		if d.prev != nil && d.e != nil {
			now := d.e.view(d.prev.url)
			if fmt.Sprint(now) != fmt.Sprint(d.prev.final) {
				late = append(late, vh.Violation{Kind: "C06:remote:late-notification",
					Detail: fmt.Sprintf("after the script had ended and both nodes were quiescent the notices for its target changed from %v to %v", d.prev.final, now),
					Case:   d.prev.c, Sig: map[string]string{"config": "two-systems"}})
			}
		}
		d.prev = nil
	}
	check()
	url, ok := d.runOnce(c)
	for try := 0; !ok && try < 2 && d.lost < 6; try++ {
		d.lost++
		if err := d.fresh(); err != nil {
			c.Err = err.Error()
			continue
		}
		url, ok = d.runOnce(c)
	}
	if !ok {
		d.stuck++
		_ = d.fresh()
		return
	}
	d.prev = &done{c: *c, url: url, final: d.e.view(url)}
	return
}

func (d *driver) close() {
	if d.e != nil {
		d.e.shutdown()
	}
}

// ---------------------------------------------------------------- monitor (the property on the harness's own ledger)

const (
	phAlive = iota
	phTerminating
	phGone
)

var phName = [...]string{"alive", "terminating", "gone"}

// ledger: what the property entitles every watcher to, step by step.
//   - a Watch answered by nobody yet stands until an UnWatch (requests of the parent do not count: it is notified anyway)
//   - when the termination completes, every standing watch and the parent are due one notice
//   - a Watch that races with the termination (the target is terminating) or follows it (nobody is registered under
//     the address) is due one notice at once; only the parent's racing Watch is not (it is about to be notified)
func monitor(c *Case) (viol []vh.Violation) {
	if c.TwinLost != "" {
		viol = append(viol, vh.Violation{Kind: "C05:remote-notice:living-child-dropped", Detail: "a termination notice about an actor of ANOTHER node that has the " +
			"same logical address as a living local child made the parent forget that child (it would finish terminating before the child, and Shutdown would not wait for it): " + c.TwinLost,
			Case: *c, Sig: map[string]string{"config": "two-systems"}})
	}
	add := func(i int, kind, detail string, sig map[string]string) {
		if len(viol) < 4 {
			sig["config"] = "two-systems"
			if i >= 0 && i < len(c.Ops) {
				sig["op"] = c.Ops[i].K
				detail = fmt.Sprintf("step #%d %s: %s", i, opStr(c.Ops[i]), detail)
			}
			viol = append(viol, vh.Violation{Kind: kind, Detail: detail, Sig: sig})
		}
	}
	if c.Err != "" {
		add(-1, "C06:remote:no-quiescence", c.Err, map[string]string{})
		return
	}
	for _, u := range c.Stray {
		add(-1, "C06:remote:unentitled-notification", "an OnTerminated names "+u+", which is not the address of the target", map[string]string{"why": "wrong-address"})
	}
	phase := phAlive
	if c.Absent {
		phase = phGone
	}
	var standing [2][nNames]bool
	var due [2][nNames]int
	var flagged [2][nNames]bool
	for i, o := range c.Ops {
		if i >= len(c.Impl) {
			break
		}
		parent := o.N == 0 && o.A == 0
		switch o.K {
		case "W":
			switch phase {
			case phAlive:
				if !parent {
					standing[o.N][o.A] = true
				}
			case phTerminating:
				if !parent {
					due[o.N][o.A]++
				}
			case phGone:
				due[o.N][o.A]++
			}
		case "U":
			if phase != phGone {
				standing[o.N][o.A] = false
			}
		case "TB":
			if phase == phAlive {
				phase = phTerminating
			}
		case "TE":
			if phase == phTerminating {
				phase = phGone
				due[0][0]++
				for n := 0; n < 2; n++ {
					for a := 0; a < nNames; a++ {
						if standing[n][a] {
							due[n][a]++
						}
					}
				}
			}
		}
		got := c.Impl[i]
		for n := 0; n < 2; n++ {
			for a := 0; a < nNames; a++ {
				if flagged[n][a] || len(got) != 2*nNames {
					continue
				}
				g, w := got[n*nNames+a], due[n][a]
				if g == w {
					continue
				}
				flagged[n][a] = true
				who := fmt.Sprintf("%s on node %d", actorName(a), n)
				if n == 0 && a == 0 {
					who += " (the parent)"
				}
				namesake := "no"
				if standing[1-n][a] || due[1-n][a] > 0 {
					namesake = "yes"
				}
				sig := map[string]string{"phase": phName[phase], "watcher_node": strconv.Itoa(n), "namesake_active": namesake}
				switch {
				case g < w:
					add(i, "C06:remote:missing-notification", fmt.Sprintf("%s has handled %d OnTerminated naming the target, %d due by now (phase %s)", who, g, w, phName[phase]), sig)
				case w == 0:
					add(i, "C06:remote:unentitled-notification", fmt.Sprintf("%s has handled %d OnTerminated naming the target and none is due to it (phase %s: no termination completed with a standing watch of it or as its parent, no racing or late watch of it)", who, g, phName[phase]), sig)
				default:
					add(i, "C06:remote:duplicate-notification", fmt.Sprintf("%s has handled %d OnTerminated naming the target, %d due (phase %s)", who, g, w, phName[phase]), sig)
				}
			}
		}
	}
	return
}

// ---------------------------------------------------------------- Coq terms (MV.C06.RemoteWatchModel / RemoteWatchRun)

func coqWid(n, a int) string { return fmt.Sprintf("w%d%d", n, a) } // constants of RemoteWatchRun.v (no numerals to elaborate)

func coqOp(o Op) string {
	switch o.K {
	case "W":
		return vh.App("RWatch", coqWid(o.N, o.A))
	case "U":
		return vh.App("RUnwatch", coqWid(o.N, o.A))
	case "TB":
		return "RTermBegin"
	case "TE":
		return "RTermEnd"
	}
	panic(o.K)
}

// coqCase: the recorded numbers go to Coq as increments per step (positions of the watchers whose number went up,
// repeated once per notice): most steps change nothing, and numerals are what costs elaboration time.
func coqCase(id int, c *Case) string {
	ops := make([]string, len(c.Ops))
	for i, o := range c.Ops {
		ops[i] = coqOp(o)
	}
	rows := make([]string, len(c.Impl))
	prev := make([]int, 2*nNames)
	for i, r := range c.Impl {
		var inc []int
		if len(r) != len(prev) {
			inc = []int{98}
		} else {
			for k := range r {
				if r[k] < prev[k] {
					inc = append(inc, 98)
				}
				for j := prev[k]; j < r[k]; j++ {
					inc = append(inc, k)
				}
			}
			prev = r
		}
		if len(inc) == 0 {
			rows[i] = "[]"
		} else {
			rows[i] = vh.ListNat(inc)
		}
	}
	return fmt.Sprintf("{| rwid := Z.to_nat %d; rwabsent := %s; rwops := %s; rwimpl := %s |}", id, vh.Bool(c.Absent), vh.List(ops), vh.List(rows))
}

// ---------------------------------------------------------------- generator

func gen(rng *vh.RNG) Case {
	var c Case
	c.Absent = rng.Chance(1, 10)
	c.Cached = rng.Bool()
	// the names in play: few, so that the same name is used on both nodes in most scripts
	var names []int
	for _, a := range []int{1, 2, 3, 0} {
		if rng.Chance(2, 5) {
			names = append(names, a)
		}
	}
	if len(names) == 0 {
		names = []int{1 + rng.Intn(3)}
	}
	req := func(pWatch int) Op {
		o := Op{K: "U", N: rng.Intn(2), A: names[rng.Intn(len(names))]}
		if rng.Intn(100) < pWatch {
			o.K = "W"
		}
		return o
	}
	term := func() Op {
		o := Op{K: "TB", G: rng.Bool()}
		if rng.Bool() {
			o.By = "parent"
		}
		return o
	}
	if c.Absent {
		for n := rng.Range(1, 8); n > 0; n-- {
			c.Ops = append(c.Ops, req(70))
		}
		if rng.Chance(1, 4) {
			c.Ops = append(c.Ops, term(), Op{K: "TE"}, req(70))
		}
		return c
	}
	for n := rng.Range(0, 7); n > 0; n-- {
		c.Ops = append(c.Ops, req(65))
	}
	c.Ops = append(c.Ops, term())
	if rng.Chance(1, 2) {
		for n := rng.Range(1, 3); n > 0; n-- {
			c.Ops = append(c.Ops, req(60))
		}
	}
	c.Ops = append(c.Ops, Op{K: "TE"})
	for n := rng.Range(0, 3); n > 0; n-- {
		c.Ops = append(c.Ops, req(75))
	}
	// a fifth of the scripts: node 1's /user/p has a child under the target's logical address and watches the target
	if rng.Chance(1, 5) {
		c.Twin = true
		at := rng.Intn(len(c.Ops) + 1)
		c.Ops = append(c.Ops[:at], append([]Op{{K: "W", N: 1, A: 0}}, c.Ops[at:]...)...)
	}
	// now and then a redundant termination step somewhere: a second terminate request, a release with nothing held
	if rng.Chance(1, 8) {
		extra := Op{K: "TE"}
		if rng.Bool() {
			extra = term()
		}
		at := rng.Intn(len(c.Ops) + 1)
		c.Ops = append(c.Ops[:at], append([]Op{extra}, c.Ops[at:]...)...)
	}
	return c
}

func corpus() []Case {
	w := func(n, a int) Op { return Op{K: "W", N: n, A: a} }
	u := func(n, a int) Op { return Op{K: "U", N: n, A: a} }
	tb, te := Op{K: "TB"}, Op{K: "TE"}
	return []Case{
		// same name on both nodes, both keep watching
		{Ops: []Op{w(0, 1), w(1, 1), tb, te}},
		{Ops: []Op{w(1, 1), w(0, 1), tb, te}, Cached: true},
		// the remote namesake unwatches: the local one is still due its notice (and the other way round)
		{Ops: []Op{w(0, 1), w(1, 1), u(1, 1), tb, te}},
		{Ops: []Op{w(1, 2), w(0, 2), u(0, 2), {K: "TB", G: true, By: "parent"}, te}, Cached: true},
		// the parent watches; its namesake on the other node is an ordinary watcher
		{Ops: []Op{w(0, 0), w(1, 0), w(0, 0), tb, w(0, 0), w(1, 0), te, w(0, 0), w(1, 0)}},
		// duplicates, racing and late requests, unwatch while terminating
		{Ops: []Op{w(1, 3), w(1, 3), w(0, 3), tb, w(1, 3), u(0, 3), w(0, 2), te, w(0, 3), w(1, 3), u(1, 3)}},
		// an address that never existed
		{Absent: true, Ops: []Op{w(0, 1), w(1, 1), u(1, 1), w(1, 1), w(0, 0)}},
		// the namesake of the parent on the other node has a child under the target's logical address
		{Twin: true, Ops: []Op{w(1, 0), w(0, 1), tb, te}},
		{Twin: true, Cached: true, Ops: []Op{w(0, 0), tb, w(1, 0), te, w(1, 0)}},
	}
}

// ---------------------------------------------------------------- recording

var twins int

func record(out *vh.Out, d *driver, c *Case) {
	late := d.run(c)
	if c.Twin && c.Err == "" {
		twins++
	}
	v := append(monitor(c), late...)
	// input distribution
	phase := phAlive
	if c.Absent {
		phase = phGone
	}
	var active, before [2][nNames]bool
	wAfter, wDuring, uBefore, uDuring, uAfter, parentW, dup := 0, 0, 0, 0, 0, 0, 0
	var standing [2][nNames]bool
	bothStanding := 0
	for _, o := range c.Ops {
		out.Count("op_mix", o.K)
		switch o.K {
		case "W", "U":
			active[o.N][o.A] = true
			if phase != phGone {
				before[o.N][o.A] = true
			}
			if o.N == 0 && o.A == 0 && o.K == "W" {
				parentW++
			}
			switch {
			case o.K == "W" && phase == phAlive:
				if standing[o.N][o.A] {
					dup++
				}
				standing[o.N][o.A] = true
			case o.K == "W" && phase == phTerminating:
				wDuring++
			case o.K == "W":
				wAfter++
			case phase == phAlive:
				uBefore++
				standing[o.N][o.A] = false
			case phase == phTerminating:
				uDuring++
				standing[o.N][o.A] = false
			default:
				uAfter++
			}
		case "TB":
			if phase == phAlive {
				phase = phTerminating
				out.Count("terminate_by", map[bool]string{true: "parent", false: "system"}[o.By == "parent"])
				out.Count("terminate_graceful", fmt.Sprint(o.G))
			} else {
				out.Count("redundant_step", "TB while "+phName[phase])
			}
		case "TE":
			if phase == phTerminating {
				phase = phGone
				for a := 1; a < nNames; a++ {
					if standing[0][a] && standing[1][a] {
						bothStanding++
					}
				}
			} else {
				out.Count("redundant_step", "TE while "+phName[phase])
			}
		}
	}
	pairs, pairsBefore := 0, 0
	per := [2]int{}
	for a := 0; a < nNames; a++ {
		if active[0][a] && active[1][a] {
			pairs++
		}
		if before[0][a] && before[1][a] {
			pairsBefore++
		}
		for n := 0; n < 2; n++ {
			if active[n][a] {
				per[n]++
			}
		}
	}
	out.Count("watchers_node0", fmt.Sprint(per[0]))
	out.Count("watchers_node1", fmt.Sprint(per[1]))
	out.Count("same_name_pairs", fmt.Sprint(pairs))
	out.Count("same_name_pairs_requesting_before_termination_ends", fmt.Sprint(pairsBefore))
	out.Count("same_name_pairs_both_standing_at_termination", fmt.Sprint(bothStanding))
	out.Count("watch_after_termination", fmt.Sprint(wAfter))
	out.Count("watch_during_termination", fmt.Sprint(wDuring))
	out.Count("unwatch_before_termination", fmt.Sprint(uBefore))
	out.Count("unwatch_during_termination", fmt.Sprint(uDuring))
	out.Count("unwatch_after_termination", fmt.Sprint(uAfter))
	out.Count("duplicate_watch_while_alive", fmt.Sprint(dup))
	out.Count("parent_watches", fmt.Sprint(parentW))
	out.Count("target", map[bool]string{true: "never existed", false: "spawned"}[c.Absent])
	out.Count("reference", map[bool]string{true: "kept per watcher", false: "fresh per request"}[c.Cached])
	out.Count("history_len", vh.Bucket(len(c.Ops)))
	if c.Err != "" {
		out.Count("step_result", "lost")
	} else if len(c.Impl) > 0 {
		for _, g := range c.Impl[len(c.Impl)-1] {
			out.Count("final_notices_per_watcher", fmt.Sprint(g))
		}
	}
	nontrivial := !c.Absent && pairsBefore >= 1 && (uBefore+uDuring) >= 1 || !c.Absent && bothStanding >= 1
	out.Add(c, coqCase(out.N(), c), nontrivial, v)
}

func main() {
	twinOnly := flag.Bool("twin", false, "only scripts in which /user/p of node 1 has a child under the target's logical address and watches the target (run by C05)")
	f := vh.ParseFlags()
	d := &driver{}
	if f.Replay != "" {
		var c Case
		vh.LoadReplayCase(f.Replay, &c)
		want := append([][]int(nil), c.Impl...)
		late := d.run(&c)
		v := append(monitor(&c), late...)
		d.close()
		b, _ := json.Marshal(map[string]interface{}{"case": c, "recorded_impl": want, "monitor": v})
		fmt.Println(string(b))
		if len(v) > 0 {
			os.Exit(1)
		}
		return
	}
	out := vh.NewOut(f.Out, "remote", "From MV Require Import Lib.ListX C06.RemoteWatchModel C06.RemoteWatchRun.", "rwcase", "rwmismatches", f.Seed,
		"two REAL actor systems linked through sharing on 127.0.0.1 (ephemeral ports), reused across scripts; recording actors p, w1, w2, w3 with the "+
			"SAME names (logical addresses) on both nodes, /user/p of node 0 spawns a fresh target per script (its child's dispatcher can be held: the "+
			"target waits, Terminating); scripts = Watch / UnWatch by the eight actors before, while and after the target terminates (TB, TE), or of an "+
			"address that never existed; after every step quiescence of both nodes + a fence over the link in each direction, then the notices handled "+
			"so far by each of the eight actors are recorded and compared with the model step by step; non-trivial = two actors with the same name on "+
			"different nodes both request before the termination completes and somebody unwatches, or both have a standing watch when it completes; "+
			"distinct by hash of the script")
	rng := vh.NewRNG(f.Seed ^ 0xc06e)
	for _, c := range corpus() {
		c := c
		record(out, d, &c)
	}
	n := 2000
	if f.Tier == "thorough" {
		n = 20000
	}
	if f.N != 0 {
		n = f.N
	}
	for i := 0; i < n; i++ {
		cr, _ := rng.Derive()
		c := gen(cr)
		if *twinOnly && !c.Twin {
			if c.Absent {
				continue
			}
			c.Twin = true
			at := cr.Intn(len(c.Ops) + 1)
			c.Ops = append(c.Ops[:at], append([]Op{{K: "W", N: 1, A: 0}}, c.Ops[at:]...)...)
		}
		record(out, d, &c)
		if d.stuck >= 4 {
			// a tree on which the systems hang: every further script would cost the quiescence timeout; the hits are recorded
			out.Count("aborted_after_scripts", fmt.Sprint(i+1))
			break
		}
	}
	// the last script's target as well
	if late := d.run(&Case{Absent: true}); len(late) > 0 {
		c := Case{Absent: true}
		out.Add(&c, "", false, late)
	}
	out.Count("twin_scripts", fmt.Sprint(twins))
	out.Count("pairs_of_systems_started", fmt.Sprint(d.starts))
	out.Count("scripts_repeated_after_a_lost_step", fmt.Sprint(d.lost))
	d.close()
	out.Close()
}
