// c12equal: correspondence harness (T1) for "two references are equal exactly when node and local address
// both match" — whatever the hidden cache field of either *prc.ProcessId holds.
//
// A case is a script over a table of real *prc.ProcessId objects: constructors (NewProcessId, nil, Clone,
// Derivation, protobuf round trip), registry operations of the real prc.ResourceController that move the
// cache of a reference through its states (never resolved / resolved to a process of its own / resolved to a
// process SHARED with a reference of another address: one process registered under two addresses, or a
// PhysicalAddressResolver that returns one process per remote node as engine/prc/shared.go does / resolved and
// then terminated), and observations: `view r` (getters, URL, Clone, Derivation of one reference) and `sweep`
// (Equal over every ordered pair of the table). The observations are compared with MV.C12.EqModel in Coq and
// judged by monitors that restate the property on the recorded outputs alone.
package main

import (
	"encoding/json"
	"fmt"
	"os"
	"runtime"
	"strings"
	"sync/atomic"

	"github.com/kercylan98/minotaur/engine/prc"
	"google.golang.org/protobuf/proto"
	"verif/harness/vh"
)

// ---------------------------------------------------------------- case

type Proc struct {
	K    string `json:"k"` // L (stub handed to Register) | N (resolver: per node) | I (resolver: per id)
	N    int    `json:"n,omitempty"`
	Node string `json:"node,omitempty"`
	Path string `json:"path,omitempty"`
}

func (p Proc) String() string {
	switch p.K {
	case "L":
		return fmt.Sprintf("stub#%d", p.N)
	case "N":
		return fmt.Sprintf("stream(%s)", p.Node)
	}
	return fmt.Sprintf("remote(%s%s)", p.Node, p.Path)
}

type Op struct {
	K    string `json:"k"` // new nil clone derive proto reg unreg get kill view sweep
	Ph   string `json:"ph,omitempty"`
	Ld   string `json:"ld,omitempty"`
	R    int    `json:"r,omitempty"`    // reference the operation works on (source of clone/derive/proto)
	Name string `json:"name,omitempty"` // derive
	Via  string `json:"via,omitempty"`  // proto: marshal | clone (proto.Clone)
	P    int    `json:"p,omitempty"`    // reg: stub number
	Proc *Proc  `json:"proc,omitempty"` // kill
}

type Res struct {
	K     string      `json:"k"`              // addr reg unit proc view mat nilpanic bad
	Addr  *[2]string  `json:"addr,omitempty"` // addr: nil pointer = nil reference
	Exist bool        `json:"exist,omitempty"`
	Proc  *Proc       `json:"proc,omitempty"` // proc: nil = dead letters
	View  [][2]string `json:"view,omitempty"`
	Mat   []bool      `json:"mat,omitempty"`
	Err   string      `json:"err,omitempty"`
}

type World struct {
	Local string `json:"local"`
	Res   string `json:"res"` // none | node | id | one
}

type Case struct {
	Note   string   `json:"note,omitempty"` // the scenario the generator aimed at
	World  World    `json:"world"`
	Ops    []Op     `json:"ops"`
	Impl   []Res    `json:"impl"`
	Script []string `json:"script,omitempty"` // the run rendered as Go-like statements with their results
}

// ---------------------------------------------------------------- implementation run

type stub struct {
	name Proc
	flag atomic.Bool
}

func (s *stub) Initialize(rc *prc.ResourceController, id *prc.ProcessId)                            {}
func (s *stub) DeliveryUserMessage(receiver, sender, forward *prc.ProcessId, message prc.Message)   {}
func (s *stub) DeliverySystemMessage(receiver, sender, forward *prc.ProcessId, message prc.Message) {}
func (s *stub) IsTerminated() bool                                                                  { return s.flag.Load() }
func (s *stub) Terminate(source *prc.ProcessId)                                                     { s.flag.Store(true) }

type env struct {
	w     World
	rc    *prc.ResourceController
	dead  *stub
	procs map[string]*stub
	refs  []*prc.ProcessId
}

func procKey(p Proc) string { return fmt.Sprintf("%s|%d|%s|%s", p.K, p.N, p.Node, p.Path) }

func (e *env) proc(p Proc) *stub {
	k := procKey(p)
	s := e.procs[k]
	if s == nil {
		s = &stub{name: p}
		e.procs[k] = s
	}
	return s
}

func newEnv(w World) *env {
	e := &env{w: w, procs: map[string]*stub{}, dead: &stub{name: Proc{K: "dead"}}}
	e.rc = prc.NewResourceController(prc.FunctionalResourceControllerConfigurator(func(cfg *prc.ResourceControllerConfiguration) {
		cfg.WithPhysicalAddress(w.Local).WithNotFoundSubstitute(e.dead)
	}))
	if w.Res != "none" {
		// as engine/prc/shared.go: the resolver is asked for every id that does not belong to this controller
		e.rc.RegisterResolver(prc.FunctionalPhysicalAddressResolver(func(id *prc.ProcessId) prc.Process {
			switch w.Res {
			case "node": // shared.go: streams.Load(id.GetPhysicalAddress()) — ONE process per remote node
				return e.proc(Proc{K: "N", Node: id.GetPhysicalAddress()})
			case "id":
				return e.proc(Proc{K: "I", Node: id.GetPhysicalAddress(), Path: id.GetLogicalAddress()})
			}
			return e.proc(Proc{K: "L", N: 0}) // "one": a gateway process that is also registered locally
		}))
	}
	return e
}

func refName(i int) string { return fmt.Sprintf("r%d", i) }

func addrOf(id *prc.ProcessId) *[2]string {
	return &[2]string{id.GetPhysicalAddress(), id.GetLogicalAddress()}
}

func (e *env) apply(o Op) (res Res, line string) {
	defer func() {
		if x := recover(); x != nil {
			if re, ok := x.(runtime.Error); ok && strings.Contains(re.Error(), "nil pointer dereference") {
				res = Res{K: "nilpanic"}
			} else {
				res = Res{K: "bad", Err: fmt.Sprint(x)}
			}
			line = fmt.Sprintf("%s(%s ...) panicked: %v", o.K, refName(o.R), x)
		}
	}()
	ref := func(i int) *prc.ProcessId {
		if i < 0 || i >= len(e.refs) {
			panic(fmt.Sprintf("no reference %d", i))
		}
		return e.refs[i]
	}
	push := func(id *prc.ProcessId, how string) (Res, string) {
		e.refs = append(e.refs, id)
		n := refName(len(e.refs) - 1)
		if id == nil {
			return Res{K: "addr"}, fmt.Sprintf("%s := %s", n, how)
		}
		a := addrOf(id)
		return Res{K: "addr", Addr: a}, fmt.Sprintf("%s := %s  // (%q, %q)", n, how, a[0], a[1])
	}
	switch o.K {
	case "new":
		return push(prc.NewProcessId(o.Ph, o.Ld), fmt.Sprintf("prc.NewProcessId(%q, %q)", o.Ph, o.Ld))
	case "nil":
		return push(nil, "(*prc.ProcessId)(nil)")
	case "clone":
		return push(ref(o.R).Clone(), refName(o.R)+".Clone()")
	case "derive":
		return push(ref(o.R).Derivation(o.Name), fmt.Sprintf("%s.Derivation(%q)", refName(o.R), o.Name))
	case "proto":
		if o.Via == "clone" {
			return push(proto.Clone(ref(o.R)).(*prc.ProcessId), fmt.Sprintf("proto.Clone(%s)", refName(o.R)))
		}
		b, err := proto.Marshal(ref(o.R))
		if err != nil {
			panic(err)
		}
		id := &prc.ProcessId{}
		if err = proto.Unmarshal(b, id); err != nil {
			panic(err)
		}
		return push(id, fmt.Sprintf("proto.Unmarshal(proto.Marshal(%s))", refName(o.R)))
	case "reg":
		_, exist := e.rc.Register(ref(o.R), e.proc(Proc{K: "L", N: o.P}))
		return Res{K: "reg", Exist: exist}, fmt.Sprintf("rc.Register(%s, stub#%d)  // exist=%v", refName(o.R), o.P, exist)
	case "unreg":
		e.rc.Unregister(nil, ref(o.R))
		return Res{K: "unit"}, fmt.Sprintf("rc.Unregister(nil, %s)", refName(o.R))
	case "get":
		p := e.rc.GetProcess(ref(o.R))
		s, ok := p.(*stub)
		if !ok || s == nil {
			return Res{K: "bad", Err: fmt.Sprintf("GetProcess returned %T", p)}, fmt.Sprintf("rc.GetProcess(%s)  // %T", refName(o.R), p)
		}
		if s == e.dead {
			return Res{K: "proc"}, fmt.Sprintf("rc.GetProcess(%s)  // dead letters", refName(o.R))
		}
		n := s.name
		return Res{K: "proc", Proc: &n}, fmt.Sprintf("rc.GetProcess(%s)  // %s%s", refName(o.R), n, map[bool]string{true: " (terminated)"}[s.flag.Load()])
	case "kill":
		e.proc(*o.Proc).flag.Store(true)
		return Res{K: "unit"}, fmt.Sprintf("%s terminates itself", *o.Proc)
	case "view":
		id := ref(o.R)
		u := id.URL()
		v := [][2]string{*addrOf(id), {u.Host, u.Path}, *addrOf(id.Clone()), *addrOf(id.Derivation("k"))}
		return Res{K: "view", View: v}, fmt.Sprintf("view(%s)  // getters %q URL %q Clone %q Derivation(\"k\") %q", refName(o.R), v[0], v[1], v[2], v[3])
	case "sweep":
		n := len(e.refs)
		m := make([]bool, 0, n*n)
		var rows []string
		for i := 0; i < n; i++ {
			row := ""
			for j := 0; j < n; j++ {
				eq := e.refs[i].Equal(e.refs[j])
				m = append(m, eq)
				row += map[bool]string{true: "1", false: "0"}[eq]
			}
			rows = append(rows, row)
		}
		return Res{K: "mat", Mat: m}, "ri.Equal(rj) for all i, j  // " + strings.Join(rows, " ")
	}
	panic("bad op " + o.K)
}

func runImpl(c *Case) {
	e := newEnv(c.World)
	c.Impl = make([]Res, 0, len(c.Ops))
	c.Script = make([]string, 0, len(c.Ops))
	for _, o := range c.Ops {
		r, line := e.apply(o)
		c.Impl = append(c.Impl, r)
		c.Script = append(c.Script, line)
	}
}

// ---------------------------------------------------------------- what the recorded run says about each reference

// track replays the recorded outputs (never the implementation) and keeps, per reference, the address it was
// constructed with and a shadow of its cache: the process the last lookup through it returned.
type track struct {
	addr    []*[2]string // nil = nil reference
	looked  []bool
	cached  []*Proc
	flagged map[string]bool
	mp      map[string]Proc // logical address -> registered stub (from the recorded Register results)
}

func newTrack() *track { return &track{flagged: map[string]bool{}, mp: map[string]Proc{}} }

func (t *track) feed(o Op, r Res) {
	switch o.K {
	case "new", "nil", "clone", "derive", "proto":
		if r.K == "addr" {
			t.addr = append(t.addr, r.Addr)
			t.looked = append(t.looked, false)
			t.cached = append(t.cached, nil)
		}
	case "reg":
		if r.K == "reg" && !r.Exist && o.R < len(t.addr) && t.addr[o.R] != nil {
			t.mp[t.addr[o.R][1]] = Proc{K: "L", N: o.P}
		}
	case "unreg":
		if r.K == "unit" && o.R < len(t.addr) && t.addr[o.R] != nil {
			if p, ok := t.mp[t.addr[o.R][1]]; ok {
				t.flagged[procKey(p)] = true
				delete(t.mp, t.addr[o.R][1])
			}
		}
	case "kill":
		t.flagged[procKey(*o.Proc)] = true
	case "get":
		if r.K == "proc" && o.R < len(t.addr) && t.addr[o.R] != nil {
			t.looked[o.R] = true
			t.cached[o.R] = r.Proc
		}
	}
}

// cache state of reference i among the references of the table
func (t *track) state(i int) string {
	if t.addr[i] == nil {
		return "nil"
	}
	if !t.looked[i] {
		return "never"
	}
	if t.cached[i] == nil {
		return "empty" // looked up, dead letters: nothing cached
	}
	s := "own"
	for j := range t.addr {
		if j != i && t.addr[j] != nil && t.cached[j] != nil && *t.cached[j] == *t.cached[i] && *t.addr[j] != *t.addr[i] {
			s = "shared" // another reference with a DIFFERENT address caches the same process object
		}
	}
	if t.flagged[procKey(*t.cached[i])] {
		s = "stale-" + s
	}
	return s
}

func sameProc(a, b *Proc) bool { return a != nil && b != nil && *a == *b }

// ---------------------------------------------------------------- property monitors (independent of the Coq model)

type stats struct {
	sweeps, pairs          int
	sharedDifferent        int // ordered non-nil pairs compared while both caches hold ONE process and the addresses differ
	equalDifferentState    int // ordered pairs of equal addresses compared in different cache states
	nilPairs, expEq, expNe int
	statePairs             map[string]int
	viewsAfterCacheChange  int
}

func monitor(c *Case) (viol []vh.Violation, st stats) {
	st.statePairs = map[string]int{}
	seen := map[string]bool{}
	add := func(fn, class, detail string) {
		k := fn + ":" + class
		if seen[k] {
			return
		}
		seen[k] = true
		viol = append(viol, vh.Violation{Kind: "id:" + k, Detail: detail, Sig: map[string]string{"function": fn, "class": class}})
	}
	t := newTrack()
	type first struct {
		verdict bool
		at      int
		states  string
	}
	firstMat := map[[2]int]first{}
	firstView := map[int]Res{}
	firstViewAt := map[int]int{}
	desc := func(i int) string {
		if t.addr[i] == nil {
			return refName(i) + "=nil"
		}
		c := "nothing"
		if t.cached[i] != nil {
			c = t.cached[i].String()
		}
		return fmt.Sprintf("%s=(%q,%q)[cache %s: %s]", refName(i), t.addr[i][0], t.addr[i][1], t.state(i), c)
	}
	line := func(k int) string {
		if k < len(c.Script) {
			return c.Script[k]
		}
		return c.Ops[k].K
	}
	for k, o := range c.Ops {
		if k >= len(c.Impl) {
			break
		}
		r := c.Impl[k]
		if r.K == "bad" {
			add(o.K, "crash", fmt.Sprintf("op #%d %s: %s", k, line(k), r.Err))
			return
		}
		t.feed(o, r)
		switch o.K {
		case "new":
			if r.K == "addr" && (r.Addr == nil || r.Addr[0] != o.Ph || r.Addr[1] != o.Ld) {
				add("NewProcessId", "differs-from-arguments", fmt.Sprintf("op #%d: NewProcessId(%q,%q) carries %v", k, o.Ph, o.Ld, r.Addr))
			}
		case "clone", "proto":
			// a copy of a reference carries the address of its source, whatever the source has cached
			if r.K == "addr" && o.R < len(t.addr)-1 && t.addr[o.R] != nil && (r.Addr == nil || *r.Addr != *t.addr[o.R]) {
				add(map[string]string{"clone": "Clone", "proto": "protobuf-round-trip"}[o.K], "differs-from-address",
					fmt.Sprintf("op #%d %s: source %s, copy carries %v", k, line(k), desc(o.R), r.Addr))
			}
		case "view":
			if r.K != "view" || o.R >= len(t.addr) || t.addr[o.R] == nil {
				continue
			}
			names := []string{"Address", "URL", "Clone", "Derivation"}
			// getters, URL and Clone show the address the reference was constructed with; Derivation keeps the node
			for x := 0; x < 3 && x < len(r.View); x++ {
				if r.View[x] != *t.addr[o.R] {
					add(names[x], "differs-from-address", fmt.Sprintf("op #%d: %s shows %q", k, desc(o.R), r.View[x]))
				}
			}
			if f, ok := firstView[o.R]; ok {
				st.viewsAfterCacheChange++
				for x := range r.View {
					if x < len(f.View) && r.View[x] != f.View[x] {
						add(names[x], "depends-on-cache-state", fmt.Sprintf("%s: op #%d showed %q, op #%d shows %q — the reference's cache changed in between, its address cannot",
							desc(o.R), firstViewAt[o.R], f.View[x], k, r.View[x]))
					}
				}
			} else {
				firstView[o.R], firstViewAt[o.R] = r, k
			}
		case "sweep":
			n := len(t.addr)
			if r.K != "mat" || len(r.Mat) != n*n {
				add("Equal", "crash", fmt.Sprintf("op #%d: sweep over %d references returned %d verdicts", k, n, len(r.Mat)))
				continue
			}
			st.sweeps++
			eq := func(i, j int) bool { return r.Mat[i*n+j] }
			states := make([]string, n)
			for i := range states {
				states[i] = t.state(i)
			}
			for i := 0; i < n; i++ {
				for j := 0; j < n; j++ {
					st.pairs++
					key := [2]int{i, j}
					if t.addr[i] == nil || t.addr[j] == nil {
						st.nilPairs++
					} else {
						want := *t.addr[i] == *t.addr[j]
						if want {
							st.expEq++
							if states[i] != states[j] {
								st.equalDifferentState++
							}
						} else {
							st.expNe++
							if sameProc(t.cached[i], t.cached[j]) {
								st.sharedDifferent++
							}
						}
						if i < j {
							a, b := states[i], states[j]
							if a > b {
								a, b = b, a
							}
							st.statePairs[fmt.Sprintf("%s/%s %s", a, b, map[bool]string{true: "same-address", false: "different-address"}[want])]++
						}
						// two references are equal exactly when node and local address both match
						if eq(i, j) != want {
							add("Equal", "differs-from-address-equality", fmt.Sprintf("op #%d: %s.Equal(%s) = %v; %s; %s", k, refName(i), refName(j), eq(i, j), desc(i), desc(j)))
						}
					}
					// the verdict on two reference objects never changes: their addresses are immutable
					if f, ok := firstMat[key]; !ok {
						firstMat[key] = first{eq(i, j), k, states[i] + "/" + states[j]}
					} else if f.verdict != eq(i, j) {
						add("Equal", "depends-on-cache-state", fmt.Sprintf("%s.Equal(%s) was %v at op #%d (cache states %s) and is %v at op #%d (cache states %s/%s); %s; %s",
							refName(i), refName(j), f.verdict, f.at, f.states, eq(i, j), k, states[i], states[j], desc(i), desc(j)))
					}
					if eq(i, j) != eq(j, i) {
						add("Equal", "not-symmetric", fmt.Sprintf("op #%d: %s.Equal(%s) = %v but %s.Equal(%s) = %v; %s; %s", k, refName(i), refName(j), eq(i, j), refName(j), refName(i), eq(j, i), desc(i), desc(j)))
					}
				}
			}
			for i := 0; i < n; i++ {
				for j := 0; j < n; j++ {
					if !eq(i, j) {
						continue
					}
					for l := 0; l < n; l++ {
						if eq(j, l) && !eq(i, l) {
							add("Equal", "not-transitive", fmt.Sprintf("op #%d: %s.Equal(%s) and %s.Equal(%s) but not %s.Equal(%s); %s; %s; %s",
								k, refName(i), refName(j), refName(j), refName(l), refName(i), refName(l), desc(i), desc(j), desc(l)))
						}
					}
				}
			}
		}
	}
	return
}

// ---------------------------------------------------------------- Coq terms

func coqStr(s string) string {
	plain := true
	for i := 0; i < len(s); i++ {
		if s[i] < 0x20 || s[i] > 0x7e {
			plain = false
		}
	}
	if plain {
		return vh.Str(s)
	}
	it := make([]string, len(s))
	for i := 0; i < len(s); i++ {
		it[i] = fmt.Sprintf("%d%%N", s[i])
	}
	return "(S [" + strings.Join(it, "; ") + "])"
}

func coqProc(p Proc) string {
	switch p.K {
	case "L":
		return vh.App("PL", vh.Nat(p.N))
	case "N":
		return vh.App("PN", coqStr(p.Node))
	}
	return vh.App("PI", coqStr(p.Node), coqStr(p.Path))
}

func coqSP(a [2]string) string { return vh.Pair(coqStr(a[0]), coqStr(a[1])) }

func coqCase(id int, c *Case) string {
	ops := make([]string, len(c.Ops))
	for i, o := range c.Ops {
		switch o.K {
		case "new":
			ops[i] = fmt.Sprintf("(ENew {| phys := %s; logic := %s |})", coqStr(o.Ph), coqStr(o.Ld))
		case "nil":
			ops[i] = "ENil"
		case "clone":
			ops[i] = vh.App("EClone", vh.Nat(o.R))
		case "derive":
			ops[i] = vh.App("EDerive", vh.Nat(o.R), coqStr(o.Name))
		case "proto":
			ops[i] = vh.App("EProto", vh.Nat(o.R))
		case "reg":
			ops[i] = vh.App("EReg", vh.Nat(o.R), vh.Nat(o.P))
		case "unreg":
			ops[i] = vh.App("EUnreg", vh.Nat(o.R))
		case "get":
			ops[i] = vh.App("EGet", vh.Nat(o.R))
		case "kill":
			ops[i] = vh.App("EKill", coqProc(*o.Proc))
		case "view":
			ops[i] = vh.App("EView", vh.Nat(o.R))
		case "sweep":
			ops[i] = "ESweep"
		default:
			panic(o.K)
		}
	}
	rs := make([]string, len(c.Impl))
	for i, r := range c.Impl {
		switch r.K {
		case "addr":
			if r.Addr == nil {
				rs[i] = "(XAddr None)"
			} else {
				rs[i] = vh.App("XAddr", vh.Some(coqSP(*r.Addr)))
			}
		case "reg":
			rs[i] = vh.App("XReg", vh.Bool(r.Exist))
		case "unit":
			rs[i] = "XUnit"
		case "proc":
			if r.Proc == nil {
				rs[i] = "(XProc None)"
			} else {
				rs[i] = vh.App("XProc", vh.Some(coqProc(*r.Proc)))
			}
		case "view":
			it := make([]string, len(r.View))
			for j, v := range r.View {
				it[j] = coqSP(v)
			}
			rs[i] = vh.App("XView", vh.List(it))
		case "mat":
			it := make([]string, len(r.Mat))
			for j, b := range r.Mat {
				it[j] = vh.Bool(b)
			}
			rs[i] = vh.App("XMat", vh.List(it))
		case "nilpanic":
			rs[i] = "XNilPanic"
		default:
			rs[i] = "XBad"
		}
	}
	res := map[string]string{"none": "RNone", "node": "RNode", "id": "RId", "one": "ROne"}[c.World.Res]
	return fmt.Sprintf("{| eid := %d; eworld := {| wlocal := %s; wres := %s |}; eops := %s; eimpl := %s |}",
		id, coqStr(c.World.Local), res, vh.List(ops), vh.List(rs))
}

// ---------------------------------------------------------------- generators

const local = "127.0.0.1:7001"

var remotes = []string{"10.0.0.2:9000", "10.0.0.3:9000", ""}
var paths = []string{"/user/a", "/user/b", "/user/a/k", "/", "/user/é", ""}

// how a lattice path is obtained by Derivation from another one
var derived = map[string][2]string{"/user/a": {"/user", "a"}, "/user/b": {"/user", "/b"}, "/user/a/k": {"/user/a", "k"}, "/user/é": {"/user", "é"}}

type builder struct {
	c     Case
	rng   *vh.RNG
	node  []string // intended address per reference ("" path and node are legal values: nilref marks nil)
	path  []string
	isNil []bool
	reg   map[string]int // logical address -> stub registered (generator's view)
	nstub int
}

func newBuilder(rng *vh.RNG, res string) *builder {
	return &builder{c: Case{World: World{Local: local, Res: res}}, rng: rng, reg: map[string]int{}, nstub: 1}
}
func (b *builder) op(o Op)            { b.c.Ops = append(b.c.Ops, o) }
func (b *builder) n() int             { return len(b.node) }
func (b *builder) sweep()             { b.op(Op{K: "sweep"}) }
func (b *builder) isLocal(r int) bool { return !b.isNil[r] && b.node[r] == local }
func (b *builder) note(node, path string, isNil bool) int {
	b.node, b.path, b.isNil = append(b.node, node), append(b.path, path), append(b.isNil, isNil)
	return b.n() - 1
}

// mk builds a reference of the given address: NewProcessId, or Derivation from a parent (the parent joins the table)
func (b *builder) mk(node, path string, how int) int {
	if d, ok := derived[path]; ok && how%3 == 2 && b.n() < 6 {
		b.op(Op{K: "new", Ph: node, Ld: d[0]})
		p := b.note(node, d[0], false)
		b.op(Op{K: "derive", R: p, Name: d[1]})
		return b.note(node, path, false)
	}
	b.op(Op{K: "new", Ph: node, Ld: path})
	return b.note(node, path, false)
}
func (b *builder) mkNil() int { b.op(Op{K: "nil"}); return b.note("", "", true) }

// twin builds a distinct object of the same address as r
func (b *builder) twin(r int, how int) int {
	switch how % 4 {
	case 0:
		b.op(Op{K: "clone", R: r})
	case 1:
		b.op(Op{K: "proto", R: r, Via: "marshal"})
	case 2:
		b.op(Op{K: "proto", R: r, Via: "clone"})
	default:
		b.op(Op{K: "new", Ph: b.node[r], Ld: b.path[r]})
	}
	return b.note(b.node[r], b.path[r], false)
}

// register makes sure a local reference has a registrant (stub < 0: a fresh one)
func (b *builder) register(r int, stub int) {
	if !b.isLocal(r) {
		return
	}
	if _, ok := b.reg[b.path[r]]; ok {
		return
	}
	if stub < 0 {
		stub = b.nstub
		b.nstub++
	}
	b.op(Op{K: "reg", R: r, P: stub})
	b.reg[b.path[r]] = stub
}

func (b *builder) resolve(r int) {
	if b.isNil[r] {
		return
	}
	b.op(Op{K: "get", R: r})
	b.op(Op{K: "view", R: r})
	b.sweep()
}

// terminate the process reference r resolves to (its cache, if filled, becomes stale)
func (b *builder) terminate(r int) {
	if b.isNil[r] {
		return
	}
	if b.isLocal(r) {
		if _, ok := b.reg[b.path[r]]; ok {
			b.op(Op{K: "unreg", R: r})
			delete(b.reg, b.path[r])
			b.sweep()
		}
		return
	}
	var p Proc
	switch b.c.World.Res {
	case "node":
		p = Proc{K: "N", Node: b.node[r]}
	case "id":
		p = Proc{K: "I", Node: b.node[r], Path: b.path[r]}
	case "one":
		p = Proc{K: "L", N: 0}
	default:
		return
	}
	b.op(Op{K: "kill", Proc: &p})
	b.sweep()
}

var scenarios = []string{"remote-same-node", "alias", "gateway", "separate-local", "separate-remote", "equal-local", "equal-remote", "same-path-other-node", "nil"}

// pair builds references A and B of one scenario and returns their numbers
func (b *builder) pair(sc string) (int, int) {
	rng := b.rng
	pa := rng.Intn(3)
	pb := (pa + 1 + rng.Intn(2)) % 3
	if rng.Chance(1, 5) {
		pb = 3 + rng.Intn(3)
	}
	r1 := remotes[rng.Intn(2)]
	switch sc {
	case "remote-same-node": // two actors on one remote node: the resolver ("node") hands out one process for both
		return b.mk(r1, paths[pa], rng.Intn(3)), b.mk(r1, paths[pb], rng.Intn(3))
	case "alias": // one process object registered under two local addresses
		a, x := b.mk(local, paths[pa], rng.Intn(3)), b.mk(local, paths[pb], rng.Intn(3))
		b.register(a, 0)
		b.register(x, 0)
		return a, x
	case "gateway": // resolver "one": every remote id resolves to stub 0, which is also registered locally
		a := b.mk(local, paths[pa], rng.Intn(3))
		b.register(a, 0)
		p := paths[pb]
		if rng.Chance(1, 2) {
			p = paths[pa] // same local address, other node
		}
		return a, b.mk(r1, p, rng.Intn(3))
	case "separate-local":
		return b.mk(local, paths[pa], rng.Intn(3)), b.mk(local, paths[pb], rng.Intn(3))
	case "separate-remote":
		if rng.Chance(1, 2) {
			return b.mk(remotes[0], paths[pa], rng.Intn(3)), b.mk(remotes[1], paths[pb], rng.Intn(3))
		}
		return b.mk(r1, paths[pa], rng.Intn(3)), b.mk(r1, paths[pb], rng.Intn(3))
	case "equal-local":
		a := b.mk(local, paths[pa], rng.Intn(3))
		return a, b.twin(a, rng.Intn(4))
	case "equal-remote":
		a := b.mk(r1, paths[pa], rng.Intn(3))
		return a, b.twin(a, rng.Intn(4))
	case "same-path-other-node":
		if rng.Chance(1, 2) {
			return b.mk(local, paths[pa], rng.Intn(3)), b.mk(r1, paths[pa], rng.Intn(3))
		}
		return b.mk(remotes[0], paths[pa], rng.Intn(3)), b.mk(remotes[1], paths[pa], rng.Intn(3))
	}
	return b.mk([]string{local, r1}[rng.Intn(2)], paths[pa], rng.Intn(3)), b.mkNil()
}

func resolverFor(sc string, rng *vh.RNG) string {
	switch sc {
	case "remote-same-node", "same-path-other-node":
		return "node"
	case "gateway":
		return "one"
	case "separate-remote":
		return []string{"id", "node"}[rng.Intn(2)]
	}
	return []string{"node", "id", "one", "none"}[rng.Intn(4)]
}

var targets = []string{"never", "resolved", "stale"}

// scenario: references A, B (and a never-resolved or independently driven third), every reference viewed and the
// table swept in the initial state, then A and B are brought to their target cache states in the given order with a
// view + sweep after every transition, then a few more transitions.
func scenario(rng *vh.RNG, sc, ta, tb string, bFirst bool, extra int) Case {
	b := newBuilder(rng, resolverFor(sc, rng))
	A, B := b.pair(sc)
	third := -1
	switch rng.Intn(6) {
	case 0, 1: // a distinct object of A's address: transitivity through the cached pair
		third = b.twin(A, rng.Intn(4))
	case 2:
		if !b.isNil[B] {
			third = b.twin(B, rng.Intn(4))
		}
	case 3:
		third = b.mk([]string{local, remotes[0], remotes[1], remotes[2]}[rng.Intn(4)], paths[rng.Intn(len(paths))], rng.Intn(3))
	case 4:
		third = b.mkNil()
	}
	for r := 0; r < b.n(); r++ {
		if b.isLocal(r) && rng.Chance(4, 5) {
			b.register(r, -1)
		}
	}
	for r := 0; r < b.n(); r++ {
		if !b.isNil[r] {
			b.op(Op{K: "view", R: r})
		}
	}
	b.sweep()
	order := [][2]interface{}{{A, ta}, {B, tb}}
	if bFirst {
		order[0], order[1] = order[1], order[0]
	}
	tc := targets[rng.Intn(3)]
	if third >= 0 && rng.Chance(1, 2) {
		order = append(order, [2]interface{}{third, tc})
		if rng.Chance(1, 2) {
			order[0], order[len(order)-1] = order[len(order)-1], order[0]
		}
	}
	for _, x := range order {
		if x[1].(string) != "never" {
			b.resolve(x[0].(int))
		}
	}
	for _, x := range order {
		if x[1].(string) == "stale" {
			b.terminate(x[0].(int))
		}
	}
	for i := 0; i < extra; i++ {
		r := rng.Intn(b.n())
		switch rng.Intn(5) {
		case 0, 1: // look up again: a stale cache is dropped and, where a registrant exists, refilled
			b.resolve(r)
		case 2: // a copy made AFTER its source was resolved
			if !b.isNil[r] && b.n() < 7 {
				t := b.twin(r, rng.Intn(4))
				b.op(Op{K: "view", R: t})
				b.sweep()
				if rng.Chance(1, 2) {
					b.resolve(t)
				}
			}
		case 3: // the address gets a new registrant
			if b.isLocal(r) {
				b.register(r, -1)
				b.resolve(r)
			}
		case 4:
			b.terminate(r)
		}
	}
	b.c.Note = fmt.Sprintf("%s A=r%d:%s B=r%d:%s resolver=%s", sc, A, ta, B, tb, b.c.World.Res)
	return b.c
}

// nil receivers: the calls that dereference panic, Equal and GetProcess answer
func malformed(rng *vh.RNG) Case {
	b := newBuilder(rng, "node")
	b.mkNil()
	a := b.mk(local, paths[rng.Intn(3)], 0)
	b.register(a, -1)
	switch rng.Intn(6) {
	case 0:
		b.op(Op{K: "clone", R: 0})
	case 1:
		b.op(Op{K: "derive", R: 0, Name: "x"})
	case 2:
		b.op(Op{K: "view", R: 0})
	case 3:
		b.op(Op{K: "reg", R: 0, P: 9})
	case 4:
		b.op(Op{K: "unreg", R: 0})
	case 5:
		b.op(Op{K: "proto", R: 0, Via: "marshal"})
		b.note("", "", false)
	}
	b.op(Op{K: "get", R: 0})
	b.resolve(a)
	b.c.Note = "nil receiver"
	return b.c
}

// ---------------------------------------------------------------- main

func record(out *vh.Out, c *Case, isMalformed bool) {
	runImpl(c)
	v, st := monitor(c)
	nt := st.sharedDifferent > 0 || st.equalDifferentState > 0
	if isMalformed {
		out.Malformed()
		nt = false
	}
	out.Count("scenario", strings.SplitN(c.Note, " ", 2)[0])
	out.Count("resolver", c.World.Res)
	out.Count("references", fmt.Sprint(len(trackOf(c).addr)))
	out.Count("sweeps", vh.Bucket(st.sweeps))
	out.Count("views_repeated_after_cache_change", vh.Bucket(st.viewsAfterCacheChange))
	out.Count("pairs_different_address_both_caching_one_process", vh.Bucket(st.sharedDifferent))
	out.Count("pairs_equal_address_in_different_cache_states", vh.Bucket(st.equalDifferentState))
	for k, n := range st.statePairs {
		for i := 0; i < n; i++ {
			out.Count("compared_pairs_by_cache_states", k)
		}
	}
	for i := 0; i < st.expEq; i++ {
		out.Count("compared_ordered_pairs", "expected-equal")
	}
	for i := 0; i < st.expNe; i++ {
		out.Count("compared_ordered_pairs", "expected-unequal")
	}
	for i := 0; i < st.nilPairs; i++ {
		out.Count("compared_ordered_pairs", "nil-involved")
	}
	for _, o := range c.Ops {
		out.Count("op_mix", o.K)
	}
	out.Add(c, coqCase(out.N(), c), nt, v)
}

func trackOf(c *Case) *track {
	t := newTrack()
	for k, o := range c.Ops {
		if k < len(c.Impl) {
			t.feed(o, c.Impl[k])
		}
	}
	return t
}

func main() {
	f := vh.ParseFlags()
	if f.Replay != "" {
		var c Case
		vh.LoadReplayCase(f.Replay, &c)
		want := append([]Res(nil), c.Impl...)
		runImpl(&c)
		v, _ := monitor(&c)
		b, _ := json.Marshal(map[string]interface{}{"case": c, "recorded_impl": want, "monitor": v})
		fmt.Println(string(b))
		if len(v) > 0 {
			os.Exit(1)
		}
		return
	}
	out := vh.NewOut(f.Out, "equal", "From MV Require Import Lib.ListX C12.AddrModel C12.AddrRun C12.EqModel C12.EqRun.", "ecase", "emismatches", f.Seed,
		"scripts over a table of 2..7 real *prc.ProcessId objects drawn from {own node, 2 remote nodes, empty node} x {/user/a, /user/b, /user/a/k, /, non-ASCII, empty} and nil, built by NewProcessId / Derivation from a parent / Clone / protobuf Marshal+Unmarshal / proto.Clone (equal addresses always as distinct objects, copies made before and after their source was resolved); 9 scenarios (two actors on one remote node with a per-node resolver as shared.go, one process registered under two local addresses, a gateway process shared by a local and a remote reference, separate processes, equal addresses, same path on another node, nil) x target cache state of A x of B in {never resolved, resolved, resolved then its process terminated} x order, all 162 combinations first, then random ones with a third/fourth reference and further transitions (lookup again, late copy, new registrant, termination); every reference is viewed (getters, URL, Clone, Derivation) and Equal is taken over EVERY ordered pair of the table in the initial state and after EVERY cache transition; a malformed stream of nil receivers; non-trivial = some sweep compares two references of different addresses whose caches hold one and the same process, or two references of equal addresses in different cache states; distinct by hash of the script")
	out.PerShard = 70
	rng := vh.NewRNG(f.Seed)
	// every combination: scenario x state of A x state of B x order
	for _, sc := range scenarios {
		for _, ta := range targets {
			for _, tb := range targets {
				for _, bf := range []bool{false, true} {
					cr, _ := rng.Derive()
					c := scenario(cr, sc, ta, tb, bf, 0)
					record(out, &c, false)
				}
			}
		}
	}
	n := f.N
	if n == 0 {
		n = 900
		if f.Tier == "thorough" {
			n = 30000
		}
	}
	for i := 0; i < n; i++ {
		cr, _ := rng.Derive()
		c := scenario(cr, scenarios[cr.Intn(len(scenarios))], targets[cr.Intn(3)], targets[cr.Intn(3)], cr.Bool(), cr.Intn(5))
		record(out, &c, false)
	}
	for i := 0; i < n/15; i++ {
		cr, _ := rng.Derive()
		c := malformed(cr)
		record(out, &c, true)
	}
	out.Close()
}
