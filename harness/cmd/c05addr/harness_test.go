// c05addr: correspondence harness (T1) for the last clause of property C05 — "afterwards no actor or TEMPORARY REPLY
// ADDRESS remains registered" — against MV.C05.AddrModel.
//
// It is a test binary (go1.26.8, `go test -c`): every case runs a REAL vivid.ActorSystem inside a testing/synctest
// bubble, so the timeout timers of the futures (time.AfterFunc in engine/future/future.go) run on virtual time and
// the registry can be looked at at exact instants. The default dispatcher is replaced through the verif hook by a
// plain goroutine dispatcher before the system is created (a pooled ants worker would outlive the bubble).
//
// A case is a script. Askers are the system itself (0: ActorSystem.FutureAsk / vivid.FutureAsk[M](sys) /
// ActorSystem.AwaitForward, i.e. the guard context) and asker actors 1..k (children of a supervisor that restarts
// at once). Operations: ask (plain or typed, explicit or default timeout, timeout <= 0 = no timer) to a target that
// answers after d ms (sleeping in its handler, or from a goroutine), never (silent actor / nobody under the address),
// or when told to (manual target: op `reply`); fwd (AwaitForward, the function returns after d ms); adv (virtual time
// passes); stop / restart of an asker actor while its asks are pending; shutdown. After EVERY operation the
// ResourceController is enumerated (hook VerifResourceController + reflection over its process table; every entry
// that is neither an actor nor the dead-letter process is a temporary address) and the clock is read.
//
// Monitors (Go side, independent of the Coq model; they restate the property from the harness's own facts — when
// did the target's answer call return, when was the timeout due, when did the asynchronous function return):
//
//	C05:addr:ask-registered-after-completion   an ask answered / timed out is still registered
//	C05:addr:ask-unregistered-while-pending    an ask neither answered nor timed out is not registered
//	C05:addr:registered-after-shutdown         something is registered after Shutdown returned; sig kind = ask /
//	                                           await-forward / other, state = completed / pending. state=pending (the
//	                                           asker was terminated while the ask was pending: it stays until its timeout,
//	                                           for ever without one) is reported only with -pendingshutdown (passed by
//	                                           checks/c05.py when the finding C05-pending-ask-outlives-shutdown is listed)
//	                                           and in replay mode.
package c05addr

import (
	"encoding/json"
	"errors"
	"flag"
	"fmt"
	"io"
	"log/slog"
	"os"
	"reflect"
	"sort"
	"strings"
	"sync"
	"testing"
	"testing/synctest"
	"time"
	"unsafe"

	"github.com/kercylan98/minotaur/engine/future"
	"github.com/kercylan98/minotaur/engine/prc"
	"github.com/kercylan98/minotaur/engine/vivid"
	"github.com/kercylan98/minotaur/engine/vivid/dispatcher"
	"github.com/kercylan98/minotaur/engine/vivid/supervision"
	"github.com/kercylan98/minotaur/toolkit/log"
	"verif/harness/vh"
)

// ---------------------------------------------------------------- case format

type Op struct {
	K   string `json:"k"`             // ask | fwd | reply | adv | stop | restart | shutdown
	A   int    `json:"a,omitempty"`   // asker: 0 = the system, k >= 1 = asker actor k
	Tgt string `json:"tgt,omitempty"` // ask: after | never | dead | manual
	D   int64  `json:"d,omitempty"`   // ask/after: the answer comes d ms later; fwd: the function runs d ms
	Blk bool   `json:"blk,omitempty"` // ask/after: the target sleeps in its handler (otherwise it answers from a goroutine)
	Err bool   `json:"err,omitempty"` // the answer is an error
	T   int64  `json:"t,omitempty"`   // ask: timeout in ms (<= 0: no timer)
	Def bool   `json:"def,omitempty"` // ask: no timeout argument (DefaultFutureAskTimeout; T must be 1000)
	Via string `json:"via,omitempty"` // ask: plain | typed
	I   int    `json:"i,omitempty"`   // reply: index of the ask operation
	Dt  int64  `json:"dt,omitempty"`  // adv: ms
	G   bool   `json:"g,omitempty"`   // shutdown: gracefully
}

type Obs struct {
	Now    int64    `json:"now"`              // ms since the start of the bubble
	Regs   []int    `json:"regs"`             // registered temporary addresses as indices of the creating operation (-1: unknown)
	Unk    []string `json:"unk,omitempty"`    // the unknown ones
	Actors []string `json:"actors,omitempty"` // after Shutdown: actors still registered
}

type Fin struct {
	ID int    `json:"id"`
	O  string `json:"o"` // reply | timeout | forward | bad
	At int64  `json:"at"`
}

// Fact: what the harness itself knows about one ask / fwd operation (input of the monitors)
type Fact struct {
	Op      int    `json:"op"`
	Kind    string `json:"kind"` // ask | await-forward
	Made    bool   `json:"made"` // the call was made (the asker was alive)
	Addr    string `json:"addr,omitempty"`
	T0      int64  `json:"t0"`
	Tmo     int64  `json:"tmo"`               // ms, <= 0: none
	Replied int64  `json:"replied"`           // instant at which the target's answering call returned / the function returned; -1: not yet
	RepOp   int    `json:"rep_op"`            // ... and the operation during which that happened (several operations share an instant)
	Res     string `json:"res,omitempty"`     // what Result() gave: reply | timeout | error | panic
	ResAt   int64  `json:"res_at,omitempty"`  // when
	Pending bool   `json:"pending,omitempty"` // Result() had not returned when the script was over
}

type Case struct {
	Askers int    `json:"askers"`
	Ops    []Op   `json:"ops"`
	Script string `json:"script"`
	// observed
	Obs       []Obs  `json:"obs"`
	Fin       []Fin  `json:"fin"`
	Facts     []Fact `json:"facts"`
	Restarts  int    `json:"restarts"`
	Forwarded int    `json:"forwarded"` // messages the AwaitForward target was handed before it terminated
	Clean     string `json:"clean,omitempty"`
}

// ---------------------------------------------------------------- the system under test

var silent = log.FunctionalLoggerProvider(func() *log.Logger {
	return slog.New(slog.NewTextHandler(io.Discard, &slog.HandlerOptions{Level: slog.Level(100)}))
})

var restartNow = supervision.FunctionalStrategyProvider(func() supervision.Strategy {
	return supervision.FunctionalStrategy(func(record *supervision.AccidentRecord) {
		record.Supervisor.Restart(record.Victim)
	})
})

var errAnswer = errors.New("scripted error answer")
var errEnd = errors.New("script over")

type reqMsg struct {
	I   int
	D   time.Duration
	Blk bool
	Err bool
}
type repMsg struct{ I int }
type fwdMsg struct{ I int }
type doMsg struct{ i int }
type crashMsg struct{}
type spawnMsg struct{ k int }
type releaseMsg struct{ i int }

type askRec struct {
	close func(error)
}

type H struct {
	mu       sync.Mutex
	c        *Case
	sys      *vivid.ActorSystem
	start    time.Time
	facts    map[int]*Fact
	futs     map[int]*askRec
	addrOf   map[string]int // temporary address -> creating operation
	askers   map[int]vivid.ActorRef
	launches int
	cur      int // index of the operation being performed (guarded by mu)
	ended    bool
	down     bool
	silentT  vivid.ActorRef
	holder   vivid.ActorRef
	collect  vivid.ActorRef
	spawned  chan struct{}
}

func (h *H) rel() int64 { return int64(time.Since(h.start) / time.Millisecond) }

// ---- targets

type afterTarget struct{ h *H }

func (a *afterTarget) OnReceive(ctx vivid.ActorContext) {
	m, ok := ctx.Message().(*reqMsg)
	if !ok {
		return
	}
	h := a.h
	var ans vivid.Message = &repMsg{I: m.I}
	if m.Err {
		ans = errAnswer
	}
	answered := func() {
		h.mu.Lock()
		if f := h.facts[m.I]; f != nil {
			f.Replied, f.RepOp = h.rel(), h.cur
		}
		h.mu.Unlock()
	}
	switch {
	case m.D <= 0:
		ctx.Reply(ans)
		answered()
	case m.Blk:
		time.Sleep(m.D) // virtual: the mailbox of this target is busy until then
		ctx.Reply(ans)
		answered()
	default:
		to := ctx.Sender()
		go func() {
			time.Sleep(m.D)
			ctx.Tell(to, ans)
			answered()
		}()
	}
}

type silentTarget struct{}

func (*silentTarget) OnReceive(ctx vivid.ActorContext) {}

type holderTarget struct {
	h    *H
	held map[int]vivid.ActorRef
	err  map[int]bool
}

func (t *holderTarget) OnReceive(ctx vivid.ActorContext) {
	switch m := ctx.Message().(type) {
	case *reqMsg:
		t.held[m.I] = ctx.Sender()
		t.err[m.I] = m.Err
	case *releaseMsg:
		to, ok := t.held[m.i]
		if !ok {
			return
		}
		delete(t.held, m.i)
		var ans vivid.Message = &repMsg{I: m.i}
		if t.err[m.i] {
			ans = errAnswer
		}
		ctx.Tell(to, ans)
		t.h.mu.Lock()
		if f := t.h.facts[m.i]; f != nil {
			f.Replied, f.RepOp = t.h.rel(), t.h.cur
		}
		t.h.mu.Unlock()
	}
}

// collector is the target of every AwaitForward. It counts what it is handed: the result is delivered unwrapped, which an
// actor sees as a nil message (prc.UnwrapMessage on a non-wrapper; noted in docs/C07-NOTES.md, not this property's business)
type collector struct{ h *H }

func (c *collector) OnReceive(ctx vivid.ActorContext) {
	switch ctx.Message().(type) {
	case nil, *fwdMsg:
		c.h.mu.Lock()
		c.h.c.Forwarded++
		c.h.mu.Unlock()
	}
}

// ---- askers

type supervisor struct{ h *H }

func (s *supervisor) OnReceive(ctx vivid.ActorContext) {
	if m, ok := ctx.Message().(*spawnMsg); ok {
		h, k := s.h, m.k
		ref := ctx.ActorOfF(func() vivid.Actor { return &asker{h: h, k: k} }, func(d *vivid.ActorDescriptor) {
			d.WithName(fmt.Sprintf("a%d", k))
			d.WithSupervisionStrategyProvider(restartNow)
		})
		h.mu.Lock()
		h.askers[k] = ref
		h.mu.Unlock()
		h.spawned <- struct{}{}
	}
}

type asker struct {
	h *H
	k int
}

func (a *asker) OnReceive(ctx vivid.ActorContext) {
	switch m := ctx.Message().(type) {
	case *vivid.OnLaunch:
		a.h.mu.Lock()
		a.h.launches++
		a.h.mu.Unlock()
	case *doMsg:
		a.h.perform(ctx, m.i)
	case *crashMsg:
		panic("scripted failure of the asker")
	}
}

// perform executes an ask / fwd operation with the given context (nil: the system itself)
func (h *H) perform(ctx vivid.ActorContext, i int) {
	op := &h.c.Ops[i]
	h.mu.Lock()
	f := h.facts[i]
	f.Made = true
	f.T0 = h.rel()
	h.mu.Unlock()
	defer func() {
		if e := recover(); e != nil {
			h.mu.Lock()
			f.Res = "panic"
			h.c.Clean += fmt.Sprintf("op %d panicked: %v; ", i, e)
			h.mu.Unlock()
		}
	}()
	switch op.K {
	case "fwd":
		d := time.Duration(op.D) * time.Millisecond
		fn := func() vivid.Message {
			if d > 0 {
				time.Sleep(d)
			}
			h.mu.Lock()
			f.Replied, f.RepOp = h.rel(), h.cur
			h.mu.Unlock()
			return &fwdMsg{I: i}
		}
		if ctx == nil {
			h.sys.AwaitForward(h.collect, fn)
		} else {
			ctx.AwaitForward(h.collect, fn)
		}
	case "ask":
		var target vivid.ActorRef
		switch op.Tgt {
		case "after":
			target = vivid.NewActorRef(h.sys.PhysicalAddress(), fmt.Sprintf("/user/t%d", i))
		case "never":
			target = h.silentT
		case "dead":
			target = vivid.NewActorRef(h.sys.PhysicalAddress(), "/user/nobody")
		case "manual":
			target = h.holder
		}
		req := &reqMsg{I: i, D: time.Duration(op.D) * time.Millisecond, Blk: op.Blk, Err: op.Err}
		var tmo []time.Duration
		if !op.Def {
			tmo = []time.Duration{time.Duration(op.T) * time.Millisecond}
		}
		var ref *prc.ProcessId
		var get func() error
		var cl func(error)
		if op.Via == "typed" {
			var fu future.Future[*repMsg]
			if ctx == nil {
				fu = vivid.FutureAsk[*repMsg](h.sys, target, req, tmo...)
			} else {
				fu = vivid.FutureAsk[*repMsg](ctx, target, req, tmo...)
			}
			ref, get, cl = fu.Ref(), func() error { _, err := fu.Result(); return err }, fu.Close
		} else {
			var fu future.Future[vivid.Message]
			if ctx == nil {
				fu = h.sys.FutureAsk(target, req, tmo...)
			} else {
				fu = ctx.FutureAsk(target, req, tmo...)
			}
			ref, get, cl = fu.Ref(), func() error { _, err := fu.Result(); return err }, fu.Close
		}
		h.mu.Lock()
		if ref != nil {
			f.Addr = ref.GetLogicalAddress()
			h.addrOf[f.Addr] = i
		}
		h.futs[i] = &askRec{close: cl}
		h.mu.Unlock()
		go func() {
			res := "reply"
			func() {
				defer func() {
					if e := recover(); e != nil {
						res = "panic"
					}
				}()
				err := get()
				switch {
				case err == nil:
				case errors.Is(err, future.ErrorFutureTimeout):
					res = "timeout"
				case errors.Is(err, errEnd):
					res = "end"
				default:
					res = "error"
				}
			}()
			h.mu.Lock()
			if h.ended || res == "end" {
				f.Pending = true
			} else {
				f.Res, f.ResAt = res, h.rel()
			}
			h.mu.Unlock()
		}()
	}
}

// ---- the registry

func unexported(v reflect.Value, name string) reflect.Value {
	f := v.FieldByName(name)
	return reflect.NewAt(f.Type(), unsafe.Pointer(f.UnsafeAddr())).Elem()
}

// snapshot enumerates the ResourceController: temporary addresses (everything that is neither an actor nor the
// dead-letter process) and actor addresses. The process table is an unexported field: read by reflection; when its
// shape is not the expected one the known and the predictable addresses are probed instead.
func (h *H) snapshot() (temps, actors []string) {
	rc := h.sys.VerifResourceController()
	abyssAddr := h.sys.Abyss().GetLogicalAddress()
	ok := os.Getenv("C05ADDR_PROBE") == "" && func() (ok bool) { // C05ADDR_PROBE=1: exercise the fall-back
		defer func() {
			if recover() != nil {
				ok = false
			}
		}()
		tbl := unexported(reflect.ValueOf(rc).Elem(), "processes")
		rng := tbl.MethodByName("Range")
		if !rng.IsValid() {
			return false
		}
		fn := reflect.MakeFunc(rng.Type().In(0), func(args []reflect.Value) []reflect.Value {
			addr := args[0].String()
			if addr != abyssAddr {
				tn := ""
				if !args[1].IsNil() {
					tn = args[1].Elem().Type().String()
				}
				if strings.HasSuffix(tn, ".actorProcess") {
					actors = append(actors, addr)
				} else {
					temps = append(temps, addr)
				}
			}
			return []reflect.Value{reflect.ValueOf(true)}
		})
		rng.Call([]reflect.Value{fn})
		return true
	}()
	if !ok {
		temps, actors = nil, nil
		ab := rc.GetProcess(h.sys.Abyss())
		probe := func(addr string) bool {
			return rc.GetProcess(prc.NewProcessId(h.sys.PhysicalAddress(), addr)) != ab
		}
		seen := map[string]bool{}
		h.mu.Lock()
		for a := range h.addrOf {
			seen[a] = true
		}
		bases := []string{"/user"}
		for _, r := range h.askers {
			bases = append(bases, r.GetLogicalAddress())
		}
		h.mu.Unlock()
		for _, b := range bases {
			for n := 1; n <= len(h.c.Ops)+2; n++ {
				seen[fmt.Sprintf("%s/%d", b, n)] = true
			}
		}
		for a := range seen {
			if probe(a) {
				temps = append(temps, a)
			}
		}
		for _, r := range h.askers {
			if probe(r.GetLogicalAddress()) {
				actors = append(actors, r.GetLogicalAddress())
			}
		}
	}
	sort.Strings(temps)
	sort.Strings(actors)
	return
}

const watchdog = 10 * time.Minute // virtual

func describe(c *Case) string {
	var sb []string
	for _, o := range c.Ops {
		switch o.K {
		case "ask":
			s := fmt.Sprintf("ask(a%d->%s", o.A, o.Tgt)
			if o.Tgt == "after" {
				s += fmt.Sprintf(" %dms", o.D)
				if o.Blk {
					s += " blocking"
				}
			}
			if o.Err {
				s += " err"
			}
			if o.Def {
				s += ", default timeout"
			} else {
				s += fmt.Sprintf(", timeout %dms", o.T)
			}
			if o.Via == "typed" {
				s += ", typed"
			}
			sb = append(sb, s+")")
		case "fwd":
			sb = append(sb, fmt.Sprintf("awaitforward(a%d, %dms)", o.A, o.D))
		case "reply":
			sb = append(sb, fmt.Sprintf("reply(%d)", o.I))
		case "adv":
			sb = append(sb, fmt.Sprintf("adv(%dms)", o.Dt))
		case "stop", "restart":
			sb = append(sb, fmt.Sprintf("%s(a%d)", o.K, o.A))
		case "shutdown":
			sb = append(sb, fmt.Sprintf("shutdown(%v)", o.G))
		}
	}
	return strings.Join(sb, " ")
}

func runImpl(t *testing.T, c *Case) {
	c.Obs, c.Fin, c.Facts, c.Clean, c.Restarts, c.Forwarded = nil, nil, nil, "", 0, 0
	c.Script = describe(c)
	h := &H{c: c, facts: map[int]*Fact{}, futs: map[int]*askRec{}, addrOf: map[string]int{}, askers: map[int]vivid.ActorRef{},
		spawned: make(chan struct{}, 16)}
	for i, o := range c.Ops {
		switch o.K {
		case "ask":
			h.facts[i] = &Fact{Op: i, Kind: "ask", Tmo: o.T, Replied: -1, RepOp: -1}
		case "fwd":
			h.facts[i] = &Fact{Op: i, Kind: "await-forward", Replied: -1, RepOp: -1}
		}
	}
	func() {
		defer func() {
			if e := recover(); e != nil {
				c.Clean += fmt.Sprint("bubble-not-clean: ", e)
			}
		}()
		synctest.Test(t, func(t *testing.T) {
			h.start = time.Now()
			sys := vivid.NewActorSystem(vivid.FunctionalActorSystemConfigurator(func(cfg *vivid.ActorSystemConfiguration) {
				cfg.WithLoggerProvider(silent)
			}))
			h.sys = sys
			name := func(n string) vivid.FunctionalActorDescriptorConfigurator {
				return func(d *vivid.ActorDescriptor) { d.WithName(n) }
			}
			h.silentT = sys.ActorOfF(func() vivid.Actor { return &silentTarget{} }, name("silent"))
			h.holder = sys.ActorOfF(func() vivid.Actor { return &holderTarget{h: h, held: map[int]vivid.ActorRef{}, err: map[int]bool{}} }, name("holder"))
			h.collect = sys.ActorOfF(func() vivid.Actor { return &collector{h: h} }, name("collector"))
			sup := sys.ActorOfF(func() vivid.Actor { return &supervisor{h: h} }, func(d *vivid.ActorDescriptor) {
				d.WithName("sup")
				d.WithSupervisionStrategyProvider(restartNow)
			})
			for k := 1; k <= c.Askers; k++ {
				sys.Tell(sup, &spawnMsg{k: k})
				<-h.spawned
			}
			synctest.Wait()
			launched0 := h.launches
			prev := map[int]bool{}
			for i := range c.Ops {
				op := &c.Ops[i]
				h.mu.Lock()
				h.cur = i
				h.mu.Unlock()
				switch op.K {
				case "ask", "fwd":
					if h.down {
						break // the API is not used after Shutdown (outside the model)
					}
					if op.K == "ask" && op.Tgt == "after" {
						sys.ActorOfF(func() vivid.Actor { return &afterTarget{h: h} }, name(fmt.Sprintf("t%d", i)))
					}
					if op.A == 0 {
						h.perform(nil, i)
					} else if ref, ok := h.askers[op.A]; ok {
						sys.Tell(ref, &doMsg{i: i})
					}
				case "reply":
					sys.Tell(h.holder, &releaseMsg{i: op.I})
				case "adv":
					if op.Dt > 0 {
						time.Sleep(time.Duration(op.Dt) * time.Millisecond)
					}
				case "stop":
					if ref, ok := h.askers[op.A]; ok && !h.down {
						sys.Terminate(ref, false)
					}
				case "restart":
					if ref, ok := h.askers[op.A]; ok {
						sys.Tell(ref, &crashMsg{})
					}
				case "shutdown":
					if h.down {
						break
					}
					done := make(chan struct{})
					go func() {
						defer func() { _ = recover(); close(done) }()
						sys.Shutdown(op.G)
					}()
					select {
					case <-done:
					case <-time.After(watchdog):
						c.Clean += "Shutdown did not return; "
						func() {
							defer func() { _ = recover() }()
							close(unexported(reflect.ValueOf(sys).Elem(), "closed").Interface().(chan struct{}))
						}()
						<-done
					}
					h.down = true
				}
				synctest.Wait()
				// observe
				temps, actors := h.snapshot()
				o := Obs{Now: h.rel(), Regs: []int{}}
				cur := map[int]bool{}
				h.mu.Lock()
				var fresh []string
				for _, a := range temps {
					if id, ok := h.addrOf[a]; ok {
						cur[id] = true
					} else {
						fresh = append(fresh, a)
					}
				}
				// an AwaitForward returns no handle: the one address that appeared with the operation is its address
				if op.K == "fwd" && len(fresh) == 1 && h.facts[i].Made {
					h.addrOf[fresh[0]] = i
					h.facts[i].Addr = fresh[0]
					cur[i] = true
					fresh = nil
				}
				h.mu.Unlock()
				for id := range cur {
					o.Regs = append(o.Regs, id)
				}
				sort.Ints(o.Regs)
				for _, a := range fresh {
					o.Regs = append([]int{-1}, o.Regs...)
					o.Unk = append(o.Unk, a)
				}
				if h.down {
					o.Actors = actors
				}
				c.Obs = append(c.Obs, o)
				// released during this operation: registered before (or created by this operation) and not registered now
				var gone []int
				for id := range prev {
					if !cur[id] {
						gone = append(gone, id)
					}
				}
				h.mu.Lock()
				if f := h.facts[i]; f != nil && f.Made && !cur[i] {
					gone = append(gone, i)
				}
				sort.Ints(gone)
				for _, id := range gone {
					f := h.facts[id]
					fin := Fin{ID: id, O: "bad", At: -1}
					switch {
					case f.Kind == "await-forward" && f.Replied >= 0:
						fin.O, fin.At = "forward", f.Replied
					case f.Kind == "ask" && (f.Res == "reply" || f.Res == "error"):
						fin.O, fin.At = "reply", f.ResAt
					case f.Kind == "ask" && f.Res == "timeout":
						fin.O, fin.At = "timeout", f.ResAt
					}
					c.Fin = append(c.Fin, fin)
				}
				h.mu.Unlock()
				prev = cur
			}
			// the script is over: let the goroutines waiting for results go, stop the system
			h.mu.Lock()
			h.ended = true
			var cls []func(error)
			for _, r := range h.futs {
				cls = append(cls, r.close)
			}
			h.mu.Unlock()
			for _, cl := range cls {
				func() {
					defer func() { _ = recover() }()
					cl(errEnd)
				}()
			}
			if !h.down {
				done := make(chan struct{})
				go func() {
					defer func() { _ = recover(); close(done) }()
					sys.Shutdown(false)
				}()
				select {
				case <-done:
				case <-time.After(watchdog):
					func() {
						defer func() { _ = recover() }()
						close(unexported(reflect.ValueOf(sys).Elem(), "closed").Interface().(chan struct{}))
					}()
					<-done
				}
			}
			synctest.Wait()
			c.Restarts = h.launches - launched0
		})
	}()
	if c.Fin == nil {
		c.Fin = []Fin{}
	}
	idx := make([]int, 0, len(h.facts))
	for i := range h.facts {
		idx = append(idx, i)
	}
	sort.Ints(idx)
	for _, i := range idx {
		c.Facts = append(c.Facts, *h.facts[i])
	}
}

// ---------------------------------------------------------------- monitors

var reportPending bool

func monitor(c *Case) []vh.Violation {
	var v []vh.Violation
	seen := map[string]bool{}
	add := func(kind, detail string, sig map[string]string) {
		key := kind + fmt.Sprint(sig)
		if seen[key] {
			return
		}
		seen[key] = true
		v = append(v, vh.Violation{Kind: "C05:addr:" + kind, Detail: detail + " — script: " + c.Script, Sig: sig})
	}
	facts := map[int]*Fact{}
	for i := range c.Facts {
		facts[c.Facts[i].Op] = &c.Facts[i]
	}
	down := false
	for j, o := range c.Obs {
		if j < len(c.Ops) && c.Ops[j].K == "shutdown" {
			down = true
		}
		reg := map[int]bool{}
		for _, id := range o.Regs {
			reg[id] = true
		}
		for i, f := range facts {
			if i > j || !f.Made {
				continue
			}
			answered := f.Replied >= 0 && f.RepOp <= j
			timedOut := f.Kind == "ask" && f.Tmo > 0 && f.T0+f.Tmo <= o.Now
			completed := answered || timedOut
			if f.Kind == "ask" {
				if completed && reg[i] {
					cause := "timeout"
					if answered {
						cause = "reply"
					}
					add("ask-registered-after-completion", fmt.Sprintf("ask of operation %d (address %s, created at %d ms, timeout %d ms, answered at %d ms) is still registered at %d ms after operation %d",
						i, f.Addr, f.T0, f.Tmo, f.Replied, o.Now, j), map[string]string{"kind": "ask", "cause": cause})
				}
				if !completed && !reg[i] && f.Addr != "" {
					add("ask-unregistered-while-pending", fmt.Sprintf("ask of operation %d (address %s, created at %d ms, timeout %d ms, not answered) is not registered at %d ms after operation %d",
						i, f.Addr, f.T0, f.Tmo, o.Now, j), map[string]string{"kind": "ask"})
				}
			}
			if down && reg[i] {
				state := "pending"
				if completed {
					state = "completed"
				}
				if state == "completed" || reportPending {
					what := "its timeout has not come and nobody has answered"
					if f.Kind == "await-forward" {
						what = "its function is still running"
					}
					if completed && f.Kind == "await-forward" {
						what = fmt.Sprintf("its function returned at %d ms and the result was delivered", f.Replied)
					} else if completed {
						what = "it was answered or has timed out"
					}
					add("registered-after-shutdown", fmt.Sprintf("%s address %s of operation %d is registered at %d ms, after Shutdown returned (%s)", f.Kind, f.Addr, i, o.Now, what),
						map[string]string{"kind": f.Kind, "state": state})
				}
			}
		}
		if down {
			for _, a := range o.Unk {
				add("registered-after-shutdown", fmt.Sprintf("address %s, which no operation of the script created, is registered at %d ms, after Shutdown returned", a, o.Now),
					map[string]string{"kind": "other", "state": "unknown"})
			}
			for _, a := range o.Actors {
				add("registered-after-shutdown", fmt.Sprintf("actor %s is registered at %d ms, after Shutdown returned", a, o.Now),
					map[string]string{"kind": "other", "state": "actor"})
			}
		}
	}
	return v
}

// ---------------------------------------------------------------- Coq terms

func coqOp(o Op) string {
	z := func(v int64) string {
		if v < 0 {
			return fmt.Sprintf("(%d)", v)
		}
		return fmt.Sprint(v)
	}
	switch o.K {
	case "ask":
		t := "TNever"
		switch o.Tgt {
		case "after":
			t = fmt.Sprintf("(TAfter %s %v)", z(o.D), o.Blk)
		case "manual":
			t = "TManual"
		}
		return fmt.Sprintf("OAsk %d %s %s", o.A, t, z(o.T))
	case "fwd":
		return fmt.Sprintf("OFwd %d %s", o.A, z(o.D))
	case "reply":
		return fmt.Sprintf("OReply %s", z(int64(o.I)))
	case "adv":
		return fmt.Sprintf("OAdv %s", z(o.Dt))
	case "stop":
		return fmt.Sprintf("OStop %d", o.A)
	case "restart":
		return fmt.Sprintf("ORestart %d", o.A)
	}
	return "OShutdown"
}

func coqCase(id int, c *Case) string {
	ops := make([]string, len(c.Ops))
	for i, o := range c.Ops {
		ops[i] = coqOp(o)
	}
	obs := make([]string, len(c.Obs))
	for i, o := range c.Obs {
		ids := make([]string, len(o.Regs))
		for k, r := range o.Regs {
			ids[k] = vhZ(int64(r))
		}
		obs[i] = fmt.Sprintf("(%s, %s)", vhZ(o.Now), vh.List(ids))
	}
	fin := make([]string, len(c.Fin))
	for i, f := range c.Fin {
		o := map[string]string{"reply": "ByReply", "timeout": "ByTimeout", "forward": "ByForward"}[f.O]
		if o == "" {
			o = "OBad"
		}
		fin[i] = fmt.Sprintf("(%d, %s, %s)", f.ID, o, vhZ(f.At))
	}
	return fmt.Sprintf("mkC (Z.to_nat %d) %s %s %s", id, vh.List(ops), vh.List(obs), vh.List(fin))
}

func vhZ(v int64) string {
	if v < 0 {
		return fmt.Sprintf("(%d)", v)
	}
	return fmt.Sprint(v)
}

// ---------------------------------------------------------------- generation

func corpus() []Case {
	ask := func(a int, tgt string, d int64, blk bool, t int64) Op {
		return Op{K: "ask", A: a, Tgt: tgt, D: d, Blk: blk, T: t, Via: "plain"}
	}
	adv := func(dt int64) Op { return Op{K: "adv", Dt: dt} }
	sd := Op{K: "shutdown"}
	return []Case{
		// the AwaitForward witness: the function returns at once / after 40 ms; later the system is shut down
		{Askers: 1, Ops: []Op{{K: "fwd", A: 1, D: 40}, adv(100), sd, adv(5000)}},
		{Askers: 1, Ops: []Op{{K: "fwd", A: 0, D: 0}, {K: "fwd", A: 1, D: 300}, adv(100), sd, adv(1000)}},
		// asker stopped while its asks are pending: they stay until answered / timed out
		{Askers: 2, Ops: []Op{ask(1, "never", 0, false, 1000), ask(1, "after", 700, false, 2000), {K: "stop", A: 1}, adv(500), adv(300), adv(300), sd, adv(100)}},
		// Shutdown while an ask is pending: it stays until its timeout
		{Askers: 1, Ops: []Op{ask(1, "never", 0, false, 1000), sd, adv(999), adv(1)}},
		// no timer and no answer: for ever
		{Askers: 1, Ops: []Op{ask(1, "dead", 0, false, 0), adv(3000), sd, adv(60000)}},
		// the manual target answers before / after the timeout; after Shutdown it does not answer any more
		{Askers: 1, Ops: []Op{ask(1, "manual", 0, false, 2000), ask(1, "manual", 0, false, 300), ask(0, "manual", 0, false, 5000), adv(400), {K: "reply", I: 0}, {K: "reply", I: 1}, sd, {K: "reply", I: 2}, adv(6000)}},
		// a target that sleeps in its handler: the ask times out first, Shutdown waits for the handler
		{Askers: 1, Ops: []Op{ask(1, "after", 800, true, 300), adv(100), sd, adv(1000)}},
		// restart with pending asks, answered afterwards
		{Askers: 1, Ops: []Op{ask(1, "after", 500, false, 3000), ask(1, "manual", 0, false, 3000), {K: "restart", A: 1}, ask(1, "after", 0, false, 1000), adv(600), {K: "reply", I: 1}, sd, adv(3000)}},
		// the system itself, typed, default timeout, error answers
		{Askers: 0, Ops: []Op{{K: "ask", A: 0, Tgt: "never", T: 1000, Def: true, Via: "typed"}, {K: "ask", A: 0, Tgt: "after", D: 20, T: 1000, Def: true, Via: "typed", Err: true},
			{K: "ask", A: 0, Tgt: "after", D: 0, T: 100, Via: "typed"}, adv(20), adv(979), adv(1), sd, adv(10)}},
	}
}

func genCase(r *vh.RNG) Case {
	c := Case{Askers: r.Range(1, 3)}
	n := r.Range(3, 13)
	var manual []int
	var asks []int
	down := false
	for len(c.Ops) < n {
		i := len(c.Ops)
		x := r.Intn(100)
		switch {
		case x < 46:
			o := Op{K: "ask", A: r.Range(0, c.Askers), Via: "plain"}
			if r.Chance(1, 3) {
				o.Via = "typed"
			}
			switch y := r.Intn(100); {
			case y < 48:
				o.Tgt = "after"
				if !r.Chance(2, 5) {
					o.D = int64([]int{1, 5, 20, 50, 100, 250, 400, 800, 1200, 2000}[r.Intn(10)] + r.Intn(3))
					o.Blk = r.Chance(1, 3)
				}
			case y < 68:
				o.Tgt = "never"
			case y < 76:
				o.Tgt = "dead"
			default:
				o.Tgt = "manual"
				manual = append(manual, i)
			}
			o.Err = o.Tgt != "never" && o.Tgt != "dead" && r.Chance(1, 7)
			switch y := r.Intn(100); {
			case y < 15:
				o.T, o.Def = 1000, true
			case y < 22:
				o.T = 0
			case y < 25:
				o.T = -5
			default:
				o.T = int64([]int{10, 50, 100, 300, 500, 1000, 1500, 3000}[r.Intn(8)] + r.Intn(3))
			}
			if o.Tgt == "after" && o.D == o.T {
				o.D += 7 // answer and timeout never in the same instant (either may win there)
			}
			asks = append(asks, i)
			c.Ops = append(c.Ops, o)
		case x < 56:
			c.Ops = append(c.Ops, Op{K: "fwd", A: r.Range(0, c.Askers), D: int64([]int{0, 0, 10, 100, 500, 1500}[r.Intn(6)])})
		case x < 65:
			if len(manual) > 0 && !r.Chance(1, 8) {
				c.Ops = append(c.Ops, Op{K: "reply", I: manual[r.Intn(len(manual))]})
			} else {
				c.Ops = append(c.Ops, Op{K: "reply", I: r.Intn(n)})
			}
		case x < 84:
			c.Ops = append(c.Ops, Op{K: "adv", Dt: int64([]int{1, 10, 50, 100, 250, 500, 1000, 1500}[r.Intn(8)] + r.Intn(3))})
		case x < 91:
			c.Ops = append(c.Ops, Op{K: "stop", A: r.Range(1, c.Askers)})
		case x < 98:
			c.Ops = append(c.Ops, Op{K: "restart", A: r.Range(1, c.Askers)})
		default:
			if !down && i > 1 {
				down = true
				c.Ops = append(c.Ops, Op{K: "shutdown", G: r.Bool()})
				n = i + 1 + r.Range(1, 3)
				// after Shutdown only time passes and orders are given to the (dead) manual target
				for len(c.Ops) < n {
					if len(manual) > 0 && r.Chance(1, 4) {
						c.Ops = append(c.Ops, Op{K: "reply", I: manual[r.Intn(len(manual))]})
					} else {
						c.Ops = append(c.Ops, Op{K: "adv", Dt: int64([]int{10, 300, 1000, 2500}[r.Intn(4)])})
					}
				}
			}
		}
	}
	if !down {
		c.Ops = append(c.Ops, Op{K: "shutdown", G: r.Bool()})
		if r.Chance(1, 3) {
			c.Ops = append(c.Ops, Op{K: "adv", Dt: int64(r.Range(1, 900))})
		}
		if len(manual) > 0 && r.Chance(1, 3) {
			c.Ops = append(c.Ops, Op{K: "reply", I: manual[r.Intn(len(manual))]})
		}
	}
	// finally every timer and every asynchronous function is given the time to finish
	c.Ops = append(c.Ops, Op{K: "adv", Dt: 6000})
	return c
}

// ---------------------------------------------------------------- driver

func record(t *testing.T, out *vh.Out, c *Case) {
	runImpl(t, c)
	v := monitor(c)
	asks, fwds, stopsPending, restartsPending, pendingAtShutdown, released := 0, 0, 0, 0, 0, len(c.Fin)
	spanned := false
	addrOp := map[int]int{} // op -> asker
	for i, o := range c.Ops {
		if o.K == "ask" || o.K == "fwd" {
			addrOp[i] = o.A
		}
	}
	for _, f := range c.Facts {
		if !f.Made {
			continue
		}
		if f.Kind == "ask" {
			asks++
			switch {
			case f.Pending:
				out.Count("ask_outcome", "pending-for-ever")
			case f.Res != "":
				out.Count("ask_outcome", f.Res)
			default:
				out.Count("ask_outcome", "unknown")
			}
			o := c.Ops[f.Op]
			out.Count("ask_target", o.Tgt)
			out.Count("ask_via", map[bool]string{true: "system", false: "actor"}[o.A == 0]+"-"+o.Via)
			switch {
			case o.Def:
				out.Count("ask_timeout", "default")
			case o.T <= 0:
				out.Count("ask_timeout", "none")
			default:
				out.Count("ask_timeout", "explicit")
			}
		} else {
			fwds++
		}
	}
	for j, o := range c.Obs {
		if j >= len(c.Ops) {
			break
		}
		pendingOf := func(a int) int {
			n := 0
			for _, id := range o.Regs {
				if id >= 0 && addrOp[id] == a && id != j {
					n++
				}
			}
			return n
		}
		if len(o.Regs) > 0 {
			spanned = true
		}
		switch c.Ops[j].K {
		case "stop":
			if pendingOf(c.Ops[j].A) > 0 {
				stopsPending++
			}
		case "restart":
			if pendingOf(c.Ops[j].A) > 0 {
				restartsPending++
			}
		case "shutdown":
			pendingAtShutdown = len(o.Regs)
		}
	}
	out.Count("asks_per_script", vh.Bucket(asks))
	out.Count("awaitforwards_per_script", vh.Bucket(fwds))
	out.Count("askers_stopped_with_pending_asks", vh.Bucket(stopsPending))
	out.Count("askers_restarted_with_pending_asks", vh.Bucket(restartsPending))
	out.Count("addresses_registered_when_shutdown_returned", vh.Bucket(pendingAtShutdown))
	out.Count("restarts_observed", vh.Bucket(c.Restarts))
	// every AwaitForward whose function returned while the target was alive must have been delivered exactly once
	wantFwd, sdAt := 0, -1
	for j, o := range c.Ops {
		if o.K == "shutdown" && sdAt < 0 {
			sdAt = j
		}
	}
	for _, f := range c.Facts {
		if f.Kind == "await-forward" && f.Made && f.Replied >= 0 && (sdAt < 0 || f.RepOp < sdAt) {
			wantFwd++
		}
	}
	switch {
	case c.Forwarded == wantFwd:
		out.Count("awaitforward_deliveries", "exactly-once")
	case c.Forwarded > wantFwd:
		out.Count("awaitforward_deliveries", "MORE-than-functions-returned")
	default:
		out.Count("awaitforward_deliveries", "fewer (function returned while Shutdown was in progress)")
	}
	out.Count("ops_per_script", vh.Bucket(len(c.Ops)))
	if c.Clean != "" {
		out.Count("not_clean", c.Clean[:min(len(c.Clean), 40)])
	}
	// non-trivial: some temporary address stayed registered across an operation boundary and some address was released
	nontrivial := spanned && released > 0
	out.Add(c, coqCase(out.N(), c), nontrivial, v)
}

var flags vh.Flags

func TestMain(m *testing.M) {
	flag.BoolVar(&reportPending, "pendingshutdown", false, "report addresses of still pending asks / await-forwards that are registered after Shutdown (open finding C05-pending-ask-outlives-shutdown)")
	flags = vh.ParseFlags()
	vivid.VerifSetDefaultDispatcher(dispatcher.NewGoroutine())
	os.Exit(m.Run())
}

func TestC05Addr(t *testing.T) {
	f := flags
	if f.Replay != "" {
		reportPending = true
		var c Case
		vh.LoadReplayCase(f.Replay, &c)
		wantObs, wantFin := c.Obs, c.Fin
		runImpl(t, &c)
		v := monitor(&c)
		b, _ := json.Marshal(map[string]interface{}{"case": c, "recorded_obs": wantObs, "recorded_fin": wantFin, "monitor": v})
		fmt.Println(string(b))
		if len(v) > 0 {
			os.Exit(1)
		}
		return
	}
	out := vh.NewOut(f.Out, "addr", "From MV Require Import Lib.ListX C05.AddrModel C05.AddrRun.", "acase", "amismatches", f.Seed,
		"scripts on a real ActorSystem inside a synctest bubble: 0..3 asker actors + the system itself; 3..13 operations (FutureAsk plain / typed, explicit / "+
			"default / no timeout, to targets answering at once, after 1..2000 ms sleeping in the handler or from a goroutine, with an error, never, nobody, or when "+
			"told to; AwaitForward with a function running 0..1500 ms; virtual time passing; askers stopped / restarted; Shutdown graceful or not, anywhere) followed by "+
			"Shutdown and 6 s; answer and timeout never in the same instant; registry enumerated and clock read after every operation; non-trivial = a temporary "+
			"address stayed registered across an operation boundary and some address was released (measured)")
	for _, c := range corpus() {
		c := c
		record(t, out, &c)
	}
	n := f.N
	if n == 0 {
		n = 2000
		if f.Tier == "thorough" {
			n = 40000
		}
	}
	rng := vh.NewRNG(f.Seed)
	for i := 0; i < n; i++ {
		cr, _ := rng.Derive()
		c := genCase(cr)
		record(t, out, &c)
	}
	out.Close()
}
