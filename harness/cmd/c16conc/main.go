// c16conc: concurrent histories of the synchronized containers of property C16 on the REAL code (real
// sync.RWMutex, real goroutines): OrderSync, SyncMap, MutexBucket (+ MutexBucketItem), SyncSlice,
// SyncPrioritySlice.  Two shapes of rounds, both generated from the seed:
//
//	small: 2-4 goroutines x 3-8 calls on a SHARED small key domain, every call stamped with a logical clock
//	       (one atomic counter) at invocation and at return; the recorded history (prefill, concurrent part,
//	       a sequential observation after the join) is checked for LINEARIZABILITY against the sequential
//	       specification (a plain slice / map restatement, no Coq model) with porcupine v1.3.0, and a
//	       non-linearizable verdict is confirmed by an independent exhaustive search over linearizations;
//	big:   4-8 goroutines x 16-64 calls, every goroutine on its OWN keys / indices / values, so that calls of
//	       different goroutines commute: every result and the state observed after the join must equal those
//	       of the serial execution goroutine 0; 1; 2; ... (order-insensitive observations canonicalised):
//	       idx and value agree, Len = number of live keys, every key maps to its last written value.
//
// Monitors (sound under any scheduling: a hit is a genuine violation; silence proves nothing):
//
//	conc:<Type>:not-linearizable   conc:<Type>:own-key-result-differs   conc:<Type>:final-state-differs
//	conc:<Type>:panic              conc:<Type>:hang          conc:MutexBucket:atomic-methods-not-linearizable
//
// The regular small rounds mix the methods that are ONE critical section.  MutexBucket additionally gets a
// stream of small rounds with Len and Clear mixed in (focus "MutexBucket.Len+Clear"): both work bucket by
// bucket and are NOT linearizable — the open finding C16-mutexbucket-len-not-atomic, which these rounds
// normally reproduce.  Attribution: the kind conc:MutexBucket:not-linearizable is given only to a history
// that IS linearizable once the concurrent Len calls are dropped (read-only) and every concurrent Clear is
// replaced by one atomic clear per bucket; any other non-linearizable MutexBucket history gets
// conc:MutexBucket:atomic-methods-not-linearizable (never listed).  SyncPrioritySlice.Appends (a documented
// sequence of atomic Appends) enters the linearizability mix only under -focus.  -focus also biases the mix to
// that method and runs until -budget seconds are spent or a monitor fires (the failing-input search of
// checks/c16.py when the lock skeleton of <Type>.<Method> breaks its obligation).  Not evaluated in Coq.
package main

import (
	"encoding/json"
	"flag"
	"fmt"
	"os"
	"runtime"
	"sort"
	"strings"
	"sync"
	"sync/atomic"
	"time"

	"github.com/anishathalye/porcupine"
	"github.com/kercylan98/minotaur/toolkit/collection/listings"
	"github.com/kercylan98/minotaur/toolkit/collection/mappings"
	"verif/harness/vh"
)

type Op struct {
	M  string  `json:"m"`
	K  int64   `json:"k,omitempty"`
	V  int64   `json:"v,omitempty"`
	Vs []int64 `json:"vs,omitempty"`
	D  int     `json:"d,omitempty"` // busy-wait iterations before the call
}

var keyed = map[string]bool{"ClearBucket": true, "Set": true, "Add": true, "Del": true, "Get": true, "GetExist": true, "Exist": true, "Delete": true, "DeleteGet": true,
	"DeleteGetExist": true, "BGet": true, "ItemGet": true, "GetOrSet": true, "GetAndDel": true}
var valued = map[string]bool{"Set": true, "Add": true, "GetOrSet": true}

// MarshalJSON: "k" is printed exactly for the calls that take a key / index (key 0 included)
func (o Op) MarshalJSON() ([]byte, error) {
	var sb strings.Builder
	fmt.Fprintf(&sb, "{\"m\":%q", o.M)
	if keyed[o.M] {
		fmt.Fprintf(&sb, ",\"k\":%d", o.K)
	}
	if valued[o.M] || o.V != 0 {
		fmt.Fprintf(&sb, ",\"v\":%d", o.V)
	}
	if len(o.Vs) > 0 {
		b, _ := json.Marshal(o.Vs)
		fmt.Fprintf(&sb, ",\"vs\":%s", b)
	}
	if o.D != 0 {
		fmt.Fprintf(&sb, ",\"d\":%d", o.D)
	}
	sb.WriteString("}")
	return []byte(sb.String()), nil
}

type Res struct {
	V     int64   `json:"v,omitempty"`
	Ok    bool    `json:"ok,omitempty"`
	N     int     `json:"n,omitempty"`
	L     []int64 `json:"l,omitempty"`
	Panic bool    `json:"panic,omitempty"`
}

type Rec struct {
	G    int   `json:"g"` // goroutine; -1 prefill, -2 observation after the join
	Op   Op    `json:"op"`
	Res  Res   `json:"res"`
	Call int64 `json:"call"`
	Ret  int64 `json:"ret"`
}

type Scenario struct {
	Type    string `json:"type"`
	Shape   string `json:"shape"` // small | big
	Focus   string `json:"focus,omitempty"`
	Seed    uint64 `json:"seed"`
	Buckets int    `json:"buckets,omitempty"`
	NThr    int    `json:"threads_n"`
	PerThr  int    `json:"calls_per_thread"`
	Prefill []Op   `json:"prefill,omitempty"`
	Threads [][]Op `json:"threads,omitempty"`
	Final   []Op   `json:"final,omitempty"`
}

type Case struct {
	Scenario
	History  []Rec  `json:"history,omitempty"`
	Expected []Res  `json:"expected_serial,omitempty"` // big shape: results of the serial execution, history order
	Verdict  string `json:"verdict,omitempty"`
}

// ---------------------------------------------------------------- sequential specifications (state = []int64)

func cp(s []int64) []int64 { return append([]int64(nil), s...) }

func eqS(a, b []int64) bool {
	if len(a) != len(b) {
		return false
	}
	for i := range a {
		if a[i] != b[i] {
			return false
		}
	}
	return true
}

func resEq(a, b Res) bool {
	return a.V == b.V && a.Ok == b.Ok && a.N == b.N && a.Panic == b.Panic && eqS(a.L, b.L)
}

// flat (key, value) pairs
func pfind(s []int64, k int64) int {
	for i := 0; i+1 < len(s); i += 2 {
		if s[i] == k {
			return i
		}
	}
	return -1
}

func sortPairs(s []int64) []int64 {
	n := len(s) / 2
	idx := make([]int, n)
	for i := range idx {
		idx[i] = i
	}
	sort.SliceStable(idx, func(a, b int) bool { return s[2*idx[a]] < s[2*idx[b]] })
	out := make([]int64, 0, len(s))
	for _, i := range idx {
		out = append(out, s[2*i], s[2*i+1])
	}
	return out
}

func sorted(s []int64) []int64 {
	o := cp(s)
	sort.Slice(o, func(i, j int) bool { return o[i] < o[j] })
	return o
}

// plain map with sorted keys (SyncMap, MutexBucket): pairs sorted by key
func mapSet(s []int64, k, v int64) []int64 {
	o := cp(s)
	if i := pfind(o, k); i >= 0 {
		o[i+1] = v
		return o
	}
	return sortPairs(append(o, k, v))
}

func mapDel(s []int64, k int64) []int64 {
	i := pfind(s, k)
	if i < 0 {
		return s
	}
	o := cp(s[:i])
	return append(o, s[i+2:]...)
}

func keysOf(s []int64) []int64 {
	var o []int64
	for i := 0; i+1 < len(s); i += 2 {
		o = append(o, s[i])
	}
	return o
}

// OrderSync: entry list in insertion order with swap-delete
func specOrder(sc *Scenario, s []int64, op Op) (Res, []int64) {
	i := pfind(s, op.K)
	switch op.M {
	case "Set":
		if i >= 0 {
			o := cp(s)
			o[i+1] = op.V
			return Res{}, o
		}
		return Res{}, append(cp(s), op.K, op.V)
	case "Add":
		if i >= 0 {
			return Res{}, s
		}
		return Res{}, append(cp(s), op.K, op.V)
	case "Del":
		if i < 0 {
			return Res{}, s
		}
		o := cp(s)
		n := len(o)
		o[i], o[i+1] = o[n-2], o[n-1]
		return Res{}, o[:n-2]
	case "Get":
		if i < 0 {
			return Res{}, s
		}
		return Res{V: s[i+1], Ok: true}, s
	case "Len":
		return Res{N: len(s) / 2}, s
	case "Range":
		return Res{L: cp(s)}, s
	}
	panic("specOrder: " + op.M)
}

// SyncMap and MutexBucket (one plain map)
func specMap(sc *Scenario, s []int64, op Op) (Res, []int64) {
	i := pfind(s, op.K)
	var cur int64
	if i >= 0 {
		cur = s[i+1]
	}
	switch op.M {
	case "Set":
		return Res{}, mapSet(s, op.K, op.V)
	case "Get": // SyncMap.Get: value or zero
		return Res{V: cur}, s
	case "GetExist", "BGet", "ItemGet": // (value, exists)
		return Res{V: cur, Ok: i >= 0}, s
	case "Exist":
		return Res{Ok: i >= 0}, s
	case "Delete", "Del":
		return Res{}, mapDel(s, op.K)
	case "DeleteGet":
		return Res{V: cur}, mapDel(s, op.K)
	case "DeleteGetExist", "GetAndDel":
		return Res{V: cur, Ok: i >= 0}, mapDel(s, op.K)
	case "GetOrSet":
		if i >= 0 {
			return Res{V: cur, Ok: true}, s
		}
		return Res{V: op.V}, mapSet(s, op.K, op.V)
	case "Size", "Len":
		return Res{N: len(s) / 2}, s
	case "Keys":
		return Res{L: keysOf(s)}, s
	case "Map":
		return Res{L: cp(s)}, s
	case "Clear":
		return Res{}, nil
	case "ClearBucket": // one bucket (op.K) emptied atomically: a step of MutexBucket.Clear
		var o []int64
		for j := 0; j+1 < len(s); j += 2 {
			if hashFn(sc.Buckets, s[j]) != int(op.K) {
				o = append(o, s[j], s[j+1])
			}
		}
		return Res{}, o
	}
	panic("specMap: " + op.M)
}

// SyncSlice
func specSlice(sc *Scenario, s []int64, op Op) (Res, []int64) {
	switch op.M {
	case "Append":
		return Res{}, append(cp(s), op.Vs...)
	case "Get":
		if op.K < 0 || int(op.K) >= len(s) {
			return Res{Panic: true}, s
		}
		return Res{V: s[op.K]}, s
	case "Set":
		if op.K < 0 || int(op.K) >= len(s) {
			return Res{Panic: true}, s
		}
		o := cp(s)
		o[op.K] = op.V
		return Res{}, o
	case "GetData":
		return Res{L: cp(s)}, s
	case "Clear":
		return Res{}, nil
	}
	panic("specSlice: " + op.M)
}

// SyncPrioritySlice: value = priority*1000 + unique; the state is the multiset (sorted by value); the order
// among equal priorities is not determined (sort.Slice is not stable), so Slice is matched by matchPrio
func prioOf(v int64) int64 { return v / 1000 }

func specPrio(sc *Scenario, s []int64, op Op) (Res, []int64) {
	switch op.M {
	case "Append":
		return Res{}, sorted(append(cp(s), op.V))
	case "Appends":
		return Res{}, sorted(append(cp(s), op.Vs...))
	case "Len":
		return Res{N: len(s)}, s
	case "Slice":
		return Res{L: cp(s)}, s
	case "Clear":
		return Res{}, nil
	}
	panic("specPrio: " + op.M)
}

func matchPrio(op Op, want, got Res) bool {
	if op.M != "Slice" {
		return resEq(want, got)
	}
	if got.Panic || !eqS(sorted(got.L), want.L) {
		return false
	}
	for i := 1; i < len(got.L); i++ {
		if prioOf(got.L[i-1]) > prioOf(got.L[i]) {
			return false
		}
	}
	return true
}

// ---------------------------------------------------------------- the real objects

func hashFn(size int, key int64) int { return int(((key % int64(size)) + int64(size)) % int64(size)) }

func mkOrder(sc *Scenario) func(Op) Res {
	o := mappings.NewOrderSync[int64, int64]()
	return func(op Op) Res {
		switch op.M {
		case "Set":
			o.Set(op.K, op.V)
		case "Add":
			o.Add(op.K, op.V)
		case "Del":
			o.Del(op.K)
		case "Get":
			v, ok := o.Get(op.K)
			return Res{V: v, Ok: ok}
		case "Len":
			return Res{N: o.Len()}
		case "Range":
			var l []int64
			o.Range(func(k, v int64) bool { l = append(l, k, v); return true })
			return Res{L: l}
		default:
			panic("mkOrder: " + op.M)
		}
		return Res{}
	}
}

func mkSyncMap(sc *Scenario) func(Op) Res {
	m := mappings.NewSyncMap[int64, int64]()
	return func(op Op) Res {
		switch op.M {
		case "Set":
			m.Set(op.K, op.V)
		case "Get":
			return Res{V: m.Get(op.K)}
		case "GetExist":
			v, ok := m.GetExist(op.K)
			return Res{V: v, Ok: ok}
		case "Exist":
			return Res{Ok: m.Exist(op.K)}
		case "Delete":
			m.Delete(op.K)
		case "DeleteGet":
			return Res{V: m.DeleteGet(op.K)}
		case "DeleteGetExist":
			v, ok := m.DeleteGetExist(op.K)
			return Res{V: v, Ok: ok}
		case "Size":
			return Res{N: m.Size()}
		case "Keys":
			return Res{L: sorted(m.Keys())}
		case "Map":
			var l []int64
			for k, v := range m.Map() {
				l = append(l, k, v)
			}
			return Res{L: sortPairs(l)}
		case "Clear":
			m.Clear()
		default:
			panic("mkSyncMap: " + op.M)
		}
		return Res{}
	}
}

func mkBucket(sc *Scenario) func(Op) Res {
	b := mappings.NewMutexBucket[int64, int64](sc.Buckets, hashFn)
	return func(op Op) Res {
		switch op.M {
		case "Set":
			b.Set(op.K, op.V)
		case "BGet":
			v, ok := b.Get(op.K)
			return Res{V: v, Ok: ok}
		case "Del":
			b.Del(op.K)
		case "ItemGet":
			v, ok := b.GetBucket(op.K).Get(op.K)
			return Res{V: v, Ok: ok}
		case "GetOrSet":
			v, ok := b.GetBucket(op.K).GetOrSet(op.K, op.V)
			return Res{V: v, Ok: ok}
		case "GetAndDel":
			v, ok := b.GetBucket(op.K).GetAndDel(op.K)
			return Res{V: v, Ok: ok}
		case "Len":
			return Res{N: b.Len()}
		case "Clear":
			b.Clear()
		default:
			panic("mkBucket: " + op.M)
		}
		return Res{}
	}
}

func mkSlice(sc *Scenario) func(Op) Res {
	s := listings.NewSyncSlice[int64](0, 0)
	return func(op Op) Res {
		switch op.M {
		case "Append":
			s.Append(op.Vs...)
		case "Get":
			return Res{V: s.Get(int(op.K))}
		case "Set":
			s.Set(int(op.K), op.V)
		case "GetData":
			return Res{L: s.GetData()}
		case "Clear":
			s.Clear()
		default:
			panic("mkSlice: " + op.M)
		}
		return Res{}
	}
}

func mkPrio(sc *Scenario) func(Op) Res {
	s := listings.NewSyncPrioritySlice[int64]()
	return func(op Op) Res {
		switch op.M {
		case "Append":
			s.Append(op.V, int(prioOf(op.V)))
		case "Appends":
			s.Appends(int(prioOf(op.Vs[0])), op.Vs...)
		case "Len":
			return Res{N: s.Len()}
		case "Slice":
			return Res{L: s.Slice()}
		case "Clear":
			s.Clear()
		default:
			panic("mkPrio: " + op.M)
		}
		return Res{}
	}
}

// ---------------------------------------------------------------- targets

type target struct {
	name  string
	mk    func(*Scenario) func(Op) Res
	spec  func(*Scenario, []int64, Op) (Res, []int64)
	match func(Op, Res, Res) bool
	// small shape: the methods mixed (atomic in the models), those added only under -focus, the observation
	small, focusOnly []string
	// big shape: the methods a goroutine applies to its OWN keys
	big []string
	// translation of a method name of the Go type (as in the lock skeletons) to the op name used here
	alias map[string]string
}

var targets = []*target{
	{name: "OrderSync", mk: mkOrder, spec: specOrder, match: func(_ Op, a, b Res) bool { return resEq(a, b) },
		small: []string{"Set", "Add", "Del", "Get", "Len", "Range"}, big: []string{"Set", "Add", "Del", "Get"}},
	{name: "SyncMap", mk: mkSyncMap, spec: specMap, match: func(_ Op, a, b Res) bool { return resEq(a, b) },
		small: []string{"Set", "Get", "GetExist", "Exist", "Delete", "DeleteGet", "DeleteGetExist", "Size", "Keys", "Map", "Clear"},
		big:   []string{"Set", "Get", "GetExist", "Exist", "Delete", "DeleteGet", "DeleteGetExist"}},
	{name: "MutexBucket", mk: mkBucket, spec: specMap, match: func(_ Op, a, b Res) bool { return resEq(a, b) },
		small: []string{"Set", "BGet", "Del", "ItemGet", "GetOrSet", "GetAndDel"}, focusOnly: []string{"Len", "Clear"},
		big:   []string{"Set", "BGet", "Del", "ItemGet", "GetOrSet", "GetAndDel"},
		alias: map[string]string{"Get": "BGet"}},
	{name: "SyncSlice", mk: mkSlice, spec: specSlice, match: func(_ Op, a, b Res) bool { return resEq(a, b) },
		small: []string{"Append", "Get", "Set", "GetData", "Clear"}, big: []string{"Append", "Get", "Set"}},
	{name: "SyncPrioritySlice", mk: mkPrio, spec: specPrio, match: matchPrio,
		small: []string{"Append", "Len", "Slice", "Clear"}, focusOnly: []string{"Appends"}, big: []string{"Append", "Appends"}},
}

func targetOf(name string) *target {
	if name == "MutexBucketItem" {
		name = "MutexBucket"
	}
	for _, t := range targets {
		if t.name == name {
			return t
		}
	}
	return nil
}

func has(l []string, x string) bool {
	for _, y := range l {
		if y == x {
			return true
		}
	}
	return false
}

// ---------------------------------------------------------------- scenario generation (everything from the seed)

func delay(r *vh.RNG) int {
	if r.Chance(2, 3) {
		return 0
	}
	return r.Range(1, 60)
}

func genScenario(t *target, shape, focus string, seed uint64) *Scenario {
	r := vh.NewRNG(seed)
	sc := &Scenario{Type: t.name, Shape: shape, Focus: focus, Seed: seed}
	fm := ""
	if focus != "" {
		if i := strings.Index(focus, "."); i >= 0 {
			fm = focus[i+1:]
		}
		if a := t.alias[fm]; a != "" && !strings.HasPrefix(focus, "MutexBucketItem.") {
			fm = a
		}
		if strings.HasPrefix(focus, "MutexBucketItem.") && fm == "Get" {
			fm = "ItemGet"
		}
	}
	uniq := int64(0)
	next := func() int64 { uniq++; return uniq }
	if t.name == "MutexBucket" {
		sc.Buckets = r.Range(1, 3)
	}
	if shape == "small" {
		mix := append([]string(nil), t.small...)
		multi := fm == "Len+Clear" && len(t.focusOnly) > 0 // MutexBucket: the bucket-by-bucket methods mixed in
		if fm != "" && has(t.focusOnly, fm) {
			mix = append(mix, fm)
		}
		if !has(mix, fm) {
			fm = ""
		}
		sc.NThr = r.Range(2, 4)
		sc.PerThr = r.Range(3, 8)
		dom := int64(r.Range(2, 4))
		// SyncSlice: Set panics while holding the lock on a bad index (known, docs/C16-NOTES.md) and would block
		// everything after it: either the slice never shrinks and indices stay below the prefill (variant A), or
		// Clear is mixed and Set is not (variant B)
		sliceA := r.Bool()
		npre := r.Range(0, 4)
		if t.name == "SyncSlice" && sliceA {
			npre = r.Range(2, 4)
		}
		if fm == "Del" || fm == "Delete" || fm == "GetAndDel" || fm == "DeleteGet" || fm == "DeleteGetExist" {
			npre, dom = int(dom)+r.Range(0, 2), dom+2 // deletes need something to delete
		}
		for i := 0; i < npre; i++ {
			switch t.name {
			case "SyncSlice":
				sc.Prefill = append(sc.Prefill, Op{M: "Append", Vs: []int64{next()}})
			case "SyncPrioritySlice":
				sc.Prefill = append(sc.Prefill, Op{M: "Append", V: int64(r.Intn(3))*1000 + next()})
			default:
				sc.Prefill = append(sc.Prefill, Op{M: "Set", K: int64(i) % dom, V: next()})
			}
		}
		if multi {
			sc.Buckets = r.Range(2, 3)
		}
		gen := func() Op {
			m := mix[r.Intn(len(mix))]
			if fm != "" && r.Bool() {
				m = fm
			}
			if multi && r.Chance(2, 5) {
				m = "Len"
				if r.Chance(1, 4) {
					m = "Clear"
				}
			}
			if t.name == "SyncSlice" {
				if sliceA && m == "Clear" {
					m = "GetData"
				}
				if !sliceA && m == "Set" {
					m = "Append"
				}
			}
			op := Op{M: m, D: delay(r)}
			switch t.name {
			case "SyncSlice":
				switch m {
				case "Append":
					for i, n := 0, r.Range(1, 2); i < n; i++ {
						op.Vs = append(op.Vs, next())
					}
				case "Set":
					op.K, op.V = int64(r.Intn(npre)), next()
				case "Get":
					if sliceA {
						op.K = int64(r.Intn(npre))
					} else {
						op.K = int64(r.Intn(4))
					}
				}
			case "SyncPrioritySlice":
				switch m {
				case "Append":
					op.V = int64(r.Intn(3))*1000 + next()
				case "Appends":
					p := int64(r.Intn(3)) * 1000
					for i, n := 0, r.Range(2, 3); i < n; i++ {
						op.Vs = append(op.Vs, p+next())
					}
				}
			default:
				if keyed[m] {
					op.K = int64(r.Intn(int(dom)))
				}
				if valued[m] {
					op.V = next()
				}
			}
			return op
		}
		for g := 0; g < sc.NThr; g++ {
			var ops []Op
			for i := 0; i < sc.PerThr; i++ {
				ops = append(ops, gen())
			}
			sc.Threads = append(sc.Threads, ops)
		}
		// observation after the join
		switch t.name {
		case "OrderSync":
			sc.Final = []Op{{M: "Len"}, {M: "Range"}}
			for k := int64(0); k < dom; k++ {
				sc.Final = append(sc.Final, Op{M: "Get", K: k})
			}
		case "SyncMap":
			sc.Final = []Op{{M: "Size"}, {M: "Map"}}
		case "MutexBucket":
			sc.Final = []Op{{M: "Len"}}
			for k := int64(0); k < dom; k++ {
				sc.Final = append(sc.Final, Op{M: "BGet", K: k})
			}
		case "SyncSlice":
			sc.Final = []Op{{M: "GetData"}}
		case "SyncPrioritySlice":
			sc.Final = []Op{{M: "Len"}, {M: "Slice"}}
		}
		return sc
	}
	// big: own keys / indices / values per goroutine
	sc.NThr = r.Range(4, 8)
	sc.PerThr = r.Range(16, 64)
	own := r.Range(4, 16)
	mix := t.big
	if !has(mix, fm) {
		fm = ""
	}
	key := func(g, j int) int64 { return int64(j*sc.NThr + g) } // interleaved ownership: neighbours in the entry list belong to different goroutines
	switch t.name {
	case "SyncSlice":
		for i := 0; i < own*sc.NThr; i++ {
			sc.Prefill = append(sc.Prefill, Op{M: "Append", Vs: []int64{next()}})
		}
	case "SyncPrioritySlice":
	default:
		for j := 0; j < own; j++ {
			for g := 0; g < sc.NThr; g++ {
				if fm != "" || r.Chance(3, 4) {
					sc.Prefill = append(sc.Prefill, Op{M: "Set", K: key(g, j), V: next()})
				}
			}
		}
	}
	for g := 0; g < sc.NThr; g++ {
		var ops []Op
		for i := 0; i < sc.PerThr; i++ {
			m := mix[r.Intn(len(mix))]
			if fm != "" && r.Chance(2, 3) {
				m = fm
			}
			op := Op{M: m, D: delay(r)}
			switch t.name {
			case "SyncSlice":
				switch m {
				case "Append":
					op.Vs = []int64{next()}
				case "Set":
					op.K, op.V = key(g, r.Intn(own)), next()
				case "Get":
					op.K = key(g, r.Intn(own))
				}
			case "SyncPrioritySlice":
				p := int64(r.Intn(4)) * 1000
				if m == "Append" {
					op.V = p + next()
				} else {
					for i, n := 0, r.Range(1, 3); i < n; i++ {
						op.Vs = append(op.Vs, p+next())
					}
				}
			default:
				op.K = key(g, r.Intn(own))
				switch m {
				case "Set", "Add", "GetOrSet":
					op.V = next()
				}
			}
			ops = append(ops, op)
		}
		sc.Threads = append(sc.Threads, ops)
	}
	switch t.name {
	case "OrderSync":
		sc.Final = []Op{{M: "Len"}, {M: "Range"}}
	case "SyncMap":
		sc.Final = []Op{{M: "Size"}, {M: "Keys"}, {M: "Map"}}
	case "MutexBucket":
		sc.Final = []Op{{M: "Len"}}
	case "SyncSlice":
		sc.Final = []Op{{M: "GetData"}}
	case "SyncPrioritySlice":
		sc.Final = []Op{{M: "Len"}, {M: "Slice"}}
	}
	if t.name == "OrderSync" || t.name == "MutexBucket" {
		get := map[string]string{"OrderSync": "Get", "MutexBucket": "BGet"}[t.name]
		for j := 0; j < own; j++ {
			for g := 0; g < sc.NThr; g++ {
				sc.Final = append(sc.Final, Op{M: get, K: key(g, j)})
			}
		}
	}
	return sc
}

// ---------------------------------------------------------------- running a scenario on the real code

var sink atomic.Int64

func call(do func(Op) Res, op Op) (res Res) {
	defer func() {
		if r := recover(); r != nil {
			res = Res{Panic: true}
		}
	}()
	return do(op)
}

func runScenario(t *target, sc *Scenario) (hist []Rec, hang bool) {
	do := t.mk(sc)
	var clock atomic.Int64
	for _, op := range sc.Prefill {
		c := clock.Add(1)
		r := call(do, op)
		hist = append(hist, Rec{G: -1, Op: op, Res: r, Call: c, Ret: clock.Add(1)})
	}
	n := len(sc.Threads)
	recs := make([][]Rec, n)
	var ready atomic.Int32
	var wg sync.WaitGroup
	for g := 0; g < n; g++ {
		g := g
		wg.Add(1)
		go func() {
			defer wg.Done()
			local := make([]Rec, 0, len(sc.Threads[g]))
			ready.Add(1)
			for spins := 0; int(ready.Load()) < n; spins++ { // start together
				if spins > 2000 {
					runtime.Gosched()
				}
			}
			for _, op := range sc.Threads[g] {
				for i := 0; i < op.D; i++ {
					sink.Add(1)
				}
				c := clock.Add(1)
				r := call(do, op)
				local = append(local, Rec{G: g, Op: op, Res: r, Call: c, Ret: clock.Add(1)})
			}
			recs[g] = local
		}()
	}
	done := make(chan struct{})
	go func() { wg.Wait(); close(done) }()
	select {
	case <-done:
	case <-time.After(20 * time.Second):
		return hist, true
	}
	for g := 0; g < n; g++ {
		hist = append(hist, recs[g]...)
	}
	fin := make(chan []Rec, 1)
	go func() {
		var l []Rec
		for _, op := range sc.Final {
			c := clock.Add(1)
			r := call(do, op)
			l = append(l, Rec{G: -2, Op: op, Res: r, Call: c, Ret: clock.Add(1)})
		}
		fin <- l
	}()
	select {
	case l := <-fin:
		hist = append(hist, l...)
	case <-time.After(20 * time.Second):
		return hist, true
	}
	return hist, false
}

func overlapped(h []Rec) bool {
	for i := range h {
		for j := i + 1; j < len(h); j++ {
			if h[i].G >= 0 && h[j].G >= 0 && h[i].G != h[j].G && h[i].Call < h[j].Ret && h[j].Call < h[i].Ret {
				return true
			}
		}
	}
	return false
}

// ---------------------------------------------------------------- judging a history

// exhaustive search for a linearization (independent of porcupine).  complete=false: node budget exhausted.
func bruteLin(t *target, sc *Scenario, h []Rec, budget int) (ok, complete bool) {
	n := len(h)
	if n > 63 {
		return false, false
	}
	pred := make([]uint64, n)
	for i := range h {
		for j := range h {
			if i != j && h[j].Ret < h[i].Call {
				pred[i] |= 1 << uint(j)
			}
		}
	}
	full := uint64(1)<<uint(n) - 1
	dead := map[string]bool{}
	nodes := 0
	aborted := false
	var dfs func(done uint64, st []int64) bool
	dfs = func(done uint64, st []int64) bool {
		if done == full {
			return true
		}
		nodes++
		if nodes > budget {
			aborted = true
			return false
		}
		key := fmt.Sprint(done, st)
		if dead[key] {
			return false
		}
		for i := 0; i < n; i++ {
			bit := uint64(1) << uint(i)
			if done&bit != 0 || pred[i]&^done != 0 {
				continue
			}
			want, ns := t.spec(sc, st, h[i].Op)
			if t.match(h[i].Op, want, h[i].Res) && dfs(done|bit, ns) {
				return true
			}
			if aborted {
				return false
			}
		}
		dead[key] = true
		return false
	}
	ok = dfs(0, nil)
	return ok, !aborted
}

func describe(op Op, r Res) string {
	b1, _ := json.Marshal(op)
	b2, _ := json.Marshal(r)
	return string(b1) + " -> " + string(b2)
}

func linearizable(t *target, sc *Scenario, h []Rec) (verdict string) {
	model := porcupine.Model{
		Init: func() interface{} { return []int64(nil) },
		Step: func(st, in, out interface{}) (bool, interface{}) {
			want, ns := t.spec(sc, st.([]int64), in.(Op))
			return t.match(in.(Op), want, out.(Res)), ns
		},
		Equal:             func(a, b interface{}) bool { return eqS(a.([]int64), b.([]int64)) },
		DescribeOperation: func(in, out interface{}) string { return describe(in.(Op), out.(Res)) },
	}
	ops := make([]porcupine.Operation, len(h))
	for i, r := range h {
		ops[i] = porcupine.Operation{ClientId: r.G + 2, Input: r.Op, Call: r.Call, Output: r.Res, Return: r.Ret}
	}
	switch porcupine.CheckOperationsTimeout(model, ops, 3*time.Second) {
	case porcupine.Ok:
		return "linearizable"
	case porcupine.Unknown:
		return "undecided"
	}
	ok, complete := bruteLin(t, sc, h, 400000)
	switch {
	case !complete:
		return "not-linearizable" // porcupine alone
	case !ok:
		return "not-linearizable" // both
	}
	return "checkers-disagree"
}

// relaxBucket: the history with MutexBucket.Len and Clear taken as what they are — Len (read-only) dropped, Clear
// replaced by one atomic ClearBucket per bucket, all within the call's interval (in any order: weaker than the
// code's index order, so "explained by Len/Clear" is claimed only when even that does not help the other calls).
// Only calls of the concurrent part are relaxed; the observation after the join is quiescent and stays.
func relaxBucket(sc *Scenario, h []Rec) (out []Rec, changed bool) {
	for _, r := range h {
		switch {
		case r.G >= 0 && r.Op.M == "Len":
			changed = true
		case r.G >= 0 && r.Op.M == "Clear":
			changed = true
			for b := 0; b < sc.Buckets; b++ {
				out = append(out, Rec{G: r.G, Op: Op{M: "ClearBucket", K: int64(b)}, Call: r.Call, Ret: r.Ret})
			}
		default:
			out = append(out, r)
		}
	}
	return out, changed
}

// canonical form of an order-insensitive observation (big shape)
func canon(sc *Scenario, op Op, r Res) Res {
	switch {
	case sc.Type == "OrderSync" && op.M == "Range":
		r.L = sortPairs(r.L)
	case sc.Type == "SyncSlice" && op.M == "GetData":
		p := len(sc.Prefill)
		if len(r.L) >= p {
			r.L = append(cp(r.L[:p]), sorted(r.L[p:])...)
		}
	}
	return r
}

func judge(t *target, sc *Scenario, h []Rec, hang bool) (c Case, viol []vh.Violation) {
	c = Case{Scenario: *sc}
	sig := map[string]string{"type": sc.Type, "shape": sc.Shape}
	add := func(class, detail string) {
		c.History = h
		c.Verdict = class
		viol = append(viol, vh.Violation{Kind: "conc:" + sc.Type + ":" + class, Detail: detail, Sig: sig})
	}
	if hang {
		add("hang", "goroutines did not finish within 20 s (lock left held or deadlock)")
		return
	}
	for _, r := range h {
		if r.Res.Panic {
			want := false
			if sc.Type == "SyncSlice" && sc.Shape == "small" && (r.Op.M == "Get" || r.Op.M == "Set") {
				want = true // index out of range is possible there; the linearizability check decides
			}
			if !want {
				add("panic", fmt.Sprintf("goroutine %d: %s panicked; no sequential execution of these calls panics", r.G, describe(r.Op, r.Res)))
				return
			}
		}
	}
	if sc.Shape == "small" {
		v := linearizable(t, sc, h)
		if v == "not-linearizable" && sc.Type == "MutexBucket" {
			// Is it the bucket-by-bucket Len / Clear (open finding) or something else?
			rel, changed := relaxBucket(sc, h)
			switch {
			case !changed:
				v = "atomic-methods-not-linearizable"
			default:
				switch linearizable(t, sc, rel) {
				case "linearizable":
					// stays "not-linearizable": explained by Len / Clear not being one critical section
				case "undecided":
					v = "undecided"
				default:
					v = "atomic-methods-not-linearizable"
				}
			}
			if v == "atomic-methods-not-linearizable" {
				add(v, fmt.Sprintf("the %d recorded calls are not linearizable against a plain map, and they stay so with the concurrent Len calls dropped "+
					"and every concurrent Clear taken as one atomic clear per bucket: a method that is ONE critical section does not behave atomically", len(h)))
				return
			}
		}
		switch v {
		case "not-linearizable":
			if sc.Type == "MutexBucket" {
				add(v, fmt.Sprintf("no sequential order of the %d recorded calls that respects their real-time order yields the observed results "+
					"(sequential specification: plain map); the history IS linearizable once the concurrent Len calls are dropped and every concurrent Clear "+
					"is taken as one atomic clear per bucket: MutexBucket.Len / Clear work bucket by bucket under separate locks and are not atomic", len(h)))
				return
			}
			add(v, fmt.Sprintf("no sequential order of the %d recorded calls that respects their real-time order yields the observed results "+
				"(sequential specification: plain %s)", len(h), map[string]string{"OrderSync": "entry list with swap-delete", "SyncMap": "map",
				"MutexBucket": "map", "SyncSlice": "slice", "SyncPrioritySlice": "multiset ordered by priority"}[sc.Type]))
		case "checkers-disagree":
			b, _ := json.Marshal(h)
			fmt.Fprintf(os.Stderr, "c16conc: INTERNAL: porcupine says not linearizable, the exhaustive search found a linearization\n%s\n", b)
			os.Exit(3)
		default:
			c.Verdict = v
		}
		return
	}
	// big: serial execution prefill; goroutine 0; 1; ...; observation (h is in that order)
	var st []int64
	for i, r := range h {
		want, ns := t.spec(sc, st, r.Op)
		st = ns
		c.Expected = append(c.Expected, want)
		got := canon(sc, r.Op, r.Res)
		want = canon(sc, r.Op, want)
		if !t.match(r.Op, want, got) {
			class := "own-key-result-differs"
			if r.G == -2 {
				class = "final-state-differs"
			}
			add(class, fmt.Sprintf("call %d (goroutine %d) %s; the goroutines work on disjoint keys, so every interleaving must give %s",
				i, r.G, describe(r.Op, r.Res), describe(r.Op, want)))
			return
		}
	}
	c.Expected = nil
	c.Verdict = "as-serial"
	return
}

// ---------------------------------------------------------------- main

func slim(sc *Scenario) Scenario { // what goes to the case log: the ops are a function of (type, shape, focus, seed)
	s := *sc
	s.Prefill, s.Threads, s.Final = nil, nil, nil
	return s
}

func main() {
	focus := flag.String("focus", "", "Type.Method: only that type, mix biased to that method, run until -budget or a hit")
	budget := flag.Float64("budget", 0, "seconds (with -focus; 0 = 20)")
	f := vh.ParseFlags()
	if f.Replay != "" {
		var c Case
		vh.LoadReplayCase(f.Replay, &c)
		t := targetOf(c.Type)
		sc := c.Scenario
		if len(sc.Threads) == 0 {
			sc = *genScenario(t, c.Shape, c.Focus, c.Seed)
		}
		rep := map[string]interface{}{"type": c.Type, "shape": c.Shape, "seed": c.Seed}
		if len(c.History) > 0 { // the recorded history is evidence by itself: judge it again
			_, v := judge(t, &sc, c.History, false)
			rep["recorded_history_calls"] = len(c.History)
			rep["recorded_history_verdict_now"] = "passes"
			if len(v) > 0 {
				rep["recorded_history_verdict_now"] = v[0].Kind
			}
		}
		// real goroutines are not replayable: repeat the recorded scenario and report whether a monitor fires again
		var hit []vh.Violation
		n := 0
		t0 := time.Now()
		for ; n < 200000 && len(hit) == 0 && time.Since(t0) < 20*time.Second; n++ {
			h, hang := runScenario(t, &sc)
			_, hit = judge(t, &sc, h, hang)
		}
		rep["rounds_run"] = n
		rep["monitor"] = hit
		b, _ := json.Marshal(rep)
		fmt.Println(string(b))
		if len(hit) > 0 {
			os.Exit(1)
		}
		return
	}
	out := vh.NewOut(f.Out, "conc", "", "", "", f.Seed,
		"concurrent rounds on the real code: small = 2-4 goroutines x 3-8 calls on 2-4 shared keys, history (logical clock stamps) checked for "+
			"linearizability against a plain slice/map specification (porcupine v1.3.0, confirmed by exhaustive search); big = 4-8 goroutines x 16-64 calls "+
			"on disjoint keys, all results and the final state compared with the serial execution; non-trivial = calls of two goroutines overlapped in the "+
			"recorded history; not evaluated in Coq")
	rng := vh.NewRNG(f.Seed)
	nSmall, nBig, nMulti := 1200, 120, 5000
	if f.Tier == "thorough" {
		nSmall, nBig, nMulti = 12000, 1500, 50000
	}
	if f.N > 0 {
		nSmall, nBig, nMulti = f.N, f.N/6, f.N
	}
	one := func(t *target, shape, fc string) bool {
		_, seed := rng.Derive()
		sc := genScenario(t, shape, fc, seed)
		h, hang := runScenario(t, sc)
		c, viol := judge(t, sc, h, hang)
		var cj interface{} = slim(sc)
		for i := range viol {
			viol[i].Case = c
		}
		out.Add(cj, "", overlapped(h), viol)
		out.Count("type/shape", sc.Type+"/"+shape)
		out.Count("verdict", c.Verdict)
		out.Count("goroutines", fmt.Sprint(sc.NThr))
		out.Count("calls", vh.Bucket(len(h)))
		return len(viol) > 0
	}
	if *focus != "" {
		tn := *focus
		if i := strings.Index(tn, "."); i >= 0 {
			tn = tn[:i]
		}
		t := targetOf(tn)
		if t == nil {
			fmt.Fprintln(os.Stderr, "c16conc: no stress for type", tn)
			out.Close()
			return
		}
		b := *budget
		if b <= 0 {
			b = 20
		}
		t0 := time.Now()
		for k := 0; time.Since(t0).Seconds() < b; k++ {
			shape := "big"
			if k%3 == 0 {
				shape = "small"
			}
			if one(t, shape, *focus) {
				break
			}
		}
		out.Close()
		return
	}
	for _, t := range targets {
		for i := 0; i < nSmall; i++ {
			one(t, "small", "")
		}
		if t.name == "MutexBucket" { // Len / Clear mixed in: normally reproduces the open finding C16-mutexbucket-len-not-atomic
			for i := 0; i < nMulti; i++ {
				one(t, "small", "MutexBucket.Len+Clear")
			}
		}
		for i := 0; i < nBig; i++ {
			one(t, "big", "")
		}
	}
	out.Close()
}
