// c09closing: search oracle (monitors only, real ActorSystem, public API) for one clause of C09 — "no recorded event is
// lost across generations" — for events an actor records inside its LAST handlers: OnTerminate and its own OnTerminated.
// The Coq side is MV.C09.OrderModel.handlers_recorded (no handler of the old instance after the last synchronous persist of
// tryTerminated / tryRestarted, proved of the extracted statement order on every run, theorem C09_last_handlers_are_persisted);
// this harness turns a broken obligation into a concrete history. A case = threshold + a list of generations, each with a few
// events and an end (restart by a scripted failure | stop and creation under the same persistence name); the actor records a
// marker in OnTerminate and another one in its own OnTerminated. After every launch the state must be exactly what the
// previous generation ended with.
package main

import (
	"encoding/json"
	"fmt"
	"os"
	"sync"
	"time"

	"github.com/kercylan98/minotaur/engine/vivid"
	"github.com/kercylan98/minotaur/engine/vivid/supervision"
	"github.com/kercylan98/minotaur/toolkit/log"
	"verif/harness/vh"
)

type Gen struct {
	Events  int  `json:"events"`
	Restart bool `json:"restart"` // the generation ends with a restart; otherwise stop + create again
}
type Case struct {
	Threshold int     `json:"threshold"`
	Gens      []Gen   `json:"gens"`
	Launch    [][]int `json:"launch"` // state seen right after each launch (from the second generation on)
	Want      [][]int `json:"want"`   // what the previous generation ended with
	Err       string  `json:"err,omitempty"`
}

type marker struct{ V int }
type query struct{}
type crash struct{}

var seq int

func run(c *Case) {
	c.Launch, c.Want, c.Err = nil, nil, ""
	seq++
	name := fmt.Sprintf("c09closing-%d-%d", os.Getpid(), seq)
	sys := vivid.NewActorSystem(vivid.FunctionalActorSystemConfigurator(func(cf *vivid.ActorSystemConfiguration) {
		cf.WithLoggerProvider(log.FunctionalLoggerProvider(func() *log.Logger { return log.NewSilentLogger() }))
	}))
	defer func() {
		done := make(chan struct{})
		go func() { defer func() { _ = recover(); close(done) }(); sys.Shutdown(false) }()
		select {
		case <-done:
		case <-time.After(3 * time.Second):
		}
	}()
	var mu sync.Mutex
	var ended []int // state of the running instance when it handled its own OnTerminated (after recording)
	launched := make(chan []int, 16)
	gen := 0
	// every generation is created by a supervisor actor inside its own handler: ActorOf called from a foreign goroutine on the
	// system (parent = the guard) races with the guard handling the termination notice of the previous generation (both touch the
	// guard's children table: DESIGN 7.4), which would crash this harness, not the code under test
	type spawnReq struct {
		mk  func(ctx vivid.ActorContext) vivid.ActorRef
		out chan vivid.ActorRef
	}
	sup := sys.ActorOfF(func() vivid.Actor {
		return vivid.FunctionalActor(func(ctx vivid.ActorContext) {
			if m, ok := ctx.Message().(spawnReq); ok {
				m.out <- m.mk(ctx)
			}
		})
	})
	spawn := func() vivid.ActorRef {
		out := make(chan vivid.ActorRef, 1)
		sys.Tell(sup, spawnReq{out: out, mk: func(pctx vivid.ActorContext) vivid.ActorRef {
			return pctx.ActorOfF(func() vivid.Actor {
				var state []int
				return vivid.FunctionalActor(func(ctx vivid.ActorContext) {
					switch m := ctx.Message().(type) {
					case *vivid.OnLaunch:
						// recovery runs inside this handler's step; report the state from a message queued behind it
						ctx.Tell(ctx.Ref(), query{})
					case query:
						launched <- append([]int(nil), state...)
					case int:
						state = append(state, m)
						ctx.StateChanged(m)
					case marker:
						state = append(state, m.V)
					case []int: // snapshot
						state = append([]int(nil), m...)
					case *vivid.OnPersistenceSnapshot:
						ctx.SaveSnapshot(append([]int(nil), state...))
					case *vivid.OnTerminate:
						mu.Lock()
						g := gen
						mu.Unlock()
						state = append(state, -(1000 + g))
						ctx.StateChanged(marker{-(1000 + g)})
					case *vivid.OnTerminated:
						if m.TerminatedActor.Equal(ctx.Ref()) {
							mu.Lock()
							g := gen
							mu.Unlock()
							state = append(state, -(2000 + g))
							ctx.StateChanged(marker{-(2000 + g)})
							mu.Lock()
							ended = append([]int(nil), state...)
							mu.Unlock()
						}
					case crash:
						panic("c09closing: scripted failure")
					}
				})
			}, func(d *vivid.ActorDescriptor) {
				d.WithPersistenceName(name)
				d.WithPersistenceEventThreshold(c.Threshold)
				d.WithSupervisionStrategyProvider(supervision.FunctionalStrategyProvider(func() supervision.Strategy {
					return supervision.OneForOne(-1, time.Millisecond, time.Millisecond, supervision.FunctionalDecide(func(*supervision.AccidentRecord) supervision.Directive {
						return supervision.DirectiveRestart
					}))
				}))
			})
		}})
		select {
		case r := <-out:
			return r
		case <-time.After(4 * time.Second):
			return nil
		}
	}
	// a watcher: the Terminated notice is sent at the very end of tryTerminated (after the persist and the unregistration), so
	// its arrival — not a sleep — tells that the old generation has finished writing
	gone := make(chan struct{}, 16)
	type watchReq struct{ ref vivid.ActorRef }
	watcher := sys.ActorOfF(func() vivid.Actor {
		return vivid.FunctionalActor(func(ctx vivid.ActorContext) {
			switch m := ctx.Message().(type) {
			case watchReq:
				ctx.Watch(m.ref)
				ctx.Reply(true)
			case *vivid.OnTerminated:
				if !m.TerminatedActor.Equal(ctx.Ref()) {
					gone <- struct{}{}
				}
			}
		})
	})
	wait := func() ([]int, bool) {
		select {
		case s := <-launched:
			return s, true
		case <-time.After(4 * time.Second):
			return nil, false
		}
	}
	ref := spawn()
	if ref == nil {
		c.Err = "the supervisor did not create the first generation"
		return
	}
	if _, ok := wait(); !ok {
		c.Err = "the first generation never launched"
		return
	}
	next := 1
	for i, g := range c.Gens {
		for k := 0; k < g.Events; k++ {
			sys.Tell(ref, next)
			next++
		}
		mu.Lock()
		gen = i
		ended = nil
		mu.Unlock()
		if g.Restart {
			sys.Tell(ref, crash{})
		} else {
			if _, err := sys.FutureAsk(watcher, watchReq{ref}, 4*time.Second).Result(); err != nil {
				c.Err = fmt.Sprintf("generation %d: the watcher did not answer: %v", i, err)
				return
			}
			sys.Terminate(ref, true)
			select {
			case <-gone:
			case <-time.After(4 * time.Second):
				c.Err = fmt.Sprintf("generation %d never terminated", i)
				return
			}
			ref = spawn()
			if ref == nil {
				c.Err = fmt.Sprintf("the supervisor did not create generation %d", i+1)
				return
			}
		}
		s, ok := wait()
		if !ok {
			c.Err = fmt.Sprintf("generation %d never launched", i+1)
			return
		}
		mu.Lock()
		w := append([]int(nil), ended...)
		mu.Unlock()
		c.Launch = append(c.Launch, s)
		c.Want = append(c.Want, w)
	}
}

func monitor(c *Case) (v []vh.Violation) {
	if c.Err != "" {
		return []vh.Violation{{Kind: "persist:closing:no-launch", Detail: c.Err, Case: *c}}
	}
	for i := range c.Launch {
		if fmt.Sprint(c.Launch[i]) != fmt.Sprint(c.Want[i]) {
			end := "stop+create"
			if c.Gens[i].Restart {
				end = "restart"
			}
			return []vh.Violation{{Kind: "persist:closing:event-of-last-handler-lost", Detail: fmt.Sprintf("generation %d ended (%s) with state %v (markers -1000-g recorded in OnTerminate, -2000-g in its own OnTerminated), the next launch rebuilt %v",
				i, end, c.Want[i], c.Launch[i]), Case: *c, Sig: map[string]string{"end": end}}}
		}
	}
	return nil
}

func main() {
	f := vh.ParseFlags()
	if f.Replay != "" {
		var c Case
		vh.LoadReplayCase(f.Replay, &c)
		run(&c)
		v := monitor(&c)
		b, _ := json.Marshal(map[string]interface{}{"case": c, "monitor": v})
		fmt.Println(string(b))
		if len(v) > 0 {
			os.Exit(1)
		}
		return
	}
	out := vh.NewOut(f.Out, "closing", "", "", "", f.Seed,
		"real ActorSystem, MemoryStorage: 1..4 generations of 0..4 events, each ended by a restart or by stop + creation under the same persistence name, thresholds 1..6 and 1000; "+
			"the actor records one marker in OnTerminate and one in its own OnTerminated; monitors only")
	rng := vh.NewRNG(f.Seed ^ 0xc09c)
	n := f.N
	if n == 0 {
		n = 60
		if f.Tier == "thorough" {
			n = 600
		}
	}
	cases := []Case{{Threshold: 1000, Gens: []Gen{{1, false}, {1, true}, {0, false}}}, {Threshold: 2, Gens: []Gen{{2, true}, {1, true}, {1, false}}}}
	for i := 0; i < n; i++ {
		cr, _ := rng.Derive()
		c := Case{Threshold: []int{1, 2, 3, 4, 6, 1000}[cr.Intn(6)]}
		for g, k := 0, cr.Range(1, 4); g < k; g++ {
			c.Gens = append(c.Gens, Gen{Events: cr.Intn(5), Restart: cr.Bool()})
		}
		cases = append(cases, c)
	}
	for i := range cases {
		c := cases[i]
		run(&c)
		v := monitor(&c)
		for _, g := range c.Gens {
			out.Count("generation_end", map[bool]string{true: "restart", false: "stop+create"}[g.Restart])
		}
		out.Add(&c, "", len(c.Gens) >= 2, v)
	}
	out.Close()
}
