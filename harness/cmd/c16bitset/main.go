// c16bitset: correspondence harness (T1) for toolkit.DynamicBitSet against MV.C16.BitsetModel,
// plus a brute-force monitor: two plain Go sets of positions.
package main

import (
	"encoding/json"
	"fmt"
	"os"
	"sort"

	"github.com/kercylan98/minotaur/toolkit"
	"verif/harness/vh"
)

type Op struct {
	K string `json:"k"` // S C T(isset) B E I N K KE CP F
	W bool   `json:"w"` // false = set a, true = set b
	P uint32 `json:"p,omitempty"`
	Z bool   `json:"z,omitempty"` // F: zero value (new(DynamicBitSet)) instead of NewDynamicBitSet()
}
type Res struct {
	K   string   `json:"k"` // unit bool list panic
	B   bool     `json:"b,omitempty"`
	L   []uint64 `json:"l,omitempty"`
	Msg string   `json:"msg,omitempty"`
}
type Case struct {
	ZA   bool  `json:"za"`
	ZB   bool  `json:"zb"`
	Ops  []Op  `json:"ops"`
	Impl []Res `json:"impl"`
}

func fresh(zero bool) *toolkit.DynamicBitSet {
	if zero {
		return new(toolkit.DynamicBitSet)
	}
	return toolkit.NewDynamicBitSet()
}

func keyWords(k string) []uint64 {
	var out []uint64
	for i := 0; i+8 <= len(k); i += 8 {
		var v uint64
		for j := 0; j < 8; j++ {
			v |= uint64(k[i+j]) << (8 * j)
		}
		out = append(out, v)
	}
	if len(k)%8 != 0 {
		out = append(out, ^uint64(0), ^uint64(0), ^uint64(0)) // malformed key: never equal to a model key
	}
	return out
}

func runImpl(c *Case) {
	s := [2]*toolkit.DynamicBitSet{fresh(c.ZA), fresh(c.ZB)}
	c.Impl = c.Impl[:0]
	for _, o := range c.Ops {
		c.Impl = append(c.Impl, apply(&s, o))
	}
}

func idx(w bool) int {
	if w {
		return 1
	}
	return 0
}

func apply(s *[2]*toolkit.DynamicBitSet, o Op) (res Res) {
	defer func() {
		if e := recover(); e != nil {
			res = Res{K: "panic", Msg: fmt.Sprint(e)}
		}
	}()
	me, other := s[idx(o.W)], s[1-idx(o.W)]
	switch o.K {
	case "S":
		me.Set(o.P)
		return Res{K: "unit"}
	case "C":
		me.Clear(o.P)
		return Res{K: "unit"}
	case "T":
		return Res{K: "bool", B: me.IsSet(o.P)}
	case "B":
		var l []uint64
		for _, b := range me.Bits() {
			l = append(l, uint64(b))
		}
		return Res{K: "list", L: l}
	case "E":
		return Res{K: "bool", B: me.Equal(other)}
	case "I":
		return Res{K: "bool", B: me.In(other)}
	case "N":
		return Res{K: "bool", B: me.NotIn(other)}
	case "K":
		return Res{K: "list", L: keyWords(me.Key())}
	case "KE":
		return Res{K: "bool", B: s[0].Key() == s[1].Key()}
	case "CP":
		s[1-idx(o.W)] = me.Copy()
		return Res{K: "unit"}
	case "F":
		s[idx(o.W)] = fresh(o.Z)
		return Res{K: "unit"}
	}
	panic("bad op " + o.K)
}

var fnName = map[string]string{"S": "Set", "C": "Clear", "T": "IsSet", "B": "Bits", "E": "Equal", "I": "In", "N": "NotIn", "K": "Key", "KE": "Key", "CP": "Copy", "F": "New"}

// monitor: two plain sets
func monitor(c *Case) (viol []vh.Violation) {
	sets := [2]map[uint32]bool{{}, {}}
	add := func(i int, class, detail string) {
		if len(viol) < 3 {
			o := c.Ops[i]
			viol = append(viol, vh.Violation{Kind: "bitset:" + fnName[o.K] + ":" + class,
				Detail: fmt.Sprintf("op #%d %s(w=%v,%d): %s", i, o.K, o.W, o.P, detail),
				Sig:    map[string]string{"fn": fnName[o.K], "class": class}})
		}
	}
	elems := func(m map[uint32]bool) []uint64 {
		var l []uint64
		for k := range m {
			l = append(l, uint64(k))
		}
		sort.Slice(l, func(i, j int) bool { return l[i] < l[j] })
		return l
	}
	eq := func(a, b map[uint32]bool) bool {
		if len(a) != len(b) {
			return false
		}
		for k := range a {
			if !b[k] {
				return false
			}
		}
		return true
	}
	for i, o := range c.Ops {
		got := c.Impl[i]
		if got.K == "panic" {
			add(i, "crash", got.Msg)
			return
		}
		me, other := sets[idx(o.W)], sets[1-idx(o.W)]
		switch o.K {
		case "S":
			me[o.P] = true
		case "C":
			delete(me, o.P)
		case "T":
			if got.B != me[o.P] {
				add(i, "wrong-answer", fmt.Sprintf("set %v, IsSet=%v", elems(me), got.B))
			}
		case "B":
			l := append([]uint64(nil), got.L...)
			sort.Slice(l, func(i, j int) bool { return l[i] < l[j] })
			want := elems(me)
			ok := len(l) == len(want)
			for j := 0; ok && j < len(l); j++ {
				ok = l[j] == want[j]
			}
			if !ok {
				add(i, "wrong-members", fmt.Sprintf("set %v, Bits=%v", want, got.L))
			}
		case "E":
			if got.B != eq(me, other) {
				add(i, "wrong-answer", fmt.Sprintf("sets %v and %v, Equal=%v", elems(me), elems(other), got.B))
			}
		case "I":
			want := true
			for k := range other {
				if !me[k] {
					want = false
				}
			}
			if got.B != want {
				add(i, "wrong-answer", fmt.Sprintf("set %v, mask %v, In=%v", elems(me), elems(other), got.B))
			}
		case "N":
			want := true
			for k := range other {
				if me[k] {
					want = false
				}
			}
			if got.B != want {
				add(i, "wrong-answer", fmt.Sprintf("set %v, mask %v, NotIn=%v", elems(me), elems(other), got.B))
			}
		case "KE":
			if got.B != eq(sets[0], sets[1]) {
				add(i, "not-a-function-of-the-set", fmt.Sprintf("sets %v and %v, keys equal=%v", elems(sets[0]), elems(sets[1]), got.B))
			}
		case "CP":
			cp := map[uint32]bool{}
			for k := range me {
				cp[k] = true
			}
			sets[1-idx(o.W)] = cp
		case "F":
			sets[idx(o.W)] = map[uint32]bool{}
		}
	}
	return
}

func coqOp(o Op) string {
	w := vh.Bool(o.W)
	p := vh.N(uint64(o.P))
	switch o.K {
	case "S":
		return vh.App("Set_", w, p)
	case "C":
		return vh.App("Clear_", w, p)
	case "T":
		return vh.App("IsSet", w, p)
	case "B":
		return vh.App("Bits", w)
	case "E":
		return vh.App("Equal", w)
	case "I":
		return vh.App("In_", w)
	case "N":
		return vh.App("NotIn", w)
	case "K":
		return vh.App("Key", w)
	case "KE":
		return "KeyEq"
	case "CP":
		return vh.App("CopyTo", w)
	case "F":
		return vh.App("Fresh", w, vh.Bool(o.Z))
	}
	panic(o.K)
}

func coqRes(r Res) string {
	switch r.K {
	case "unit":
		return "OUnit"
	case "bool":
		return vh.App("OBool", vh.Bool(r.B))
	case "list":
		it := make([]string, len(r.L))
		for i, v := range r.L {
			it[i] = vh.N(v)
		}
		return vh.App("OList", vh.List(it))
	}
	return "OBad"
}

func coqCase(id int, c *Case) string {
	ops := make([]string, len(c.Ops))
	for i, o := range c.Ops {
		ops[i] = coqOp(o)
	}
	rs := make([]string, len(c.Impl))
	for i, r := range c.Impl {
		rs[i] = coqRes(r)
	}
	return fmt.Sprintf("{| cid := %d; cza := %s; czb := %s; cops := %s; cimpl := %s |}", id, vh.Bool(c.ZA), vh.Bool(c.ZB), vh.List(ops), vh.List(rs))
}

// shape: does a comparison happen while an operand has trailing zero words / differing lengths
type shape struct{ trailingAtQuery, absentClear, boundary, maxPos int }

func analyse(c *Case) shape {
	var s shape
	type sh struct {
		words int
		set   map[uint32]bool
	}
	mk := func(z bool) *sh {
		if z {
			return &sh{0, map[uint32]bool{}}
		}
		return &sh{1, map[uint32]bool{}}
	}
	st := [2]*sh{mk(c.ZA), mk(c.ZB)}
	need := func(x *sh) int {
		m := -1
		for k := range x.set {
			if int(k/64) > m {
				m = int(k / 64)
			}
		}
		return m + 1
	}
	for _, o := range c.Ops {
		me := st[idx(o.W)]
		if int(o.P) > s.maxPos {
			s.maxPos = int(o.P)
		}
		switch o.K {
		case "S":
			if int(o.P/64)+1 > me.words {
				me.words = int(o.P/64) + 1
			}
			me.set[o.P] = true
			if o.P%64 == 63 || o.P%64 == 0 && o.P > 0 {
				s.boundary++
			}
		case "C":
			if !me.set[o.P] {
				s.absentClear++
			}
			delete(me.set, o.P)
		case "E", "I", "KE":
			if st[0].words != st[1].words && (st[0].words > need(st[0]) || st[1].words > need(st[1])) {
				s.trailingAtQuery++
			}
		case "CP":
			cp := &sh{me.words, map[uint32]bool{}}
			for k := range me.set {
				cp.set[k] = true
			}
			st[1-idx(o.W)] = cp
		case "F":
			st[idx(o.W)] = mk(o.Z)
		}
	}
	return s
}

func genCase(rng *vh.RNG) Case {
	c := Case{ZA: rng.Chance(1, 5), ZB: rng.Chance(1, 5)}
	var dom []uint32
	switch rng.Intn(4) {
	case 0:
		dom = []uint32{0, 1, 2}
	case 1:
		dom = []uint32{0, 1, 63, 64, 65, 127, 128, 200}
	case 2:
		dom = []uint32{0, 5, 63, 64, 70, 300, 4095, 4096}
	default:
		dom = []uint32{1, 64, 129, 1 << 12, 1<<14 - 1, 1 << 14}
	}
	pos := func() uint32 { return dom[rng.Intn(len(dom))] }
	n := rng.Range(1, 40)
	if rng.Chance(1, 24) { // rare: positions around 2^20 (16 384 words), short history
		dom = []uint32{3, 1<<20 - 1, 1 << 20}
		n = rng.Range(2, 7)
	}
	for i := 0; i < n; i++ {
		w := rng.Bool()
		x := rng.Intn(100)
		switch {
		case x < 30:
			c.Ops = append(c.Ops, Op{K: "S", W: w, P: pos()})
		case x < 50:
			c.Ops = append(c.Ops, Op{K: "C", W: w, P: pos()})
		case x < 58:
			c.Ops = append(c.Ops, Op{K: "T", W: w, P: pos()})
		case x < 64:
			c.Ops = append(c.Ops, Op{K: "B", W: w})
		case x < 74:
			c.Ops = append(c.Ops, Op{K: "E", W: w})
		case x < 82:
			c.Ops = append(c.Ops, Op{K: "I", W: w})
		case x < 88:
			c.Ops = append(c.Ops, Op{K: "N", W: w})
		case x < 91:
			c.Ops = append(c.Ops, Op{K: "K", W: w})
		case x < 95:
			c.Ops = append(c.Ops, Op{K: "KE"})
		case x < 98:
			c.Ops = append(c.Ops, Op{K: "CP", W: w})
		default:
			c.Ops = append(c.Ops, Op{K: "F", W: w, Z: rng.Chance(1, 3)})
		}
	}
	return c
}

func record(out *vh.Out, c *Case, coq bool) {
	runImpl(c)
	v := monitor(c)
	s := analyse(c)
	nt := s.trailingAtQuery > 0 || (s.absentClear > 0 && s.boundary > 0)
	out.Count("ops_len", vh.Bucket(len(c.Ops)))
	out.Count("max_pos", vh.Bucket(s.maxPos))
	out.Count("queries_with_trailing_zero_words", vh.Bucket(s.trailingAtQuery))
	out.Count("absent_bit_clears", vh.Bucket(s.absentClear))
	out.Count("word_boundary_sets", vh.Bucket(s.boundary))
	out.Count("init", fmt.Sprintf("a_zero=%v,b_zero=%v", c.ZA, c.ZB))
	for _, o := range c.Ops {
		out.Count("op_mix", o.K)
	}
	term := ""
	if coq {
		term = coqCase(out.N(), c)
	}
	out.Add(c, term, nt, v)
}

func corpus() []Case {
	a, b := false, true
	return []Case{
		// trailing zero word: Set(64); Clear(64) leaves [0,0], the same set as a fresh one
		{Ops: []Op{{K: "S", W: a, P: 64}, {K: "C", W: a, P: 64}, {K: "E", W: a}, {K: "E", W: b}, {K: "I", W: b}, {K: "I", W: a}, {K: "N", W: a}, {K: "KE"}, {K: "K", W: a}, {K: "K", W: b}, {K: "B", W: a}}},
		// zero value against NewDynamicBitSet()
		{ZA: true, Ops: []Op{{K: "E", W: a}, {K: "E", W: b}, {K: "I", W: a}, {K: "I", W: b}, {K: "KE"}, {K: "S", W: a, P: 3}, {K: "S", W: b, P: 3}, {K: "E", W: a}, {K: "KE"}, {K: "B", W: a}}},
		// containment across word boundaries
		{Ops: []Op{{K: "S", W: a, P: 1}, {K: "S", W: a, P: 64}, {K: "S", W: b, P: 64}, {K: "I", W: a}, {K: "I", W: b}, {K: "N", W: a}, {K: "C", W: a, P: 64}, {K: "I", W: a}, {K: "N", W: a}, {K: "N", W: b}, {K: "C", W: b, P: 64}, {K: "I", W: a}, {K: "E", W: a}}},
		// clear of a bit beyond the allocated words, copy, 63/64 boundary
		{Ops: []Op{{K: "C", W: a, P: 1000}, {K: "B", W: a}, {K: "S", W: a, P: 63}, {K: "S", W: a, P: 64}, {K: "B", W: a}, {K: "CP", W: a}, {K: "E", W: b}, {K: "C", W: b, P: 64}, {K: "E", W: b}, {K: "I", W: a}, {K: "T", W: b, P: 63}, {K: "T", W: b, P: 64}, {K: "K", W: b}}},
	}
}

func main() {
	f := vh.ParseFlags()
	if f.Replay != "" {
		var c Case
		vh.LoadReplayCase(f.Replay, &c)
		want := append([]Res(nil), c.Impl...)
		runImpl(&c)
		v := monitor(&c)
		b, _ := json.Marshal(map[string]interface{}{"case": c, "recorded_impl": want, "monitor": v})
		fmt.Println(string(b))
		if len(v) > 0 {
			os.Exit(1)
		}
		return
	}
	out := vh.NewOut(f.Out, "bitset", "From MV Require Import Lib.ListX C16.BitsetModel C16.BitsetRun.\nOpen Scope N_scope.", "case", "mismatches", f.Seed,
		"random histories (1..40 ops) over two bit sets (NewDynamicBitSet() or zero value), positions from {0..2}, word boundaries {63,64,65,127,128}, {4095,4096}, up to 2^14 and (1 case in 24, short) 2^20; ops Set/Clear/IsSet/Bits/Equal/In/NotIn/Key/key-equality/Copy/re-create; thorough adds every history of <=4 Set/Clear over positions {0,64} on both sets followed by all queries, for the 4 initial representations; non-trivial = an Equal/In/key comparison issued while the operands have different word counts and one has trailing zero words, or a Clear of an absent bit in a history that sets a word-boundary bit")
	out.PerShard = 100
	rng := vh.NewRNG(f.Seed)
	for _, c := range corpus() {
		c := c
		record(out, &c, true)
	}
	n := f.N
	if n == 0 {
		n = 800
		if f.Tier == "thorough" {
			n = 10000
		}
	}
	for i := 0; i < n; i++ {
		cr, _ := rng.Derive()
		c := genCase(cr)
		record(out, &c, true)
	}
	if f.Tier == "thorough" {
		var alpha []Op
		for _, w := range []bool{false, true} {
			for _, p := range []uint32{0, 64} {
				alpha = append(alpha, Op{K: "S", W: w, P: p}, Op{K: "C", W: w, P: p})
			}
		}
		tail := []Op{{K: "E", W: false}, {K: "E", W: true}, {K: "I", W: false}, {K: "I", W: true}, {K: "N", W: false}, {K: "KE"}, {K: "B", W: false}, {K: "B", W: true}, {K: "K", W: false}}
		for _, za := range []bool{false, true} {
			for _, zb := range []bool{false, true} {
				var rec func(prefix []Op, depth int)
				rec = func(prefix []Op, depth int) {
					c := Case{ZA: za, ZB: zb}
					c.Ops = append(append(c.Ops, prefix...), tail...)
					record(out, &c, true)
					if depth == 0 {
						return
					}
					for _, o := range alpha {
						rec(append(prefix[:len(prefix):len(prefix)], o), depth-1)
					}
				}
				rec(nil, 4)
			}
		}
	}
	out.Close()
}
