// c15backlog: correspondence harness (T1) for the two "channel of capacity 1 + backlog" containers
// toolkit/buffer.Unbounded and toolkit/channels.UnboundedBacklog against MV.C15.BacklogModel.
// Every op sequence is run on BOTH implementations (two cases, field "target").
// Get is observed through a NON-BLOCKING receive on the returned channel: value / empty / closed.
package main

import (
	"encoding/json"
	"fmt"
	"os"
	"strings"

	"github.com/kercylan98/minotaur/toolkit/buffer"
	"github.com/kercylan98/minotaur/toolkit/channels"
	"verif/harness/vh"
)

type Op struct {
	K string `json:"k"` // P(ut) L(oad) G(et = non-blocking receive) C(lose) I(sClosed)
	V int64  `json:"v,omitempty"`
}
type Res struct {
	K   string `json:"k"` // unit val empty closed bool panic
	V   int64  `json:"v,omitempty"`
	B   bool   `json:"b,omitempty"`
	Err string `json:"err,omitempty"`
}
type Case struct {
	Target string `json:"target"` // "buffer" = buffer.Unbounded[int64], "channels" = channels.UnboundedBacklog[int64]
	Ops    []Op   `json:"ops"`
	Impl   []Res  `json:"impl"`
}

type container interface {
	Put(int64)
	Load()
	Get() <-chan int64
	Close()
	IsClosed() bool
}

var targets = []string{"buffer", "channels"}

func newContainer(target string) container {
	switch target {
	case "buffer":
		return buffer.NewUnbounded[int64]()
	case "channels":
		return channels.NewUnboundedBacklog[int64]()
	}
	panic("bad target " + target)
}

func runImpl(c *Case) {
	c.Impl = c.Impl[:0]
	var u container
	func() {
		defer func() { _ = recover() }()
		u = newContainer(c.Target)
	}()
	for _, o := range c.Ops {
		c.Impl = append(c.Impl, apply(u, o))
	}
}

func apply(u container, o Op) (res Res) {
	defer func() {
		if e := recover(); e != nil {
			res = Res{K: "panic", Err: fmt.Sprint(e)}
		}
	}()
	switch o.K {
	case "P":
		u.Put(o.V)
		return Res{K: "unit"}
	case "L":
		u.Load()
		return Res{K: "unit"}
	case "G":
		select { // never blocks
		case v, ok := <-u.Get():
			if !ok {
				return Res{K: "closed"}
			}
			return Res{K: "val", V: v}
		default:
			return Res{K: "empty"}
		}
	case "C":
		u.Close()
		return Res{K: "unit"}
	case "I":
		return Res{K: "bool", B: u.IsClosed()}
	}
	panic("bad op " + o.K)
}

// ---- property monitor: a plain FIFO slice restating the property (search oracle, independent of
// the Coq model and of the implementation's capacity-1 detail).
//   - every received value is the next not-yet-received accepted Put (accepted = Put before Close):
//     FIFO, exactly once, nothing invented;
//   - while the history follows the protocol (no Close yet, every successful Get immediately followed
//     by Load) a Get must not report empty while accepted-but-unreceived values exist;
//   - before Close a Get never reports closed; after Close it never reports empty, and once it
//     has reported closed the output has ended (no value afterwards);
//   - IsClosed reports whether Close was issued.
func monitor(c *Case) (viol []vh.Violation) {
	names := map[string]string{"P": "Put", "L": "Load", "G": "Get", "C": "Close", "I": "IsClosed"}
	add := func(i int, class, detail string) {
		viol = append(viol, vh.Violation{Kind: "backlog:" + names[c.Ops[i].K] + ":" + class,
			Detail: fmt.Sprintf("%s op #%d %s(%d): %s", c.Target, i, c.Ops[i].K, c.Ops[i].V, detail),
			Sig:    map[string]string{"target": c.Target, "function": names[c.Ops[i].K]}})
	}
	var accepted []int64 // values of the Puts issued before Close, in order
	next := 0            // accepted[:next] have been received
	closed := false
	ended := false       // a Get has reported closed
	protocol := true     // the history so far follows the protocol
	pendingLoad := false // the previous op was a successful Get
	if len(c.Impl) != len(c.Ops) {
		return []vh.Violation{{Kind: "backlog:harness:short-output", Detail: "outputs missing"}}
	}
	for i, o := range c.Ops {
		got := c.Impl[i]
		if got.K == "panic" || got.Err != "" {
			add(i, "crash", got.Err)
			return
		}
		if pendingLoad && o.K != "L" {
			protocol = false
		}
		pendingLoad = false
		switch o.K {
		case "P":
			if !closed {
				accepted = append(accepted, o.V)
			}
		case "L":
		case "C":
			closed = true
			protocol = false
		case "I":
			if got.K != "bool" || got.B != closed {
				add(i, "wrong", fmt.Sprintf("Close issued=%v, IsClosed=%v", closed, got.B))
				return
			}
		case "G":
			switch got.K {
			case "val":
				if ended {
					add(i, "value-after-end", fmt.Sprintf("received %d after a Get reported closed", got.V))
					return
				}
				idx := -1
				for j, a := range accepted {
					if a == got.V {
						idx = j
						break
					}
				}
				switch {
				case idx < 0:
					add(i, "invented", fmt.Sprintf("received %d, never accepted (accepted %v)", got.V, accepted))
					return
				case idx < next:
					add(i, "duplicate", fmt.Sprintf("received %d again (already received %v)", got.V, accepted[:next]))
					return
				case idx > next:
					add(i, "wrong-element", fmt.Sprintf("expected %d got %d (outstanding %v)", accepted[next], got.V, accepted[next:]))
					return
				}
				next++
				pendingLoad = true
			case "empty":
				if closed {
					add(i, "empty-after-close", "closed channel reported empty instead of a value or closed")
					return
				}
				if protocol && next < len(accepted) {
					add(i, "lost-under-protocol", fmt.Sprintf("reported empty, accepted but never received: %v", accepted[next:]))
					return
				}
			case "closed":
				if !closed {
					add(i, "closed-before-close", "reported closed although Close was never issued")
					return
				}
				ended = true
			default:
				add(i, "crash", "unexpected output kind "+got.K)
				return
			}
		}
	}
	return
}

// shadow of the intended algorithm, only to decide non-triviality and report the input distribution
type shape struct {
	maxBacklog, maxOutstanding, loadsMoved, closes, afterClose int
	protocol                                                   bool
}

func analyse(c *Case) shape {
	s := shape{protocol: true}
	full, closed, pending := false, false, false
	backlog := 0
	for _, o := range c.Ops {
		if pending && o.K != "L" {
			s.protocol = false
		}
		pending = false
		if closed {
			s.afterClose++
		}
		switch o.K {
		case "P":
			if !closed {
				if backlog == 0 && !full {
					full = true
				} else {
					backlog++
				}
			}
		case "L":
			if !closed && backlog > 0 && !full {
				backlog--
				full = true
				s.loadsMoved++
			}
		case "G":
			if full {
				full = false
				pending = true
			}
		case "C":
			s.closes++
			s.protocol = false
			closed = true
		}
		if backlog > s.maxBacklog {
			s.maxBacklog = backlog
		}
		out := backlog
		if full {
			out++
		}
		if out > s.maxOutstanding {
			s.maxOutstanding = out
		}
	}
	if pending {
		s.protocol = false
	}
	return s
}

func coqOp(o Op) string {
	switch o.K {
	case "P":
		return vh.App("BPut", vh.Z(o.V))
	case "L":
		return "BLoad"
	case "G":
		return "BGet"
	case "C":
		return "BClose"
	case "I":
		return "BIsClosed"
	}
	panic(o.K)
}
func coqRes(r Res) string {
	if r.Err != "" {
		return "BOBad"
	}
	switch r.K {
	case "unit":
		return "BOUnit"
	case "val":
		return vh.App("BOVal", vh.Z(r.V))
	case "empty":
		return "BOEmpty"
	case "closed":
		return "BOClosed"
	case "bool":
		return vh.App("BOBool", vh.Bool(r.B))
	}
	return "BOBad" // panic: never equal to a model output
}
func coqCase(id int, c *Case) string {
	ops := make([]string, len(c.Ops))
	for i, o := range c.Ops {
		ops[i] = coqOp(o)
	}
	rs := make([]string, len(c.Impl))
	for i, r := range c.Impl {
		rs[i] = coqRes(r)
	}
	return fmt.Sprintf("{| bcid := %d; bcops := %s; bcimpl := %s |}", id, vh.List(ops), vh.List(rs))
}

// ---- generator: phases
const (
	phWrite    = iota // write-heavy
	phProtocol        // Get immediately followed by Load
	phSloppy          // Get without Load
	phDoubleLd        // Load Load
	phMixed
	nPhases
)

func genOps(rng *vh.RNG, next *int64) []Op {
	var ops []Op
	put := func() { *next++; ops = append(ops, Op{K: "P", V: *next}) }
	n := rng.Range(1, 32)
	style := rng.Intn(10) // 0-2: pure protocol, never closed; 3-4: protocol then close late; else free
	phase := phWrite
	closed := false
	for len(ops) < n {
		if rng.Chance(1, 6) {
			phase = rng.Intn(nPhases)
		}
		if style <= 2 && (phase == phSloppy || phase == phMixed) {
			phase = phProtocol
		}
		// Close in the middle / late; a few ops after Close (incl. a second Close)
		if !closed && style > 2 && rng.Chance(1, 25) || (closed && rng.Chance(1, 12)) {
			ops = append(ops, Op{K: "C"})
			closed = true
			continue
		}
		if rng.Chance(1, 14) {
			ops = append(ops, Op{K: "I"})
			continue
		}
		switch phase {
		case phWrite:
			if rng.Intn(10) < 8 {
				put()
			} else {
				ops = append(ops, Op{K: "G"}, Op{K: "L"})
			}
		case phProtocol:
			if rng.Intn(10) < 3 {
				put()
			} else {
				ops = append(ops, Op{K: "G"}, Op{K: "L"})
			}
		case phSloppy:
			switch rng.Intn(10) {
			case 0, 1, 2:
				put()
			case 3:
				ops = append(ops, Op{K: "L"})
			default:
				ops = append(ops, Op{K: "G"})
			}
		case phDoubleLd:
			switch rng.Intn(10) {
			case 0, 1, 2, 3:
				put()
			case 4, 5:
				ops = append(ops, Op{K: "G"}, Op{K: "L"}, Op{K: "L"})
			default:
				ops = append(ops, Op{K: "L"}, Op{K: "L"})
			}
		case phMixed:
			switch rng.Intn(5) {
			case 0, 1:
				put()
			case 2:
				ops = append(ops, Op{K: "G"})
			case 3:
				ops = append(ops, Op{K: "L"})
			case 4:
				ops = append(ops, Op{K: "G"}, Op{K: "L"})
			}
		}
	}
	// often: drain at the end with the protocol (this is where a stranded element shows)
	if rng.Chance(1, 2) {
		k := rng.Range(1, 8)
		for i := 0; i < k; i++ {
			ops = append(ops, Op{K: "G"}, Op{K: "L"})
		}
	}
	return ops
}

func opsKey(ops []Op) string {
	var sb strings.Builder
	for _, o := range ops {
		sb.WriteString(o.K)
	}
	return sb.String()
}

// record runs one op sequence on both implementations (two cases)
func record(out *vh.Out, ops []Op) {
	s := analyse(&Case{Ops: ops})
	nt := s.maxOutstanding >= 2 && s.maxBacklog >= 1 && s.loadsMoved >= 1
	for _, t := range targets {
		c := Case{Target: t, Ops: ops}
		runImpl(&c)
		v := monitor(&c)
		out.Count("target", t)
		out.Count("ops_len", vh.Bucket(len(c.Ops)))
		out.Count("max_backlog", vh.Bucket(s.maxBacklog))
		out.Count("loads_that_moved", vh.Bucket(s.loadsMoved))
		out.Count("closes", vh.Bucket(s.closes))
		out.Count("ops_after_close", vh.Bucket(s.afterClose))
		out.Count("protocol_following", fmt.Sprint(s.protocol))
		for _, o := range c.Ops {
			out.Count("op_mix", o.K)
		}
		for i, r := range c.Impl {
			if c.Ops[i].K == "G" {
				out.Count("get_outcome", r.K)
			}
		}
		out.Add(&c, coqCase(out.N(), &c), nt, v)
	}
}

func main() {
	f := vh.ParseFlags()
	if f.Replay != "" {
		var c Case
		vh.LoadReplayCase(f.Replay, &c)
		want := append([]Res(nil), c.Impl...)
		runImpl(&c)
		v := monitor(&c)
		b, _ := json.Marshal(map[string]interface{}{"case": c, "recorded_impl": want, "monitor": v})
		fmt.Println(string(b))
		if len(v) > 0 {
			os.Exit(1)
		}
		return
	}
	out := vh.NewOut(f.Out, "backlog", "From MV Require Import Lib.ListX C15.BacklogModel C15.BacklogRun.", "bcase", "bmismatches", f.Seed,
		"every op sequence is run on buffer.Unbounded[int64] and channels.UnboundedBacklog[int64] (2 cases); corpus, then random sequences (len 1..32 + optional Get;Load drain of 1..8 rounds) with phases write-heavy / protocol consumer (Get;Load) / sloppy consumer (Get alone) / double Load / mixed, Close in the middle, ops after Close, IsClosed; thorough adds every sequence of length<=6 over {Put,Get,Load,Get+Load,Close,IsClosed} (deduplicated after expanding Get+Load); non-trivial = at some point >=2 accepted values were undelivered with a non-empty backlog AND at least one Load moved an element into the channel; distinct by hash of (target, ops, outputs)")
	if f.Tier != "thorough" {
		out.PerShard = 200 // elaborating the case terms dominates the Coq time: smaller shards, more parallelism
	}
	rng := vh.NewRNG(f.Seed)
	var next int64
	for _, ops := range corpus() {
		record(out, ops)
	}
	n := f.N
	if n == 0 {
		n = 1000
		if f.Tier == "thorough" {
			n = 20000
		}
	}
	for i := 0; i < n; i++ {
		cr, _ := rng.Derive()
		record(out, genOps(cr, &next))
	}
	if f.Tier == "thorough" {
		alpha := [][]Op{{{K: "P"}}, {{K: "G"}}, {{K: "L"}}, {{K: "G"}, {K: "L"}}, {{K: "C"}}, {{K: "I"}}}
		seen := map[string]bool{}
		var rec func(prefix []Op, depth int)
		rec = func(prefix []Op, depth int) {
			if len(prefix) > 0 {
				if k := opsKey(prefix); !seen[k] {
					seen[k] = true
					ops := make([]Op, len(prefix))
					var v int64
					for i, o := range prefix {
						if o.K == "P" {
							v++
							o.V = v
						}
						ops[i] = o
					}
					record(out, ops)
				}
			}
			if depth == 0 {
				return
			}
			for _, a := range alpha {
				rec(append(prefix[:len(prefix):len(prefix)], a...), depth-1)
			}
		}
		rec(nil, 6)
	}
	out.Close()
}

func corpus() [][]Op {
	p := func(v int64) Op { return Op{K: "P", V: v} }
	G, L, C, I := Op{K: "G"}, Op{K: "L"}, Op{K: "C"}, Op{K: "I"}
	return [][]Op{
		// Get without Load reports empty although the backlog is non-empty; Load makes it visible
		{p(1), p(2), G, G, L, G},
		// Close with a full cell and a non-empty backlog: the buffered element is still delivered, then closed
		{p(1), p(2), C, G, G, L, G},
		// protocol-following producer/consumer with a backlog of 3, drained completely
		{p(1), p(2), p(3), p(4), G, L, G, L, p(5), G, L, G, L, G, L, G, L, I},
		// double Load, Load on empty, Get on fresh container
		{G, L, L, p(1), L, L, G, L, G},
		// Put after Close is rejected, double Close, IsClosed before/after
		{I, p(1), C, I, p(2), C, G, G, L, G, I},
		// Put into an empty cell while the backlog is non-empty must NOT overtake (Get without Load, then Put)
		{p(1), p(2), G, p(3), L, G, L, G, L, G},
		// Close on an empty container
		{C, G, p(1), L, G, I},
	}
}
