// c12stress: stress harness for the concurrent part of C12 on the REAL code (real xsync map, real
// sync/atomic, real goroutines): several goroutines register / unregister / look up through shared
// *prc.ProcessId objects; logical timestamps are taken around every call and the recorded history is
// judged by monitors that restate the clauses (sound under any scheduling: a hit is a genuine violation,
// silence proves nothing). Complements tie T2 (deterministic schedules of the instrumented source with a
// shim map). Not evaluated in Coq.
package main

import (
	"encoding/json"
	"fmt"
	"os"
	"runtime"
	"sort"
	"sync"
	"sync/atomic"

	"github.com/kercylan98/minotaur/engine/prc"
	"verif/harness/vh"
)

type Params struct {
	Addrs   int    `json:"addrs"`
	Refs    int    `json:"refs"`    // shared reference objects per address
	Lookers int    `json:"lookers"` // goroutines calling GetProcess
	Regs    int    `json:"registrars"`
	Unregs  int    `json:"unregistrars"`
	PerG    int    `json:"calls_per_goroutine"`
	Yield   int    `json:"terminate_yields"` // scheduler yields inside Process.Terminate before the flag is stored
	Seed    uint64 `json:"seed"`
}

type opRec struct {
	Kind  string `json:"kind"` // reg unreg get
	A     int    `json:"a"`
	K     int    `json:"k,omitempty"`
	P     int    `json:"p"` // reg: the process; unreg: the process it terminated (-1 none); get: result (-1 dead letters, -2 not a process)
	Exist bool   `json:"exist,omitempty"`
	Start int64  `json:"start"`
	End   int64  `json:"end"`
	op    int
}

type stub struct {
	id     int
	flag   atomic.Bool
	yields int
	inits  atomic.Int32
	mu     sync.Mutex
	killer []string
}

func (s *stub) Initialize(rc *prc.ResourceController, id *prc.ProcessId)                        { s.inits.Add(1) }
func (s *stub) DeliveryUserMessage(receiver, sender, forward *prc.ProcessId, m prc.Message)   {}
func (s *stub) DeliverySystemMessage(receiver, sender, forward *prc.ProcessId, m prc.Message) {}
func (s *stub) IsTerminated() bool                                                            { return s.flag.Load() }
func (s *stub) Terminate(source *prc.ProcessId) {
	s.mu.Lock()
	s.killer = append(s.killer, source.GetLogicalAddress())
	s.mu.Unlock()
	for i := 0; i < s.yields; i++ {
		runtime.Gosched()
	}
	s.flag.Store(true)
}

const node = "127.0.0.1:7001"

type Round struct {
	Params Params  `json:"params"`
	Ops    []opRec `json:"ops"`
}

func runRound(p Params) *Round {
	rng := vh.NewRNG(p.Seed)
	dead := &stub{id: -1}
	rc := prc.NewResourceController(prc.FunctionalResourceControllerConfigurator(func(c *prc.ResourceControllerConfiguration) {
		c.WithPhysicalAddress(node).WithNotFoundSubstitute(dead)
	}))
	addrName := func(a int) string { return fmt.Sprintf("/user/a%d", a) }
	refs := make([][]*prc.ProcessId, p.Addrs)
	for a := range refs {
		for k := 0; k < p.Refs; k++ {
			refs[a] = append(refs[a], prc.NewProcessId(node, addrName(a)))
		}
	}
	var clock atomic.Int64
	var nextProc atomic.Int32
	var procsMu sync.Mutex
	procs := map[int]*stub{}
	var wg sync.WaitGroup
	start := make(chan struct{})
	ng := p.Lookers + p.Regs + p.Unregs
	logs := make([][]opRec, ng)
	g := 0
	spawn := func(kind string) {
		gi := g
		g++
		sub := vh.NewRNG(rng.U64())
		wg.Add(1)
		go func() {
			defer wg.Done()
			<-start
			for i := 0; i < p.PerG; i++ {
				a := sub.Intn(p.Addrs)
				switch kind {
				case "get":
					k := sub.Intn(p.Refs)
					o := opRec{Kind: "get", A: a, K: k, Start: clock.Add(1)}
					pr := rc.GetProcess(refs[a][k])
					o.End = clock.Add(1)
					if s, ok := pr.(*stub); !ok || s == nil {
						o.P = -2
					} else {
						o.P = s.id
					}
					logs[gi] = append(logs[gi], o)
				case "reg":
					s := &stub{id: int(nextProc.Add(1)) - 1, yields: p.Yield}
					procsMu.Lock()
					procs[s.id] = s
					procsMu.Unlock()
					o := opRec{Kind: "reg", A: a, P: s.id, Start: clock.Add(1)}
					_, o.Exist = rc.Register(prc.NewProcessId(node, addrName(a)), s)
					o.End = clock.Add(1)
					logs[gi] = append(logs[gi], o)
				case "unreg":
					o := opRec{Kind: "unreg", A: a, P: -1, op: gi*1000 + i, Start: clock.Add(1)}
					rc.Unregister(prc.NewProcessId(node, fmt.Sprintf("op%d", o.op)), prc.NewProcessId(node, addrName(a)))
					o.End = clock.Add(1)
					logs[gi] = append(logs[gi], o)
				}
				if sub.Chance(1, 3) {
					runtime.Gosched()
				}
			}
		}()
	}
	for i := 0; i < p.Regs; i++ {
		spawn("reg")
	}
	for i := 0; i < p.Lookers; i++ {
		spawn("get")
	}
	for i := 0; i < p.Unregs; i++ {
		spawn("unreg")
	}
	close(start)
	wg.Wait()
	r := &Round{Params: p}
	byOp := map[int]int{}
	for _, l := range logs {
		r.Ops = append(r.Ops, l...)
	}
	sort.Slice(r.Ops, func(i, j int) bool { return r.Ops[i].Start < r.Ops[j].Start })
	for i, o := range r.Ops {
		if o.Kind == "unreg" {
			byOp[o.op] = i
		}
	}
	for _, s := range procs {
		for _, kl := range s.killer {
			var op int
			if n, _ := fmt.Sscanf(kl, "op%d", &op); n == 1 {
				if i, ok := byOp[op]; ok {
					r.Ops[i].P = s.id
				}
			}
		}
	}
	return r
}

func monitors(r *Round) (viol []vh.Violation) {
	add := func(fn, class, detail string) {
		if len(viol) < 3 {
			viol = append(viol, vh.Violation{Kind: "regstress:" + fn + ":" + class, Detail: detail, Sig: map[string]string{"function": fn, "class": class}})
		}
	}
	ops := r.Ops
	before := func(x, y opRec) bool { return x.End < y.Start }
	regOf := map[int]opRec{}
	regAny := map[int]opRec{}
	for _, o := range ops {
		if o.Kind == "reg" {
			regAny[o.P] = o
			if !o.Exist {
				regOf[o.P] = o
			}
		}
	}
	for _, g := range ops {
		if g.Kind != "get" {
			continue
		}
		if g.P == -2 {
			add("GetProcess", "not-a-process", fmt.Sprintf("lookup of a%d returned neither a registered process nor the substitute", g.A))
			continue
		}
		if g.P < 0 {
			continue
		}
		q := g.P
		rq, ok := regOf[q]
		if !ok || rq.A != g.A {
			add("GetProcess", "wrong-process", fmt.Sprintf("lookup of a%d returned process %d (its Register: %+v)", g.A, q, regAny[q]))
			continue
		}
		for _, u := range ops {
			if u.Kind == "unreg" && u.P == q && before(u, g) {
				add("GetProcess", "returned-unregistered-process", fmt.Sprintf("Unregister of a%d removed process %d and returned at %d; a lookup started at %d returned it", g.A, q, u.End, g.Start))
			}
		}
		for p, rp := range regOf {
			if p != q && rp.A == g.A && before(rq, rp) && before(rp, g) {
				add("GetProcess", "stale-after-reregistration", fmt.Sprintf("a%d: process %d registered [%d,%d], then process %d registered successfully [%d,%d]; a lookup through reference %d started at %d returned the earlier process %d",
					g.A, q, rq.Start, rq.End, p, rp.Start, rp.End, g.K, g.Start, q))
			}
		}
	}
	// two successful registrations of one address with no Unregister of that address anywhere between them
	for p, rp := range regOf {
		for q, rq := range regOf {
			if p == q || rp.A != rq.A || !before(rp, rq) {
				continue
			}
			possible := false
			for _, u := range ops {
				if u.Kind == "unreg" && u.A == rp.A && !before(u, rp) && !before(rq, u) {
					possible = true
				}
			}
			if !possible {
				add("Register", "taken-address-accepted", fmt.Sprintf("a%d: process %d registered [%d,%d] and process %d registered [%d,%d] with no Unregister call in between", rp.A, p, rp.Start, rp.End, q, rq.Start, rq.End))
			}
		}
	}
	return
}

func reuseWithCache(ops []opRec) int {
	n := 0
	for _, g2 := range ops {
		if g2.Kind != "get" {
			continue
		}
		hit := false
		for _, g1 := range ops {
			if g1.Kind != "get" || g1.A != g2.A || g1.K != g2.K || g1.P < 0 || g1.End >= g2.Start {
				continue
			}
			for _, r := range ops {
				if r.Kind == "reg" && r.A == g2.A && !r.Exist && r.P != g1.P && g1.End < r.End && r.Start < g2.End {
					hit = true
				}
			}
		}
		if hit {
			n++
		}
	}
	return n
}

func genParams(rng *vh.RNG) Params {
	return Params{Addrs: rng.Range(1, 2), Refs: rng.Range(1, 2), Lookers: rng.Range(1, 3), Regs: rng.Range(1, 2), Unregs: rng.Range(1, 2),
		PerG: rng.Range(3, 10), Yield: rng.Range(0, 3), Seed: rng.U64()}
}

func main() {
	f := vh.ParseFlags()
	if f.Replay != "" {
		var r Round
		vh.LoadReplayCase(f.Replay, &r)
		// real goroutines are not replayable: repeat the recorded configuration and report whether a monitor fires again
		var hit []vh.Violation
		n := 0
		for ; n < 3000 && len(hit) == 0; n++ {
			p := r.Params
			p.Seed += uint64(n)
			hit = monitors(runRound(p))
		}
		b, _ := json.Marshal(map[string]interface{}{"params": r.Params, "rounds_run": n, "monitor": hit})
		fmt.Println(string(b))
		if len(hit) > 0 {
			os.Exit(1)
		}
		return
	}
	out := vh.NewOut(f.Out, "regstress", "", "", "", f.Seed,
		"stress rounds on the real code: 1-2 registrars, 1-2 unregistrars, 1-3 lookers, 3-10 calls each, 1-2 addresses, 1-2 shared reference objects per address, stub processes whose Terminate yields 0-3 times before it stores the flag; history judged by monitors with logical timestamps; non-trivial = a lookup through a reference that cached an earlier registrant of an address that has since been registered again; not evaluated in Coq")
	rng := vh.NewRNG(f.Seed)
	n := f.N
	if n == 0 {
		n = 1500
		if f.Tier == "thorough" {
			n = 40000
		}
	}
	for i := 0; i < n; i++ {
		cr, _ := rng.Derive()
		pp := genParams(cr)
		if y := os.Getenv("C12_STRESS_YIELDS"); y != "" { // experiment knob: fix the number of yields inside Terminate
			fmt.Sscanf(y, "%d", &pp.Yield)
		}
		r := runRound(pp)
		v := monitors(r)
		reuse := reuseWithCache(r.Ops)
		out.Count("goroutines", fmt.Sprint(r.Params.Lookers+r.Params.Regs+r.Params.Unregs))
		out.Count("ops", vh.Bucket(len(r.Ops)))
		out.Count("terminate_yields", fmt.Sprint(r.Params.Yield))
		out.Count("lookups_after_reuse_through_caching_reference", vh.Bucket(reuse))
		succ := 0
		for _, o := range r.Ops {
			out.Count("op_mix", o.Kind)
			if o.Kind == "reg" && !o.Exist {
				succ++
			}
		}
		out.Count("successful_registrations", vh.Bucket(succ))
		out.Add(r, "", reuse > 0, v)
	}
	out.Close()
}
