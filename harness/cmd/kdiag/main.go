// kdiag: diagnosis of a lockstep disagreement. Reads a replay file (or the case stored in a *-unproved.json), writes a Coq
// file that evaluates the kernel model on the recorded label sequence and prints the first step at which the model's
// observations differ from the recorded ones, together with both.
package main

import (
	"encoding/json"
	"fmt"
	"os"

	"verif/harness/klock"
)

func main() {
	b, err := os.ReadFile(os.Args[1])
	if err != nil {
		panic(err)
	}
	var w struct {
		Case json.RawMessage `json:"case"`
	}
	if err := json.Unmarshal(b, &w); err != nil {
		panic(err)
	}
	var c klock.Case
	if err := json.Unmarshal(w.Case, &c); err != nil {
		panic(err)
	}
	fmt.Println("From MV Require Import Lib.ListX Kernel.Model Kernel.Run.")
	fmt.Println("Open Scope Z_scope.\nOpen Scope list_scope.")
	fmt.Println("Definition c : kcase := {| kid := 0; " + klock.CoqCase(&c) + " |}.")
	fmt.Println("Definition k := Eval vm_compute in kdivergence c.\nPrint k.")
	fmt.Println(`Definition at_div := Eval vm_compute in
  match kdivergence c with
  | Some k =>
      match krun (kroles c) kinit (map fst (firstn k (ksteps c))) with
      | Some (s, _) =>
          match nth_error (ksteps c) k with
          | Some (l, o) => Some (l, o, option_map snd (kstep (kroles c) s l))
          | None => None
          end
      | None => None
      end
  | None => None
  end.
Print at_div.`)
}
