package main

import (
	"fmt"

	"github.com/kercylan98/minotaur/toolkit/geometry"
	"github.com/kercylan98/minotaur/toolkit/navigate/navmesh"
)

func P(x, y float64) geometry.Point { return geometry.NewPoint(x, y) }
func seg(a, b, c, d float64) geometry.LineSegment {
	return geometry.NewLineSegment(P(a, b), P(c, d))
}

func main() {
	fmt.Println("closest", seg(0, 0, 4, 0).ClosestPoint(P(1, 3)))
	fmt.Println("closest zero-len", seg(1, 1, 1, 1).ClosestPoint(P(1, 3)))
	fmt.Println("rect centroid", geometry.CalcRectangleVerticesCentroid(geometry.NewPolygon(P(0, 2), P(2, 2), P(2, 4), P(0, 4))))
	o, ok := geometry.CalcLineSegmentOverlap(seg(0, 0, 10, 0), seg(2, 0, 5, 0))
	fmt.Println("overlap contain", o, ok)
	o, ok = geometry.CalcLineSegmentOverlap(seg(0, 0, 5, 0), seg(6, 0, 10, 0))
	fmt.Println("overlap disjoint", o, ok)
	o, ok = geometry.CalcLineSegmentOverlap(seg(0, 0, 6, 0), seg(5, 0, 10, 0))
	fmt.Println("overlap partial", o, ok)
	o, ok = geometry.CalcLineSegmentOverlap(seg(0, 0, 5, 0), seg(5, 0, 0, 0))
	fmt.Println("overlap identical rev", o, ok)
	o, ok = geometry.CalcLineSegmentOverlap(seg(0, 0, 5, 0), seg(0, 0, 5, 0))
	fmt.Println("overlap identical", o, ok)
	o, ok = geometry.CalcLineSegmentOverlap(seg(0, 0, 5, 0), seg(5, 0, 9, 0))
	fmt.Println("overlap touch", o, ok)
	sq := geometry.NewPolygon(P(0, 0), P(2, 0), P(2, 2), P(0, 2))
	for _, p := range []geometry.Point{P(1, 1), P(0, 0), P(2, 2), P(0, 1), P(2, 1), P(1, 0), P(1, 2), P(3, 1), P(-1, 0)} {
		fmt.Println("inside", p, sq.IsPointInside(p), "onEdge", sq.IsPointOnEdge(p))
	}
	fmt.Println("centroid poly", geometry.CalcPolygonCentroid(sq), geometry.CalcPolygonVerticesCentroid(sq))
	fmt.Println("proj", geometry.CalcLineSegmentPointProjection(seg(0, 0, 4, 0), P(1, 3)), geometry.CalcLineSegmentDistanceToPoint(seg(0, 0, 4, 0), P(1, 3)), geometry.CalcLineSegmentDistanceToPoint(seg(0, 0, 4, 0), P(6, 0)))
	// navmesh with a gap
	a := geometry.NewPolygon(P(0, 0), P(1, 0), P(1, 3), P(0, 3))
	b := geometry.NewPolygon(P(2, 0), P(3, 0), P(3, 3), P(2, 3))
	nm := navmesh.NewNavMesh([]geometry.Polygon{a, b}, 0)
	fmt.Println("gap path", nm.FindPath(P(0.5, 1.5), P(2.5, 1.5)))
	// containment
	c := geometry.NewPolygon(P(0, 0), P(4, 0), P(4, 2), P(0, 2))
	d := geometry.NewPolygon(P(1, 2), P(3, 2), P(3, 4), P(1, 4))
	nm = navmesh.NewNavMesh([]geometry.Polygon{c, d}, 0)
	fmt.Println("contain path", nm.FindPath(P(0.5, 1), P(2, 3)))
}
