// c20geom: correspondence harness (T1) for toolkit/geometry (segments, polygons, circles) against
// MV.C20.GeomModel, plus brute-force monitors.
//
// Every input coordinate is a dyadic rational with a small exponent (multiples of 1/4 in [-8,8], mostly
// integers; constructed points on a segment are multiples of 1/16), so the exact value of every intermediate product is representable in float64 and
// "exactly on" versus "clearly off" is decidable.  float64 results are transmitted to Coq as the exact
// rationals they denote and compared there with tolerance 1e-9; the monitors below use math/big
// rationals and dense sampling and never compare floats for equality.
package main

import (
	"encoding/json"
	"fmt"
	"math"
	"math/big"
	"os"
	"sort"
	"strings"

	"github.com/kercylan98/minotaur/toolkit/geometry"
	"verif/harness/vh"
)

// ---- exact dyadic inputs

type R struct {
	N int64 `json:"n"`
	D int64 `json:"d"` // power of two
}

func (r R) F() float64    { return float64(r.N) / float64(r.D) }
func (r R) Rat() *big.Rat { return big.NewRat(r.N, r.D) }
func (r R) Coq() string   { return fmt.Sprintf("(q %s %d)", zlit(r.N), r.D) }
func ri(n int) R          { return R{int64(n), 1} }
func rq(n int) R { // n quarters, normalised
	d := int64(4)
	v := int64(n)
	for d > 1 && v%2 == 0 {
		v /= 2
		d /= 2
	}
	return R{v, d}
}

type Pt struct {
	X R `json:"x"`
	Y R `json:"y"`
}

func (p Pt) G() geometry.Point { return geometry.NewPoint(p.X.F(), p.Y.F()) }
func (p Pt) Coq() string       { return fmt.Sprintf("(P %s %s)", p.X.Coq(), p.Y.Coq()) }

type Circ struct {
	C Pt `json:"c"`
	R R  `json:"r"`
}

func (c Circ) G() geometry.Circle { return geometry.NewCircle(c.C.G(), c.R.F()) }
func (c Circ) Coq() string        { return fmt.Sprintf("(Ci %s %s)", c.C.Coq(), c.R.Coq()) }

type Out struct {
	K   string    `json:"k"` // pt | bool | num | seg | noseg | bad
	F   []float64 `json:"f,omitempty"`
	B   bool      `json:"b,omitempty"`
	Err string    `json:"err,omitempty"`
}

type Case struct {
	Fn    string `json:"fn"`
	Pts   []Pt   `json:"pts,omitempty"`  // segment end points first (2 per segment), then the query point
	Poly  []Pt   `json:"poly,omitempty"` // polygon vertices
	Cs    []Circ `json:"circles,omitempty"`
	Eps   *R     `json:"eps,omitempty"`
	Class string `json:"class"`
	Impl  Out    `json:"impl"`
}

func zlit(v int64) string {
	if v < 0 {
		return fmt.Sprintf("(%d)", v)
	}
	return fmt.Sprint(v)
}

// ---- running the implementation

func finite(fs ...float64) bool {
	for _, f := range fs {
		if math.IsNaN(f) || math.IsInf(f, 0) {
			return false
		}
	}
	return true
}
func outPt(p geometry.Point) Out {
	if len(p) != 2 || !finite(p[0], p[1]) {
		return Out{K: "bad", Err: fmt.Sprint("not a finite point: ", []float64(p))}
	}
	return Out{K: "pt", F: []float64{p[0], p[1]}}
}
func outNum(v float64) Out {
	if !finite(v) {
		return Out{K: "bad", Err: fmt.Sprint("not finite: ", v)}
	}
	return Out{K: "num", F: []float64{v}}
}
func outBool(b bool) Out { return Out{K: "bool", B: b} }

func polyG(ps []Pt) geometry.Polygon {
	r := make(geometry.Polygon, len(ps))
	for i, p := range ps {
		r[i] = p.G()
	}
	return r
}
func segG(a, b Pt) geometry.LineSegment { return geometry.LineSegment{a.G(), b.G()} }

func runImpl(c *Case) {
	c.Impl = func() (o Out) {
		defer func() {
			if e := recover(); e != nil {
				o = Out{K: "bad", Err: "panic: " + fmt.Sprint(e)}
			}
		}()
		p := c.Pts
		switch c.Fn {
		case "ClosestPoint":
			return outPt(segG(p[0], p[1]).ClosestPoint(p[2].G()))
		case "IsPointOnSegment":
			return outBool(segG(p[0], p[1]).IsPointOnSegment(p[2].G()))
		case "CalcLineSegmentPointProjection":
			return outPt(geometry.CalcLineSegmentPointProjection(segG(p[0], p[1]), p[2].G()))
		case "CalcLineSegmentDistanceToPoint":
			return outNum(geometry.CalcLineSegmentDistanceToPoint(segG(p[0], p[1]), p[2].G()))
		case "CalcLineSegmentCollinearWithEpsilon":
			return outBool(geometry.CalcLineSegmentCollinearWithEpsilon(segG(p[0], p[1]), segG(p[2], p[3]), c.Eps.F()))
		case "CalcLineSegmentOverlap":
			s, ok := geometry.CalcLineSegmentOverlap(segG(p[0], p[1]), segG(p[2], p[3]))
			if !ok {
				return Out{K: "noseg"}
			}
			if len(s) != 2 || len(s[0]) != 2 || len(s[1]) != 2 || !finite(s[0][0], s[0][1], s[1][0], s[1][1]) {
				return Out{K: "bad", Err: fmt.Sprint("malformed overlap ", s)}
			}
			return Out{K: "seg", F: []float64{s[0][0], s[0][1], s[1][0], s[1][1]}}
		case "GetMidpoint":
			return outPt(segG(p[0], p[1]).GetMidpoint())
		case "CalcTriangleAreaTwice":
			return outNum(geometry.CalcTriangleAreaTwice(p[0].G(), p[1].G(), p[2].G()))
		case "IsPointInside":
			return outBool(polyG(c.Poly).IsPointInside(p[0].G()))
		case "IsPointOnEdge":
			return outBool(polyG(c.Poly).IsPointOnEdge(p[0].G()))
		case "CalcRectangleVerticesCentroid":
			return outPt(geometry.CalcRectangleVerticesCentroid(polyG(c.Poly)))
		case "CalcPolygonVerticesCentroid":
			return outPt(polyG(c.Poly).VerticesCentroid())
		case "CalcPolygonCentroid":
			return outPt(polyG(c.Poly).Centroid())
		case "CircumscribedCircleRadiusWithVerticesCentroid":
			return outNum(polyG(c.Poly).CircumscribedCircleRadiusWithVerticesCentroid())
		case "CalcPolygonPointProjection":
			pr, d := geometry.CalcPolygonPointProjection(polyG(c.Poly), p[0].G())
			if len(pr) != 2 || !finite(pr[0], pr[1], d) {
				return Out{K: "bad", Err: fmt.Sprint("not finite: ", []float64(pr), d)}
			}
			return Out{K: "num", F: []float64{d, pr[0], pr[1]}}
		case "Circle.Contains":
			return outBool(c.Cs[0].G().Contains(p[0].G()))
		case "Circle.Intersect":
			return outBool(c.Cs[0].G().Intersect(c.Cs[1].G()))
		case "Circle.Overlap":
			return outBool(c.Cs[0].G().Overlap(c.Cs[1].G()))
		case "Circle.GetCenterDistance":
			return outNum(c.Cs[0].G().GetCenterDistance(c.Cs[1].G()))
		}
		panic("unknown function " + c.Fn)
	}()
}

// ---- exact helpers for the monitors (math/big)

type V struct{ X, Y *big.Rat }

func (p Pt) V() V                { return V{p.X.Rat(), p.Y.Rat()} }
func rat(i int64) *big.Rat       { return big.NewRat(i, 1) }
func sub(a, b *big.Rat) *big.Rat { return new(big.Rat).Sub(a, b) }
func add(a, b *big.Rat) *big.Rat { return new(big.Rat).Add(a, b) }
func mul(a, b *big.Rat) *big.Rat { return new(big.Rat).Mul(a, b) }
func quo(a, b *big.Rat) *big.Rat { return new(big.Rat).Quo(a, b) }
func vsub(a, b V) V              { return V{sub(a.X, b.X), sub(a.Y, b.Y)} }
func vdot(a, b V) *big.Rat       { return add(mul(a.X, b.X), mul(a.Y, b.Y)) }
func vcross(a, b V) *big.Rat     { return sub(mul(a.X, b.Y), mul(a.Y, b.X)) }
func veq(a, b V) bool            { return a.X.Cmp(b.X) == 0 && a.Y.Cmp(b.Y) == 0 }
func vlexLess(a, b V) bool {
	if c := a.X.Cmp(b.X); c != 0 {
		return c < 0
	}
	return a.Y.Cmp(b.Y) < 0
}
func fl(r *big.Rat) float64 { f, _ := r.Float64(); return f }
func d2(a, b V) *big.Rat    { d := vsub(a, b); return vdot(d, d) }

// orientation of c relative to the directed line a->b: >0 left, <0 right, 0 on the line
func orient(a, b, c V) int { return vcross(vsub(b, a), vsub(c, a)).Sign() }

// exactly on the closed segment [a,b] (definition: a + t(b-a), 0<=t<=1)
func onSegExact(a, b, p V) bool {
	if veq(a, b) {
		return veq(a, p)
	}
	if orient(a, b, p) != 0 {
		return false
	}
	t := vdot(vsub(p, a), vsub(b, a))
	return t.Sign() >= 0 && t.Cmp(d2(a, b)) <= 0
}

// exact squared distance from p to the closed segment [a,b] (independent clamp formulation)
func segDist2Exact(a, b, p V) *big.Rat {
	if veq(a, b) {
		return d2(a, p)
	}
	t := vdot(vsub(p, a), vsub(b, a))
	l2 := d2(a, b)
	if t.Sign() <= 0 {
		return d2(a, p)
	}
	if t.Cmp(l2) >= 0 {
		return d2(b, p)
	}
	cr := vcross(vsub(b, a), vsub(p, a))
	return quo(mul(cr, cr), l2)
}

const tol = 1e-9

func near(a, b float64) bool { return math.Abs(a-b) <= tol }

// float distance from (x,y) to the segment, by dense sampling (2049 points) - the brute-force definition
func sampledMinDist(a, b Pt, x, y float64) float64 {
	best := math.Inf(1)
	for k := 0; k <= 2048; k++ {
		t := float64(k) / 2048
		sx := a.X.F() + t*(b.X.F()-a.X.F())
		sy := a.Y.F() + t*(b.Y.F()-a.Y.F())
		if d := math.Hypot(sx-x, sy-y); d < best {
			best = d
		}
	}
	return best
}

// convexity and strict orientation of a polygon: +1 counter-clockwise, -1 clockwise, 0 not strictly convex
func convexOrientation(poly []Pt) int {
	n := len(poly)
	if n < 3 {
		return 0
	}
	s := 0
	for i := 0; i < n; i++ {
		o := orient(poly[i].V(), poly[(i+1)%n].V(), poly[(i+2)%n].V())
		if o == 0 {
			return 0
		}
		if s == 0 {
			s = o
		} else if s != o {
			return 0
		}
	}
	// a star-shaped self-intersecting polygon also has constant turning direction: require total turning of one revolution,
	// i.e. every vertex on the same side of every edge
	for i := 0; i < n; i++ {
		for k := 0; k < n; k++ {
			if o := orient(poly[i].V(), poly[(i+1)%n].V(), poly[k].V()); o != 0 && o != s {
				return 0
			}
		}
	}
	return s
}

// centre of symmetry of the vertex multiset, if it has one
func symmetryCentre(poly []Pt) (V, bool) {
	if len(poly) == 0 {
		return V{}, false
	}
	minx, maxx := poly[0].X.Rat(), poly[0].X.Rat()
	miny, maxy := poly[0].Y.Rat(), poly[0].Y.Rat()
	for _, p := range poly {
		if p.X.Rat().Cmp(minx) < 0 {
			minx = p.X.Rat()
		}
		if p.X.Rat().Cmp(maxx) > 0 {
			maxx = p.X.Rat()
		}
		if p.Y.Rat().Cmp(miny) < 0 {
			miny = p.Y.Rat()
		}
		if p.Y.Rat().Cmp(maxy) > 0 {
			maxy = p.Y.Rat()
		}
	}
	c := V{quo(add(minx, maxx), rat(2)), quo(add(miny, maxy), rat(2))}
	used := make([]bool, len(poly))
	for _, p := range poly {
		m := V{sub(mul(rat(2), c.X), p.X.Rat()), sub(mul(rat(2), c.Y), p.Y.Rat())}
		found := false
		for j, q := range poly {
			if !used[j] && veq(q.V(), m) {
				used[j] = true
				found = true
				break
			}
		}
		if !found {
			return V{}, false
		}
	}
	return c, true
}

func area2Exact(poly []Pt) *big.Rat {
	s := new(big.Rat)
	n := len(poly)
	for i := 0; i < n; i++ {
		a, b := poly[i].V(), poly[(i+1)%n].V()
		s = add(s, vcross(a, b))
	}
	return s
}

// ---- monitors

func monitor(c *Case) (viol []vh.Violation) {
	add1 := func(class, detail string) {
		viol = append(viol, vh.Violation{Kind: "geom:" + c.Fn + ":" + class, Detail: detail,
			Sig: map[string]string{"function": c.Fn, "class": class}})
	}
	p := c.Pts
	o := c.Impl
	if o.K == "bad" && strings.HasPrefix(o.Err, "panic") {
		if c.Class != "malformed" {
			add1("crash", o.Err)
		}
		return
	}
	switch c.Fn {
	case "ClosestPoint":
		a, b, q := p[0], p[1], p[2]
		if o.K != "pt" {
			if veq(a.V(), b.V()) {
				add1("not-finite-on-zero-length", fmt.Sprintf("segment %v-%v is a single point, closest point to %v should be that point, got %s", a, b, q, o.Err))
			} else {
				add1("not-finite", o.Err)
			}
			return
		}
		rx, ry := o.F[0], o.F[1]
		// lies on the segment
		if sampledOff := sampledMinDist(a, b, rx, ry); sampledOff > 1e-2 || !onSegFloat(a, b, rx, ry) {
			add1("off-segment", fmt.Sprintf("closest point of %s on %s-%s reported as (%g,%g), which is not on the segment", q.str(), a.str(), b.str(), rx, ry))
			return
		}
		// no other point of the segment is closer (dense sampling + exact minimum)
		got := math.Hypot(rx-q.X.F(), ry-q.Y.F())
		if best := sampledMinDist(a, b, q.X.F(), q.Y.F()); best < got-1e-9 {
			add1("not-closest", fmt.Sprintf("closest point of %s on %s-%s reported as (%g,%g) at distance %g, but a point of the segment is at distance %g", q.str(), a.str(), b.str(), rx, ry, got, best))
			return
		}
		if want := math.Sqrt(fl(segDist2Exact(a.V(), b.V(), q.V()))); got > want+1e-9 {
			add1("not-closest", fmt.Sprintf("closest point of %s on %s-%s reported as (%g,%g) at distance %g, minimum distance is %g", q.str(), a.str(), b.str(), rx, ry, got, want))
		}
	case "IsPointOnSegment":
		a, b, q := p[0], p[1], p[2]
		want := onSegExact(a.V(), b.V(), q.V())
		if !want && math.Sqrt(fl(segDist2Exact(a.V(), b.V(), q.V()))) < 1e-3 {
			return // inside the implementation's tolerance band: no claim
		}
		if o.B != want {
			add1("wrong", fmt.Sprintf("point %s on segment %s-%s: expected %v got %v", q.str(), a.str(), b.str(), want, o.B))
		}
	case "CalcLineSegmentPointProjection":
		a, b, q := p[0], p[1], p[2]
		if veq(a.V(), b.V()) {
			return // direction of a zero-length segment is undefined: no claim
		}
		if o.K != "pt" {
			add1("not-finite", o.Err)
			return
		}
		t := quo(vdot(vsub(q.V(), a.V()), vsub(b.V(), a.V())), d2(a.V(), b.V()))
		wx := add(a.V().X, mul(t, sub(b.V().X, a.V().X)))
		wy := add(a.V().Y, mul(t, sub(b.V().Y, a.V().Y)))
		if !near(o.F[0], fl(wx)) || !near(o.F[1], fl(wy)) {
			add1("wrong", fmt.Sprintf("projection of %s on line %s-%s: expected (%g,%g) got (%g,%g)", q.str(), a.str(), b.str(), fl(wx), fl(wy), o.F[0], o.F[1]))
		}
	case "CalcLineSegmentDistanceToPoint":
		a, b, q := p[0], p[1], p[2]
		if o.K != "num" {
			add1("not-finite", o.Err)
			return
		}
		want := math.Sqrt(fl(segDist2Exact(a.V(), b.V(), q.V())))
		if !near(o.F[0], want) {
			add1("wrong", fmt.Sprintf("distance of %s to segment %s-%s: expected %g got %g", q.str(), a.str(), b.str(), want, o.F[0]))
		}
	case "CalcLineSegmentCollinearWithEpsilon":
		e := c.Eps.Rat()
		a1 := new(big.Rat).Abs(vcross(vsub(p[1].V(), p[0].V()), vsub(p[2].V(), p[0].V())))
		a2 := new(big.Rat).Abs(vcross(vsub(p[1].V(), p[0].V()), vsub(p[3].V(), p[0].V())))
		if math.Abs(fl(a1)-fl(e)) < 1e-9 && a1.Cmp(e) != 0 || math.Abs(fl(a2)-fl(e)) < 1e-9 && a2.Cmp(e) != 0 {
			return
		}
		want := a1.Cmp(e) <= 0 && a2.Cmp(e) <= 0
		if o.B != want {
			add1("wrong", fmt.Sprintf("segments %s-%s and %s-%s, doubled triangle areas %g and %g, epsilon %g: expected %v got %v", p[0].str(), p[1].str(), p[2].str(), p[3].str(), fl(a1), fl(a2), fl(e), want, o.B))
		}
	case "CalcLineSegmentOverlap":
		a1, b1, a2, b2 := p[0].V(), p[1].V(), p[2].V(), p[3].V()
		// the function is specified for collinear segments only
		collinear := false
		switch {
		case !veq(a1, b1):
			collinear = orient(a1, b1, a2) == 0 && orient(a1, b1, b2) == 0
		case !veq(a2, b2):
			collinear = orient(a2, b2, a1) == 0
		default:
			collinear = true
		}
		if !collinear {
			return
		}
		mn := func(a, b V) V {
			if vlexLess(b, a) {
				return b
			}
			return a
		}
		mx := func(a, b V) V {
			if vlexLess(a, b) {
				return b
			}
			return a
		}
		lo := mx(mn(a1, b1), mn(a2, b2))
		hi := mn(mx(a1, b1), mx(a2, b2))
		want := vlexLess(lo, hi)
		desc := fmt.Sprintf("collinear segments %s-%s and %s-%s", p[0].str(), p[1].str(), p[2].str(), p[3].str())
		switch {
		case o.K == "bad":
			add1("crash", o.Err)
		case want && o.K == "noseg":
			add1("missed-overlap", fmt.Sprintf("%s share the segment (%g,%g)-(%g,%g) but no overlap is reported", desc, fl(lo.X), fl(lo.Y), fl(hi.X), fl(hi.Y)))
		case !want && o.K == "seg":
			add1("false-overlap", fmt.Sprintf("%s share at most one point but the overlap (%g,%g)-(%g,%g) is reported", desc, o.F[0], o.F[1], o.F[2], o.F[3]))
		case want && (o.F[0] != fl(lo.X) || o.F[1] != fl(lo.Y) || o.F[2] != fl(hi.X) || o.F[3] != fl(hi.Y)):
			add1("wrong-overlap", fmt.Sprintf("%s: expected (%g,%g)-(%g,%g) got (%g,%g)-(%g,%g)", desc, fl(lo.X), fl(lo.Y), fl(hi.X), fl(hi.Y), o.F[0], o.F[1], o.F[2], o.F[3]))
		}
	case "GetMidpoint":
		if o.K != "pt" {
			add1("not-finite", o.Err)
			return
		}
		wx := quo(add(p[0].V().X, p[1].V().X), rat(2))
		wy := quo(add(p[0].V().Y, p[1].V().Y), rat(2))
		if !near(o.F[0], fl(wx)) || !near(o.F[1], fl(wy)) {
			add1("wrong", fmt.Sprintf("midpoint of %s-%s: got (%g,%g)", p[0].str(), p[1].str(), o.F[0], o.F[1]))
		}
	case "CalcTriangleAreaTwice":
		if o.K != "num" {
			add1("not-finite", o.Err)
			return
		}
		// |value| is twice the area (sign = orientation, clockwise positive)
		w := vcross(vsub(p[2].V(), p[0].V()), vsub(p[1].V(), p[0].V()))
		if !near(o.F[0], fl(w)) {
			add1("wrong", fmt.Sprintf("expected %g got %g", fl(w), o.F[0]))
		}
	case "IsPointInside":
		s := convexOrientation(c.Poly)
		if s == 0 {
			return // only convex polygons are claimed
		}
		q := p[0].V()
		n := len(c.Poly)
		strictIn, strictOut := true, false
		for i := 0; i < n; i++ {
			side := orient(c.Poly[i].V(), c.Poly[(i+1)%n].V(), q)
			if side != s {
				strictIn = false
			}
			if side == -s {
				strictOut = true
			}
		}
		if strictIn && !o.B {
			add1("interior-point-rejected", fmt.Sprintf("%s is strictly inside the convex polygon %s", p[0].str(), polyStr(c.Poly)))
		}
		if strictOut && o.B {
			add1("exterior-point-accepted", fmt.Sprintf("%s is strictly outside the convex polygon %s", p[0].str(), polyStr(c.Poly)))
		}
	case "IsPointOnEdge":
		q := p[0].V()
		n := len(c.Poly)
		want := false
		minD := math.Inf(1)
		for i := 0; i < n; i++ {
			a, b := c.Poly[i].V(), c.Poly[(i+1)%n].V()
			if onSegExact(a, b, q) {
				want = true
			}
			if d := math.Sqrt(fl(segDist2Exact(a, b, q))); d < minD {
				minD = d
			}
		}
		if !want && minD < 1e-3 {
			return
		}
		if o.B != want {
			add1("wrong", fmt.Sprintf("point %s, polygon %s: expected %v got %v", p[0].str(), polyStr(c.Poly), want, o.B))
		}
	case "CalcRectangleVerticesCentroid", "CalcPolygonVerticesCentroid", "CalcPolygonCentroid":
		if len(c.Poly) == 0 {
			return
		}
		areaCentroid := c.Fn == "CalcPolygonCentroid"
		if areaCentroid && (area2Exact(c.Poly).Sign() == 0 || convexOrientation(c.Poly) == 0) {
			return // the area centroid is claimed for convex polygons of non-zero area
		}
		if o.K != "pt" {
			add1("not-finite", o.Err)
			return
		}
		if ctr, ok := symmetryCentre(c.Poly); ok {
			if !near(o.F[0], fl(ctr.X)) || !near(o.F[1], fl(ctr.Y)) {
				add1("symmetric-centre", fmt.Sprintf("polygon %s is symmetric about (%g,%g) but its centroid is reported as (%g,%g)", polyStr(c.Poly), fl(ctr.X), fl(ctr.Y), o.F[0], o.F[1]))
				return
			}
		}
		var wx, wy *big.Rat
		if !areaCentroid {
			sx, sy := new(big.Rat), new(big.Rat)
			for _, v := range c.Poly {
				sx, sy = add(sx, v.X.Rat()), add(sy, v.Y.Rat())
			}
			n := rat(int64(len(c.Poly)))
			wx, wy = quo(sx, n), quo(sy, n)
		} else {
			// fan triangulation from vertex 0: sum(area_i * centroid_i) / sum(area_i)
			sa, sx, sy := new(big.Rat), new(big.Rat), new(big.Rat)
			v0 := c.Poly[0].V()
			for i := 1; i+1 < len(c.Poly); i++ {
				a, b := c.Poly[i].V(), c.Poly[i+1].V()
				ar := vcross(vsub(a, v0), vsub(b, v0))
				sa = add(sa, ar)
				sx = add(sx, mul(ar, quo(add(add(v0.X, a.X), b.X), rat(3))))
				sy = add(sy, mul(ar, quo(add(add(v0.Y, a.Y), b.Y), rat(3))))
			}
			wx, wy = quo(sx, sa), quo(sy, sa)
		}
		if !near(o.F[0], fl(wx)) || !near(o.F[1], fl(wy)) {
			what := "vertex average"
			if areaCentroid {
				what = "area centroid"
			}
			add1("wrong", fmt.Sprintf("polygon %s: %s is (%g,%g), got (%g,%g)", polyStr(c.Poly), what, fl(wx), fl(wy), o.F[0], o.F[1]))
		}
	case "CircumscribedCircleRadiusWithVerticesCentroid":
		if len(c.Poly) == 0 {
			return
		}
		if o.K != "num" {
			add1("not-finite", o.Err)
			return
		}
		sx, sy := new(big.Rat), new(big.Rat)
		for _, v := range c.Poly {
			sx, sy = add(sx, v.X.Rat()), add(sy, v.Y.Rat())
		}
		n := rat(int64(len(c.Poly)))
		ctr := V{quo(sx, n), quo(sy, n)}
		best := new(big.Rat)
		for _, v := range c.Poly {
			if d := d2(ctr, v.V()); d.Cmp(best) > 0 {
				best = d
			}
		}
		if want := math.Sqrt(fl(best)); !near(o.F[0], want) {
			add1("wrong", fmt.Sprintf("polygon %s: largest vertex distance from the vertex average is %g, got %g", polyStr(c.Poly), want, o.F[0]))
		}
	case "CalcPolygonPointProjection":
		if len(c.Poly) < 3 {
			return
		}
		if o.K != "num" {
			add1("not-finite", o.Err)
			return
		}
		q := p[0].V()
		n := len(c.Poly)
		var best *big.Rat
		for i := 0; i < n; i++ {
			d := segDist2Exact(c.Poly[i].V(), c.Poly[(i+1)%n].V(), q)
			if best == nil || d.Cmp(best) < 0 {
				best = d
			}
		}
		want := math.Sqrt(fl(best))
		if !near(o.F[0], want) {
			add1("wrong-distance", fmt.Sprintf("distance of %s to the boundary of %s: expected %g got %g", p[0].str(), polyStr(c.Poly), want, o.F[0]))
			return
		}
		onB := false
		for i := 0; i < n; i++ {
			if onSegFloat(c.Poly[i], c.Poly[(i+1)%n], o.F[1], o.F[2]) {
				onB = true
			}
		}
		if !onB || !near(math.Hypot(o.F[1]-p[0].X.F(), o.F[2]-p[0].Y.F()), want) {
			add1("wrong-point", fmt.Sprintf("nearest boundary point of %s for %s reported as (%g,%g): not a boundary point at distance %g", polyStr(c.Poly), p[0].str(), o.F[1], o.F[2], want))
		}
	case "Circle.Contains":
		c0 := c.Cs[0]
		if c0.R.N < 0 {
			return
		}
		want := d2(c0.C.V(), p[0].V()).Cmp(mul(c0.R.Rat(), c0.R.Rat())) <= 0
		if o.B != want {
			add1("wrong", fmt.Sprintf("circle centre %s radius %g, point %s: expected %v got %v", c0.C.str(), c0.R.F(), p[0].str(), want, o.B))
		}
	case "Circle.Intersect", "Circle.Overlap":
		c0, c1 := c.Cs[0], c.Cs[1]
		if c0.R.N < 0 || c1.R.N < 0 {
			return
		}
		s := add(c0.R.Rat(), c1.R.Rat())
		cmp := d2(c0.C.V(), c1.C.V()).Cmp(mul(s, s))
		want := cmp <= 0
		if c.Fn == "Circle.Overlap" {
			want = cmp < 0
		}
		if o.B != want {
			add1("wrong", fmt.Sprintf("circles %s r=%g and %s r=%g: expected %v got %v", c0.C.str(), c0.R.F(), c1.C.str(), c1.R.F(), want, o.B))
		}
	case "Circle.GetCenterDistance":
		if o.K != "num" {
			add1("not-finite", o.Err)
			return
		}
		if want := math.Sqrt(fl(d2(c.Cs[0].C.V(), c.Cs[1].C.V()))); !near(o.F[0], want) {
			add1("wrong", fmt.Sprintf("expected %g got %g", want, o.F[0]))
		}
	}
	return
}

// (x,y) within tol of the closed segment a-b
func onSegFloat(a, b Pt, x, y float64) bool {
	ax, ay, bx, by := a.X.F(), a.Y.F(), b.X.F(), b.Y.F()
	l2 := (bx-ax)*(bx-ax) + (by-ay)*(by-ay)
	if l2 == 0 {
		return math.Hypot(x-ax, y-ay) <= tol
	}
	l := math.Sqrt(l2)
	cr := ((bx-ax)*(y-ay) - (by-ay)*(x-ax)) / l
	t := ((x-ax)*(bx-ax) + (y-ay)*(by-ay)) / l
	return math.Abs(cr) <= tol && t >= -tol && t <= l+tol
}

func (p Pt) str() string { return fmt.Sprintf("(%g,%g)", p.X.F(), p.Y.F()) }
func polyStr(ps []Pt) string {
	s := make([]string, len(ps))
	for i, p := range ps {
		s[i] = p.str()
	}
	return "[" + strings.Join(s, " ") + "]"
}

// ---- Coq terms

func fq(f float64) string {
	r := new(big.Rat).SetFloat64(f)
	if r == nil {
		return "(q 0 1)"
	}
	num := r.Num().String()
	if r.Sign() < 0 {
		num = "(" + num + ")"
	}
	return fmt.Sprintf("(q %s %s)", num, r.Denom().String())
}
func coqPoly(ps []Pt) string {
	var sb strings.Builder
	for _, p := range ps {
		sb.WriteString("(pcns " + p.Coq() + " ")
	}
	sb.WriteString("pnil" + strings.Repeat(")", len(ps)))
	return sb.String()
}
func coqSeg(a, b Pt) string { return "(Sg " + a.Coq() + " " + b.Coq() + ")" }

func coqCase(id int, c *Case) string {
	p := c.Pts
	var call string
	switch c.Fn {
	case "ClosestPoint":
		call = vh.App("CClosest", coqSeg(p[0], p[1]), p[2].Coq())
	case "IsPointOnSegment":
		call = vh.App("COnSeg", coqSeg(p[0], p[1]), p[2].Coq())
	case "CalcLineSegmentPointProjection":
		call = vh.App("CProj", coqSeg(p[0], p[1]), p[2].Coq())
	case "CalcLineSegmentDistanceToPoint":
		call = vh.App("CSegDist", coqSeg(p[0], p[1]), p[2].Coq())
	case "CalcLineSegmentCollinearWithEpsilon":
		call = vh.App("CCollinear", coqSeg(p[0], p[1]), coqSeg(p[2], p[3]), c.Eps.Coq())
	case "CalcLineSegmentOverlap":
		call = vh.App("COverlap", coqSeg(p[0], p[1]), coqSeg(p[2], p[3]))
	case "GetMidpoint":
		call = vh.App("CMid", coqSeg(p[0], p[1]))
	case "CalcTriangleAreaTwice":
		call = vh.App("CArea2", p[0].Coq(), p[1].Coq(), p[2].Coq())
	case "IsPointInside":
		call = vh.App("CInside", coqPoly(c.Poly), p[0].Coq())
	case "IsPointOnEdge":
		call = vh.App("COnEdge", coqPoly(c.Poly), p[0].Coq())
	case "CalcRectangleVerticesCentroid":
		call = vh.App("CRectCentroid", coqPoly(c.Poly))
	case "CalcPolygonVerticesCentroid":
		call = vh.App("CVertCentroid", coqPoly(c.Poly))
	case "CalcPolygonCentroid":
		call = vh.App("CPolyCentroid", coqPoly(c.Poly))
	case "CircumscribedCircleRadiusWithVerticesCentroid":
		call = vh.App("CBoundR", coqPoly(c.Poly))
	case "CalcPolygonPointProjection":
		call = vh.App("CPolyDist", coqPoly(c.Poly), p[0].Coq())
	case "Circle.Contains":
		call = vh.App("CContains", c.Cs[0].Coq(), p[0].Coq())
	case "Circle.Intersect":
		call = vh.App("CIntersect", c.Cs[0].Coq(), c.Cs[1].Coq())
	case "Circle.Overlap":
		call = vh.App("COverlapC", c.Cs[0].Coq(), c.Cs[1].Coq())
	case "Circle.GetCenterDistance":
		call = vh.App("CCenterDist", c.Cs[0].Coq(), c.Cs[1].Coq())
	default:
		panic(c.Fn)
	}
	o := "GBad"
	switch c.Impl.K {
	case "pt":
		o = fmt.Sprintf("(GPt (P %s %s))", fq(c.Impl.F[0]), fq(c.Impl.F[1]))
	case "bool":
		o = "(GBool " + vh.Bool(c.Impl.B) + ")"
	case "num":
		o = "(GNum " + fq(c.Impl.F[0]) + ")"
	case "seg":
		o = fmt.Sprintf("(GSeg (SomeS (P %s %s) (P %s %s)))", fq(c.Impl.F[0]), fq(c.Impl.F[1]), fq(c.Impl.F[2]), fq(c.Impl.F[3]))
	case "noseg":
		o = "(GSeg NoneS)"
	}
	return fmt.Sprintf("(mk %d %s %s)", id, call, o)
}

// ---- generators

type gen struct{ r *vh.RNG }

func (g gen) coord() R {
	switch g.r.Intn(6) {
	case 0:
		return rq(g.r.Range(-32, 32)) // quarters
	case 1:
		return ri(g.r.Range(-2, 2))
	default:
		return ri(g.r.Range(-8, 8))
	}
}
func (g gen) pt() Pt  { return Pt{g.coord(), g.coord()} }
func (g gen) ipt() Pt { return Pt{ri(g.r.Range(-6, 6)), ri(g.r.Range(-6, 6))} }

// a + (k/den)(b-a), exactly (den a power of two <= 4, coordinates stay dyadic)
func lerp(a, b Pt, k, den int64) Pt {
	f := func(x, y R) R {
		// x + k/den (y-x) over a common denominator
		d := x.D
		if y.D > d {
			d = y.D
		}
		xn, yn := x.N*(d/x.D), y.N*(d/y.D)
		n := xn*den + k*(yn-xn)
		dd := d * den
		for dd > 1 && n%2 == 0 {
			n /= 2
			dd /= 2
		}
		return R{n, dd}
	}
	return Pt{f(a.X, b.X), f(a.Y, b.Y)}
}

func (g gen) segment() (Pt, Pt, string) {
	a := g.pt()
	switch g.r.Intn(8) {
	case 0:
		return a, a, "zero-length"
	case 1:
		return a, Pt{g.coord(), a.Y}, "axis-aligned"
	case 2:
		return a, Pt{a.X, g.coord()}, "axis-aligned"
	}
	return a, g.pt(), "general"
}

func segClass(a, b Pt) string {
	switch {
	case veq(a.V(), b.V()):
		return "zero-length"
	case a.X == b.X || a.Y == b.Y:
		return "axis-aligned"
	}
	return "general"
}

// query point relative to a segment: random, on it, an end point, on the extension, beside it
func (g gen) pointFor(a, b Pt) (Pt, string) {
	switch g.r.Intn(7) {
	case 0:
		return lerp(a, b, int64(g.r.Range(1, 3)), 4), "on-segment"
	case 1:
		if g.r.Bool() {
			return a, "end-point"
		}
		return b, "end-point"
	case 2:
		if g.r.Bool() {
			return lerp(a, b, -int64(g.r.Range(1, 4)), 4), "on-extension"
		}
		return lerp(a, b, int64(g.r.Range(5, 8)), 4), "on-extension"
	case 3:
		// a point of the segment moved by one quarter in x or y: close to it but clearly off
		q := lerp(a, b, int64(g.r.Range(0, 4)), 4)
		if g.r.Bool() {
			q.X = addQuarter(q.X)
		} else {
			q.Y = addQuarter(q.Y)
		}
		return q, "near-segment"
	}
	return g.pt(), "random"
}
func addQuarter(r R) R {
	d := r.D
	if d < 4 {
		d = 4
	}
	return normR(R{r.N*(d/r.D) + d/4, d})
}
func normR(r R) R {
	for r.D > 1 && r.N%2 == 0 {
		r.N /= 2
		r.D /= 2
	}
	return r
}

// convex hull (Andrew), counter-clockwise, strictly convex; integer points
func hull(ps []Pt) []Pt {
	sort.Slice(ps, func(i, j int) bool { return vlexLess(ps[i].V(), ps[j].V()) })
	var u []Pt
	for i, p := range ps {
		if i > 0 && veq(p.V(), ps[i-1].V()) {
			continue
		}
		u = append(u, p)
	}
	if len(u) < 3 {
		return u
	}
	var lo, hi []Pt
	for _, p := range u {
		for len(lo) >= 2 && orient(lo[len(lo)-2].V(), lo[len(lo)-1].V(), p.V()) <= 0 {
			lo = lo[:len(lo)-1]
		}
		lo = append(lo, p)
	}
	for i := len(u) - 1; i >= 0; i-- {
		p := u[i]
		for len(hi) >= 2 && orient(hi[len(hi)-2].V(), hi[len(hi)-1].V(), p.V()) <= 0 {
			hi = hi[:len(hi)-1]
		}
		hi = append(hi, p)
	}
	return append(lo[:len(lo)-1], hi[:len(hi)-1]...)
}

func (g gen) polygon() ([]Pt, string) {
	var ps []Pt
	class := "convex"
	switch g.r.Intn(9) {
	case 0: // axis-aligned rectangle
		x0, y0 := g.r.Range(-6, 4), g.r.Range(-6, 4)
		w, h := g.r.Range(1, 6), g.r.Range(1, 6)
		ps = []Pt{{ri(x0), ri(y0)}, {ri(x0 + w), ri(y0)}, {ri(x0 + w), ri(y0 + h)}, {ri(x0), ri(y0 + h)}}
		class = "rectangle"
	case 1: // rotated rectangle: c +- u +- v with v perpendicular to u
		cx, cy := g.r.Range(-3, 3), g.r.Range(-3, 3)
		ux, uy := g.r.Range(1, 3), g.r.Range(-2, 2)
		k := g.r.Range(1, 2)
		vx, vy := -uy*k, ux*k
		ps = []Pt{{ri(cx - ux - vx), ri(cy - uy - vy)}, {ri(cx + ux - vx), ri(cy + uy - vy)}, {ri(cx + ux + vx), ri(cy + uy + vy)}, {ri(cx - ux + vx), ri(cy - uy + vy)}}
		class = "rotated-rectangle"
	case 2: // triangle
		for {
			ps = []Pt{g.ipt(), g.ipt(), g.ipt()}
			if o := orient(ps[0].V(), ps[1].V(), ps[2].V()); o != 0 {
				if o < 0 {
					ps[1], ps[2] = ps[2], ps[1]
				}
				break
			}
		}
		class = "triangle"
	case 3: // centrally symmetric hull
		cx, cy := g.r.Range(-2, 2), g.r.Range(-2, 2)
		var raw []Pt
		for i := 0; i < g.r.Range(2, 5); i++ {
			dx, dy := g.r.Range(-5, 5), g.r.Range(-5, 5)
			raw = append(raw, Pt{ri(cx + dx), ri(cy + dy)}, Pt{ri(cx - dx), ri(cy - dy)})
		}
		ps = hull(raw)
		class = "centrally-symmetric"
	case 4: // not convex (separate stream for the containment claims)
		ps = []Pt{{ri(0), ri(0)}, {ri(6), ri(0)}, {ri(6), ri(6)}, {ri(3), ri(g.r.Range(1, 3))}, {ri(0), ri(6)}}
		dx, dy := g.r.Range(-4, 0), g.r.Range(-4, 0)
		for i := range ps {
			ps[i].X.N += int64(dx)
			ps[i].Y.N += int64(dy)
		}
		class = "non-convex"
	default:
		var raw []Pt
		for i := 0; i < g.r.Range(4, 10); i++ {
			raw = append(raw, g.ipt())
		}
		ps = hull(raw)
	}
	if len(ps) < 3 || convexOrientation(ps) == 0 && class != "non-convex" {
		return g.polygon()
	}
	// start anywhere, sometimes clockwise
	k := g.r.Intn(len(ps))
	ps = append(append([]Pt{}, ps[k:]...), ps[:k]...)
	if g.r.Chance(1, 3) {
		for i, j := 0, len(ps)-1; i < j; i, j = i+1, j-1 {
			ps[i], ps[j] = ps[j], ps[i]
		}
		class += "-cw"
	}
	return ps, class
}

// query point for a polygon
func (g gen) pointForPoly(ps []Pt) (Pt, string) {
	n := len(ps)
	i := g.r.Intn(n)
	switch g.r.Intn(8) {
	case 0:
		return ps[i], "vertex"
	case 1:
		return lerp(ps[i], ps[(i+1)%n], int64(g.r.Range(1, 3)), 4), "on-edge"
	case 2:
		return lerp(ps[i], ps[(i+1)%n], int64(g.r.Range(5, 7)), 4), "on-edge-extension"
	case 3:
		return Pt{g.coord(), ps[i].Y}, "level-with-vertex"
	case 4:
		// towards the middle: average of three vertices, quarters
		a, b, c := ps[i], ps[(i+1)%n], ps[(i+2)%n]
		m := lerp(lerp(a, b, 2, 4), c, 2, 4)
		return m, "interior-ish"
	}
	return g.pt(), "random"
}

func (g gen) circle() Circ {
	r := rq(g.r.Range(0, 24))
	if g.r.Chance(1, 4) {
		r = ri(g.r.Range(0, 6))
	}
	return Circ{C: g.ipt(), R: r}
}

var pyth = [][3]int{{3, 4, 5}, {4, 3, 5}, {6, 8, 10}, {5, 12, 13}, {0, 5, 5}, {7, 0, 7}, {8, 6, 10}, {0, 0, 0}}

func genCase(r *vh.RNG, fn string) Case {
	g := gen{r}
	c := Case{Fn: fn}
	switch fn {
	case "ClosestPoint", "IsPointOnSegment", "CalcLineSegmentPointProjection", "CalcLineSegmentDistanceToPoint":
		a, b, _ := g.segment()
		q, pc := g.pointFor(a, b)
		c.Pts = []Pt{a, b, q}
		c.Class = segClass(a, b) + "/" + pc
	case "GetMidpoint":
		a, b, _ := g.segment()
		c.Pts = []Pt{a, b}
		c.Class = segClass(a, b)
	case "CalcTriangleAreaTwice":
		a, b, _ := g.segment()
		q, pc := g.pointFor(a, b)
		c.Pts = []Pt{a, b, q}
		c.Class = pc
	case "CalcLineSegmentCollinearWithEpsilon", "CalcLineSegmentOverlap":
		a, b, _ := g.segment()
		var a2, b2 Pt
		cls := ""
		switch r.Intn(6) {
		case 0: // unrelated
			a2, b2, _ = g.segment()
			cls = "random"
		default: // on the same line: parameters in quarters
			t1, t2 := int64(r.Range(-6, 10)), int64(r.Range(-6, 10))
			switch r.Intn(6) {
			case 0:
				t2 = t1
			case 1:
				t1 = 4 // touching at the end point b
			case 2:
				t1, t2 = 0, 4 // identical
			case 3:
				t1, t2 = 4, 0 // identical, reversed
			}
			a2, b2 = lerp(a, b, t1, 4), lerp(a, b, t2, 4)
			cls = "same-line"
			if r.Chance(1, 8) { // nudged off the line by a quarter
				b2.Y = addQuarter(b2.Y)
				cls = "nearly-collinear"
			}
		}
		if r.Bool() {
			a, b, a2, b2 = a2, b2, a, b
		}
		c.Pts = []Pt{a, b, a2, b2}
		c.Class = cls
		if fn == "CalcLineSegmentCollinearWithEpsilon" {
			e := []R{{0, 1}, {1, 16384}, {1, 16}, {1, 4}, {1, 1}, {3, 1}}[r.Intn(6)]
			c.Eps = &e
		} else {
			c.Class = overlapClass(c.Pts)
		}
	case "IsPointInside", "IsPointOnEdge", "CalcPolygonPointProjection":
		ps, pc := g.polygon()
		q, qc := g.pointForPoly(ps)
		c.Poly, c.Pts = ps, []Pt{q}
		c.Class = pc + "/" + qc
	case "CalcRectangleVerticesCentroid", "CalcPolygonVerticesCentroid", "CalcPolygonCentroid", "CircumscribedCircleRadiusWithVerticesCentroid":
		ps, pc := g.polygon()
		c.Poly = ps
		c.Class = pc
	case "Circle.Contains":
		ci := g.circle()
		c.Cs = []Circ{ci}
		switch r.Intn(4) {
		case 0: // on the circle: Pythagorean offset scaled to the radius when possible
			t := pyth[r.Intn(len(pyth))]
			ci.R = ri(t[2])
			c.Cs = []Circ{ci}
			c.Pts = []Pt{{R{ci.C.X.N + int64(t[0]), 1}, R{ci.C.Y.N + int64(t[1]), 1}}}
			c.Class = "on-circle"
		case 1:
			c.Pts = []Pt{ci.C}
			c.Class = "centre"
		default:
			c.Pts = []Pt{g.pt()}
			c.Class = "random"
		}
		if ci.R.N == 0 {
			c.Class += "/zero-radius"
		}
	case "Circle.Intersect", "Circle.Overlap", "Circle.GetCenterDistance":
		c1 := g.circle()
		c2 := g.circle()
		c.Class = "random"
		switch r.Intn(5) {
		case 0: // externally tangent
			t := pyth[r.Intn(len(pyth))]
			c2.C = Pt{R{c1.C.X.N + int64(t[0]), 1}, R{c1.C.Y.N + int64(t[1]), 1}}
			k := r.Range(0, t[2])
			c1.R, c2.R = ri(k), ri(t[2]-k)
			c.Class = "touching"
		case 1:
			c2.C = c1.C
			c.Class = "concentric"
		case 2: // just apart / just overlapping by a quarter
			t := pyth[r.Intn(len(pyth)-1)]
			c2.C = Pt{R{c1.C.X.N + int64(t[0]), 1}, R{c1.C.Y.N + int64(t[1]), 1}}
			k := r.Range(0, t[2])
			c1.R = ri(k)
			c2.R = normR(R{int64(4*(t[2]-k)) + int64(r.Range(-1, 1)), 4})
			if c2.R.N < 0 {
				c2.R = ri(0)
			}
			c.Class = "near-touching"
		}
		c.Cs = []Circ{c1, c2}
	default:
		panic(fn)
	}
	return c
}

func overlapClass(p []Pt) string {
	a1, b1, a2, b2 := p[0].V(), p[1].V(), p[2].V(), p[3].V()
	col := true
	if !veq(a1, b1) {
		col = orient(a1, b1, a2) == 0 && orient(a1, b1, b2) == 0
	} else if !veq(a2, b2) {
		col = orient(a2, b2, a1) == 0
	}
	if !col {
		return "not-collinear(malformed)"
	}
	if veq(a1, b1) || veq(a2, b2) {
		return "zero-length"
	}
	mn := func(a, b V) V {
		if vlexLess(b, a) {
			return b
		}
		return a
	}
	mx := func(a, b V) V {
		if vlexLess(a, b) {
			return b
		}
		return a
	}
	lo1, hi1, lo2, hi2 := mn(a1, b1), mx(a1, b1), mn(a2, b2), mx(a2, b2)
	switch {
	case veq(lo1, lo2) && veq(hi1, hi2):
		return "identical"
	case vlexLess(hi1, lo2) || vlexLess(hi2, lo1):
		return "disjoint"
	case veq(hi1, lo2) || veq(hi2, lo1):
		return "touching"
	case !vlexLess(lo2, lo1) && !vlexLess(hi1, hi2), !vlexLess(lo1, lo2) && !vlexLess(hi2, hi1):
		return "containment"
	}
	return "partial"
}

var functions = []string{
	"ClosestPoint", "IsPointOnSegment", "CalcLineSegmentPointProjection", "CalcLineSegmentDistanceToPoint",
	"CalcLineSegmentCollinearWithEpsilon", "CalcLineSegmentOverlap", "GetMidpoint", "CalcTriangleAreaTwice",
	"IsPointInside", "IsPointOnEdge", "CalcRectangleVerticesCentroid", "CalcPolygonVerticesCentroid", "CalcPolygonCentroid",
	"CircumscribedCircleRadiusWithVerticesCentroid", "CalcPolygonPointProjection",
	"Circle.Contains", "Circle.Intersect", "Circle.Overlap", "Circle.GetCenterDistance",
}

// weights: the functions the property names get more cases
var weight = map[string]int{"ClosestPoint": 4, "IsPointInside": 4, "CalcLineSegmentOverlap": 4, "IsPointOnSegment": 3,
	"CalcRectangleVerticesCentroid": 2, "CalcPolygonCentroid": 2, "Circle.Intersect": 2, "Circle.Overlap": 2, "Circle.Contains": 2}

func corpus() []Case {
	P := func(x, y int) Pt { return Pt{ri(x), ri(y)} }
	e0 := R{1, 16384}
	return []Case{
		// DESIGN §6 C20 probes
		{Fn: "ClosestPoint", Pts: []Pt{P(0, 0), P(4, 0), P(1, 3)}, Class: "axis-aligned/random"},
		{Fn: "CalcRectangleVerticesCentroid", Poly: []Pt{P(0, 2), P(2, 2), P(2, 4), P(0, 4)}, Class: "rectangle"},
		// zero-length segment
		{Fn: "ClosestPoint", Pts: []Pt{P(1, 1), P(1, 1), P(1, 3)}, Class: "zero-length/random"},
		// collinear overlap: containment, disjoint, partial, identical, touching
		{Fn: "CalcLineSegmentOverlap", Pts: []Pt{P(0, 0), P(10, 0), P(2, 0), P(5, 0)}, Class: "containment"},
		{Fn: "CalcLineSegmentOverlap", Pts: []Pt{P(0, 0), P(5, 0), P(6, 0), P(10, 0)}, Class: "disjoint"},
		{Fn: "CalcLineSegmentOverlap", Pts: []Pt{P(0, 0), P(6, 0), P(5, 0), P(10, 0)}, Class: "partial"},
		{Fn: "CalcLineSegmentOverlap", Pts: []Pt{P(0, 0), P(5, 0), P(5, 0), P(0, 0)}, Class: "identical"},
		{Fn: "CalcLineSegmentOverlap", Pts: []Pt{P(0, 0), P(5, 0), P(5, 0), P(9, 0)}, Class: "touching"},
		{Fn: "CalcLineSegmentOverlap", Pts: []Pt{P(0, 0), P(3, 3), P(1, 1), P(2, 2)}, Class: "containment"},
		{Fn: "CalcLineSegmentCollinearWithEpsilon", Pts: []Pt{P(0, 0), P(4, 0), P(6, 0), P(9, 0)}, Eps: &e0, Class: "same-line"},
		// ray casting through vertices
		{Fn: "IsPointInside", Poly: []Pt{P(0, 0), P(4, 0), P(4, 4), P(0, 4)}, Pts: []Pt{P(2, 2)}, Class: "rectangle/interior-ish"},
		{Fn: "IsPointInside", Poly: []Pt{P(0, 0), P(4, 2), P(0, 4)}, Pts: []Pt{P(1, 2)}, Class: "triangle/level-with-vertex"},
		{Fn: "IsPointInside", Poly: []Pt{P(0, 0), P(4, 2), P(0, 4)}, Pts: []Pt{P(-1, 2)}, Class: "triangle/level-with-vertex"},
		{Fn: "IsPointInside", Poly: []Pt{P(2, 0), P(4, 2), P(2, 4), P(0, 2)}, Pts: []Pt{P(-1, 2)}, Class: "convex/level-with-vertex"},
		// tangent circles 3-4-5
		{Fn: "Circle.Intersect", Cs: []Circ{{P(0, 0), ri(2)}, {P(3, 4), ri(3)}}, Class: "touching"},
		{Fn: "Circle.Overlap", Cs: []Circ{{P(0, 0), ri(2)}, {P(3, 4), ri(3)}}, Class: "touching"},
		{Fn: "Circle.Contains", Cs: []Circ{{P(0, 0), ri(5)}}, Pts: []Pt{P(3, 4)}, Class: "on-circle"},
	}
}

func nontrivial(c *Case) bool {
	for _, k := range []string{"zero-length", "axis-aligned", "end-point", "on-segment", "on-extension", "touching", "identical", "containment",
		"vertex", "on-edge", "level-with-vertex", "on-circle", "concentric", "zero-radius", "rectangle", "centrally-symmetric", "same-line", "nearly", "disjoint"} {
		if strings.Contains(c.Class, k) {
			return true
		}
	}
	return false
}

func record(out *vh.Out, c *Case) {
	runImpl(c)
	v := monitor(c)
	out.Count("function", c.Fn)
	out.Count("class:"+c.Fn, c.Class)
	if c.Impl.K == "bad" {
		out.Count("not-finite-or-panic", c.Fn)
	}
	if strings.Contains(c.Class, "malformed") || strings.Contains(c.Class, "non-convex") {
		out.Malformed()
	}
	term := coqCase(out.N(), c)
	if c.Fn == "CalcLineSegmentPointProjection" && veq(c.Pts[0].V(), c.Pts[1].V()) {
		// the carrying line of a zero-length segment is undefined (the implementation yields NaN): malformed input,
		// not claimed by the property and not evaluated against the model
		out.Malformed()
		term = ""
	}
	out.Add(c, term, nontrivial(c), v)
}

func main() {
	f := vh.ParseFlags()
	if f.Replay != "" {
		var c Case
		vh.LoadReplayCase(f.Replay, &c)
		want := c.Impl
		runImpl(&c)
		v := monitor(&c)
		b, _ := json.Marshal(map[string]interface{}{"case": c, "recorded_impl": want, "monitor": v})
		fmt.Println(string(b))
		if len(v) > 0 {
			os.Exit(1)
		}
		return
	}
	out := vh.NewOut(f.Out, "geom", "From MV Require Import Lib.ListX C20.GeomModel C20.GeomRun.", "case", "mismatches", f.Seed,
		"calls of 19 functions of toolkit/geometry on dyadic inputs (multiples of 1/4 in [-8,8], mostly integers): segments (random, axis-aligned, zero-length) with points on / at the end of / on the extension of / a quarter beside the segment; pairs of segments on one line (disjoint, touching, partial, containment, identical, reversed, zero-length, nudged off); convex polygons (hulls, rectangles, rotated rectangles, triangles, centrally symmetric, both orientations; non-convex as a separate stream) with query points at vertices, on edges, level with a vertex, inside, outside; circles tangent / concentric / a quarter apart (Pythagorean offsets); non-trivial = a degenerate or boundary class (anything but 'general/random'); distinct by hash of the whole case")
	out.PerShard = 250
	rng := vh.NewRNG(f.Seed)
	for _, c := range corpus() {
		c := c
		record(out, &c)
	}
	per := 90
	if f.Tier == "thorough" {
		per = 2500
	}
	if f.N > 0 {
		per = f.N
	}
	for _, fn := range functions {
		w := weight[fn]
		if w == 0 {
			w = 1
		}
		for i := 0; i < per*w; i++ {
			cr, _ := rng.Derive()
			c := genCase(cr, fn)
			record(out, &c)
		}
	}
	out.Close()
}
