// c16paged: correspondence harness (T1) for listings.PagedSlice against MV.C16.PagedModel,
// plus a brute-force monitor: a plain Go slice.
package main

import (
	"encoding/json"
	"fmt"
	"os"

	"github.com/kercylan98/minotaur/toolkit/collection/listings"
	"verif/harness/vh"
)

type Op struct {
	K    string  `json:"k"` // A D G S L GR GS BG BS DUMP
	I    int64   `json:"i,omitempty"`
	V    int64   `json:"v,omitempty"`
	Idx  []int64 `json:"idx,omitempty"`
	Vals []int64 `json:"vals,omitempty"`
}
type Res struct {
	K   string  `json:"k"` // unit val len list panic
	V   int64   `json:"v,omitempty"`
	L   []int64 `json:"l,omitempty"`
	Msg string  `json:"msg,omitempty"`
}
type Case struct {
	PS   int   `json:"ps"`
	Ops  []Op  `json:"ops"`
	Impl []Res `json:"impl"`
}

func ints(l []int64) []int {
	o := make([]int, len(l))
	for i, v := range l {
		o[i] = int(v)
	}
	return o
}

func apply(s *listings.PagedSlice[int64], o Op) (res Res) {
	defer func() {
		if e := recover(); e != nil {
			res = Res{K: "panic", Msg: fmt.Sprint(e)}
		}
	}()
	switch o.K {
	case "A":
		s.Add(o.V)
	case "D":
		s.Del(int(o.I))
	case "G":
		return Res{K: "val", V: *s.Get(int(o.I))}
	case "S":
		s.Set(int(o.I), o.V)
	case "L":
		return Res{K: "len", V: int64(s.Len())}
	case "GR":
		s.Grow(ints(o.Idx))
	case "GS":
		s.GrowSet(int(o.I), o.V)
	case "BG":
		s.BatchGrowSet(ints(o.Idx), o.Vals)
	case "BS":
		s.BatchSet(ints(o.Idx), o.Vals)
	case "DUMP":
		n := s.Len()
		l := make([]int64, 0, n)
		for i := 0; i < n; i++ {
			l = append(l, *s.Get(i))
		}
		return Res{K: "list", L: l}
	default:
		panic("bad op " + o.K)
	}
	return Res{K: "unit"}
}

// a case ends at the first panic (a panic may leave a batch half applied; nothing is compared after it)
func runImpl(c *Case) {
	s := listings.NewPagedSlice[int64](c.PS)
	c.Impl = c.Impl[:0]
	for i, o := range c.Ops {
		r := apply(s, o)
		c.Impl = append(c.Impl, r)
		if r.K == "panic" {
			c.Ops = c.Ops[:i+1]
			break
		}
	}
}

var fnName = map[string]string{"A": "Add", "D": "Del", "G": "Get", "S": "Set", "L": "Len", "GR": "Grow", "GS": "GrowSet", "BG": "BatchGrowSet", "BS": "BatchSet", "DUMP": "Get"}

// monitor: a plain slice. Calls a plain slice would reject (out-of-range read or batch store, negative
// grow index, batches of different lengths) are outside the contract: monitoring stops there.
func monitor(c *Case) (viol []vh.Violation) {
	var ref []int64
	add := func(i int, class, detail string) {
		if len(viol) < 3 {
			o := c.Ops[i]
			viol = append(viol, vh.Violation{Kind: "paged:" + fnName[o.K] + ":" + class,
				Detail: fmt.Sprintf("op #%d %s(i=%d,v=%d,idx=%v): %s", i, o.K, o.I, o.V, o.Idx, detail),
				Sig:    map[string]string{"fn": fnName[o.K], "class": class}})
		}
	}
	growTo := func(m int64) {
		for int64(len(ref)) <= m {
			ref = append(ref, 0)
		}
	}
	maxOf := func(l []int64) int64 {
		m := l[0]
		for _, v := range l {
			if v > m {
				m = v
			}
		}
		return m
	}
	for i, o := range c.Ops {
		if i >= len(c.Impl) {
			return
		}
		got := c.Impl[i]
		valid := true
		switch o.K {
		case "G":
			valid = o.I >= 0 && o.I < int64(len(ref))
		case "GS":
			valid = o.I >= 0
		case "BG", "BS":
			valid = len(o.Idx) == len(o.Vals)
			for _, x := range o.Idx {
				if x < 0 || (o.K == "BS" && x >= int64(len(ref))) {
					valid = false
				}
			}
		}
		if !valid {
			return
		}
		if got.K == "panic" {
			add(i, "crash", got.Msg)
			return
		}
		switch o.K {
		case "A":
			ref = append(ref, o.V)
		case "D":
			if o.I >= 0 && o.I < int64(len(ref)) {
				ref[o.I] = ref[len(ref)-1]
				ref = ref[:len(ref)-1]
			}
		case "G":
			if got.V != ref[o.I] {
				add(i, "wrong-element", fmt.Sprintf("plain slice %v, Get=%d", ref, got.V))
			}
		case "S":
			if o.I >= 0 && o.I < int64(len(ref)) {
				ref[o.I] = o.V
			}
		case "L":
			if got.V != int64(len(ref)) {
				add(i, "wrong-length", fmt.Sprintf("plain slice has %d, Len=%d", len(ref), got.V))
			}
		case "GR":
			if len(o.Idx) > 0 {
				growTo(maxOf(o.Idx))
			}
		case "GS":
			growTo(o.I)
			ref[o.I] = o.V
		case "BG":
			if len(o.Idx) > 0 {
				growTo(maxOf(o.Idx))
				for j, x := range o.Idx {
					ref[x] = o.Vals[j]
				}
			}
		case "BS":
			for j, x := range o.Idx {
				ref[x] = o.Vals[j]
			}
		case "DUMP":
			ok := len(got.L) == len(ref)
			first := -1
			for j := 0; ok && j < len(ref); j++ {
				if got.L[j] != ref[j] {
					ok = false
					first = j
				}
			}
			if !ok {
				class := "wrong-elements"
				if first >= 0 && ref[first] == 0 {
					class = "stale-value-after-grow"
				}
				add(i, class, fmt.Sprintf("plain slice %v, paged slice %v", ref, got.L))
			}
		}
	}
	return
}

func coqOp(o Op) string {
	switch o.K {
	case "A":
		return vh.App("Add", vh.Z(o.V))
	case "D":
		return vh.App("Del", vh.Z(o.I))
	case "G":
		return vh.App("Get", vh.Z(o.I))
	case "S":
		return vh.App("Set_", vh.Z(o.I), vh.Z(o.V))
	case "L":
		return "Len"
	case "GR":
		return vh.App("Grow", vh.ListZ(o.Idx))
	case "GS":
		return vh.App("GrowSet", vh.Z(o.I), vh.Z(o.V))
	case "BG":
		return vh.App("BatchGrowSet", vh.ListZ(o.Idx), vh.ListZ(o.Vals))
	case "BS":
		return vh.App("BatchSet", vh.ListZ(o.Idx), vh.ListZ(o.Vals))
	case "DUMP":
		return "Dump"
	}
	panic(o.K)
}

func coqRes(r Res) string {
	switch r.K {
	case "unit":
		return "OUnit"
	case "val":
		return vh.App("OVal", vh.Z(r.V))
	case "len":
		if r.V < 0 {
			return "OBad"
		}
		return vh.App("OLen", vh.Nat(int(r.V)))
	case "list":
		return vh.App("OList", vh.ListZ(r.L))
	case "panic":
		return "OPanic"
	}
	return "OBad"
}

func coqCase(id int, c *Case) string {
	ops := make([]string, len(c.Ops))
	for i, o := range c.Ops {
		ops[i] = coqOp(o)
	}
	rs := make([]string, len(c.Impl))
	for i, r := range c.Impl {
		rs[i] = coqRes(r)
	}
	return fmt.Sprintf("{| cid := %d; cps := %s; cops := %s; cimpl := %s |}", id, vh.Nat(c.PS), vh.List(ops), vh.List(rs))
}

type shape struct{ pageUp, pageDown, oob, growAfterDel, invalid int }

func analyse(c *Case) shape {
	var s shape
	n := 0
	dels := 0
	ps := c.PS
	cross := func(a, b int) {
		if (a+ps-1)/ps < (b+ps-1)/ps {
			s.pageUp++
		} else if (a+ps-1)/ps > (b+ps-1)/ps {
			s.pageDown++
		}
	}
	mx := func(l []int64) int {
		m := int(l[0])
		for _, v := range l {
			if int(v) > m {
				m = int(v)
			}
		}
		return m
	}
	for i, o := range c.Ops {
		if i < len(c.Impl) && c.Impl[i].K == "panic" {
			s.invalid++
			break
		}
		switch o.K {
		case "A":
			cross(n, n+1)
			n++
		case "D":
			if o.I >= 0 && int(o.I) < n {
				cross(n, n-1)
				n--
				dels++
			} else {
				s.oob++
			}
		case "S":
			if o.I < 0 || int(o.I) >= n {
				s.oob++
			}
		case "G":
			if o.I < 0 || int(o.I) >= n {
				s.invalid++
			}
		case "GR", "BG":
			if len(o.Idx) > 0 && mx(o.Idx) >= n {
				if dels > 0 {
					s.growAfterDel++
				}
				cross(n, mx(o.Idx)+1)
				n = mx(o.Idx) + 1
			}
		case "GS":
			if int(o.I) >= n {
				if dels > 0 {
					s.growAfterDel++
				}
				cross(n, int(o.I)+1)
				n = int(o.I) + 1
			}
		}
	}
	return s
}

func genCase(rng *vh.RNG, next *int64) Case {
	c := Case{PS: []int{1, 2, 2, 3, 4, 4, 8, 64}[rng.Intn(8)]}
	n := rng.Range(1, 40)
	size := 0
	malformed := rng.Chance(1, 6)
	idx := func() int64 {
		switch rng.Intn(8) {
		case 0:
			return int64(size) // one past the end
		case 1:
			if malformed {
				return -1
			}
			return 0
		case 2:
			return int64(size + rng.Intn(2*c.PS+1))
		case 3:
			if size > 0 {
				return int64(size - 1)
			}
			return 0
		}
		if size == 0 {
			return 0
		}
		return int64(rng.Intn(size))
	}
	inRange := func() int64 {
		if size == 0 {
			return 0
		}
		return int64(rng.Intn(size))
	}
	val := func() int64 { *next++; return *next }
	addBias := rng.Range(3, 7)
	for i := 0; i < n; i++ {
		if rng.Chance(1, 8) {
			addBias = rng.Range(1, 8)
		}
		if rng.Intn(10) < addBias {
			c.Ops = append(c.Ops, Op{K: "A", V: val()})
			size++
			continue
		}
		x := rng.Intn(100)
		switch {
		case x < 30:
			d := idx()
			c.Ops = append(c.Ops, Op{K: "D", I: d})
			if d >= 0 && int(d) < size {
				size--
			}
		case x < 42:
			if size > 0 || malformed {
				g := inRange()
				if malformed && rng.Chance(1, 3) {
					g = idx()
				}
				c.Ops = append(c.Ops, Op{K: "G", I: g})
			}
		case x < 52:
			c.Ops = append(c.Ops, Op{K: "S", I: idx(), V: val()})
		case x < 56:
			c.Ops = append(c.Ops, Op{K: "L"})
		case x < 66:
			k := rng.Range(0, 3)
			var l []int64
			for j := 0; j < k; j++ {
				l = append(l, idx())
			}
			c.Ops = append(c.Ops, Op{K: "GR", Idx: l})
			for _, v := range l {
				if int(v) >= size {
					size = int(v) + 1
				}
			}
		case x < 74:
			g := idx()
			c.Ops = append(c.Ops, Op{K: "GS", I: g, V: val()})
			if int(g) >= size {
				size = int(g) + 1
			}
		case x < 80:
			k := rng.Range(0, 3)
			var l, vs []int64
			for j := 0; j < k; j++ {
				l = append(l, idx())
				vs = append(vs, val())
			}
			if malformed && rng.Chance(1, 4) {
				vs = append(vs, val())
			}
			c.Ops = append(c.Ops, Op{K: "BG", Idx: l, Vals: vs})
			for _, v := range l {
				if int(v) >= size {
					size = int(v) + 1
				}
			}
		case x < 86:
			k := rng.Range(0, 3)
			var l, vs []int64
			for j := 0; j < k && size > 0; j++ {
				g := inRange()
				if malformed && rng.Chance(1, 4) {
					g = idx()
				}
				l = append(l, g)
				vs = append(vs, val())
			}
			c.Ops = append(c.Ops, Op{K: "BS", Idx: l, Vals: vs})
		default:
			c.Ops = append(c.Ops, Op{K: "DUMP"})
		}
	}
	c.Ops = append(c.Ops, Op{K: "L"}, Op{K: "DUMP"})
	return c
}

func record(out *vh.Out, c *Case) {
	runImpl(c)
	v := monitor(c)
	s := analyse(c)
	if s.invalid > 0 {
		out.Malformed()
	}
	nt := (s.pageDown > 0 && s.pageUp > 1) || (s.growAfterDel > 0) || (s.oob > 0 && s.pageUp > 1)
	out.Count("ops_len", vh.Bucket(len(c.Ops)))
	out.Count("page_size", fmt.Sprint(c.PS))
	out.Count("pages_allocated_crossings", vh.Bucket(s.pageUp))
	out.Count("pages_dropped_crossings", vh.Bucket(s.pageDown))
	out.Count("out_of_range_del_set", vh.Bucket(s.oob))
	out.Count("grow_after_del", vh.Bucket(s.growAfterDel))
	out.Count("calls_outside_contract", vh.Bucket(s.invalid))
	for _, o := range c.Ops {
		out.Count("op_mix", o.K)
	}
	out.Add(c, coqCase(out.N(), c), nt, v)
}

func corpus() []Case {
	A := func(v int64) Op { return Op{K: "A", V: v} }
	D := func(i int64) Op { return Op{K: "D", I: i} }
	dump := Op{K: "DUMP"}
	return []Case{
		// a deleted value must not come back when the slice grows again
		{PS: 4, Ops: []Op{A(7), A(8), A(9), D(0), dump, {K: "GR", Idx: []int64{3}}, dump, {K: "L"}}},
		{PS: 2, Ops: []Op{A(1), A(2), A(3), D(2), D(0), dump, {K: "GS", I: 3, V: 5}, dump}},
		// page boundaries: fill, drop a page, refill
		{PS: 2, Ops: []Op{A(1), A(2), A(3), dump, D(0), dump, D(0), D(0), dump, {K: "L"}, A(4), A(5), A(6), dump, D(5), D(-1), D(3), dump}},
		{PS: 1, Ops: []Op{A(1), A(2), D(1), D(0), D(0), A(3), dump, {K: "GR", Idx: []int64{2, 0}}, dump, {K: "S", I: 2, V: 9}, {K: "S", I: 3, V: 9}, dump}},
		{PS: 3, Ops: []Op{{K: "GR", Idx: []int64{}}, {K: "GR", Idx: []int64{0}}, dump, {K: "BG", Idx: []int64{4, 1}, Vals: []int64{40, 10}}, dump, {K: "BS", Idx: []int64{0, 4}, Vals: []int64{1, 2}}, dump, D(4), D(3), dump, A(6), dump}},
		// outside the contract: the model predicts the panic too
		{PS: 2, Ops: []Op{A(1), {K: "G", I: 1}, {K: "G", I: 2}}},
		{PS: 2, Ops: []Op{A(1), {K: "BG", Idx: []int64{1}, Vals: []int64{}}}},
		{PS: 2, Ops: []Op{A(1), {K: "GS", I: -1, V: 3}}},
	}
}

func main() {
	f := vh.ParseFlags()
	if f.Replay != "" {
		var c Case
		vh.LoadReplayCase(f.Replay, &c)
		want := append([]Res(nil), c.Impl...)
		runImpl(&c)
		v := monitor(&c)
		b, _ := json.Marshal(map[string]interface{}{"case": c, "recorded_impl": want, "monitor": v})
		fmt.Println(string(b))
		if len(v) > 0 {
			os.Exit(1)
		}
		return
	}
	out := vh.NewOut(f.Out, "paged", "From MV Require Import Lib.ListX C16.PagedModel C16.PagedRun.", "case", "mismatches", f.Seed,
		"random histories (1..40 ops + final Len/dump) over page sizes {1,2,3,4,8,64}: Add/Del/Get/Set/Len/Grow/GrowSet/BatchGrowSet/BatchSet with indices at 0, len-1, len, len+k (k up to two pages) and, in a separate malformed stream (1 case in 6), negative indices, out-of-range reads/batch stores and batches of unequal length (a case ends at the first panic); thorough adds every history of <=6 ops over {Add, Del 0, Del last, Grow [len+1], dump} for page sizes 1..3; non-trivial = a page dropped after at least two were allocated, or a grow after a delete, or an out-of-range Del/Set in a multi-page history")
	out.PerShard = 100
	rng := vh.NewRNG(f.Seed)
	var next int64 = 100
	for _, c := range corpus() {
		c := c
		record(out, &c)
	}
	n := f.N
	if n == 0 {
		n = 800
		if f.Tier == "thorough" {
			n = 10000
		}
	}
	for i := 0; i < n; i++ {
		cr, _ := rng.Derive()
		c := genCase(cr, &next)
		record(out, &c)
	}
	if f.Tier == "thorough" {
		for ps := 1; ps <= 3; ps++ {
			var rec func(prefix []string, depth int)
			rec = func(prefix []string, depth int) {
				if len(prefix) > 0 {
					c := Case{PS: ps}
					size := 0
					var v int64
					for _, k := range prefix {
						switch k {
						case "A":
							v++
							c.Ops = append(c.Ops, Op{K: "A", V: v})
							size++
						case "D0":
							c.Ops = append(c.Ops, Op{K: "D", I: 0})
							if size > 0 {
								size--
							}
						case "DL":
							c.Ops = append(c.Ops, Op{K: "D", I: int64(size - 1)})
							if size > 0 {
								size--
							}
						case "GR":
							c.Ops = append(c.Ops, Op{K: "GR", Idx: []int64{int64(size + 1)}})
							size += 2
						}
					}
					c.Ops = append(c.Ops, Op{K: "L"}, Op{K: "DUMP"})
					record(out, &c)
				}
				if depth == 0 {
					return
				}
				for _, k := range []string{"A", "D0", "DL", "GR"} {
					rec(append(prefix[:len(prefix):len(prefix)], k), depth-1)
				}
			}
			rec(nil, 6)
		}
	}
	out.Close()
}
