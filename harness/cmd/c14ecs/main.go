// c14ecs: correspondence harness (T1) for engine/ecs (public World API) against MV.C14.EcsModel,
// plus a direct sub-stream on storage/column.Storage (row reuse), monitors only.
//
// A case is a *script* (abstract operations whose entity arguments are references into the list of
// handles issued so far) that is resolved while it runs on the implementation into a *concrete*
// operation list (handles as (id, generation)) with the observed outputs.  The concrete list and the
// outputs are what Coq re-computes with the model.  The monitors are a brute-force restatement of the
// four clauses of C14 over the history (a map entity -> component values kept by hand).
package main

import (
	"encoding/json"
	"fmt"
	"os"
	"reflect"
	"sort"
	"strings"
	"sync"

	"github.com/kercylan98/minotaur/engine/ecs"
	"github.com/kercylan98/minotaur/engine/ecs/storage/column"
	"verif/harness/vh"
)

// ---------------------------------------------------------------- component types (payload V is what writes change)

type C0 struct{ V int64 }
type C1 struct{ V int64 }
type C2 struct{ V int64 }
type C3 struct{ V int64 }
type C4 struct{ V int64 }
type C5 struct{ V int64 }
type C6 struct{ V int64 }
type C7 struct{ V int64 }
type C8 struct{ V int64 }
type C9 struct{ V int64 }
type C10 struct{ V int64 }
type C11 struct{ V int64 }

const nTypes = 12

func newComp(t int) any {
	switch t {
	case 0:
		return new(C0)
	case 1:
		return new(C1)
	case 2:
		return new(C2)
	case 3:
		return new(C3)
	case 4:
		return new(C4)
	case 5:
		return new(C5)
	case 6:
		return new(C6)
	case 7:
		return new(C7)
	case 8:
		return new(C8)
	case 9:
		return new(C9)
	case 10:
		return new(C10)
	case 11:
		return new(C11)
	}
	if t >= nTypes && t < maxTypes {
		// more component types than named ones: distinct struct types with one int64 field, told apart by their tag
		manyMu.Lock()
		defer manyMu.Unlock()
		ty, ok := manyTypes[t]
		if !ok {
			ty = reflect.StructOf([]reflect.StructField{{Name: "V", Type: reflect.TypeOf(int64(0)), Tag: reflect.StructTag(fmt.Sprintf(`c:"%d"`, t))}})
			manyTypes[t] = ty
		}
		return reflect.New(ty).Interface()
	}
	panic("bad type tag")
}

// maxTypes: type tags nTypes..maxTypes-1 are built by reflection (scripts with more than 64 registered component types:
// ids beyond the width of a machine word)
const maxTypes = 72

var (
	manyMu    sync.Mutex
	manyTypes = map[int]reflect.Type{}
)

// payload access through reflection: p is *Ck
func payload(p any) (v reflect.Value, ok bool) {
	rv := reflect.ValueOf(p)
	if rv.Kind() != reflect.Ptr || rv.IsNil() || rv.Elem().Kind() != reflect.Struct || rv.Elem().NumField() != 1 {
		return reflect.Value{}, false
	}
	return rv.Elem().Field(0), true
}

// ---------------------------------------------------------------- case representation

type H struct {
	ID  uint32 `json:"id"`
	Gen uint32 `json:"gen"`
}

func (h H) entity() ecs.Entity  { return ecs.Entity(uint64(h.Gen)<<32 | uint64(h.ID)) }
func fromEntity(e ecs.Entity) H { return H{ID: uint32(e), Gen: uint32(uint64(e) >> 32)} }
func (h H) String() string      { return fmt.Sprintf("(%d,g%d)", h.ID, h.Gen) }

type Q struct {
	K  string `json:"k"` // in notin eq and or
	Cs []int  `json:"cs,omitempty"`
	Qs []Q    `json:"qs,omitempty"`
}

// script operation
type SOp struct {
	K    string `json:"k"`              // reg spawn spawns kill kills alive query get write scan scanw | malformed: rekill forged zero far
	T    int    `json:"t,omitempty"`    // reg: type tag
	Cs   []int  `json:"cs,omitempty"`   // spawn/spawns: component ids
	N    int    `json:"n,omitempty"`    // spawns: count
	R    int    `json:"r,omitempty"`    // entity reference: kill -> index into living, others -> index into issued (mod length)
	Rs   []int  `json:"rs,omitempty"`   // kills: references into living
	Q    *Q     `json:"q,omitempty"`    // query / scan
	C    int    `json:"c,omitempty"`    // component id
	V    int64  `json:"v,omitempty"`    // written value
	Iter bool   `json:"iter,omitempty"` // scan through ResultIterator instead of Result.Get; query through QueryF
}

// concrete operation (what the model is run on)
type COp struct {
	K  string `json:"k"` // reg spawn spawns kill kills alive query get write rget rwrite
	T  int    `json:"t,omitempty"`
	Cs []int  `json:"cs,omitempty"`
	N  int    `json:"n,omitempty"`
	E  *H     `json:"e,omitempty"`
	Es []H    `json:"es,omitempty"`
	Q  *Q     `json:"q,omitempty"`
	C  int    `json:"c,omitempty"`
	V  int64  `json:"v,omitempty"`
}

type Res struct {
	K   string `json:"k"` // unit cid handle handles bool val panic bad
	N   int64  `json:"n,omitempty"`
	Ok  bool   `json:"ok,omitempty"` // val: non-nil; bool: value
	H   *H     `json:"h,omitempty"`
	Hs  []H    `json:"hs,omitempty"`
	Err string `json:"err,omitempty"`
}

type Case struct {
	Script    []SOp  `json:"script"`
	Ops       []COp  `json:"ops"`
	Impl      []Res  `json:"impl"`
	Malformed bool   `json:"malformed,omitempty"`
	NoModel   bool   `json:"nomodel,omitempty"` // contains an operation on which the Go code panics by design (not evaluated in Coq)
	Store     *SCase `json:"store,omitempty"`   // direct storage sub-stream (monitor only)
}

const maxOps = 40

// ---------------------------------------------------------------- brute-force bookkeeping (the monitor's specification)

type ent struct {
	h     H
	comps map[int]bool
	alive bool
	data  map[int]int64
}

type runner struct {
	w       ecs.World
	c       *Case
	issued  []*ent
	byH     map[H]*ent
	living  []*ent
	regID   map[int]int // type tag -> id returned
	idType  map[int]int // id -> type tag
	viol    []vh.Violation
	valid   bool // no malformed operation executed so far: the monitors judge only valid prefixes
	reuses  int
	archs   map[string]bool
	shapes  []string
	stopped bool // a panic after a malformed operation: nothing further is comparable
	// slices that crossed the API: what Spawns handed to the caller (kept alive and compared with a copy after every later
	// operation — the caller's slice must not be rewritten by the world; every second one is overwritten by the caller
	// instead — the world must not be affected) and what the caller handed to Annihilates
	kept    []keptSlice
	nSpawns int
	argbuf  []ecs.ComponentId // the caller's own argument buffer: rewritten in place and passed again (the world must not keep it)
	nArgs   int
	held    []heldResult
}

type keptSlice struct {
	what string
	live []ecs.Entity
	copy []ecs.Entity
}

// heldResult: a query Result kept by the caller across later operations: it must go on listing exactly the entities it
// listed when it was obtained (consuming it while or after entities are annihilated or spawned is ordinary use)
type heldResult struct {
	what   string
	result *ecs.Result
	listed []H
}

func (r *runner) checkHeld() {
	for i := range r.held {
		hr := &r.held[i]
		if hr.result == nil {
			continue
		}
		var now []H
		ok := true
		func() {
			defer func() {
				if recover() != nil {
					ok = false
				}
			}()
			for _, e := range hr.result.Entities() {
				now = append(now, fromEntity(e))
			}
		}()
		same := ok && len(now) == len(hr.listed)
		for j := 0; same && j < len(now); j++ {
			same = now[j] == hr.listed[j]
		}
		if !same {
			r.flag("Query", "held-result-changed", fmt.Sprintf("%s listed %v when it was obtained and lists %v now (a Result is a snapshot)", hr.what, hr.listed, now), nil)
			hr.result = nil
		}
	}
}

func (r *runner) checkKept() {
	r.checkHeld()
	for i := range r.kept {
		k := &r.kept[i]
		for j := range k.live {
			if k.live[j] != k.copy[j] {
				r.flag("Spawns", "callers-slice-rewritten", fmt.Sprintf("%s: slot %d was %v, is %v (the world and the caller share a backing array)", k.what, j, k.copy[j], k.live[j]), nil)
				copy(k.copy, k.live)
				break
			}
		}
	}
}

func (r *runner) flag(op string, class, detail string, sig map[string]string) {
	if !r.valid || len(r.viol) >= 4 {
		return
	}
	if sig == nil {
		sig = map[string]string{}
	}
	sig["op"] = op
	r.viol = append(r.viol, vh.Violation{Kind: "ecs:" + op + ":" + class,
		Detail: fmt.Sprintf("concrete op #%d: %s", len(r.c.Ops)-1, detail), Sig: sig})
}

func satGo(q *Q, comps map[int]bool) bool {
	switch q.K {
	case "in":
		for _, c := range q.Cs {
			if !comps[c] {
				return false
			}
		}
		return true
	case "notin":
		for _, c := range q.Cs {
			if comps[c] {
				return false
			}
		}
		return true
	case "eq":
		want := map[int]bool{}
		for _, c := range q.Cs {
			want[c] = true
			if !comps[c] {
				return false
			}
		}
		return len(want) == len(comps)
	case "and":
		for i := range q.Qs {
			if !satGo(&q.Qs[i], comps) {
				return false
			}
		}
		return true
	case "or":
		for i := range q.Qs {
			if satGo(&q.Qs[i], comps) {
				return true
			}
		}
		return false
	}
	panic("bad query kind " + q.K)
}

func buildQuery(q *Q) ecs.Query {
	ids := func() []ecs.ComponentId {
		out := make([]ecs.ComponentId, len(q.Cs))
		for i, c := range q.Cs {
			out[i] = ecs.ComponentId(c)
		}
		return out
	}
	switch q.K {
	case "in":
		return ecs.In(ids()...)
	case "notin":
		return ecs.NotIn(ids()...)
	case "eq":
		return ecs.Equal(ids()...)
	case "and", "or":
		sub := make([]ecs.Query, len(q.Qs))
		for i := range q.Qs {
			sub[i] = buildQuery(&q.Qs[i])
		}
		if q.K == "and" {
			return ecs.And(sub...)
		}
		return ecs.Or(sub...)
	}
	panic("bad query kind " + q.K)
}

func qShape(q *Q) string {
	switch q.K {
	case "in", "notin", "eq":
		n := len(q.Cs)
		if n > 2 {
			return q.K + "/3+"
		}
		return fmt.Sprintf("%s/%d", q.K, n)
	}
	return fmt.Sprintf("%s[%d children, depth %d]", q.K, len(q.Qs), qDepth(q))
}

func qDepth(q *Q) int {
	d := 0
	for i := range q.Qs {
		if k := qDepth(&q.Qs[i]); k > d {
			d = k
		}
	}
	return d + 1
}

func sortH(hs []H) {
	sort.Slice(hs, func(i, j int) bool {
		if hs[i].ID != hs[j].ID {
			return hs[i].ID < hs[j].ID
		}
		return hs[i].Gen < hs[j].Gen
	})
}

// call runs f, turning a panic into a "panic" result
func call(f func() Res) (res Res) {
	defer func() {
		if e := recover(); e != nil {
			res = Res{K: "panic", Err: fmt.Sprint(e)}
		}
	}()
	return f()
}

func (r *runner) emit(o COp, res Res) {
	if !r.valid && res.K == "panic" && !r.c.NoModel {
		// after a malformed operation the world is outside the API's precondition; where the Go code then
		// nil-dereferences the (total) model answers nil: the history is compared up to, not including, this call
		r.stopped = true
		return
	}
	r.c.Ops = append(r.c.Ops, o)
	r.c.Impl = append(r.c.Impl, res)
	r.checkKept()
	if res.K == "panic" {
		r.flag(opName(o.K), "panic", fmt.Sprintf("%s panicked: %s", describe(o), res.Err), nil)
	}
}

func opName(k string) string {
	switch k {
	case "reg":
		return "RegComponent"
	case "spawn":
		return "Spawn"
	case "spawns":
		return "Spawns"
	case "kill":
		return "Annihilate"
	case "kills":
		return "Annihilates"
	case "alive":
		return "Alive"
	case "query":
		return "Query"
	case "get", "write":
		return "Get"
	case "rget", "rwrite":
		return "Result.Get"
	}
	return k
}

func describe(o COp) string {
	b, _ := json.Marshal(o)
	return string(b)
}

// registrations do not count against the length limit (scripts with more than 64 component types)
func (r *runner) full() bool {
	n := 0
	for _, o := range r.c.Ops {
		if o.K != "reg" {
			n++
		}
	}
	return r.stopped || n >= maxOps
}

func (r *runner) compKey(cs []int) string {
	m := map[int]bool{}
	for _, c := range cs {
		m[c] = true
	}
	ks := make([]int, 0, len(m))
	for c := range m {
		ks = append(ks, c)
	}
	sort.Ints(ks)
	return fmt.Sprint(ks)
}

func (r *runner) onSpawned(op string, h H, cs []int) {
	if old, ok := r.byH[h]; ok {
		if old.alive {
			r.flag(op, "handle-not-distinct", fmt.Sprintf("returned %v which is the handle of a living entity", h), nil)
		} else {
			r.flag(op, "handle-reissued", fmt.Sprintf("returned %v which was issued before and annihilated: the dead handle is alive again", h), nil)
		}
		// keep the bookkeeping going: the old entity is replaced
		old.alive = false
		for i, l := range r.living {
			if l == old {
				r.living = append(r.living[:i:i], r.living[i+1:]...)
				break
			}
		}
	}
	if h.Gen > 0 {
		r.reuses++
	}
	e := &ent{h: h, comps: map[int]bool{}, alive: true, data: map[int]int64{}}
	for _, c := range cs {
		e.comps[c] = true
	}
	r.issued = append(r.issued, e)
	r.byH[h] = e
	r.living = append(r.living, e)
	r.archs[r.compKey(cs)] = true
}

func cids(cs []int) []ecs.ComponentId {
	out := make([]ecs.ComponentId, len(cs))
	for i, c := range cs {
		out[i] = ecs.ComponentId(c)
	}
	return out
}

// args: component ids as a caller would pass them — two calls out of three through ONE buffer that is rewritten in place
// between the calls (buf = append(buf[:0], ...); w.Spawn(buf...)), otherwise a fresh slice
func (r *runner) args(cs []int) []ecs.ComponentId {
	r.nArgs++
	if r.nArgs%3 == 0 {
		return cids(cs)
	}
	r.argbuf = r.argbuf[:0]
	for _, c := range cs {
		r.argbuf = append(r.argbuf, ecs.ComponentId(c))
	}
	return r.argbuf
}

func (r *runner) kill(e *ent) {
	e.alive = false
	for i, l := range r.living {
		if l == e {
			r.living = append(r.living[:i:i], r.living[i+1:]...)
			return
		}
	}
}

// expected value of component c of handle h for World.Get: (non-nil?, payload)
func (r *runner) expect(h H, c int) (bool, int64) {
	e, ok := r.byH[h]
	if !ok || !e.alive || !e.comps[c] {
		return false, 0
	}
	return true, e.data[c]
}

func (r *runner) checkVal(op string, h H, c int, res Res) {
	if res.K == "panic" {
		return
	}
	has, want := r.expect(h, c)
	switch {
	case res.K == "bad":
		r.flag(op, "wrong-component-type", fmt.Sprintf("component %d of %v: %s", c, h, res.Err), nil)
	case has && !res.Ok:
		r.flag(op, "nil-for-owned-component", fmt.Sprintf("living entity %v was spawned with component %d but got nil", h, c), nil)
	case !has && res.Ok:
		r.flag(op, "value-for-dead-or-absent", fmt.Sprintf("%v is dead or lacks component %d but got a value (%d)", h, c, res.N), nil)
	case has && res.N != want:
		r.flag(op, "wrong-value", fmt.Sprintf("component %d of %v: last written %d, read %d", c, h, want, res.N), nil)
	}
}

// read component c reached through p (nil = absent)
func (r *runner) readPtr(p any, c int) Res {
	if p == nil {
		return Res{K: "val"}
	}
	f, ok := payload(p)
	if !ok {
		return Res{K: "bad", Err: fmt.Sprintf("unexpected value %T", p)}
	}
	if t, known := r.idType[c]; known && reflect.TypeOf(p) != reflect.TypeOf(newComp(t)) {
		return Res{K: "bad", Err: fmt.Sprintf("got %T for component id %d registered as %T", p, c, newComp(t))}
	}
	return Res{K: "val", Ok: true, N: f.Int()}
}

func (r *runner) writePtr(p any, c int, v int64) Res {
	if p == nil {
		return Res{K: "bool"}
	}
	f, ok := payload(p)
	if !ok {
		return Res{K: "bad", Err: fmt.Sprintf("unexpected value %T", p)}
	}
	if t, known := r.idType[c]; known && reflect.TypeOf(p) != reflect.TypeOf(newComp(t)) {
		return Res{K: "bad", Err: fmt.Sprintf("got %T for component id %d registered as %T", p, c, newComp(t))}
	}
	f.SetInt(v)
	return Res{K: "bool", Ok: true}
}

func (r *runner) noteWrite(op string, h H, c int, v int64, res Res) {
	if res.K == "panic" {
		return
	}
	has, _ := r.expect(h, c)
	switch {
	case res.K == "bad":
		r.flag(op, "wrong-component-type", fmt.Sprintf("component %d of %v: %s", c, h, res.Err), nil)
	case has && !res.Ok:
		r.flag(op, "nil-for-owned-component", fmt.Sprintf("living entity %v was spawned with component %d but got nil", h, c), nil)
	case !has && res.Ok:
		r.flag(op, "value-for-dead-or-absent", fmt.Sprintf("%v is dead or lacks component %d but got a value", h, c), nil)
	}
	if has && res.Ok {
		r.byH[h].data[c] = v // the specification: the cell of (h, c) and no other now holds v
	}
}

func (r *runner) doQuery(q *Q, viaF bool) (*ecs.Result, []H) {
	var result *ecs.Result
	var listed []H
	res := call(func() Res {
		if viaF {
			r.w.QueryF(buildQuery(q), func(rr *ecs.Result) { result = rr })
		} else {
			result = r.w.Query(buildQuery(q))
		}
		for _, e := range result.Entities() {
			listed = append(listed, fromEntity(e))
		}
		hs := append([]H{}, listed...)
		sortH(hs)
		if result.Count() != len(listed) {
			return Res{K: "bad", Err: fmt.Sprintf("Count()=%d but %d entities", result.Count(), len(listed))}
		}
		return Res{K: "handles", Hs: hs}
	})
	r.shapes = append(r.shapes, qShape(q))
	r.emit(COp{K: "query", Q: q}, res)
	if res.K == "bad" {
		r.flag("Query", "count-mismatch", res.Err, nil)
	}
	if res.K != "handles" {
		return result, listed
	}
	if result != nil {
		if len(r.held) >= 4 {
			r.held = r.held[1:]
		}
		r.held = append(r.held, heldResult{fmt.Sprintf("the Result of %s obtained at concrete op #%d", qShape(q), len(r.c.Ops)-1), result, append([]H{}, listed...)})
	}
	sig := map[string]string{"filter": qShape(q)}
	seen := map[H]bool{}
	for _, h := range listed {
		if seen[h] {
			r.flag("Query", "duplicate", fmt.Sprintf("%v listed twice by %s", h, qShape(q)), sig)
		}
		seen[h] = true
		e, ok := r.byH[h]
		switch {
		case !ok:
			r.flag("Query", "unknown-entity-listed", fmt.Sprintf("%v was never spawned", h), sig)
		case !e.alive:
			r.flag("Query", "dead-entity-listed", fmt.Sprintf("%v was annihilated but is listed by %s", h, qShape(q)), sig)
		case !satGo(q, e.comps):
			r.flag("Query", "non-matching-listed", fmt.Sprintf("%v has components %s, does not satisfy %s", h, r.compKey(keys(e.comps)), qShape(q)), sig)
		}
	}
	for _, e := range r.living {
		if satGo(q, e.comps) && !seen[e.h] {
			r.flag("Query", "matching-entity-missing", fmt.Sprintf("living %v with components %s satisfies %s but is not listed", e.h, r.compKey(keys(e.comps)), qShape(q)), sig)
		}
	}
	return result, listed
}

func keys(m map[int]bool) []int {
	ks := make([]int, 0, len(m))
	for k := range m {
		ks = append(ks, k)
	}
	return ks
}

// exec runs one script operation (resolving references) on the implementation
func (r *runner) exec(s SOp) {
	if r.full() {
		return
	}
	// a reference i >= 0 counts from the oldest, i < 0 from the newest (-1 = newest), modulo the length
	pick := func(l []*ent, i int) *ent {
		if len(l) == 0 {
			return nil
		}
		if i < 0 {
			return l[len(l)-1-((-i-1)%len(l))]
		}
		return l[i%len(l)]
	}
	ref := func(i int) *ent { return pick(r.issued, i) }
	lref := func(i int) *ent { return pick(r.living, i) }
	switch s.K {
	case "reg":
		res := call(func() Res { return Res{K: "cid", N: int64(r.w.RegComponent(newComp(s.T)))} })
		r.emit(COp{K: "reg", T: s.T}, res)
		if res.K == "cid" {
			id := int(res.N)
			if old, ok := r.regID[s.T]; ok && old != id {
				r.flag("RegComponent", "id-changed", fmt.Sprintf("type %d had id %d, now %d", s.T, old, id), nil)
			}
			if t, ok := r.idType[id]; ok && t != s.T {
				r.flag("RegComponent", "id-shared", fmt.Sprintf("id %d given to types %d and %d", id, t, s.T), nil)
			}
			r.regID[s.T] = id
			r.idType[id] = s.T
		}
	case "spawn":
		res := call(func() Res { h := fromEntity(r.w.Spawn(r.args(s.Cs)...)); return Res{K: "handle", H: &h} })
		r.emit(COp{K: "spawn", Cs: s.Cs}, res)
		if res.K == "handle" {
			r.onSpawned("Spawn", *res.H, s.Cs)
		}
	case "spawns":
		res := call(func() Res {
			es := r.w.Spawns(s.N, r.args(s.Cs)...)
			hs := make([]H, len(es))
			for i, e := range es {
				hs[i] = fromEntity(e)
			}
			r.nSpawns++
			if r.nSpawns%2 == 1 {
				r.kept = append(r.kept, keptSlice{fmt.Sprintf("the slice returned by Spawns at concrete op #%d", len(r.c.Ops)), es, append([]ecs.Entity{}, es...)})
			} else {
				for i := range es { // the caller reuses its slice
					var zero ecs.Entity
					es[i] = zero
				}
			}
			return Res{K: "handles", Hs: hs}
		})
		r.emit(COp{K: "spawns", N: s.N, Cs: s.Cs}, res)
		if res.K == "handles" {
			if len(res.Hs) != s.N {
				r.flag("Spawns", "wrong-count", fmt.Sprintf("asked %d got %d", s.N, len(res.Hs)), nil)
			}
			for _, h := range res.Hs {
				r.onSpawned("Spawns", h, s.Cs)
			}
		}
	case "kill":
		e := lref(s.R)
		if e == nil {
			return
		}
		h := e.h
		res := call(func() Res { r.w.Annihilate(h.entity()); return Res{K: "unit"} })
		r.emit(COp{K: "kill", E: &h}, res)
		r.kill(e)
	case "kills":
		var es []*ent
		seen := map[*ent]bool{}
		for _, i := range s.Rs {
			if e := lref(i); e != nil && !seen[e] {
				seen[e] = true
				es = append(es, e)
			}
		}
		hs := make([]H, len(es))
		ents := make([]ecs.Entity, len(es))
		for i, e := range es {
			hs[i] = e.h
			ents[i] = e.h.entity()
		}
		r.kept = append(r.kept, keptSlice{fmt.Sprintf("the slice handed to Annihilates at concrete op #%d", len(r.c.Ops)), ents, append([]ecs.Entity{}, ents...)})
		res := call(func() Res { r.w.Annihilates(ents); return Res{K: "unit"} })
		r.emit(COp{K: "kills", Es: hs}, res)
		for _, e := range es {
			r.kill(e)
		}
	case "alive":
		e := ref(s.R)
		if e == nil {
			return
		}
		h := e.h
		res := call(func() Res { return Res{K: "bool", Ok: r.w.Alive(h.entity())} })
		r.emit(COp{K: "alive", E: &h}, res)
		if res.K == "bool" {
			if res.Ok && !e.alive {
				r.flag("Alive", "dead-reported-alive", fmt.Sprintf("%v was annihilated but Alive is true", h), nil)
			}
			if !res.Ok && e.alive {
				r.flag("Alive", "living-reported-dead", fmt.Sprintf("%v is living but Alive is false", h), nil)
			}
		}
	case "query":
		r.doQuery(s.Q, s.Iter)
	case "get":
		e := ref(s.R)
		if e == nil {
			return
		}
		h := e.h
		res := call(func() Res { return r.readPtr(r.w.Get(h.entity(), ecs.ComponentId(s.C)), s.C) })
		r.emit(COp{K: "get", E: &h, C: s.C}, res)
		r.checkVal("Get", h, s.C, res)
	case "write":
		e := ref(s.R)
		if e == nil {
			return
		}
		h := e.h
		res := call(func() Res { return r.writePtr(r.w.Get(h.entity(), ecs.ComponentId(s.C)), s.C, s.V) })
		r.emit(COp{K: "write", E: &h, C: s.C, V: s.V}, res)
		r.noteWrite("Get", h, s.C, s.V, res)
	case "scan", "scanw":
		result, listed := r.doQuery(s.Q, false)
		if result == nil {
			return
		}
		var it ecs.ResultIterator
		if s.Iter {
			it = result.Iterator()
		}
		for i, h := range listed {
			if s.Iter {
				if !it.Next() || fromEntity(it.Entity()) != h {
					r.flag("Query", "iterator-disagrees-with-entities", fmt.Sprintf("position %d", i), nil)
					break
				}
			}
			if r.full() {
				break
			}
			e, known := r.byH[h]
			if known && e.alive && !e.comps[s.C] {
				continue // reading a component the entity does not have is outside the API's precondition
			}
			h := h
			get := func() any {
				if s.Iter {
					return it.Get(ecs.ComponentId(s.C))
				}
				return result.Get(h.entity(), ecs.ComponentId(s.C))
			}
			if s.K == "scan" {
				res := call(func() Res { return r.readPtr(get(), s.C) })
				r.emit(COp{K: "rget", E: &h, C: s.C}, res)
				if res.K == "panic" {
					r.flag("Result.Get", "panic-on-listed-entity", fmt.Sprintf("%v listed by the query, Get(%d) panicked: %s", h, s.C, res.Err), nil)
				}
				r.checkVal("Result.Get", h, s.C, res)
			} else {
				v := s.V + int64(i)
				res := call(func() Res { return r.writePtr(get(), s.C, v) })
				r.emit(COp{K: "rwrite", E: &h, C: s.C, V: v}, res)
				r.noteWrite("Result.Get", h, s.C, v, res)
			}
		}
	// ---- malformed stream: after the first of these the monitors stop judging
	case "rekill": // annihilate a handle that is not living (double annihilate / stale handle)
		var dead *ent
		for k := 0; k < len(r.issued); k++ {
			if e := r.issued[(s.R+k)%len(r.issued)]; !e.alive {
				dead = e
				break
			}
		}
		if dead == nil {
			return
		}
		r.valid = false
		r.c.Malformed = true
		h := dead.h
		res := call(func() Res { r.w.Annihilate(h.entity()); return Res{K: "unit"} })
		r.emit(COp{K: "kill", E: &h}, res)
	case "forged": // a handle nobody issued: existing id, other generation
		e := ref(s.R)
		if e == nil {
			return
		}
		r.valid = false
		r.c.Malformed = true
		h := H{ID: e.h.ID, Gen: e.h.Gen + uint32(1+s.N%3)}
		res := call(func() Res { return Res{K: "bool", Ok: r.w.Alive(h.entity())} })
		r.emit(COp{K: "alive", E: &h}, res)
		res = call(func() Res { return r.readPtr(r.w.Get(h.entity(), ecs.ComponentId(s.C)), s.C) })
		r.emit(COp{K: "get", E: &h, C: s.C}, res)
	case "zero": // the reserved zero entity
		r.valid = false
		r.c.Malformed = true
		r.c.NoModel = true
		h := H{}
		res := call(func() Res { return Res{K: "bool", Ok: r.w.Alive(h.entity())} })
		r.emit(COp{K: "alive", E: &h}, res)
		res = call(func() Res { r.w.Annihilate(h.entity()); return Res{K: "unit"} })
		r.emit(COp{K: "kill", E: &h}, res)
	case "far": // an id beyond the slot table
		r.valid = false
		r.c.Malformed = true
		r.c.NoModel = true
		h := H{ID: uint32(1000 + s.N), Gen: 0}
		res := call(func() Res { return Res{K: "bool", Ok: r.w.Alive(h.entity())} })
		r.emit(COp{K: "alive", E: &h}, res)
	default:
		panic("bad script op " + s.K)
	}
}

func runCase(c *Case) *runner {
	c.Ops, c.Impl, c.Malformed, c.NoModel = nil, nil, false, false
	r := &runner{w: ecs.NewWorld(), c: c, byH: map[H]*ent{}, regID: map[int]int{}, idType: map[int]int{}, valid: true, archs: map[string]bool{}}
	for _, s := range c.Script {
		r.exec(s)
	}
	return r
}

// ---------------------------------------------------------------- Coq printers

func coqH(h H) string { return vh.Pair(vh.Nat(int(h.ID)), vh.Nat(int(h.Gen))) }
func coqHs(hs []H) string {
	it := make([]string, len(hs))
	for i, h := range hs {
		it[i] = coqH(h)
	}
	return vh.List(it)
}
func coqQ(q *Q) string {
	switch q.K {
	case "in":
		return vh.App("QIn", vh.ListNat(q.Cs))
	case "notin":
		return vh.App("QNotIn", vh.ListNat(q.Cs))
	case "eq":
		return vh.App("QEqual", vh.ListNat(q.Cs))
	}
	sub := make([]string, len(q.Qs))
	for i := range q.Qs {
		sub[i] = coqQ(&q.Qs[i])
	}
	if q.K == "and" {
		return vh.App("QAnd", vh.List(sub))
	}
	return vh.App("QOr", vh.List(sub))
}
func coqOp(o COp) string {
	switch o.K {
	case "reg":
		return vh.App("Reg", vh.Nat(o.T))
	case "spawn":
		return vh.App("Spawn", vh.ListNat(o.Cs))
	case "spawns":
		return vh.App("Spawns", vh.Nat(o.N), vh.ListNat(o.Cs))
	case "kill":
		return vh.App("Annihilate", coqH(*o.E))
	case "kills":
		return vh.App("Annihilates", coqHs(o.Es))
	case "alive":
		return vh.App("Alive", coqH(*o.E))
	case "query":
		return vh.App("Query", coqQ(o.Q))
	case "get":
		return vh.App("Get", coqH(*o.E), vh.Nat(o.C))
	case "write":
		return vh.App("Write", coqH(*o.E), vh.Nat(o.C), vh.Z(o.V))
	case "rget":
		return vh.App("RGet", coqH(*o.E), vh.Nat(o.C))
	case "rwrite":
		return vh.App("RWrite", coqH(*o.E), vh.Nat(o.C), vh.Z(o.V))
	}
	panic(o.K)
}
func coqRes(r Res) string {
	switch r.K {
	case "unit":
		return "OUnit"
	case "cid":
		return vh.App("OCid", vh.Nat(int(r.N)))
	case "handle":
		return vh.App("OHandle", coqH(*r.H))
	case "handles":
		return vh.App("OHandles", coqHs(r.Hs))
	case "bool":
		return vh.App("OBool", vh.Bool(r.Ok))
	case "val":
		if r.Ok {
			return vh.App("OVal", vh.Some(vh.Z(r.N)))
		}
		return "(OVal None)"
	}
	return "OBad"
}
func coqCase(id int, c *Case) string {
	ops := make([]string, len(c.Ops))
	for i, o := range c.Ops {
		ops[i] = coqOp(o)
	}
	rs := make([]string, len(c.Impl))
	for i, r := range c.Impl {
		rs[i] = coqRes(r)
	}
	return fmt.Sprintf("{| cid_ := %d; cops := %s; cimpl := %s |}", id, vh.List(ops), vh.List(rs))
}

// ---------------------------------------------------------------- generators

func subset(rng *vh.RNG, ids []int, allowEmpty bool) []int {
	var out []int
	for _, c := range ids {
		if rng.Chance(1, 2) {
			out = append(out, c)
		}
	}
	if len(out) == 0 && !allowEmpty && len(ids) > 0 {
		out = []int{ids[rng.Intn(len(ids))]}
	}
	// random order, occasional duplicate
	for i := len(out) - 1; i > 0; i-- {
		j := rng.Intn(i + 1)
		out[i], out[j] = out[j], out[i]
	}
	if len(out) > 0 && rng.Chance(1, 12) {
		out = append(out, out[rng.Intn(len(out))])
	}
	return out
}

func genQuery(rng *vh.RNG, ids []int, depth int) Q {
	k := rng.Intn(10)
	if depth == 0 && k >= 6 {
		k = rng.Intn(6)
	}
	switch {
	case k < 3:
		return Q{K: "in", Cs: subset(rng, ids, rng.Chance(1, 6))}
	case k < 5:
		return Q{K: "notin", Cs: subset(rng, ids, rng.Chance(1, 6))}
	case k < 6:
		return Q{K: "eq", Cs: subset(rng, ids, rng.Chance(1, 3))}
	default:
		kind := "and"
		if rng.Bool() {
			kind = "or"
		}
		n := rng.Range(0, 3)
		q := Q{K: kind}
		for i := 0; i < n; i++ {
			q.Qs = append(q.Qs, genQuery(rng, ids, depth-1))
		}
		return q
	}
}

func genScript(rng *vh.RNG, next *int64) []SOp {
	var s []SOp
	nreg := rng.Range(2, 4)
	wide := rng.Chance(1, 25)
	huge := !wide && rng.Chance(1, 25) // more than 64 component types
	ntags := nTypes
	if wide {
		nreg = nTypes
	}
	if huge {
		ntags = maxTypes
		nreg = rng.Range(66, maxTypes)
	}
	// registration order is a random permutation of the type tags, so ids and tags differ
	perm := make([]int, ntags)
	for i := range perm {
		perm[i] = i
	}
	for i := ntags - 1; i > 0; i-- {
		j := rng.Intn(i + 1)
		perm[i], perm[j] = perm[j], perm[i]
	}
	var ids []int
	late := 0
	if !wide && !huge && rng.Chance(1, 4) {
		late = 1 // one component is registered in the middle of the history
	}
	for i := 0; i < nreg-late; i++ {
		s = append(s, SOp{K: "reg", T: perm[i]})
		ids = append(ids, i+1)
	}
	n := rng.Range(4, 30)
	spawnBias := rng.Range(2, 5)
	malformed := rng.Chance(1, 12)
	for i := 0; i < n; i++ {
		if late > 0 && i == n/2 {
			s = append(s, SOp{K: "reg", T: perm[nreg-1]})
			ids = append(ids, nreg)
			late = 0
			continue
		}
		pool := ids
		if huge {
			// component sets that differ only in ids on either side of 64
			pool = []int{1, 2, 63, 64, 65, 66, nreg}
		}
		if wide && rng.Chance(2, 3) {
			// two-digit ids next to one-digit ids: {1,12} vs {11,2}
			pool = []int{1, 2, 11, 12}
		}
		if rng.Intn(10) < spawnBias {
			if rng.Chance(1, 4) {
				s = append(s, SOp{K: "spawns", N: rng.Range(0, 4), Cs: subset(rng, pool, rng.Chance(1, 8))})
			} else {
				s = append(s, SOp{K: "spawn", Cs: subset(rng, pool, rng.Chance(1, 8))})
			}
			continue
		}
		c := 1
		if len(pool) > 0 {
			c = pool[rng.Intn(len(pool))]
		}
		switch k := rng.Intn(20); {
		case k < 5:
			r := rng.Intn(64)
			if rng.Chance(1, 2) {
				r = -1 - rng.Intn(3) // biased to the recently spawned
			}
			s = append(s, SOp{K: "kill", R: r})
		case k < 6:
			m := rng.Range(0, 3)
			var rs []int
			for j := 0; j < m; j++ {
				rs = append(rs, rng.Intn(64))
			}
			s = append(s, SOp{K: "kills", Rs: rs})
		case k < 8:
			s = append(s, SOp{K: "alive", R: rng.Intn(64)})
		case k < 11:
			q := genQuery(rng, pool, 2)
			s = append(s, SOp{K: "query", Q: &q, Iter: rng.Chance(1, 4)})
		case k < 13:
			s = append(s, SOp{K: "get", R: rng.Intn(64), C: c})
		case k < 16:
			*next++
			s = append(s, SOp{K: "write", R: rng.Intn(64), C: c, V: *next})
		case k < 18:
			q := genQuery(rng, pool, 1)
			s = append(s, SOp{K: "scan", Q: &q, C: c, Iter: rng.Bool()})
		case k < 19:
			*next += 10
			q := genQuery(rng, pool, 1)
			s = append(s, SOp{K: "scanw", Q: &q, C: c, V: *next, Iter: rng.Bool()})
		default:
			s = append(s, SOp{K: "reg", T: perm[rng.Intn(nreg)]}) // re-registration returns the same id
		}
		if malformed && i >= n/2 && rng.Chance(1, 4) {
			switch rng.Intn(8) {
			case 0:
				s = append(s, SOp{K: "zero"})
			case 1:
				s = append(s, SOp{K: "far", N: rng.Intn(50)})
			case 2, 3:
				s = append(s, SOp{K: "forged", R: rng.Intn(64), N: rng.Intn(3), C: c})
			default:
				s = append(s, SOp{K: "rekill", R: rng.Intn(64)})
			}
		}
	}
	// closing observations: everything living, and liveness of a few handles
	all := Q{K: "in"}
	s = append(s, SOp{K: "scan", Q: &all, C: 1, Iter: rng.Bool()})
	for j := 0; j < 3; j++ {
		s = append(s, SOp{K: "alive", R: rng.Intn(64)})
	}
	return s
}

// ---------------------------------------------------------------- direct storage sub-stream (monitor only)
// column.Storage is a public package; C14's data clause depends on a recycled row starting empty.

type SSOp struct {
	K  string `json:"k"` // add adds del get write
	PK []int  `json:"pk"`
	V  int64  `json:"v,omitempty"`
}
type SCase struct {
	Ops  []SSOp   `json:"ops"`
	Impl []string `json:"impl"`
}

type cellT struct{ V int64 }

func runStore(sc *SCase) (viol []vh.Violation) {
	st := column.New[uint32, uint32]()
	st.SetColumn(1, func() any { return new(cellT) })
	live := map[int]int64{}
	present := map[int]bool{}
	sc.Impl = nil
	flag := func(i int, fn, class, detail string) {
		if len(viol) < 3 {
			viol = append(viol, vh.Violation{Kind: "storage:" + fn + ":" + class, Detail: fmt.Sprintf("op #%d: %s", i, detail),
				Sig: map[string]string{"op": fn}})
		}
	}
	for i, o := range sc.Ops {
		o := o
		out := func() (s string) {
			defer func() {
				if e := recover(); e != nil {
					s = "panic: " + fmt.Sprint(e)
				}
			}()
			switch o.K {
			case "add":
				st.AddRow(uint32(o.PK[0]))
				present[o.PK[0]] = true
				live[o.PK[0]] = 0
				return "ok"
			case "adds":
				ks := make([]uint32, len(o.PK))
				for j, k := range o.PK {
					ks[j] = uint32(k)
					present[k] = true
					live[k] = 0
				}
				st.AddRows(ks)
				return "ok"
			case "del":
				st.DelRow(uint32(o.PK[0]))
				delete(present, o.PK[0])
				delete(live, o.PK[0])
				return "ok"
			case "get", "write":
				p := st.Get(uint32(o.PK[0]), 1)
				if p == nil {
					if present[o.PK[0]] {
						flag(i, "Get", "nil-for-present-row", fmt.Sprintf("row %d exists", o.PK[0]))
					}
					return "nil"
				}
				c := p.(*cellT)
				if !present[o.PK[0]] {
					flag(i, "Get", "value-for-deleted-row", fmt.Sprintf("row %d was deleted", o.PK[0]))
					return fmt.Sprint(c.V)
				}
				if c.V != live[o.PK[0]] {
					flag(i, "AddRow", "recycled-row-keeps-old-data", fmt.Sprintf("row %d: last written %d (0 = fresh), read %d", o.PK[0], live[o.PK[0]], c.V))
				}
				if o.K == "write" {
					c.V = o.V
					live[o.PK[0]] = o.V
				}
				return fmt.Sprint(c.V)
			}
			panic("bad storage op")
		}()
		if strings.HasPrefix(out, "panic") {
			flag(i, o.K, "panic", out)
		}
		sc.Impl = append(sc.Impl, out)
	}
	return
}

func genStore(rng *vh.RNG, next *int64) *SCase {
	sc := &SCase{}
	present := map[int]bool{}
	fresh := 1
	n := rng.Range(3, 25)
	pick := func() (int, bool) {
		if len(present) == 0 {
			return 0, false
		}
		ks := keys(present)
		sort.Ints(ks)
		return ks[rng.Intn(len(ks))], true
	}
	for i := 0; i < n; i++ {
		switch k := rng.Intn(10); {
		case k < 3:
			sc.Ops = append(sc.Ops, SSOp{K: "add", PK: []int{fresh}})
			present[fresh] = true
			fresh++
		case k < 4:
			m := rng.Range(1, 3)
			var ks []int
			for j := 0; j < m; j++ {
				ks = append(ks, fresh)
				present[fresh] = true
				fresh++
			}
			sc.Ops = append(sc.Ops, SSOp{K: "adds", PK: ks})
		case k < 6:
			if pk, ok := pick(); ok {
				sc.Ops = append(sc.Ops, SSOp{K: "del", PK: []int{pk}})
				delete(present, pk)
			}
		case k < 8:
			if pk, ok := pick(); ok {
				*next++
				sc.Ops = append(sc.Ops, SSOp{K: "write", PK: []int{pk}, V: *next})
			}
		default:
			if pk, ok := pick(); ok {
				sc.Ops = append(sc.Ops, SSOp{K: "get", PK: []int{pk}})
			}
		}
	}
	return sc
}

// ---------------------------------------------------------------- recording

func record(out *vh.Out, c *Case) {
	if c.Store != nil {
		v := runStore(c.Store)
		out.Count("stream", "storage-direct")
		out.Add(c, "", false, v)
		return
	}
	r := runCase(c)
	nt := r.reuses >= 1 && len(r.archs) >= 2
	out.Count("stream", map[bool]string{false: "valid", true: "malformed"}[c.Malformed])
	out.Count("concrete_ops", vh.Bucket(len(c.Ops)))
	out.Count("archetypes", vh.Bucket(len(r.archs)))
	out.Count("slot_reuses", vh.Bucket(r.reuses))
	out.Count("entities_issued", vh.Bucket(len(r.issued)))
	for _, s := range r.shapes {
		out.Count("filter_shapes", s)
	}
	for _, o := range c.Ops {
		out.Count("op_mix", o.K)
	}
	if c.Malformed {
		out.Malformed()
	}
	term := coqCase(out.N(), c)
	if c.NoModel {
		term = ""
	}
	out.Add(c, term, nt, r.viol)
}

func main() {
	f := vh.ParseFlags()
	if f.Replay != "" {
		var c Case
		vh.LoadReplayCase(f.Replay, &c)
		want := append([]Res(nil), c.Impl...)
		var v []vh.Violation
		if c.Store != nil {
			v = runStore(c.Store)
		} else {
			v = runCase(&c).viol
		}
		b, _ := json.Marshal(map[string]interface{}{"case": c, "recorded_impl": want, "monitor": v})
		fmt.Println(string(b))
		if len(v) > 0 {
			os.Exit(1)
		}
		return
	}
	out := vh.NewOut(f.Out, "ecs", "From MV Require Import Lib.ListX C14.EcsModel C14.EcsRun.", "case", "mismatches", f.Seed,
		"random histories (<= 40 concrete ops) of RegComponent/Spawn/Spawns/Annihilate/Annihilates/Alive/Query/QueryF/Get/write/Result.Get/iterator over 2..4 (1 in 25: 12) component types, filters And/Or/In/NotIn/Equal nested <= 2; thorough adds every script of length <= 6 (starting with a spawn) over an 8-operation alphabet on 2 components; non-trivial = at least one slot reuse (a spawn returning generation > 0) and at least 2 distinct component sets spawned; malformed stream (double/stale annihilate, forged generation, zero entity, id beyond the table) counted separately and not judged by the monitors; distinct by hash of the case")
	rng := vh.NewRNG(f.Seed)
	var next int64
	for _, c := range corpus() {
		c := c
		record(out, &c)
	}
	n := f.N
	if n == 0 {
		n = 1500
		if f.Tier == "thorough" {
			n = 30000
		}
	}
	for i := 0; i < n; i++ {
		cr, _ := rng.Derive()
		c := Case{Script: genScript(cr, &next)}
		record(out, &c)
		if i%10 == 0 {
			sc := Case{Store: genStore(cr, &next)}
			record(out, &sc)
		}
	}
	if f.Tier == "thorough" {
		exhaustive(out)
	}
	out.Close()
}

// every script of length <= 6 over an 8-operation alphabet, 2 components (ids 1, 2) registered first,
// followed by closing observations
func exhaustive(out *vh.Out) {
	qa := Q{K: "in", Cs: []int{1}}
	qe := Q{K: "eq", Cs: []int{2}}
	alpha := []SOp{
		{K: "spawn", Cs: []int{1}},
		{K: "spawn", Cs: []int{1, 2}},
		{K: "spawns", N: 2, Cs: []int{2}},
		{K: "kill", R: 0},  // oldest living
		{K: "kill", R: -1}, // newest living
		{K: "write", R: 0, C: 1},
		{K: "write", R: 1, C: 2},
		{K: "scan", Q: &qa, C: 1},
	}
	all := Q{K: "in"}
	notb := Q{K: "notin", Cs: []int{2}}
	var rec func(prefix []SOp, depth int)
	rec = func(prefix []SOp, depth int) {
		// a script whose first operation is not a spawn only skips operations (no entity to refer to)
		// until the first spawn: it is the same history as a shorter script
		if len(prefix) > 0 && !strings.HasPrefix(prefix[0].K, "spawn") {
			return
		}
		if len(prefix) > 0 {
			c := Case{Script: []SOp{{K: "reg", T: 0}, {K: "reg", T: 1}}}
			var k int64
			for _, o := range prefix {
				if o.K == "write" {
					k++
					o.V = k
				}
				c.Script = append(c.Script, o)
			}
			c.Script = append(c.Script, SOp{K: "scan", Q: &all, C: 2}, SOp{K: "query", Q: &notb}, SOp{K: "query", Q: &qe},
				SOp{K: "alive", R: 0}, SOp{K: "alive", R: 1}, SOp{K: "get", R: 0, C: 1}, SOp{K: "get", R: 1, C: 1})
			record(out, &c)
		}
		if depth == 0 {
			return
		}
		for _, o := range alpha {
			rec(append(prefix[:len(prefix):len(prefix)], o), depth-1)
		}
	}
	rec(nil, 6)
}

func corpus() []Case {
	reg := func(t int) SOp { return SOp{K: "reg", T: t} }
	sp := func(cs ...int) SOp { return SOp{K: "spawn", Cs: cs} }
	in := func(cs ...int) *Q { return &Q{K: "in", Cs: cs} }
	eq := func(cs ...int) *Q { return &Q{K: "eq", Cs: cs} }
	var regs12 []SOp
	for t := 0; t < nTypes; t++ {
		regs12 = append(regs12, reg(t))
	}
	return []Case{
		// DESIGN §6 C14 probe (a): an annihilated entity is still listed by queries; Result.Get on it nil-derefs
		{Script: []SOp{reg(0), sp(1), sp(1), {K: "kill", R: 1}, {K: "alive", R: 1}, {K: "scan", Q: in(1), C: 1}}},
		// (b): World.Get is nil for an entity spawned with two components
		{Script: []SOp{reg(0), reg(1), sp(1, 2), {K: "get", R: 0, C: 1}, {K: "write", R: 0, C: 2, V: 5}, {K: "get", R: 0, C: 2}}},
		// (c): Equal() never matches the entities without components
		{Script: []SOp{reg(0), sp(), sp(1), {K: "query", Q: eq()}, {K: "query", Q: &Q{K: "notin", Cs: []int{1}}}}},
		// (d): mutation cache key joins ids without separator: Spawn(1,12) then Spawn(11,2) share "112"
		{Script: append(append([]SOp{}, regs12...), sp(1, 12), sp(11, 2), SOp{K: "query", Q: in(11)}, SOp{K: "query", Q: in(1)}, SOp{K: "get", R: 1, C: 2})},
		// (e): slot and storage-row reuse: the new entity must start from the zero value
		{Script: []SOp{reg(0), sp(1), {K: "write", R: 0, C: 1, V: 7}, {K: "kill", R: 0}, sp(1), {K: "get", R: 1, C: 1}, {K: "alive", R: 0}, {K: "alive", R: 1}}},
		// generation safety over several reuses of the same slot, two archetypes, bulk spawn and bulk annihilate
		{Script: []SOp{reg(0), reg(1), sp(1), sp(2), {K: "kill", R: 0}, sp(1, 2), {K: "kill", R: 1}, sp(2), {K: "spawns", N: 3, Cs: []int{1}},
			{K: "kills", Rs: []int{0, 2}}, sp(1), sp(1), {K: "alive", R: 0}, {K: "alive", R: 2}, {K: "alive", R: 3}, {K: "scan", Q: in(), C: 1, Iter: true}}},
		// storage, directly: a deleted row handed out again must not expose the previous owner's data
		{Store: &SCase{Ops: []SSOp{{K: "add", PK: []int{1}}, {K: "write", PK: []int{1}, V: 5}, {K: "del", PK: []int{1}}, {K: "add", PK: []int{2}}, {K: "get", PK: []int{2}}}}},
		{Store: &SCase{Ops: []SSOp{{K: "adds", PK: []int{1, 2}}, {K: "write", PK: []int{2}, V: 9}, {K: "del", PK: []int{2}}, {K: "adds", PK: []int{3, 4}}, {K: "get", PK: []int{3}}, {K: "get", PK: []int{4}}}}},
	}
}
