// c01turns: actor-level harness for property C01 ("an actor handles at most one message at a time"): on a REAL
// vivid.ActorSystem — real goroutines, the shipped mailboxes (LockFree, GlobalOrderedLockFree) and dispatchers
// (default ants pool, goroutine per dispatch, a one-worker ants pool that overflows into plain goroutines) — every
// piece of user code of every actor (receive handler for user messages, for lifecycle / system messages, supervision
// decisions, timer callbacks, locally executed functions) reports Begin and End to a sequentially consistent recorder
// (one atomic fetch-and-add per event; nothing else is shared, so the recorder does not serialise the actors).
//
// What is checked on the recorded trace of every script:
//   - by the Coq checker MV.C01.TurnsModel.turns_ok (sound for every trace: MV.C01.TurnsProofs), under vm_compute;
//   - by the Go monitor below, which restates the property directly (intervals per actor pairwise disjoint, every
//     invocation read what the previous one wrote, Begin/End balanced).
//
// Visibility clause: every actor object has two PLAIN variables. `val` is read right after the Begin was recorded and
// written right before the End is recorded (this is the value in the trace). `shadow` is read before the Begin and
// written after the End is recorded, i.e. outside the recorder's atomics: under the race detector (thorough tier) the
// only happens-before edges between two accesses of `shadow` are those of the actor system itself.
//
// Scripts are random from the seed. Besides "storms" (several foreign goroutines and other actors fire entry points
// at the actors at once, handlers stay busy for a short random time) a script has "hold" phases: one invocation of
// the target (a user message, a local function, a timer callback, OnLaunch of a re-created actor, OnRestarting,
// OnTerminate) is kept open on a channel while every other entry point is fired at that actor — the deterministic way
// to catch an entry point that bypasses the mailbox.
package main

import (
	"bytes"
	"encoding/json"
	"flag"
	"fmt"
	"io"
	"log/slog"
	"os"
	"os/exec"
	"path/filepath"
	"runtime"
	"sort"
	"strings"
	"sync"
	"sync/atomic"
	"time"

	"github.com/kercylan98/minotaur/engine/vivid"
	"github.com/kercylan98/minotaur/engine/vivid/dispatcher"
	"github.com/kercylan98/minotaur/engine/vivid/mailbox"
	"github.com/kercylan98/minotaur/engine/vivid/supervision"
	"github.com/kercylan98/minotaur/toolkit/log"
	"github.com/panjf2000/ants/v2"
	"verif/harness/vh"
)

// ---------------------------------------------------------------- trace format (see MV.C01.TurnsRun.tdec)

const (
	KUser = iota
	KSys
	KTimer
	KLocal
)

var kindName = []string{"user-message", "lifecycle/system-message", "timer-callback", "local-function"}

const maxField = 1<<24 - 1

func pack(end bool, kind, actor int, id, val int64) uint64 {
	var x uint64
	if end {
		x = 1
	}
	return x | uint64(kind&3)<<1 | uint64(actor&255)<<3 | uint64(id&maxField)<<11 | uint64(val&maxField)<<35
}

type Ev struct {
	End   bool
	Kind  int
	Actor int
	ID    int64
	Val   int64
}

func unpack(x uint64) Ev {
	return Ev{End: x&1 == 1, Kind: int(x >> 1 & 3), Actor: int(x >> 3 & 255), ID: int64(x >> 11 & maxField), Val: int64(x >> 35 & maxField)}
}

func (e Ev) String() string {
	w := "Begin"
	if e.End {
		w = "End"
	}
	return fmt.Sprintf("%s(actor %d, %s, id %d, value %d)", w, e.Actor, kindName[e.Kind], e.ID, e.Val)
}

// ---------------------------------------------------------------- case format

type Op struct {
	K     string `json:"k"`
	T     int    `json:"t"`             // target slot
	O     int    `json:"o,omitempty"`   // acting slot (in-actor operations, foreign use of a captured context)
	G     int    `json:"g,omitempty"`   // storm: index of the foreign goroutine that fires it
	Busy  int    `json:"b,omitempty"`   // busy code of the resulting invocation
	Pause int    `json:"p,omitempty"`   // what the foreign goroutine does before firing
	D     int    `json:"d,omitempty"`   // timers: delay (ms)
	I     int    `json:"i,omitempty"`   // timers: interval (ms)
	N     int    `json:"n,omitempty"`   // timers: times; task name index for stoptask
	Dir   string `json:"dir,omitempty"` // fail: restart | resume | stop
	Grace bool   `json:"grace,omitempty"`
}

type Phase struct {
	K     string `json:"k"`             // storm | hold
	T     int    `json:"t,omitempty"`   // hold: the slot whose invocation is kept open
	HK    string `json:"hk,omitempty"`  // hold: user | local | timer | launch | restarting | terminate
	Pre   []Op   `json:"pre,omitempty"` // hold: in-actor operations the held invocation performs before it blocks
	Ops   []Op   `json:"ops,omitempty"` // fired concurrently (storm), fired while the invocation is open (hold)
	Dwell int    `json:"dwell"`         // µs: hold — how long the invocation stays open after the last op was fired; storm — pause afterwards
}

type Case struct {
	Synthetic string   `json:"synthetic,omitempty"` // corpus of hand-made traces with a known verdict (format self-test)
	Expect    bool     `json:"expect"`
	Mailbox   string   `json:"mailbox,omitempty"` // LockFree | GlobalOrderedLockFree
	Disp      string   `json:"disp,omitempty"`    // default-ants | goroutine | ants-1
	Workers   int      `json:"workers,omitempty"`
	Leaf      bool     `json:"leaf,omitempty"` // worker 1 owns a child
	Slow      bool     `json:"slow,omitempty"` // workers report slow processing to the supervisor (OnSlowProcess)
	Phases    []Phase  `json:"phases,omitempty"`
	EndGrace  bool     `json:"end_grace,omitempty"`
	Trace     []uint64 `json:"trace"` // observed: packed events in recorder order
	Complete  bool     `json:"complete"`
	Notes     []string `json:"notes,omitempty"`
}

// ---------------------------------------------------------------- recorder

const recCap = 1 << 14
const written = uint64(1) << 62

type recorder struct {
	seq  atomic.Int64
	evs  []atomic.Uint64
	lost atomic.Int64
}

func (r *recorder) put(f func(i int64) uint64) int64 {
	i := r.seq.Add(1) - 1
	if i >= int64(len(r.evs)) {
		r.lost.Add(1)
		return i
	}
	r.evs[i].Store(f(i) | written)
	return i
}

// snapshot returns the events recorded so far (a prefix of the recorder's order).
func (r *recorder) snapshot() (evs []uint64, cut bool) {
	n := r.seq.Load()
	if n > int64(len(r.evs)) {
		n = int64(len(r.evs))
	}
	out := make([]uint64, 0, n)
	for i := int64(0); i < n; i++ {
		var x uint64
		for k := 0; k < 2000000; k++ {
			if x = r.evs[i].Load(); x != 0 {
				break
			}
			runtime.Gosched()
		}
		if x == 0 { // the writer was descheduled between its fetch-and-add and its store for very long: cut the prefix here
			return out, true
		}
		out = append(out, x&^written)
	}
	return out, false
}

// ---------------------------------------------------------------- the system under test

var silent = log.FunctionalLoggerProvider(func() *log.Logger {
	return slog.New(slog.NewTextHandler(io.Discard, &slog.HandlerOptions{Level: slog.Level(100)}))
})

var goroutineDisp = dispatcher.NewGoroutine()
var ants1Disp dispatcher.Dispatcher

type obj struct {
	id     int   // actor index in the trace
	slot   int   // which actor of the script
	val    int64 // plain
	shadow int64 // plain, accessed outside the recorder's atomics
	n      int   // plain: invocations so far (drives the busy time of lifecycle handlers)
	up     bool  // plain: this object has handled OnLaunch
}

type hold struct {
	entered chan struct{}
	release chan struct{}
	once    sync.Once
}

func newHold() *hold { return &hold{entered: make(chan struct{}), release: make(chan struct{})} }

type armed struct {
	which string
	h     *hold
}

type H struct {
	c       *Case
	sys     *vivid.ActorSystem
	rec     recorder
	nobj    atomic.Int32
	nslots  int
	names   []string
	refs    []atomic.Pointer[vivid.ActorRef]
	ctxs    []atomic.Pointer[vivid.ActorContext]
	byCtx   sync.Map      // vivid.ActorContext -> *obj
	dead    []atomic.Bool // the parent handled OnTerminated of this slot's actor (since it was last created)
	arm     []atomic.Pointer[armed]
	fg      sync.WaitGroup
	notes   sync.Map
	cnt     map[string]*atomic.Int64
	shadowX atomic.Int64 // invocations whose shadow read differed from the value read inside the window
	holdTO  atomic.Int64
}

var counterNames = []string{"flooded", "hold-entered", "hold-missed", "fired-while-open", "skipped-no-context", "respawn-skipped", "respawned",
	"local-unknown-context", "user-message-before-OnLaunch", "decisions", "shutdown-hang", "futureask-ok", "futureask-timeout",
	"hold-missed:user", "hold-missed:local", "hold-missed:timer", "hold-missed:launch", "hold-missed:restarting", "hold-missed:terminate"}

func (h *H) count(k string) { h.cnt[k].Add(1) }
func (h *H) note(s string)  { h.notes.Store(s, true) }

func (h *H) ref(slot int) vivid.ActorRef {
	if p := h.refs[slot].Load(); p != nil {
		return *p
	}
	return nil
}
func (h *H) ctx(slot int) vivid.ActorContext {
	if p := h.ctxs[slot].Load(); p != nil {
		return *p
	}
	return nil
}

func busy(code int) {
	switch code & 7 {
	case 0:
	case 1:
		runtime.Gosched()
	case 2:
		for i := 0; i < 3; i++ {
			runtime.Gosched()
		}
	case 3:
		t := time.Now()
		for time.Since(t) < 2*time.Microsecond {
		}
	case 4:
		t := time.Now()
		for time.Since(t) < 15*time.Microsecond {
		}
	case 5:
		time.Sleep(time.Microsecond)
	case 6:
		time.Sleep(30 * time.Microsecond)
	case 7:
		t := time.Now()
		for time.Since(t) < 5*time.Microsecond {
			runtime.Gosched()
		}
	}
}

func (h *H) begin(o *obj, kind int) int64 {
	sh := o.shadow // outside the window
	var v int64
	id := h.rec.put(func(i int64) uint64 {
		v = o.val // inside the window: right after the fetch-and-add
		return pack(false, kind, o.id, i, v)
	})
	if sh != v {
		h.shadowX.Add(1)
	}
	o.n++
	return id
}

func (h *H) end(o *obj, kind int, id int64) {
	w := (id + 1) & maxField
	o.val = w // inside the window: right before the fetch-and-add
	h.rec.put(func(int64) uint64 { return pack(true, kind, o.id, id, w) })
	o.shadow = w // outside the window
}

// turn brackets one piece of user code of actor object o.
func (h *H) turn(o *obj, kind int, body func()) {
	id := h.begin(o, kind)
	defer h.end(o, kind, id)
	body()
}

func (h *H) wait(hd *hold) {
	if hd == nil {
		return
	}
	hd.once.Do(func() { close(hd.entered) })
	select {
	case <-hd.release:
	case <-time.After(3 * time.Second):
		h.holdTO.Add(1)
	}
}

type work struct {
	busy int
	acts []Op
	hold *hold
	fail string
	hk   string // acts of a hold phase: the held callback / function is created by the first act
}
type ping struct{ busy int }
type pong struct{ busy int }

type actor struct {
	h *H
	o *obj
}

func (h *H) lifeBusy(o *obj) { busy(o.n*7 + o.id) }

func (a *actor) OnReceive(ctx vivid.ActorContext) {
	h, o := a.h, a.o
	life := func(which string) {
		h.turn(o, KSys, func() {
			if ar := h.arm[o.slot].Load(); ar != nil && ar.which == which && h.arm[o.slot].CompareAndSwap(ar, nil) {
				h.wait(ar.h)
			}
			h.lifeBusy(o)
		})
	}
	switch m := ctx.Message().(type) {
	case *vivid.OnLaunch:
		h.byCtx.Store(any(ctx), o)
		c := ctx
		h.ctxs[o.slot].Store(&c)
		h.turn(o, KSys, func() {
			o.up = true
			if h.c.Leaf && o.slot == 1 {
				h.spawn(ctx, h.nslots-1)
			}
			if ar := h.arm[o.slot].Load(); ar != nil && ar.which == "launch" && h.arm[o.slot].CompareAndSwap(ar, nil) {
				h.wait(ar.h)
			}
			h.lifeBusy(o)
		})
	case *vivid.OnRestarting:
		life("restarting")
	case *vivid.OnRestarted:
		life("restarted")
	case *vivid.OnTerminate:
		life("terminate")
	case *vivid.OnTerminated:
		h.turn(o, KSys, func() {
			for s := 1; s < h.nslots; s++ {
				if h.parentOf(s) == o.slot && m.TerminatedActor.Equal(h.ref(s)) {
					h.dead[s].Store(true)
				}
			}
			h.lifeBusy(o)
		})
	case *vivid.OnSlowProcess:
		h.turn(o, KSys, func() { h.lifeBusy(o) })
	case *work:
		h.turn(o, KUser, func() {
			if !o.up {
				h.count("user-message-before-OnLaunch") // not C01's concern (C03): a message that reached the new mailbox between Register and the launch message
			}
			busy(m.busy)
			for i := range m.acts {
				h.perform(ctx, o, &m.acts[i], m)
			}
			h.wait(m.hold)
			if m.fail != "" {
				panic("c01turns: scripted failure (" + m.fail + ")")
			}
		})
	case *ping:
		h.turn(o, KUser, func() {
			busy(m.busy)
			if ctx.Sender() != nil {
				ctx.Reply(&pong{busy: m.busy + 1})
			}
		})
	case *pong:
		h.turn(o, KUser, func() { busy(m.busy) })
	default:
		h.turn(o, KUser, func() { h.lifeBusy(o) })
	}
}

func (h *H) parentOf(slot int) int {
	if h.c.Leaf && slot == h.nslots-1 {
		return 1
	}
	return 0
}

// localFn: a function executed through ExecLocalFunc; it runs as an invocation of whatever actor's context it is given.
func (h *H) localFn(code int, hd *hold, nested []Op) func(vivid.ActorContext) {
	return func(c vivid.ActorContext) {
		v, ok := h.byCtx.Load(any(c))
		if !ok {
			h.count("local-unknown-context")
			return
		}
		o := v.(*obj)
		h.turn(o, KLocal, func() {
			busy(code)
			for i := range nested {
				h.perform(c, o, &nested[i], nil)
			}
			h.wait(hd)
		})
	}
}

func (h *H) timerFn(o *obj, code int, hd *hold) func(vivid.ActorContext) {
	return func(c vivid.ActorContext) {
		h.turn(o, KTimer, func() {
			busy(code)
			h.wait(hd)
		})
	}
}

func tname(n int) string { return fmt.Sprintf("t%d", n&3) }

// perform: an operation done from inside an invocation of actor object o (context ctx).
func (h *H) perform(ctx vivid.ActorContext, o *obj, op *Op, w *work) {
	var hd *hold
	if w != nil && w.hk != "" && op == &w.acts[0] {
		hd = w.hold // the hold belongs to the callback / function created here, not to this handler
		w.hold = nil
	}
	t := h.ref(op.T)
	switch op.K {
	case "ask":
		if t != nil {
			ctx.Ask(t, &ping{busy: op.Busy})
		}
	case "tell-in":
		if t != nil {
			ctx.Tell(t, &work{busy: op.Busy})
		}
	case "bcast":
		ctx.Broadcast(&ping{busy: op.Busy})
	case "watch":
		if t != nil {
			ctx.Watch(t)
		}
	case "unwatch":
		if t != nil {
			ctx.UnWatch(t)
		}
	case "local-in-self":
		ctx.ExecLocalFunc(ctx.Ref(), h.localFn(op.Busy, hd, nil))
	case "local-in-other":
		if t != nil {
			ctx.ExecLocalFunc(t, h.localFn(op.Busy, nil, nil))
		}
	case "after":
		ctx.AfterTask(tname(op.N), time.Duration(op.D)*time.Millisecond, h.timerFn(o, op.Busy, hd))
	case "repeat":
		ctx.RepeatedTask(tname(op.N), time.Duration(op.D)*time.Millisecond, time.Duration(op.I)*time.Millisecond, 1+op.N%3, h.timerFn(o, op.Busy, hd))
	case "icron":
		_ = ctx.ImmediateCronTask(tname(op.N), "* * * * * * *", h.timerFn(o, op.Busy, hd))
	case "daymoment":
		at := time.Now().Add(11 * time.Hour)
		ctx.DayMomentTask(tname(op.N), time.Time{}, 0, at.Hour(), at.Minute(), at.Second(), h.timerFn(o, op.Busy, hd))
	case "stoptask":
		ctx.StopTask(tname(op.N))
	case "term-in":
		if t != nil {
			ctx.Terminate(t, op.Grace)
		}
	case "respawn":
		if o.slot == h.parentOf(op.T) && h.dead[op.T].CompareAndSwap(true, false) {
			h.spawn(ctx, op.T)
			h.count("respawned")
		} else {
			h.count("respawn-skipped")
		}
	}
}

// strategy: the supervision decision is user code that runs as an invocation of the supervisor.
func (h *H) strategy() supervision.StrategyProvider {
	return supervision.FunctionalStrategyProvider(func() supervision.Strategy {
		return supervision.FunctionalStrategy(func(r *supervision.AccidentRecord) {
			decide := func() {
				h.count("decisions")
				dir := "restart"
				if w, ok := r.Message.(*work); ok && w.fail != "" {
					dir = w.fail
				}
				switch dir {
				case "resume":
					r.Supervisor.Resume(r.Victim)
				case "stop":
					r.Supervisor.Stop(r.Victim)
				default:
					r.Supervisor.Restart(r.Victim)
				}
			}
			if v, ok := h.byCtx.Load(any(r.Supervisor)); ok {
				o := v.(*obj)
				h.turn(o, KSys, func() { h.lifeBusy(o); decide() })
			} else {
				decide()
			}
		})
	})
}

func (h *H) describe(slot int) vivid.FunctionalActorDescriptorConfigurator {
	return func(d *vivid.ActorDescriptor) {
		d.WithName(h.names[slot])
		switch h.c.Disp {
		case "goroutine":
			d.WithDispatcherProvider(vivid.FunctionalDispatcherProvider(func() dispatcher.Dispatcher { return goroutineDisp }))
		case "ants-1":
			d.WithDispatcherProvider(vivid.FunctionalDispatcherProvider(func() dispatcher.Dispatcher { return ants1Disp }))
		}
		if h.c.Mailbox == "GlobalOrderedLockFree" {
			d.WithMailboxProvider(vivid.FunctionalMailboxProvider(func(disp dispatcher.Dispatcher, rec mailbox.Recipient) mailbox.Mailbox {
				return mailbox.NewGlobalOrderedLockFree(disp, rec)
			}))
		}
		if slot != 0 {
			d.WithSupervisionStrategyProvider(h.strategy())
			if h.c.Slow && h.ref(0) != nil {
				d.WithSlowProcessingDuration(400*time.Microsecond, h.ref(0))
			}
		}
	}
}

func (h *H) provider(slot int) vivid.FunctionalActorProvider {
	var o *obj // one actor object (context + mailbox) per ActorOf; a restart makes a new Actor instance of the same object
	return func() vivid.Actor {
		if o == nil {
			o = &obj{id: int(h.nobj.Add(1) - 1), slot: slot}
			if o.id > 255 {
				h.note("more than 256 actor objects")
			}
		}
		return &actor{h: h, o: o}
	}
}

func (h *H) spawn(parent vivid.ActorContext, slot int) {
	r := parent.ActorOfF(h.provider(slot), h.describe(slot))
	h.refs[slot].Store(&r)
}

// ---------------------------------------------------------------- script execution

func pause(code int) {
	switch code & 3 {
	case 1:
		runtime.Gosched()
	case 2:
		t := time.Now()
		for time.Since(t) < 3*time.Microsecond {
		}
	case 3:
		time.Sleep(10 * time.Microsecond)
	}
}

// fire: one entry point, from a foreign goroutine (the caller's).
func (h *H) fire(op *Op) {
	t := h.ref(op.T)
	if t == nil {
		h.count("skipped-no-context")
		return
	}
	switch op.K {
	case "tell":
		h.sys.Tell(t, &work{busy: op.Busy})
	case "flood":
		// a backlog deeper than any per-pass budget a runner might have: several hundred messages queue up behind the open
		// invocation and are then worked off in one go
		for i := 0; i < op.N; i++ {
			h.sys.Tell(t, &work{})
		}
		h.count("flooded")
	case "sysask":
		h.sys.Ask(t, &ping{busy: op.Busy})
	case "futureask":
		if _, err := h.sys.FutureAsk(t, &ping{busy: op.Busy}, 15*time.Millisecond).Result(); err != nil {
			h.count("futureask-timeout")
		} else {
			h.count("futureask-ok")
		}
	case "awaitfwd":
		h.sys.AwaitForward(t, func() vivid.Message { busy(op.Busy); return &work{busy: op.Busy} })
	case "local-sys":
		h.sys.ExecLocalFunc(t, h.localFn(op.Busy, nil, nil))
	case "term":
		h.sys.Terminate(t, op.Grace)
	case "ctxtell", "local-self", "local-ctx":
		slot := op.O
		if op.K == "local-self" {
			slot = op.T
		}
		c := h.ctx(slot)
		if c == nil {
			h.count("skipped-no-context")
			return
		}
		switch op.K {
		case "ctxtell":
			c.Tell(t, &work{busy: op.Busy})
		case "local-self":
			// the pattern of cluster/internal/gossip: a helper goroutine that was handed the actor's context comes back into the actor
			c.ExecLocalFunc(c.Ref(), h.localFn(op.Busy, nil, nil))
		case "local-ctx":
			c.ExecLocalFunc(t, h.localFn(op.Busy, nil, nil))
		}
	case "fail":
		h.sys.Tell(t, &work{busy: op.Busy, fail: op.Dir})
	default: // in-actor operation: the acting actor is told to do it
		if a := h.ref(op.O); a != nil {
			h.sys.Tell(a, &work{busy: op.Busy, acts: []Op{*op}})
		}
	}
}

func (h *H) waitFor(cond func() bool, d time.Duration) bool {
	dl := time.Now().Add(d)
	for !cond() {
		if time.Now().After(dl) {
			return false
		}
		time.Sleep(50 * time.Microsecond)
	}
	return true
}

func (h *H) storm(p *Phase) {
	groups := map[int][]*Op{}
	for i := range p.Ops {
		groups[p.Ops[i].G] = append(groups[p.Ops[i].G], &p.Ops[i])
	}
	start := make(chan struct{})
	var wg sync.WaitGroup
	for _, ops := range groups {
		ops := ops
		wg.Add(1)
		go func() {
			defer wg.Done()
			<-start
			for _, op := range ops {
				pause(op.Pause)
				h.fire(op)
			}
		}()
	}
	close(start)
	wg.Wait()
	time.Sleep(time.Duration(p.Dwell) * time.Microsecond)
}

func (h *H) holdPhase(p *Phase) {
	hd := newHold()
	t := h.ref(p.T)
	if t == nil {
		h.count("hold-missed")
		h.count("hold-missed:" + p.HK)
		return
	}
	if p.HK != "launch" && p.T != 0 && h.dead[p.T].Load() {
		// the target was stopped earlier in the script: have its parent create it again first
		if par := h.ref(h.parentOf(p.T)); par != nil {
			h.sys.Tell(par, &work{acts: []Op{{K: "respawn", T: p.T}}})
			h.waitFor(func() bool { return !h.dead[p.T].Load() }, 20*time.Millisecond)
			time.Sleep(100 * time.Microsecond)
		}
	}
	patience := 60 * time.Millisecond
	switch p.HK {
	case "user":
		h.sys.Tell(t, &work{acts: p.Pre, hold: hd})
	case "local":
		h.sys.ExecLocalFunc(t, h.localFn(0, hd, p.Pre))
	case "timer": // the first Pre op is the timer registration whose callback is held
		h.sys.Tell(t, &work{acts: p.Pre, hold: hd, hk: "timer"})
		patience = 120 * time.Millisecond
	case "launch":
		par := h.parentOf(p.T)
		if !h.dead[p.T].Load() {
			h.sys.Terminate(t, false)
		}
		if !h.waitFor(func() bool { return h.dead[p.T].Load() }, 150*time.Millisecond) {
			h.count("hold-missed:" + p.HK)
			h.count("hold-missed")
			return
		}
		h.arm[p.T].Store(&armed{which: "launch", h: hd})
		h.sys.Tell(h.ref(par), &work{acts: []Op{{K: "respawn", T: p.T}}})
	case "restarting":
		h.arm[p.T].Store(&armed{which: "restarting", h: hd})
		h.sys.Tell(t, &work{fail: "restart"})
	case "terminate":
		h.arm[p.T].Store(&armed{which: "terminate", h: hd})
		h.sys.Terminate(t, false)
	}
	select {
	case <-hd.entered:
		h.count("hold-entered")
	case <-time.After(patience):
		h.count("hold-missed")
		h.count("hold-missed:" + p.HK)
		h.arm[p.T].Store(nil)
		close(hd.release)
		return
	}
	// the invocation is open: fire everything else at the actor, each entry point from a goroutine of its own
	var wg sync.WaitGroup
	for i := range p.Ops {
		op := &p.Ops[i]
		wg.Add(1)
		h.count("fired-while-open")
		go func() {
			defer wg.Done()
			pause(op.Pause)
			h.fire(op)
		}()
	}
	wg.Wait()
	time.Sleep(time.Duration(p.Dwell) * time.Microsecond)
	close(hd.release)
}

func newH(c *Case) *H {
	n := 1 + c.Workers
	if c.Leaf {
		n++
	}
	h := &H{c: c, nslots: n, names: make([]string, n), refs: make([]atomic.Pointer[vivid.ActorRef], n), ctxs: make([]atomic.Pointer[vivid.ActorContext], n),
		dead: make([]atomic.Bool, n), arm: make([]atomic.Pointer[armed], n), cnt: map[string]*atomic.Int64{}}
	h.rec.evs = make([]atomic.Uint64, recCap)
	for _, k := range counterNames {
		h.cnt[k] = new(atomic.Int64)
	}
	h.names[0] = "sup"
	for i := 1; i <= c.Workers; i++ {
		h.names[i] = fmt.Sprintf("w%d", i)
	}
	if c.Leaf {
		h.names[n-1] = "leaf"
	}
	return h
}

// runScript executes the script of c on a fresh actor system and stores what was observed in c.
func runScript(c *Case) *H {
	h := newH(c)
	defer func() {
		if e := recover(); e != nil {
			h.note(fmt.Sprint("harness panic: ", e))
		}
		var cut bool
		if c.Trace, cut = h.rec.snapshot(); cut {
			c.Complete = false
			h.note("trace cut at an event that was not yet written")
		}
		h.notes.Range(func(k, _ any) bool { c.Notes = append(c.Notes, k.(string)); return true })
		sort.Strings(c.Notes)
	}()
	c.Trace, c.Complete, c.Notes = nil, false, nil
	h.sys = vivid.NewActorSystem(vivid.FunctionalActorSystemConfigurator(func(cfg *vivid.ActorSystemConfiguration) {
		cfg.WithLoggerProvider(silent)
	}))
	r := h.sys.ActorOfF(h.provider(0), h.describe(0))
	h.refs[0].Store(&r)
	if !h.waitFor(func() bool { return h.ctx(0) != nil }, time.Second) {
		h.note("supervisor did not launch")
		return h
	}
	// the supervisor creates the workers from inside one of its handlers
	var mk []Op
	for s := 1; s <= c.Workers; s++ {
		h.dead[s].Store(true)
		mk = append(mk, Op{K: "respawn", T: s})
	}
	h.sys.Tell(r, &work{acts: mk})
	if !h.waitFor(func() bool {
		for s := 1; s < h.nslots; s++ {
			if h.ctx(s) == nil {
				return false
			}
		}
		return true
	}, time.Second) {
		h.note("workers did not launch")
	}
	for i := range c.Phases {
		p := &c.Phases[i]
		if p.K == "hold" {
			h.holdPhase(p)
		} else {
			h.storm(p)
		}
	}
	done := make(chan struct{})
	go func() {
		defer func() { _ = recover(); close(done) }()
		h.sys.Shutdown(c.EndGrace)
	}()
	select {
	case <-done:
		c.Complete = true
	case <-time.After(3 * time.Second):
		h.count("shutdown-hang")
		h.note(fmt.Sprintf("Shutdown(%v) did not return within 3s", c.EndGrace))
	}
	if h.rec.lost.Load() > 0 {
		h.note("recorder overflow")
		c.Complete = false
	}
	if h.holdTO.Load() > 0 {
		h.note("a held invocation was never released")
	}
	return h
}

// ---------------------------------------------------------------- the Go-side monitor

type inv struct {
	b, e  int
	kind  int
	id    int64
	read  int64
	wrote int64
}

// monitor restates C01 on a trace: per actor, the invocations (paired by id) are pairwise disjoint in the recorder's
// order and each one read what the one before it wrote; Begin and End events balance.
func monitor(c *Case) []vh.Violation {
	var out []vh.Violation
	seenKind := map[string]bool{}
	add := func(kind, detail string, sig map[string]string) {
		if seenKind[kind] {
			return
		}
		seenKind[kind] = true
		out = append(out, vh.Violation{Kind: kind, Detail: detail, Sig: sig})
	}
	per := map[int][]*inv{}
	open := map[[2]int64]*inv{}
	type lastW struct {
		pos  int
		val  int64
		kind int
	}
	last := map[int]lastW{} // per actor: the latest End so far
	for p, x := range c.Trace {
		e := unpack(x)
		key := [2]int64{int64(e.Actor), e.ID}
		if !e.End {
			// visibility, stated on the trace itself: a Begin reads what the latest earlier End of its actor wrote
			if l, ok := last[e.Actor]; !ok && e.Val != 0 {
				add("C01:turns:stale-read", fmt.Sprintf("actor %d: its first invocation (%s, position %d) read %d from the actor's plain variable, not the initial 0", e.Actor, kindName[e.Kind], p, e.Val),
					map[string]string{"entry": kindName[e.Kind]})
			} else if ok && l.val != e.Val {
				add("C01:turns:stale-read", fmt.Sprintf("actor %d: the %s invocation that began at position %d read %d, but the latest invocation of that actor to end before it (%s, End at position %d) wrote %d",
					e.Actor, kindName[e.Kind], p, e.Val, kindName[l.kind], l.pos, l.val), map[string]string{"entry": kindName[e.Kind]})
			}
			if _, dup := open[key]; dup {
				add("C01:turns:unbalanced", fmt.Sprintf("position %d: %v reuses the id of an invocation that has not ended", p, e), nil)
				continue
			}
			v := &inv{b: p, e: -1, kind: e.Kind, id: e.ID, read: e.Val}
			open[key] = v
			per[e.Actor] = append(per[e.Actor], v)
			continue
		}
		v := open[key]
		if v == nil || v.kind != e.Kind {
			add("C01:turns:unbalanced", fmt.Sprintf("position %d: %v has no matching Begin", p, e), nil)
			continue
		}
		v.e, v.wrote = p, e.Val
		last[e.Actor] = lastW{p, e.Val, e.Kind}
		delete(open, key)
	}
	actors := make([]int, 0, len(per))
	for a := range per {
		actors = append(actors, a)
	}
	sort.Ints(actors)
	for _, a := range actors {
		l := per[a] // the invocations of actor a in the order of their Begin: consecutive ones must be disjoint
		for i, v := range l {
			if v.e < 0 && c.Complete {
				add("C01:turns:unbalanced", fmt.Sprintf("actor %d: the %s invocation that began at position %d never ended although the system was shut down", a, kindName[v.kind], v.b), nil)
			}
			if i == 0 {
				continue
			}
			if u := l[i-1]; u.e < 0 || u.e > v.b {
				end := "is still open at the end of the trace"
				if u.e >= 0 {
					end = fmt.Sprintf("ended only at position %d", u.e)
				}
				add("C01:turns:overlap", fmt.Sprintf("actor %d: a %s invocation began at position %d while the %s invocation that began at position %d %s — two pieces of the actor's code ran at the same time",
					a, kindName[v.kind], v.b, kindName[u.kind], u.b, end), map[string]string{"entry": kindName[v.kind], "inside": kindName[u.kind]})
			}
		}
	}
	return out
}

// ---------------------------------------------------------------- generator

var foreignKinds = []string{"tell", "tell", "sysask", "awaitfwd", "local-sys", "local-self", "local-self", "local-ctx", "ctxtell", "futureask", "term", "fail"}
var actorKinds = []string{"ask", "ask", "tell-in", "bcast", "watch", "unwatch", "local-in-self", "local-in-other", "after", "repeat", "icron", "daymoment", "stoptask", "term-in", "respawn"}

func genOp(rng *vh.RNG, c *Case, nslots int, target int, storm bool) Op {
	op := Op{Busy: rng.Intn(8), Pause: rng.Intn(4)}
	if rng.Chance(11, 20) {
		op.K = foreignKinds[rng.Intn(len(foreignKinds))]
	} else {
		op.K = actorKinds[rng.Intn(len(actorKinds))]
	}
	if op.K == "futureask" && !storm { // it blocks its goroutine until the reply: only where nothing waits for it
		op.K = "sysask"
	}
	op.T = target
	if target < 0 || rng.Chance(1, 5) {
		op.T = rng.Intn(nslots)
	}
	op.O = rng.Intn(nslots)
	switch op.K {
	case "term", "term-in":
		op.Grace = rng.Bool()
		if op.T == 0 || !rng.Chance(1, 3) { // the supervisor stays; terminations are kept rare so that the actors live long enough
			op.K = map[string]string{"term": "tell", "term-in": "tell-in"}[op.K]
		}
	case "fail":
		op.Dir = []string{"restart", "restart", "resume", "resume", "stop"}[rng.Intn(5)]
		if op.T == 0 {
			op.K = "tell"
		}
	case "bcast":
		op.O = 0
		if c.Leaf && rng.Chance(1, 4) {
			op.O = 1
		}
	case "respawn":
		if op.T == 0 {
			op.T = 1
		}
		op.O = 0
		if c.Leaf && op.T == nslots-1 {
			op.O = 1
		}
	case "after":
		op.D, op.N, op.O = rng.Intn(12), rng.Intn(4), op.T
	case "repeat":
		op.D, op.I, op.N, op.O = rng.Intn(12), 1+rng.Intn(12), rng.Intn(4), op.T
	case "icron", "daymoment", "stoptask":
		op.N, op.O = rng.Intn(4), op.T
	case "local-in-self":
		op.O = op.T
	case "local-ctx", "ctxtell", "ask", "tell-in", "local-in-other", "watch", "unwatch":
		if op.O == op.T {
			op.O = (op.T + 1) % nslots
		}
	}
	if storm {
		op.G = rng.Intn(6)
	}
	return op
}

func genCase(rng *vh.RNG) Case {
	c := Case{Expect: true, Workers: rng.Range(2, 4), Leaf: rng.Chance(1, 4), Slow: rng.Chance(1, 5), EndGrace: rng.Chance(1, 4)}
	c.Mailbox = []string{"LockFree", "GlobalOrderedLockFree"}[rng.Intn(2)]
	c.Disp = []string{"default-ants", "goroutine", "ants-1"}[rng.Intn(3)]
	nslots := 1 + c.Workers
	if c.Leaf {
		nslots++
	}
	np := rng.Range(3, 6)
	timers, flooded := false, false
	for i := 0; i < np; i++ {
		if rng.Chance(2, 5) {
			p := Phase{K: "storm", Dwell: rng.Intn(400)}
			for k, n := 0, rng.Range(6, 30); k < n; k++ {
				op := genOp(rng, &c, nslots, -1, true)
				timers = timers || op.K == "after" || op.K == "repeat"
				p.Ops = append(p.Ops, op)
			}
			c.Phases = append(c.Phases, p)
			continue
		}
		p := Phase{K: "hold", T: rng.Intn(nslots), Dwell: rng.Intn(300)}
		p.HK = []string{"user", "user", "user", "local", "local", "timer", "launch", "restarting", "terminate"}[rng.Intn(9)]
		if p.T == 0 && (p.HK == "launch" || p.HK == "restarting" || p.HK == "terminate") {
			p.T = 1
		}
		if c.Leaf && p.T == nslots-1 && p.HK == "launch" {
			p.T = 1 // the leaf is re-created by its parent's OnLaunch, not by a respawn operation
		}
		switch p.HK {
		case "timer":
			reg := Op{K: []string{"after", "after", "repeat", "icron", "daymoment"}[rng.Intn(5)], T: p.T, O: p.T, D: rng.Intn(3), I: 1 + rng.Intn(5), N: rng.Intn(4), Busy: rng.Intn(8)}
			p.Pre = []Op{reg}
		case "user", "local":
			for k, n := 0, rng.Intn(3); k < n; k++ { // what the held invocation does itself before it blocks
				op := Op{K: []string{"after", "repeat", "icron", "daymoment", "local-in-self", "ask", "watch"}[rng.Intn(7)], T: p.T, O: p.T, D: rng.Intn(3), I: 1 + rng.Intn(5), N: rng.Intn(4), Busy: rng.Intn(8)}
				if op.K == "ask" || op.K == "watch" {
					op.T = (p.T + 1 + rng.Intn(nslots-1)) % nslots
				}
				if op.K == "after" || op.K == "repeat" {
					p.Dwell = 14000 + rng.Intn(16000) // long enough for the timer to become due while the invocation is still open
				}
				p.Pre = append(p.Pre, op)
			}
		}
		for k, n := 0, rng.Range(3, 10); k < n; k++ {
			p.Ops = append(p.Ops, genOp(rng, &c, nslots, p.T, false))
		}
		if !flooded && (p.HK == "user" || p.HK == "local") && rng.Chance(1, 6) {
			flooded = true // at most one per case: the trace grows by two events per message
			at := rng.Intn(len(p.Ops) + 1)
			p.Ops = append(p.Ops[:at], append([]Op{{K: "flood", T: p.T, O: p.T, N: rng.Range(300, 700)}}, p.Ops[at:]...)...)
		}
		// a held invocation that registers timers: half of the time the target has been RESTARTED just before, so that the timers
		// are registered by (and fire into) an actor whose context, scheduler and mailbox have been through a restart
		if (p.HK == "user" || p.HK == "local" || p.HK == "timer") && len(p.Pre) > 0 && p.T != 0 && rng.Chance(1, 2) {
			c.Phases = append(c.Phases, Phase{K: "storm", Dwell: 300 + rng.Intn(300), Ops: []Op{{K: "fail", T: p.T, O: p.T, Dir: "restart", Busy: rng.Intn(4)}}})
		}
		c.Phases = append(c.Phases, p)
	}
	// let pending work and timers run before the system is shut down
	last := Phase{K: "storm", Dwell: 200 + rng.Intn(1500)}
	if timers && rng.Chance(2, 3) {
		last.Dwell = 12000 + rng.Intn(15000)
	}
	for k, n := 0, rng.Range(2, 8); k < n; k++ {
		last.Ops = append(last.Ops, genOp(rng, &c, nslots, -1, true))
	}
	c.Phases = append(c.Phases, last)
	return c
}

func corpus() []Case {
	ev := func(end bool, k, a int, id, v int64) uint64 { return pack(end, k, a, id, v) }
	return []Case{
		// the seeded behaviour: a local function begins inside an open user-message invocation of the same actor
		{Synthetic: "local function inside an open user-message invocation (ExecLocalFunc on the own reference run inline)", Expect: false, Complete: true,
			Trace: []uint64{ev(false, KUser, 1, 0, 0), ev(false, KLocal, 1, 1, 0), ev(true, KLocal, 1, 1, 2), ev(true, KUser, 1, 0, 1)}},
		{Synthetic: "two actors, all four kinds, interleaved, sequential per actor", Expect: true, Complete: true,
			Trace: []uint64{ev(false, KSys, 1, 0, 0), ev(false, KSys, 2, 1, 0), ev(true, KSys, 1, 0, 1), ev(false, KUser, 1, 3, 1), ev(true, KSys, 2, 1, 2),
				ev(true, KUser, 1, 3, 4), ev(false, KTimer, 2, 6, 2), ev(false, KLocal, 1, 7, 4), ev(true, KLocal, 1, 7, 8), ev(true, KTimer, 2, 6, 7)}},
		{Synthetic: "no overlap, but the second invocation did not see the write of the first", Expect: false, Complete: true,
			Trace: []uint64{ev(false, KUser, 200, 0, 0), ev(true, KUser, 200, 0, 1), ev(false, KTimer, 200, 2, 0), ev(true, KTimer, 200, 2, 3)}},
		{Synthetic: "an invocation left open by a script that ran to the end", Expect: false, Complete: true,
			Trace: []uint64{ev(false, KUser, 3, 0, 0), ev(true, KUser, 3, 0, 1), ev(false, KSys, 3, 2, 1)}},
		{Synthetic: "the same trace as a prefix (system still running)", Expect: true, Complete: false,
			Trace: []uint64{ev(false, KUser, 3, 0, 0), ev(true, KUser, 3, 0, 1), ev(false, KSys, 3, 2, 1)}},
		{Synthetic: "End of another kind than the open invocation, maximal field values", Expect: false, Complete: false,
			Trace: []uint64{ev(false, KLocal, 255, maxField, 0), ev(true, KTimer, 255, maxField, maxField)}},
	}
}

// ---------------------------------------------------------------- output

func coqCase(id int, c *Case) string {
	var sb strings.Builder
	fmt.Fprintf(&sb, "{| tcid := Z.to_nat %d; tpacked := ([", id)
	for i, x := range c.Trace {
		if i > 0 {
			sb.WriteString("; ")
		}
		fmt.Fprintf(&sb, "%d", x)
	}
	fmt.Fprintf(&sb, "])%%uint63; tcomplete := %s; texpect := %s |}", vh.Bool(c.Complete), vh.Bool(c.Expect))
	return sb.String()
}

type result struct {
	c *Case
	h *H
}

func record(out *vh.Out, c *Case, h *H) {
	v := monitor(c)
	if c.Synthetic != "" {
		out.Count("corpus", map[bool]string{true: "expected-accepted", false: "expected-rejected"}[c.Expect])
		// the Go monitor must agree with the expected verdict on the corpus as well
		if (len(v) == 0) != c.Expect {
			v = append(v, vh.Violation{Kind: "C01:turns:monitor-self-test", Detail: "the Go monitor disagrees with the expected verdict of corpus trace: " + c.Synthetic})
		} else {
			v = nil
		}
		out.Add(c, coqCase(out.N(), c), false, v)
		return
	}
	out.Count("mailbox", c.Mailbox)
	out.Count("dispatcher", c.Disp)
	out.Count("mailbox x dispatcher", c.Mailbox+" / "+c.Disp)
	out.Count("actors", fmt.Sprintf("supervisor + %d workers%s", c.Workers, map[bool]string{true: " + leaf", false: ""}[c.Leaf]))
	held := 0
	for i := range c.Phases {
		p := &c.Phases[i]
		if p.K == "hold" {
			out.Count("invocation kept open", p.HK)
			for range p.Pre {
				held++
			}
		} else {
			out.Count("phases", "storm")
		}
		for _, ops := range [][]Op{p.Pre, p.Ops} {
			for _, op := range ops {
				out.Count("entry points fired", op.K)
			}
		}
	}
	turns := [4]int{}
	objs := map[int]bool{}
	for _, x := range c.Trace {
		e := unpack(x)
		objs[e.Actor] = true
		if !e.End {
			turns[e.Kind]++
			out.Count("invocations recorded", kindName[e.Kind])
		}
	}
	for k := range turns {
		out.Count("invocations per script: "+kindName[k], vh.Bucket(turns[k]))
	}
	out.Count("events per trace", vh.Bucket(len(c.Trace)))
	out.Count("actor objects per script", vh.Bucket(len(objs)))
	out.Count("script ran to shutdown", vh.Bool(c.Complete))
	opp := 0
	if h != nil {
		for _, k := range counterNames {
			for n := int(h.cnt[k].Load()); n > 0; n-- {
				out.Count("totals", k)
			}
		}
		opp = int(h.cnt["fired-while-open"].Load())
		if n := h.cnt["user-message-before-OnLaunch"].Load() + h.cnt["local-unknown-context"].Load(); n > 0 {
			// C03 (reported by the C03 check, which runs this harness with kinds C03:turns:): the first message an
			// incarnation handles is its OnLaunch — here a user message or local function that reached the new mailbox
			// between Register and the queuing of OnLaunch inside ActorOf was handled first (repaired by bde59a1)
			v = append(v, vh.Violation{Kind: "C03:turns:user-message-before-OnLaunch", Detail: fmt.Sprintf("%d invocation(s) of a freshly created actor ran before its OnLaunch "+
				"(a message sent to the new address while its parent was still inside ActorOf)", n)})
		}
		if n := h.shadowX.Load(); n > 0 {
			v = append(v, vh.Violation{Kind: "C01:turns:stale-read", Detail: fmt.Sprintf("%d invocation(s) read from the actor's second plain variable (accessed outside the recorder's window) "+
				"a value other than the one the previous invocation left there", n), Sig: map[string]string{"entry": "shadow"}})
		}
	}
	out.Count("overlap opportunities per script (entry points fired while an invocation was open)", vh.Bucket(opp))
	for _, n := range c.Notes {
		out.Count("notes", n)
	}
	if !c.Complete && len(c.Notes) == 0 {
		out.Count("notes", "incomplete")
	}
	out.Add(c, coqCase(out.N(), c), opp > 0 && len(c.Trace) > 0, v)
}

// supervise: the scripts run in a child process. Two goroutines inside the code of one actor can make the Go runtime abort
// the whole process ("fatal error: concurrent map iteration and map write" in the actor's own bookkeeping) before the
// monitor sees the trace; such an abort is reported as what it is: an overlap.
func supervise(f vh.Flags, sub string) {
	cmd := exec.Command(os.Args[0], os.Args[1:]...)
	cmd.Env = append(os.Environ(), "C01TURNS_CHILD=1")
	cmd.Stdout = os.Stdout
	var errb bytes.Buffer
	cmd.Stderr = &errb
	err := cmd.Run()
	if err == nil {
		os.Stderr.Write(errb.Bytes())
		return
	}
	txt := errb.String()
	i := strings.Index(txt, "fatal error: concurrent map")
	if i < 0 {
		os.Stderr.WriteString(txt)
		fmt.Fprintln(os.Stderr, "c01turns: the child process failed:", err)
		os.Exit(3)
	}
	lines := strings.Split(txt[i:], "\n")
	if len(lines) > 28 {
		lines = lines[:28]
	}
	detail := "the Go runtime aborted the process while the scripts were running: two goroutines were inside the bookkeeping of one actor " +
		"(state that only the actor's own turns touch) at the same time:\n" + strings.Join(lines, "\n")
	if f.Replay != "" {
		fmt.Println(detail)
		os.Exit(1)
	}
	out := vh.NewOut(f.Out, sub, "", "tcase", "tmismatches", f.Seed, "aborted run (see the violation)")
	out.Add(map[string]any{"aborted_run": map[string]any{"seed": f.Seed, "tier": f.Tier, "n": f.N}, "how": "re-run harness/cmd/c01turns with the same -seed / -tier"}, "", false,
		[]vh.Violation{{Kind: "C01:turns:overlap", Detail: detail, Sig: map[string]string{"entry": "runtime-abort"}}})
	out.Close()
}

func main() {
	var par, reps int
	var sub string
	flag.IntVar(&par, "par", 0, "scripts executed at the same time (0 = 2 x GOMAXPROCS)")
	flag.IntVar(&reps, "reps", 25, "replay: number of re-executions of the script")
	flag.StringVar(&sub, "sub", "turns", "name of the sub-harness (file prefix)")
	f := vh.ParseFlags()
	if os.Getenv("C01TURNS_CHILD") == "" {
		supervise(f, sub)
		return
	}
	var err error
	if ants1Disp, err = dispatcher.NewAnts(1, ants.WithNonblocking(true)); err != nil {
		ants1Disp = dispatcher.NewGoroutine()
	}
	if f.Replay != "" {
		replay(f.Replay, reps)
		return
	}
	if par <= 0 {
		par = 2 * runtime.GOMAXPROCS(0)
	}
	out := vh.NewOut(f.Out, sub, "From Coq Require Import Uint63.\nFrom MV Require Import Lib.ListX C01.TurnsModel C01.TurnsRun.", "tcase", "tmismatches", f.Seed,
		"a real ActorSystem per script: a supervisor with 2..4 workers (one of them possibly with a child), mailbox LockFree or GlobalOrderedLockFree, dispatcher default ants pool / "+
			"goroutine per dispatch / one-worker ants pool; 4..7 phases: storms (up to 6 foreign goroutines and the actors themselves fire Tell, Ask/Reply, FutureAsk, AwaitForward, "+
			"Broadcast, Watch/Unwatch, Terminate, scripted panics with restart / resume / stop decisions, After/Repeated/ImmediateCron/DayMoment tasks, StopTask, ExecLocalFunc on the own "+
			"reference from foreign goroutines and from handlers, on other actors, through the system) and holds (one invocation — user message, local function, timer callback, OnLaunch of a "+
			"re-created actor, OnRestarting, OnTerminate — kept open on a channel while the other entry points are fired at that actor); every handler, decision, callback and local function "+
			"reports Begin/End to one fetch-and-add recorder; the trace must satisfy turns_ok (Coq) and the Go monitor; non-trivial = at least one entry point was fired at an actor while one of "+
			"its invocations was verifiably open")
	out.PerShard = 64
	for _, c := range corpus() {
		c := c
		record(out, &c, nil)
	}
	n := f.N
	if n == 0 {
		n = 2000
		if f.Tier == "thorough" {
			n = 20000
		}
	}
	rng := vh.NewRNG(f.Seed)
	cases := make([]Case, n)
	for i := range cases {
		cr, _ := rng.Derive()
		cases[i] = genCase(cr)
	}
	res := make([]*H, n)
	var wg sync.WaitGroup
	next := atomic.Int64{}
	for w := 0; w < par; w++ {
		wg.Add(1)
		go func() {
			defer wg.Done()
			for {
				i := int(next.Add(1) - 1)
				if i >= n {
					return
				}
				res[i] = runScript(&cases[i])
			}
		}()
	}
	wg.Wait()
	for i := range cases {
		record(out, &cases[i], res[i])
	}
	raceReports(out, f.Out)
	out.Close()
}

// raceReports: under -race (GORACE=log_path=<out>/race halt_on_error=0 exitcode=0) the reports of the detector are
// turned into monitor hits when they concern the actors' plain variables (frames of this harness); reports that lie
// wholly inside the library are counted.
func raceReports(out *vh.Out, dir string) {
	files, _ := filepath.Glob(filepath.Join(dir, "race.*"))
	for _, fn := range files {
		b, err := os.ReadFile(fn)
		if err != nil {
			continue
		}
		for _, rep := range strings.Split(string(b), "==================") {
			if !strings.Contains(rep, "DATA RACE") {
				continue
			}
			if raceOnHarnessState(rep) {
				out.Count("race detector", "report on the harness's actor state")
				out.Add(map[string]string{"race_report": rep}, "", false, []vh.Violation{{Kind: "C01:turns:race",
					Detail: "the race detector reports unsynchronised accesses to plain state that only invocations of one actor touch:\n" + rep}})
			} else {
				out.Count("race detector", "report inside the library only")
			}
		}
	}
}

// raceOnHarnessState: one of the two conflicting accesses is made by code of this harness (the top frame of the access is
// in package main) — the only unsynchronised state of the harness is the plain state of the actor objects, which nothing
// but invocations of that actor touches.
func raceOnHarnessState(rep string) bool {
	lines := strings.Split(rep, "\n")
	for i, l := range lines {
		t := strings.TrimSpace(l)
		if (strings.HasPrefix(t, "Read at") || strings.HasPrefix(t, "Write at") || strings.HasPrefix(t, "Previous read at") || strings.HasPrefix(t, "Previous write at") ||
			strings.HasPrefix(t, "Atomic") || strings.HasPrefix(t, "Previous atomic")) && i+1 < len(lines) {
			if strings.HasPrefix(strings.TrimSpace(lines[i+1]), "main.") {
				return true
			}
		}
	}
	return false
}

func replay(path string, reps int) {
	var c Case
	vh.LoadReplayCase(path, &c)
	type hit struct {
		Kind   string            `json:"kind"`
		Detail string            `json:"detail"`
		Sig    map[string]string `json:"sig,omitempty"`
	}
	type verdict struct {
		Run     string `json:"run"`
		Events  int    `json:"events,omitempty"`
		Monitor []hit  `json:"monitor,omitempty"`
	}
	var outv []verdict
	bad := 0
	strip := func(v []vh.Violation) []hit {
		var o []hit
		for _, x := range v {
			o = append(o, hit{x.Kind, x.Detail, x.Sig})
		}
		return o
	}
	if len(c.Trace) > 0 {
		v := monitor(&c)
		outv = append(outv, verdict{Run: "recorded trace", Events: len(c.Trace), Monitor: strip(v)})
	}
	if c.Synthetic == "" && len(c.Phases) > 0 {
		hits := 0
		for r := 0; r < reps; r++ {
			cc := c
			runScript(&cc)
			if v := monitor(&cc); len(v) > 0 {
				hits++
				if hits == 1 {
					outv = append(outv, verdict{Run: fmt.Sprintf("re-execution %d of %d on the current tree", r+1, reps), Events: len(cc.Trace), Monitor: strip(v)})
				}
			}
		}
		bad = hits
		outv = append(outv, verdict{Run: fmt.Sprintf("%d of %d re-executions of the script on the current tree violate C01", hits, reps)})
	}
	b, _ := json.MarshalIndent(outv, "", " ")
	fmt.Println(string(b))
	if bad > 0 {
		os.Exit(1)
	}
}
