// c08init: search oracle of property C08 for the LAZY CREATION of the per-context scheduler (real ActorSystem, real
// time, GOMAXPROCS >= 4: the slip needs two goroutines running truly in parallel, which the lock-step / synctest
// harnesses c08sched and c08actor never have).
//
// The Coq machine MV.C08.InitModel splits "ensure the scheduler ; load the field ; register" into atomic steps and
// proves (MV.C08.InitProofs, any number of callers, every interleaving) that under the sync.Once guard exactly one
// scheduler object is created and every task sits in the object the context holds; for the unguarded lazy
// initialisation it has the refuting schedule (two goroutines, two objects, the first task orphaned). Tie T3
// (harness/translate/c08init) reads the discipline from the tree under test. The two goroutines exist in the code:
// ActorOf posts OnLaunch to the child and THEN arms ":expire:" on the child's context from the spawner's goroutine
// (setExpireDuration -> AfterTask -> initScheduler) while the child's OnLaunch handler may be registering its first task.
// This family looks for the orphan on the REAL code:
//
//	a few thousand actors WithExpireDuration(1h) whose OnLaunch starts a repeating task "tick" (every 20-50 ms),
//	spawned from the harness goroutine (system) or from 2-8 parent actors at once (parents);
//	stop      every actor is told to StopTask("tick"); a tick counted later than the margin (200 ms) after its own
//	          StopTask returned is the monitor hit  C08:init:task-survives-stoptask
//	replace   every actor is told to register "tick" again (another callback); a firing of the FIRST callback later than
//	          the margin after the re-registration returned is  C08:init:replaced-task-still-fires
//
// (timestamps per actor; callbacks are turns of the owner, so a firing that was already on its way when the cancellation
// ran is handled within microseconds of it — the margin is four to ten periods). Also: Shutdown must return
// (C08:init:shutdown-hangs). Always on (quick: 12 cases / ~36 000 spawns, 6-8 s; thorough 5x) and silent on the unchanged tree; the failing-input
// search of checks/c08.py runs the thorough volume under fresh seeds when the tie is broken. The interleavings explored are
// those the Go runtime happens to produce. A replay re-runs the configuration (up to 10 attempts).
package main

import (
	"encoding/json"
	"fmt"
	"io"
	"log/slog"
	"os"
	"runtime"
	"sync"
	"sync/atomic"
	"time"

	"github.com/kercylan98/minotaur/engine/vivid"
	"github.com/kercylan98/minotaur/toolkit/log"
	"verif/harness/vh"
)

type Case struct {
	Stress   string `json:"stress"`  // lazy-init
	Family   string `json:"family"`  // stop | replace
	Spawner  string `json:"spawner"` // system | parents
	Parents  int    `json:"parents,omitempty"`
	Actors   int    `json:"actors"`
	PeriodMs int    `json:"period_ms"`
	ExpireS  int    `json:"expire_s"`
	MarginMs int    `json:"margin_ms"`
	WindowMs int    `json:"window_ms"`
	// observed
	Procs        int   `json:"procs"`
	Launched     int   `json:"launched"`
	TickedBefore int   `json:"ticked_before"` // actors whose task had fired before the cancellation
	Cancelled    int   `json:"cancelled"`
	Late         int   `json:"late_actors"` // actors with a firing of the cancelled task later than the margin
	LateTicks    int   `json:"late_ticks"`
	LateIdx      []int `json:"late_idx,omitempty"`
	MaxLateMs    int   `json:"max_late_ms"` // latest such firing, ms after the cancellation
	Ticks        int   `json:"ticks"`
	NewTicked    int   `json:"new_ticked,omitempty"` // replace: actors whose second registration fired
	SpawnMs      int   `json:"spawn_ms"`
	CancelMs     int   `json:"cancel_ms"`
	ShutdownMs   int   `json:"shutdown_ms"`
}

var silent = log.FunctionalLoggerProvider(func() *log.Logger {
	return slog.New(slog.NewTextHandler(io.Discard, &slog.HandlerOptions{Level: slog.Level(100)}))
})

type cell struct {
	ticks     atomic.Int64 // firings of the first registration
	newTicks  atomic.Int64 // firings of the second registration (replace)
	cancelled atomic.Int64 // ns after start at which StopTask / the re-registration returned (0 = not yet)
	before    atomic.Int64 // firings before the cancellation
	late      atomic.Int64
	maxLate   atomic.Int64 // ns after the cancellation
	_         [16]byte
}

type cmdStop struct{}
type cmdSwap struct{}
type cmdSpawn struct {
	lo, hi int
	done   *sync.WaitGroup
}

func runCase(c *Case) (viol []vh.Violation) {
	sig := map[string]string{"family": c.Family}
	add := func(kind, detail string) {
		for _, v := range viol {
			if v.Kind == kind {
				return
			}
		}
		viol = append(viol, vh.Violation{Kind: kind, Sig: sig,
			Detail: fmt.Sprintf("lazy-init family=%s spawner=%s/%d actors=%d period=%dms GOMAXPROCS=%d: %s", c.Family, c.Spawner, c.Parents, c.Actors, c.PeriodMs, c.Procs, detail)})
	}
	c.Launched, c.TickedBefore, c.Cancelled, c.Late, c.LateTicks, c.LateIdx, c.MaxLateMs, c.Ticks, c.NewTicked = 0, 0, 0, 0, 0, nil, 0, 0, 0
	if runtime.GOMAXPROCS(0) < 4 {
		runtime.GOMAXPROCS(4) // the slip needs the spawner to run beside the child's OnLaunch
	}
	c.Procs = runtime.GOMAXPROCS(0)
	period := time.Duration(c.PeriodMs) * time.Millisecond
	margin := int64(time.Duration(c.MarginMs) * time.Millisecond)
	expire := time.Duration(c.ExpireS) * time.Second

	sys := vivid.NewActorSystem(vivid.FunctionalActorSystemConfigurator(func(cfg *vivid.ActorSystemConfiguration) {
		cfg.WithLoggerProvider(silent)
	}))
	start := time.Now()
	cells := make([]cell, c.Actors)
	refs := make([]vivid.ActorRef, c.Actors)
	var launched, cancelled sync.WaitGroup
	launched.Add(c.Actors)
	cancelled.Add(c.Actors)

	first := func(i int) func(vivid.ActorContext) {
		return func(vivid.ActorContext) {
			x := &cells[i]
			x.ticks.Add(1)
			if s := x.cancelled.Load(); s == 0 {
				x.before.Add(1)
			} else if d := int64(time.Since(start)) - s; d > margin {
				x.late.Add(1)
				if d > x.maxLate.Load() {
					x.maxLate.Store(d)
				}
			}
		}
	}
	owner := func(i int) vivid.FunctionalActorProvider {
		return func() vivid.Actor {
			return vivid.FunctionalActor(func(ctx vivid.ActorContext) {
				switch ctx.Message().(type) {
				case *vivid.OnLaunch:
					ctx.RepeatedTask("tick", period, period, -1, first(i))
					launched.Done()
				case cmdStop:
					ctx.StopTask("tick")
					cells[i].cancelled.Store(int64(time.Since(start)) | 1)
					cancelled.Done()
				case cmdSwap:
					ctx.RepeatedTask("tick", period, period, -1, func(vivid.ActorContext) { cells[i].newTicks.Add(1) })
					cells[i].cancelled.Store(int64(time.Since(start)) | 1)
					cancelled.Done()
				}
			})
		}
	}
	expiring := func(d *vivid.ActorDescriptor) { d.WithExpireDuration(expire) }

	wait := func(wg *sync.WaitGroup, limit time.Duration) bool {
		ch := make(chan struct{})
		go func() { wg.Wait(); close(ch) }()
		select {
		case <-ch:
			return true
		case <-time.After(limit):
			return false
		}
	}
	shutdown := func() {
		t0 := time.Now()
		sd := make(chan struct{})
		go func() { defer close(sd); defer func() { _ = recover() }(); sys.Shutdown(true) }()
		select {
		case <-sd:
		case <-time.After(60 * time.Second):
			add("C08:init:shutdown-hangs", "Shutdown(true) did not return within 60 s")
		}
		c.ShutdownMs = int(time.Since(t0) / time.Millisecond)
	}

	// ---- spawn
	t0 := time.Now()
	switch c.Spawner {
	case "system":
		for i := 0; i < c.Actors; i++ {
			refs[i] = sys.ActorOfF(owner(i), expiring)
		}
	case "parents":
		var spawned sync.WaitGroup
		spawned.Add(c.Parents)
		per := (c.Actors + c.Parents - 1) / c.Parents
		for p := 0; p < c.Parents; p++ {
			lo, hi := p*per, (p+1)*per
			if hi > c.Actors {
				hi = c.Actors
			}
			pr := sys.ActorOfF(func() vivid.Actor {
				return vivid.FunctionalActor(func(ctx vivid.ActorContext) {
					if m, ok := ctx.Message().(cmdSpawn); ok {
						for i := m.lo; i < m.hi; i++ {
							refs[i] = ctx.ActorOfF(owner(i), expiring)
						}
						m.done.Done()
					}
				})
			})
			sys.Tell(pr, cmdSpawn{lo: lo, hi: hi, done: &spawned})
		}
		if !wait(&spawned, 60*time.Second) {
			add("C08:init:harness-timeout", "the parent actors did not finish spawning within 60 s")
			shutdown()
			return viol
		}
	default:
		panic("unknown spawner " + c.Spawner)
	}
	if !wait(&launched, 60*time.Second) {
		add("C08:init:harness-timeout", "not every actor handled OnLaunch within 60 s")
		shutdown()
		return viol
	}
	c.Launched = c.Actors
	c.SpawnMs = int(time.Since(t0) / time.Millisecond)
	time.Sleep(2*period + 40*time.Millisecond) // every task fires at least once

	// ---- cancel
	t1 := time.Now()
	var cmd vivid.Message = cmdStop{}
	if c.Family == "replace" {
		cmd = cmdSwap{}
	}
	for _, r := range refs {
		sys.Tell(r, cmd)
	}
	if !wait(&cancelled, 60*time.Second) {
		add("C08:init:harness-timeout", "not every actor handled the cancellation within 60 s")
		shutdown()
		return viol
	}
	c.Cancelled = c.Actors
	c.CancelMs = int(time.Since(t1) / time.Millisecond)
	time.Sleep(time.Duration(c.MarginMs+c.WindowMs) * time.Millisecond)

	// ---- verdict
	for i := range cells {
		x := &cells[i]
		c.Ticks += int(x.ticks.Load())
		if x.before.Load() > 0 {
			c.TickedBefore++
		}
		if x.newTicks.Load() > 0 {
			c.NewTicked++
		}
		if n := x.late.Load(); n > 0 {
			c.Late++
			c.LateTicks += int(n)
			if len(c.LateIdx) < 5 {
				c.LateIdx = append(c.LateIdx, i)
			}
			if ms := int(x.maxLate.Load() / int64(time.Millisecond)); ms > c.MaxLateMs {
				c.MaxLateMs = ms
			}
		}
	}
	if c.Late > 0 {
		switch c.Family {
		case "stop":
			add("C08:init:task-survives-stoptask", fmt.Sprintf("%d of %d actors still run their task \"tick\" after their own StopTask(\"tick\") had returned: %d firings later than %d ms after the cancellation (the latest %d ms after it; period %d ms; actors e.g. %v) — the task lives in a scheduler the context does not hold",
				c.Late, c.Actors, c.LateTicks, c.MarginMs, c.MaxLateMs, c.PeriodMs, c.LateIdx))
		default:
			add("C08:init:replaced-task-still-fires", fmt.Sprintf("%d of %d actors still run the FIRST registration of \"tick\" after registering the name again: %d firings later than %d ms after the re-registration returned (the latest %d ms after it; period %d ms; actors e.g. %v) — re-registering a name did not replace the earlier task",
				c.Late, c.Actors, c.LateTicks, c.MarginMs, c.MaxLateMs, c.PeriodMs, c.LateIdx))
		}
	}
	shutdown()
	return viol
}

func gen(rng *vh.RNG, tier string) []*Case {
	rounds := 3 // 12 cases, 6-8 s
	if tier == "thorough" {
		rounds = 15
	}
	periods := []int{20, 25, 30, 40, 50}
	var cs []*Case
	for r := 0; r < rounds; r++ {
		for _, fam := range []string{"stop", "replace"} {
			for _, sp := range []string{"system", "parents"} {
				c := &Case{Stress: "lazy-init", Family: fam, Spawner: sp, Actors: rng.Range(2500, 3500), PeriodMs: periods[rng.Intn(len(periods))],
					ExpireS: 3600, MarginMs: 200}
				if sp == "parents" {
					c.Parents = []int{2, 4, 8}[rng.Intn(3)]
				}
				c.WindowMs = 4 * c.PeriodMs
				if c.WindowMs < 150 {
					c.WindowMs = 150
				}
				cs = append(cs, c)
			}
		}
	}
	return cs
}

func main() {
	f := vh.ParseFlags()
	if f.Replay != "" {
		var c Case
		vh.LoadReplayCase(f.Replay, &c)
		var viol []vh.Violation
		attempts := 0
		for attempts < 10 && len(viol) == 0 {
			viol = runCase(&c)
			attempts++
		}
		b, _ := json.MarshalIndent(map[string]interface{}{"case": c, "monitor_hits": viol, "attempts": attempts}, "", " ")
		fmt.Println(string(b))
		if len(viol) > 0 {
			os.Exit(1)
		}
		return
	}
	out := vh.NewOut(f.Out, "init", "", "", "", f.Seed,
		"real ActorSystem, real time, GOMAXPROCS>=4: 2500-3500 actors WithExpireDuration(1h) whose OnLaunch starts a repeating task (period 20-50 ms), spawned by the harness goroutine or by 2-8 parent actors at once; family stop: StopTask, family replace: the name is registered again; monitor: a firing of the cancelled registration later than 200 ms after the cancellation returned (per-actor timestamps), Shutdown returns; non-trivial = GOMAXPROCS>=4 and >= 90% of the actors had fired before the cancellation; search oracle only (no model evaluation): the interleavings are the Go runtime's")
	cases := gen(vh.NewRNG(f.Seed), f.Tier)
	if f.N > 0 && f.N < len(cases) {
		cases = cases[:f.N]
	}
	violating := 0
	for _, c := range cases {
		if violating >= 2 {
			out.Count("skipped_after_two_violating_cases", c.Family)
			continue
		}
		viol := runCase(c)
		if len(viol) > 0 {
			violating++
		}
		out.Count("family", c.Family)
		out.Count("spawner", fmt.Sprintf("%s/%d", c.Spawner, c.Parents))
		out.Count("period_ms", fmt.Sprint(c.PeriodMs))
		out.Count("gomaxprocs", fmt.Sprint(c.Procs))
		out.Count("spawn_ms", vh.Bucket(c.SpawnMs))
		out.Count("cancel_ms", vh.Bucket(c.CancelMs))
		out.Count("shutdown_ms", vh.Bucket(c.ShutdownMs))
		out.Count("late_actors", vh.Bucket(c.Late))
		d := out
		for k, n := range map[string]int{"actors_spawned": c.Launched, "actors_fired_before_cancel": c.TickedBefore, "actors_cancelled": c.Cancelled,
			"firings": c.Ticks, "late_firings": c.LateTicks, "replacement_fired": c.NewTicked} {
			for i := 0; i < n; i += 1000 { // in thousands (rounded up)
				d.Count("volume_thousands", k)
			}
		}
		out.Add(c, "", c.Procs >= 4 && c.Launched == c.Actors && c.TickedBefore*10 >= c.Actors*9, viol)
	}
	out.Close()
}
