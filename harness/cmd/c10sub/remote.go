package main

// Two REAL actor systems linked through sharing on 127.0.0.1 (ephemeral ports): actors 0,1 live on node 0,
// actors 2,3 on node 1. Same sequential driving as the local harness; after every step the acting node sends a
// fence message over the link to a fence actor of the other node (the link is one FIFO stream per direction, the
// broadcast of a publication travels on it before the fence), then both nodes are waited quiescent.
// Payloads are protobuf messages (*prc.ProcessId reused as carrier): only network messages are broadcast.

import (
	"encoding/json"
	"fmt"
	"sort"
	"strconv"
	"strings"
	"sync"
	"time"

	"github.com/kercylan98/minotaur/engine/prc"
	"github.com/kercylan98/minotaur/engine/vivid"
	"github.com/kercylan98/minotaur/engine/vivid/dispatcher"
	"github.com/kercylan98/minotaur/toolkit/log"
	"verif/harness/vh"
)

// RCase: Ops as in Case; A = -1 / -2 = the system of node 0 / node 1 (P only); U: V = position of the subscription in
// the order of return over BOTH nodes (1-based).
type RCase struct {
	Remote bool  `json:"remote"` // always true: distinguishes the case format in replay files
	Ops    []Op  `json:"ops"`
	Impl   []Res `json:"impl"`
}

func nodeOf(a int) int {
	switch {
	case a == -1:
		return 0
	case a == -2:
		return 1
	}
	return a / 2
}

type renv struct {
	mu      sync.Mutex
	sys     [2]*vivid.ActorSystem
	tr      *tracker
	slots   [nActors]slot
	insts   [nActors]int
	ids     []uint64
	handles []vivid.Subscription
	dl      []Dl
	errs    []string
	timeout bool
	fence   chan string
	fseq    int
}

const fenceTag = "c10-fence"

func rpayload(t int, v int64) *prc.ProcessId {
	return &prc.ProcessId{LogicalAddress: fmt.Sprintf("c10-pay-%d", t), PhysicalAddress: strconv.FormatInt(v, 10)}
}

// lpayload is a plain Go value: the codec of the sharing layer cannot encode it, so a publication of it must stay on the
// publisher's node — where every subscriber of the topic still has to receive it
type lpayload struct {
	T int
	V int64
}

func (e *renv) tok(r vivid.ActorRef) string {
	if r == nil {
		return "none"
	}
	n := -1
	for i := 0; i < 2; i++ {
		if r.GetPhysicalAddress() == e.sys[i].PhysicalAddress() {
			n = i
		}
	}
	la := r.GetLogicalAddress()
	if n >= 0 && la == "/user" {
		return fmt.Sprintf("guard%d", n)
	}
	for i := 0; i < nActors; i++ {
		if la == "/user/"+actorName(i) && n == nodeOf(i) {
			return actorName(i)
		}
	}
	return "other"
}

func (e *renv) refOf(i int) vivid.ActorRef {
	return vivid.NewActorRef(e.sys[nodeOf(i)].PhysicalAddress(), "/user/"+actorName(i))
}

func (e *renv) isAlive(i int) bool {
	s := e.sys[nodeOf(i)]
	rc := s.VerifResourceController()
	return rc.GetProcess(e.refOf(i)) != rc.GetProcess(s.Abyss())
}

func (e *renv) subscribe(ctx vivid.ActorContext, t int) {
	defer func() {
		if r := recover(); r != nil {
			e.mu.Lock()
			e.errs = append(e.errs, fmt.Sprint("Subscribe panicked: ", r))
			if strings.Contains(fmt.Sprint(r), "timeout") {
				e.timeout = true
			}
			e.mu.Unlock()
		}
	}()
	s := ctx.Subscribe(topicName(t))
	e.mu.Lock()
	e.ids = append(e.ids, s.SubscriptionId())
	e.handles = append(e.handles, s)
	e.mu.Unlock()
}

type rActor struct {
	e    *renv
	idx  int
	inst int
}

func (a *rActor) OnReceive(ctx vivid.ActorContext) {
	e := a.e
	switch m := ctx.Message().(type) {
	case *vivid.OnLaunch:
		e.mu.Lock()
		ls := append([]int(nil), e.slots[a.idx].launch...)
		e.mu.Unlock()
		for _, t := range ls {
			e.subscribe(ctx, t)
		}
	case *vivid.OnTerminated:
		if m.TerminatedActor != nil && m.TerminatedActor.Equal(ctx.Ref()) {
			e.mu.Lock()
			w := e.slots[a.idx].will
			e.mu.Unlock()
			if w != nil {
				e.subscribe(ctx, *w)
			}
		}
	case *vivid.OnRestarting, *vivid.OnRestarted, *vivid.OnTerminate:
	case *cmd:
		m.do(ctx)
	case lpayload:
		e.mu.Lock()
		e.dl = append(e.dl, Dl{To: a.idx, Inst: a.inst, From: e.tok(ctx.Sender()), M: Msg{K: "user", T: m.T, V: m.V}})
		e.mu.Unlock()
	case *prc.ProcessId:
		d := Dl{To: a.idx, Inst: a.inst, From: e.tok(ctx.Sender()), M: Msg{K: "other", Ty: "ProcessId " + m.LogicalAddress}}
		var t int
		if _, err := fmt.Sscanf(m.LogicalAddress, "c10-pay-%d", &t); err == nil {
			if v, err := strconv.ParseInt(m.PhysicalAddress, 10, 64); err == nil {
				d.M = Msg{K: "user", T: t, V: v}
			}
		}
		e.mu.Lock()
		e.dl = append(e.dl, d)
		e.mu.Unlock()
	default:
		d := Dl{To: a.idx, Inst: a.inst, From: e.tok(ctx.Sender()), M: Msg{K: "other", Ty: fmt.Sprintf("%T", m)}}
		e.mu.Lock()
		e.dl = append(e.dl, d)
		e.mu.Unlock()
	}
}

type fenceActor struct{ e *renv }

func (a *fenceActor) OnReceive(ctx vivid.ActorContext) {
	if m, ok := ctx.Message().(*prc.ProcessId); ok && m.LogicalAddress == fenceTag {
		select {
		case a.e.fence <- m.PhysicalAddress:
		default:
		}
	}
}

func newREnv() (e *renv, err error) {
	defer func() {
		if r := recover(); r != nil {
			err = fmt.Errorf("%v", r)
		}
	}()
	e = &renv{tr: newTracker(), fence: make(chan string, 64)}
	vivid.VerifSetDefaultDispatcher(e.tr)
	quiet := silent.Provide()
	var contacts [2]contactProvider
	for i := 0; i < 2; i++ {
		contacts[i] = make(contactProvider, 4)
		cp := contacts[i]
		e.sys[i] = vivid.NewActorSystem(vivid.FunctionalActorSystemConfigurator(func(c *vivid.ActorSystemConfiguration) {
			c.WithLoggerProvider(log.FunctionalLoggerProvider(func() *log.Logger { return quiet }))
			c.WithShared("127.0.0.1:0")
			c.WithSubscriptionContactProviders(cp)
			c.WithName(fmt.Sprintf("c10n%d", i))
		}))
		e.sys[i].ActorOfF(func() vivid.Actor { return &fenceActor{e: e} }, func(d *vivid.ActorDescriptor) {
			d.WithName("fence")
			d.WithDispatcherProvider(vivid.FunctionalDispatcherProvider(func() dispatcher.Dispatcher { return e.tr }))
		})
	}
	if !e.tr.quiet(quietTimeout) {
		return e, fmt.Errorf("system start did not become quiet")
	}
	// open the link: both share-opened hooks must have registered the peer's subscription actor before the first step
	for i := 0; i < 2; i++ {
		if !e.doFence(i) {
			return e, fmt.Errorf("the link between the two systems did not come up")
		}
	}
	time.Sleep(20 * time.Millisecond) // the hooks run on the stream goroutines right after the stream is attached
	if !e.tr.quiet(quietTimeout) {
		return e, fmt.Errorf("link setup did not become quiet")
	}
	for i := 0; i < 2; i++ {
		if !e.doFence(i) {
			return e, fmt.Errorf("the link between the two systems did not come up")
		}
	}
	// the peer is announced a second time, by a contact provider (what the cluster package does when a node joins, in
	// addition to the share-opened hook): announcing a known peer again must change nothing
	for i := 0; i < 2; i++ {
		contacts[i] <- &vivid.SubscriptionContactEvent{Address: e.sys[1-i].PhysicalAddress()}
	}
	time.Sleep(20 * time.Millisecond)
	if !e.tr.quiet(quietTimeout) {
		return e, fmt.Errorf("the second announcement of the peers did not become quiet")
	}
	for i := 0; i < 2; i++ {
		if !e.doFence(i) {
			return e, fmt.Errorf("the link between the two systems did not survive the second announcement")
		}
	}
	return e, nil
}

type contactProvider chan *vivid.SubscriptionContactEvent

func (p contactProvider) ChangeNotify() <-chan *vivid.SubscriptionContactEvent { return p }

// doFence sends a fence from node `from` to the fence actor of the other node and waits for its arrival.
func (e *renv) doFence(from int) bool {
	e.fseq++
	id := strconv.Itoa(e.fseq)
	to := 1 - from
	e.sys[from].Tell(vivid.NewActorRef(e.sys[to].PhysicalAddress(), "/user/fence"), &prc.ProcessId{LogicalAddress: fenceTag, PhysicalAddress: id})
	deadline := time.After(quietTimeout)
	for {
		select {
		case got := <-e.fence:
			if got == id {
				return true
			}
		case <-deadline:
			return false
		}
	}
}

func (e *renv) shutdown() {
	for i := 0; i < 2; i++ {
		s := e.sys[i]
		if s == nil {
			continue
		}
		done := make(chan struct{})
		go func() {
			defer func() { _ = recover(); close(done) }()
			s.Shutdown(false)
		}()
		select {
		case <-done:
		case <-time.After(3 * time.Second):
		}
	}
}

func (e *renv) spawn(i int) {
	e.sys[nodeOf(i)].ActorOfF(func() vivid.Actor {
		e.mu.Lock()
		e.insts[i]++
		inst := e.insts[i]
		e.mu.Unlock()
		return &rActor{e: e, idx: i, inst: inst}
	}, func(d *vivid.ActorDescriptor) {
		d.WithName(actorName(i))
		d.WithSupervisionStrategyProvider(restartNow)
		d.WithDispatcherProvider(vivid.FunctionalDispatcherProvider(func() dispatcher.Dispatcher { return e.tr }))
	})
}

func (e *renv) setSlot(i int, will *int, launch []int) {
	e.mu.Lock()
	e.slots[i] = slot{will: will, launch: launch}
	e.mu.Unlock()
}

func (e *renv) take() (ids []uint64, dl []Dl, errs []string, timeout bool) {
	e.mu.Lock()
	defer e.mu.Unlock()
	ids, dl, errs, timeout = e.ids, e.dl, e.errs, e.timeout
	e.ids, e.dl, e.errs, e.timeout = nil, nil, nil, false
	sort.SliceStable(dl, func(i, j int) bool { return dl[i].To < dl[j].To })
	return
}

func (e *renv) step(o Op) (res Res) {
	defer func() {
		if r := recover(); r != nil {
			res = Res{K: "panic", Err: fmt.Sprint("panic in the harness goroutine: ", r)}
		}
	}()
	actorOK := func(i int) bool { return i >= 0 && i < nActors && e.isAlive(i) }
	node := nodeOf(o.A)
	tell := func(f func(ctx vivid.ActorContext)) { e.sys[node].Tell(e.refOf(o.A), &cmd{do: f}) }
	switch o.K {
	case "SP":
		if o.A < 0 || o.A >= nActors || e.isAlive(o.A) {
			return Res{K: "skip"}
		}
		e.setSlot(o.A, nil, o.Ls)
		e.spawn(o.A)
	case "S":
		if !actorOK(o.A) {
			return Res{K: "skip"}
		}
		tell(func(ctx vivid.ActorContext) { e.subscribe(ctx, o.T) })
	case "U":
		e.mu.Lock()
		var h vivid.Subscription
		if o.V >= 1 && int(o.V) <= len(e.handles) {
			h = e.handles[o.V-1]
		}
		e.mu.Unlock()
		if !actorOK(o.A) || h == nil {
			return Res{K: "skip"}
		}
		tell(func(ctx vivid.ActorContext) { ctx.UnSubscribe(h) })
	case "P":
		if o.A >= 0 && !actorOK(o.A) || o.A < -2 {
			return Res{K: "skip"}
		}
		n := o.N
		if n <= 0 {
			n = 1
		}
		pay := func(i int) vivid.Message {
			if o.Loc {
				return lpayload{T: o.T, V: o.V + int64(i)}
			}
			return rpayload(o.T, o.V+int64(i))
		}
		if o.A < 0 {
			for i := 0; i < n; i++ {
				e.sys[node].Publish(topicName(o.T), pay(i))
			}
		} else {
			tell(func(ctx vivid.ActorContext) {
				for i := 0; i < n; i++ {
					ctx.Publish(topicName(o.T), pay(i))
				}
			})
		}
	case "R":
		if !actorOK(o.A) {
			return Res{K: "skip"}
		}
		e.setSlot(o.A, o.W, o.Ls)
		tell(func(ctx vivid.ActorContext) { panic("c10: scripted failure") })
	case "X":
		if !actorOK(o.A) {
			return Res{K: "skip"}
		}
		e.setSlot(o.A, o.W, nil)
		tell(func(ctx vivid.ActorContext) { ctx.Terminate(ctx.Ref(), o.G) })
	default:
		panic("bad op " + o.K)
	}
	stuck := func(why string) Res {
		ids, dl, _, _ := e.take()
		if len(dl) > 40 {
			dl = dl[:40]
		}
		return Res{K: "stuck", Ids: ids, Dl: dl, Err: why}
	}
	if !e.tr.quiet(quietTimeout) {
		return stuck("the systems did not become quiescent within " + quietTimeout.String())
	}
	if !e.doFence(node) {
		return stuck("a message sent over the link after the step did not arrive within " + quietTimeout.String())
	}
	if !e.tr.quiet(quietTimeout) {
		return stuck("the systems did not become quiescent within " + quietTimeout.String())
	}
	if o.A >= 0 && o.A < nActors {
		e.setSlot(o.A, nil, nil)
	}
	ids, dl, errs, timeout := e.take()
	if timeout {
		return Res{K: "timeout", Ids: ids, Dl: dl, Err: strings.Join(errs, "; ")}
	}
	if len(errs) > 0 {
		return Res{K: "panic", Ids: ids, Dl: dl, Err: strings.Join(errs, "; ")}
	}
	return Res{K: "out", Ids: ids, Dl: dl}
}

func (d *driver) runRemoteOnce(c *RCase) {
	c.Impl = c.Impl[:0]
	e, err := newREnv()
	fill := func(r Res) {
		for len(c.Impl) < len(c.Ops) {
			c.Impl = append(c.Impl, r)
		}
	}
	if err != nil {
		fill(Res{K: "timeout", Err: err.Error()})
		if e != nil {
			go e.shutdown()
		}
		return
	}
	for _, o := range c.Ops {
		r := e.step(o)
		c.Impl = append(c.Impl, r)
		if r.K == "stuck" || r.K == "timeout" {
			fill(Res{K: "timeout", Err: "not run: an earlier step was lost"})
			break
		}
	}
	e.shutdown()
}

func (d *driver) runRemote(c *RCase) {
	d.runRemoteOnce(c)
	lostStep := func() bool {
		for _, r := range c.Impl {
			if r.K == "timeout" || r.K == "stuck" {
				return true
			}
		}
		return false
	}
	if lostStep() && d.lost < 5 {
		d.lost++
		d.runRemoteOnce(c) // ports, connection set-up and an overloaded machine must not look like a defect
	}
}

// ---------------------------------------------------------------- monitor

type rshadow struct {
	node, who, topic int
	id               uint64
	active           bool
	cause            string
	victim           bool // an UnSubscribe with a subscription of the OTHER node carried this (topic, id)
}

func rfrom(a int) string {
	switch a {
	case -1:
		return "guard0"
	case -2:
		return "guard1"
	}
	return actorName(a)
}

func monitorRemote(c *RCase) (viol []vh.Violation) {
	add := func(i int, kind, detail string, sig map[string]string) {
		if len(viol) < 4 {
			if sig == nil {
				sig = map[string]string{}
			}
			sig["op"] = c.Ops[i].K
			sig["config"] = "two-systems"
			viol = append(viol, vh.Violation{Kind: kind, Detail: fmt.Sprintf("step #%d %s: %s", i, opStr(c.Ops[i]), detail), Sig: sig})
		}
	}
	var subs []*rshadow
	seen := map[[2]uint64]bool{}
	alive := [nActors]bool{}
	for i, o := range c.Ops {
		if i >= len(c.Impl) {
			break
		}
		got := c.Impl[i]
		switch got.K {
		case "timeout":
			return
		case "stuck":
			add(i, "remote:step:no-quiescence", got.Err, nil)
			return
		case "panic":
			add(i, "remote:step:crash", got.Err, nil)
			return
		case "skip":
			continue
		}
		idx := 0
		take := func(topic, who int) {
			if idx >= len(got.Ids) {
				add(i, "remote:subscribe:no-subscription", fmt.Sprintf("Subscribe(%s) by %s returned nothing", topicName(topic), actorName(who)), nil)
				return
			}
			id := got.Ids[idx]
			idx++
			k := [2]uint64{uint64(nodeOf(who)), id}
			if seen[k] {
				add(i, "remote:subscribe:id-collision", fmt.Sprintf("subscription id %d was already handed out on node %d", id, nodeOf(who)), nil)
			}
			seen[k] = true
			subs = append(subs, &rshadow{node: nodeOf(who), who: who, topic: topic, id: id, active: true})
		}
		release := func(who int, cause string) {
			for _, s := range subs {
				if s.who == who && s.active {
					s.active, s.cause = false, cause
				}
			}
		}
		type want struct {
			to   int
			m    Msg
			from string
		}
		var wants []want
		switch o.K {
		case "SP":
			alive[o.A] = true
			for _, t := range o.Ls {
				take(t, o.A)
			}
		case "S":
			take(o.T, o.A)
		case "U":
			if o.V >= 1 && int(o.V) <= len(subs) {
				s := subs[o.V-1]
				if s.node == nodeOf(o.A) {
					if s.active {
						s.active, s.cause = false, "unsubscribe"
					}
				} else {
					// a subscription of the other node: the local subscription actor knows nothing about it; whatever the
					// call does, it must not cancel somebody else's subscription that carries the same number
					for _, x := range subs {
						if x.node == nodeOf(o.A) && x.id == s.id && x.topic == s.topic && x.active {
							x.victim = true
						}
					}
				}
			}
		case "R":
			if o.W != nil {
				take(*o.W, o.A)
			}
			release(o.A, "restart")
			for _, t := range o.Ls {
				take(t, o.A)
			}
		case "X":
			if o.W != nil {
				take(*o.W, o.A)
			}
			release(o.A, "terminate")
			alive[o.A] = false
		case "P":
			n := o.N
			if n <= 0 {
				n = 1
			}
			for k := 0; k < n; k++ {
				for _, s := range subs {
					if s.active && s.topic == o.T && alive[s.who] && (!o.Loc || nodeOf(s.who) == nodeOf(o.A)) {
						wants = append(wants, want{s.who, Msg{K: "user", T: o.T, V: o.V + int64(k)}, rfrom(o.A)})
					}
				}
			}
		}
		if idx < len(got.Ids) {
			add(i, "remote:subscribe:unexpected-subscription", fmt.Sprintf("ids %v returned, %d Subscribe calls made", got.Ids, idx), nil)
		}
		need, have := map[string]int{}, map[string]int{}
		for _, w := range wants {
			need[fmt.Sprintf("%d|%s", w.to, msgKey(w.m))]++
		}
		for _, d := range got.Dl {
			k := fmt.Sprintf("%d|%s", d.To, msgKey(d.M))
			have[k]++
			side := "same-node"
			if o.K == "P" && nodeOf(d.To) != nodeOf(o.A) {
				side = "other-node"
			}
			if need[k] == 0 {
				kind, sig := "remote:deliver:unexpected-message", map[string]string{"side": side}
				detail := fmt.Sprintf("%s#%d handled %s from %s, nothing of the kind was due", actorName(d.To), d.Inst, msgKey(d.M), d.From)
				if d.M.K == "user" {
					kind = "remote:publish:delivered-to-non-subscriber"
					for _, s := range subs {
						if s.who == d.To && s.topic == d.M.T && !s.active {
							kind, sig = "remote:publish:delivered-after-cancel", map[string]string{"cancelled_by": s.cause, "side": side}
							detail = fmt.Sprintf("%s#%d handled %s from %s although its subscription %d was cancelled (%s) before the publication", actorName(d.To), d.Inst, msgKey(d.M), d.From, s.id, s.cause)
						}
					}
				}
				add(i, kind, detail, sig)
				continue
			}
			for _, w := range wants {
				if w.to == d.To && msgKey(w.m) == msgKey(d.M) && w.from != d.From {
					add(i, "remote:publish:wrong-sender", fmt.Sprintf("%s handled %s with sender %s, the publisher is %s", actorName(d.To), msgKey(d.M), d.From, w.from), map[string]string{"side": side})
					break
				}
			}
		}
		for k, n := range need {
			var to int
			fmt.Sscanf(k, "%d|", &to)
			side := "same-node"
			if nodeOf(to) != nodeOf(o.A) {
				side = "other-node"
			}
			switch h := have[k]; {
			case h < n:
				kind := "remote:publish:lost"
				for _, s := range subs {
					if s.who == to && s.active && s.victim && s.topic == o.T {
						kind = "remote:unsubscribe:foreign-node-id-collision"
					}
				}
				add(i, kind, fmt.Sprintf("recipient|message %s: due %d time(s), handled %d time(s)", k, n, h), map[string]string{"side": side})
			case h > n:
				add(i, "remote:publish:duplicated", fmt.Sprintf("recipient|message %s: due %d time(s), handled %d time(s)", k, n, h), map[string]string{"side": side})
			}
		}
		if o.K == "P" {
			last := map[int]int64{}
			for _, d := range got.Dl {
				if d.M.K != "user" {
					continue
				}
				if v, ok := last[d.To]; ok && d.M.V < v {
					add(i, "remote:publish:reordered", fmt.Sprintf("%s handled publication %d after %d of the same publisher", actorName(d.To), d.M.V, v), nil)
				}
				last[d.To] = d.M.V
			}
		}
	}
	return
}

// ---------------------------------------------------------------- Coq terms (MV.C10.RemoteModel)

func coqRPub(a int) string {
	switch a {
	case -1:
		return "(QSys 0%nat)"
	case -2:
		return "(QSys 1%nat)"
	}
	return vh.App("QAct", vh.Nat(a))
}

func coqROp(o Op) string {
	switch o.K {
	case "SP":
		return vh.App("QSpawn", vh.Nat(o.A), coqTopics(o.Ls))
	case "S":
		return vh.App("QSub", vh.Nat(o.A), vh.Nat(o.T))
	case "U":
		k := o.V
		if k < 0 {
			k = 0
		}
		return vh.App("QUnsub", vh.Nat(o.A), vh.Nat(int(k)))
	case "P":
		n := o.N
		if n <= 0 {
			n = 1
		}
		if o.Loc {
			return vh.App("QPubL", coqRPub(o.A), vh.Nat(o.T), vh.Z(o.V))
		}
		return vh.App("QPubN", coqRPub(o.A), vh.Nat(o.T), vh.Z(o.V), vh.Nat(n))
	case "R":
		return vh.App("QRestart", vh.Nat(o.A), coqOptTopic(o.W), coqTopics(o.Ls))
	case "X":
		return vh.App("QTerm", vh.Nat(o.A), vh.Bool(o.G), coqOptTopic(o.W))
	}
	panic(o.K)
}

func coqRRef(s string) string {
	switch s {
	case "none":
		return "QNone"
	case "guard0":
		return "(QGuard 0%nat)"
	case "guard1":
		return "(QGuard 1%nat)"
	}
	var i int
	if _, err := fmt.Sscanf(s, "a%d", &i); err == nil {
		return vh.App("QRef", vh.Nat(i))
	}
	return "QOther"
}

func coqRRes(r Res) string {
	switch r.K {
	case "out":
		ids := make([]string, len(r.Ids))
		for i, id := range r.Ids {
			if id > 1<<20 {
				return "QBad"
			}
			ids[i] = vh.Nat(int(id))
		}
		dl := make([]string, len(r.Dl))
		for i, d := range r.Dl {
			if d.M.K != "user" {
				return "QBad"
			}
			dl[i] = "(" + vh.Nat(d.To) + ", " + vh.Nat(d.M.T) + ", " + vh.Z(d.M.V) + ", " + coqRRef(d.From) + ")"
		}
		return vh.App("QOut", vh.List(ids), vh.List(dl))
	case "skip":
		return "QSkip"
	}
	return "QBad"
}

func coqRCase(id int, c *RCase) string {
	ops := make([]string, len(c.Ops))
	for i, o := range c.Ops {
		ops[i] = coqROp(o)
	}
	rs := make([]string, len(c.Impl))
	for i, r := range c.Impl {
		rs[i] = coqRRes(r)
	}
	return fmt.Sprintf("{| qid := %d; qops := %s; qimpl := %s |}", id, vh.List(ops), vh.List(rs))
}

// ---------------------------------------------------------------- generator

func genRemote(rng *vh.RNG) (c RCase, malformed bool) {
	c.Remote = true
	alive := [nActors]bool{}
	type h struct{ node int }
	var handles []h
	var next int64 = 1
	topic := func() int {
		switch d := rng.Intn(10); {
		case d < 6:
			return 0
		case d < 9:
			return 1
		}
		return 3
	}
	launch := func() []int {
		var ls []int
		for n := rng.Intn(4); n > 1; n-- {
			ls = append(ls, topic())
		}
		return ls
	}
	pickAlive := func() int {
		var l []int
		for i, a := range alive {
			if a {
				l = append(l, i)
			}
		}
		if len(l) == 0 || rng.Chance(1, 25) {
			return rng.Intn(nActors)
		}
		return l[rng.Intn(len(l))]
	}
	emit := func(o Op) {
		c.Ops = append(c.Ops, o)
		grow := func(a, n int) {
			for i := 0; i < n; i++ {
				handles = append(handles, h{nodeOf(a)})
			}
		}
		switch o.K {
		case "SP":
			if !alive[o.A] {
				alive[o.A] = true
				grow(o.A, len(o.Ls))
			}
		case "S":
			if alive[o.A] {
				grow(o.A, 1)
			}
		case "R":
			if alive[o.A] {
				if o.W != nil {
					grow(o.A, 1)
				}
				grow(o.A, len(o.Ls))
			}
		case "X":
			if alive[o.A] {
				if o.W != nil {
					grow(o.A, 1)
				}
				alive[o.A] = false
			}
		}
	}
	for i := 0; i < nActors; i++ {
		if i%2 == 0 || rng.Chance(3, 4) {
			emit(Op{K: "SP", A: i, Ls: launch()})
		}
	}
	n := rng.Range(4, 24)
	for k := 0; k < n; k++ {
		switch d := rng.Intn(100); {
		case d < 26:
			emit(Op{K: "S", A: pickAlive(), T: topic()})
		case d < 38:
			a := pickAlive()
			v := int64(0)
			if len(handles) > 0 {
				// mostly a subscription of the caller's own node (own or another actor's); sometimes one of the other node
				var same, other []int
				for i, x := range handles {
					if x.node == nodeOf(a) {
						same = append(same, i+1)
					} else {
						other = append(other, i+1)
					}
				}
				switch {
				case len(other) > 0 && rng.Chance(1, 6):
					v = int64(other[rng.Intn(len(other))])
					malformed = true
				case len(same) > 0:
					v = int64(same[rng.Intn(len(same))])
				}
			}
			emit(Op{K: "U", A: a, V: v})
		case d < 72:
			o := Op{K: "P", A: pickAlive(), T: topic(), V: next}
			if rng.Chance(1, 5) {
				o.A = -1 - rng.Intn(2)
			}
			if rng.Chance(1, 3) {
				o.N = rng.Range(2, 4)
			} else if rng.Chance(1, 3) {
				o.Loc = true // a value that cannot travel: local subscribers only
			}
			if o.N > 0 {
				next += int64(o.N)
			} else {
				next++
			}
			emit(o)
		case d < 82:
			var w *int
			if rng.Chance(1, 5) {
				t := topic()
				w = &t
			}
			emit(Op{K: "R", A: pickAlive(), W: w, Ls: launch()})
		case d < 90:
			var w *int
			if rng.Chance(1, 5) {
				t := topic()
				w = &t
			}
			emit(Op{K: "X", A: pickAlive(), G: rng.Bool(), W: w})
		default:
			a := rng.Intn(nActors)
			for j := 0; j < nActors; j++ {
				if !alive[(a+j)%nActors] {
					a = (a + j) % nActors
					break
				}
			}
			emit(Op{K: "SP", A: a, Ls: launch()})
		}
	}
	emit(Op{K: "P", A: -1, T: 0, V: next})
	emit(Op{K: "P", A: -2, T: 1, V: next + 1})
	return c, malformed
}

func remoteCorpus() []RCase {
	return []RCase{
		// subscriptions on both nodes (one actor twice), publications from an actor of each node and from a system, bursts
		{Remote: true, Ops: []Op{{K: "SP", A: 0}, {K: "SP", A: 1}, {K: "SP", A: 2}, {K: "SP", A: 3}, {K: "S", A: 0, T: 0}, {K: "S", A: 2, T: 0}, {K: "S", A: 2, T: 0},
			{K: "P", A: 1, T: 0, V: 1, N: 3}, {K: "P", A: 3, T: 0, V: 4}, {K: "P", A: -1, T: 0, V: 5}, {K: "U", A: 2, V: 2}, {K: "P", A: 1, T: 0, V: 6, N: 2},
			{K: "R", A: 2, Ls: []int{1}}, {K: "P", A: 1, T: 0, V: 8}, {K: "P", A: 0, T: 1, V: 9}, {K: "X", A: 0}, {K: "P", A: 3, T: 0, V: 10}, {K: "P", A: 3, T: 7, V: 11}}},
		// a value that cannot travel, published on a linked node: the publisher's node still delivers it, the other node sees nothing
		{Remote: true, Ops: []Op{{K: "SP", A: 0}, {K: "SP", A: 1}, {K: "SP", A: 2}, {K: "S", A: 0, T: 0}, {K: "S", A: 1, T: 0}, {K: "S", A: 2, T: 0},
			{K: "P", A: 0, T: 0, V: 1}, {K: "P", A: 0, T: 0, V: 2, Loc: true}, {K: "P", A: -1, T: 0, V: 3, Loc: true}, {K: "P", A: 2, T: 0, V: 4, Loc: true}, {K: "P", A: 1, T: 0, V: 5}}},
		// the last handler of an instance subscribes: released on the remote side as well
		{Remote: true, Ops: []Op{{K: "SP", A: 0}, {K: "SP", A: 2}, {K: "S", A: 0, T: 0}, {K: "X", A: 2, W: ip(0)}, {K: "P", A: 0, T: 0, V: 1}, {K: "SP", A: 2}, {K: "P", A: 0, T: 0, V: 2}}},
		// ids are per node: a subscription of node 0 used in an UnSubscribe on node 1 must not cancel node 1's subscription number 1
		{Remote: true, Ops: []Op{{K: "SP", A: 0}, {K: "SP", A: 2}, {K: "SP", A: 3}, {K: "S", A: 0, T: 0}, {K: "S", A: 2, T: 0}, {K: "U", A: 3, V: 1}, {K: "P", A: 0, T: 0, V: 1}, {K: "P", A: 3, T: 0, V: 2}}},
	}
}

func recordRemote(out *vh.Out, d *driver, c *RCase, malformed bool) {
	d.runRemote(c)
	v := monitorRemote(c)
	cancels, nontrivial := 0, false
	for i, o := range c.Ops {
		out.Count("op_mix", o.K)
		if i >= len(c.Impl) || c.Impl[i].K != "out" {
			if i < len(c.Impl) {
				out.Count("step_result", c.Impl[i].K)
			}
			continue
		}
		switch o.K {
		case "U", "R", "X":
			cancels++
		case "P":
			n := o.N
			if n <= 0 {
				n = 1
			}
			fan := len(c.Impl[i].Dl) / n
			cross := 0
			for _, x := range c.Impl[i].Dl {
				if nodeOf(x.To) != nodeOf(o.A) {
					cross++
				}
			}
			out.Count("fan_out", fmt.Sprint(fan))
			out.Count("fan_out_other_node", fmt.Sprint(cross/n))
			if fan >= 2 && cross >= 1 && cancels >= 1 {
				nontrivial = true
			}
		}
	}
	out.Count("history_len", vh.Bucket(len(c.Ops)))
	if malformed {
		out.Malformed()
	}
	out.Add(c, coqRCase(out.N(), c), nontrivial, v)
}

func mainRemote(f vh.Flags, d *driver) {
	out := vh.NewOut(f.Out, "remote", "From MV Require Import Lib.ListX C10.SubModel C10.RemoteModel C10.RemoteRun.", "qcase", "qmismatches", f.Seed,
		"two REAL actor systems linked through sharing on 127.0.0.1 (ephemeral ports), actors 0,1 on node 0 and 2,3 on node 1; histories of "+
			"spawn/subscribe/unsubscribe(own, foreign, other node's)/publish(actor or either system, bursts of 1..4, protobuf payloads)/restart/terminate "+
			"driven sequentially, a fence message over the link + quiescence of both nodes after every step; non-trivial = a publication handled by >=2 "+
			"subscriptions of which >=1 on the other node after >=1 cancellation; distinct by hash of the history")
	rng := vh.NewRNG(f.Seed ^ 0x10c10)
	for _, c := range remoteCorpus() {
		c := c
		recordRemote(out, d, &c, false)
	}
	n := 150
	if f.Tier == "thorough" {
		n = 3000
	}
	if f.N != 0 {
		n = f.N
	}
	for i := 0; i < n; i++ {
		cr, _ := rng.Derive()
		c, mal := genRemote(cr)
		recordRemote(out, d, &c, mal)
	}
	out.Close()
}

func replayRemote(path string, d *driver) int {
	var c RCase
	vh.LoadReplayCase(path, &c)
	want := append([]Res(nil), c.Impl...)
	d.runRemote(&c)
	v := monitorRemote(&c)
	b, _ := json.Marshal(map[string]interface{}{"case": c, "recorded_impl": want, "monitor": v})
	fmt.Println(string(b))
	if len(v) > 0 {
		return 1
	}
	return 0
}
