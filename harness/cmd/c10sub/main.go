// c10sub: correspondence harness (T1) for vivid publish/subscribe (property C10) against MV.C10.SubModel.
//
// A REAL vivid.ActorSystem per case, 4 scripted actors (children of the guard, restarted at once by their
// supervision strategy), 3 topics (alpha, beta, vivid.AbyssTopic) plus topics nobody subscribes to.
// A case is a history of subscribe / unsubscribe / publish / tell / restart / fail / terminate / spawn driven
// SEQUENTIALLY: the harness sends a command to the acting actor, the actor performs the API call inside its own
// handler (Subscribe blocks there on a future answered by the subscription actor), and the harness waits for
// quiescence — every mailbox runner of every actor (the scripted ones, the guard and the subscription actor, all
// under a tracking dispatcher; the default dispatcher is replaced through the verif hook) has finished —
// before the next command. Every scripted actor records each user message it handles (payload, sender).
package main

import (
	"encoding/json"
	"flag"
	"fmt"
	"io"
	"log/slog"
	"os"
	"sort"
	"strings"
	"sync"
	"sync/atomic"
	"time"

	"github.com/kercylan98/minotaur/engine/prc"
	"github.com/kercylan98/minotaur/engine/vivid"
	"github.com/kercylan98/minotaur/engine/vivid/dispatcher"
	"github.com/kercylan98/minotaur/engine/vivid/supervision"
	"github.com/kercylan98/minotaur/toolkit/log"
	"verif/harness/vh"
)

// ---------------------------------------------------------------- case format

const nActors = 4
const abyssTopic = 2

type Op struct {
	K   string `json:"k"`             // SP spawn | S subscribe | U unsubscribe | P publish | T tell | R restart | F failing call | X terminate
	//                                   ST = subscribe while the subscription actor is busy for longer than the 1 s ask timeout (open finding, flag -timeoutleak)
	A   int    `json:"a"`             // acting actor 0..3; -1 = the system (P, T only)
	T   int    `json:"t,omitempty"`   // S, P: topic index; T: target actor
	V   int64  `json:"v,omitempty"`   // P, T: payload value; U: subscription id (position in the order of return, 1-based)
	N   int    `json:"n,omitempty"`   // P: number of publications in the one handler (values V, V+1, ...), 0 = 1
	Ask bool   `json:"ask,omitempty"` // T: Ask (sender shown) instead of Tell
	G   bool   `json:"g,omitempty"`   // X: graceful
	W   *int   `json:"w,omitempty"`   // R, X: topic the OLD instance subscribes to inside its last handler OnTerminated(self)
	Ls  []int  `json:"ls,omitempty"`  // SP, R, F: topics the NEW instance subscribes to in OnLaunch
	Fk  string `json:"fk,omitempty"`  // F: "empty" = Subscribe(""), "nil" = UnSubscribe(nil)
	Via int    `json:"via,omitempty"` // ST: topic of the publication during whose fan-out the subscription actor is stalled
	Loc bool   `json:"loc,omitempty"` // P (two-node family only): the payload is NOT a network message (a plain Go value the codec cannot encode)
}

type Msg struct {
	K   string `json:"k"` // user | direct | dead | wrapped | other
	T   int    `json:"t,omitempty"`
	V   int64  `json:"v,omitempty"`
	Snd string `json:"snd,omitempty"` // dead: original sender
	Rcv string `json:"rcv,omitempty"` // dead: original receiver
	In  *Msg   `json:"in,omitempty"`  // dead: the lost message; wrapped: content of the envelope
	Ty  string `json:"ty,omitempty"`  // other: Go type
}

type Dl struct {
	To   int    `json:"to"`
	Inst int    `json:"inst"` // incarnation of the recipient that handled it (not compared with the model)
	M    Msg    `json:"m"`
	From string `json:"from"` // none | guard | a0..a3 | other
}

type Res struct {
	K   string   `json:"k"` // out | skip | timeout | panic | stuck
	Ids []uint64 `json:"ids,omitempty"`
	Dl  []Dl     `json:"dl,omitempty"`
	Err string   `json:"err,omitempty"`
}

type Case struct {
	Ops  []Op  `json:"ops"`
	Impl []Res `json:"impl"`
}

func topicName(t int) string {
	switch t {
	case 0:
		return "alpha"
	case 1:
		return "beta"
	case abyssTopic:
		return vivid.AbyssTopic
	}
	return fmt.Sprintf("nobody%d", t)
}

// ---------------------------------------------------------------- tracking dispatcher

type tracker struct {
	mu     sync.Mutex
	cond   *sync.Cond
	active int
}

func newTracker() *tracker { t := &tracker{}; t.cond = sync.NewCond(&t.mu); return t }

func (t *tracker) Dispatch(f func()) {
	t.mu.Lock()
	t.active++
	t.mu.Unlock()
	go func() {
		defer func() { t.mu.Lock(); t.active--; t.cond.Broadcast(); t.mu.Unlock() }()
		f()
	}()
}

// quiet waits until no mailbox runner is active; false on timeout.
func (t *tracker) quiet(d time.Duration) bool {
	deadline := time.Now().Add(d)
	t.mu.Lock()
	defer t.mu.Unlock()
	for t.active != 0 {
		if time.Now().After(deadline) {
			return false
		}
		tm := time.AfterFunc(5*time.Millisecond, func() { t.mu.Lock(); t.cond.Broadcast(); t.mu.Unlock() })
		t.cond.Wait()
		tm.Stop()
	}
	return true
}

var _ dispatcher.Dispatcher = (*tracker)(nil)

// ---------------------------------------------------------------- messages and actors

type payload struct {
	T int
	V int64
}
type direct struct{ V int64 }
type cmd struct {
	do func(ctx vivid.ActorContext)
}

type slot struct { // what the instances of actor i do in their lifecycle handlers during the current step
	will   *int
	launch []int
}

type env struct {
	mu      sync.Mutex
	sys     *vivid.ActorSystem
	tr      *tracker
	slots   [nActors]slot
	insts   [nActors]int
	ids     []uint64
	handles []vivid.Subscription
	dl      []Dl
	errs    []string
	timeout bool
	stall   atomic.Int64 // nanoseconds the next Logger() call of the system sleeps (0 = not armed)
}

func actorName(i int) string { return fmt.Sprintf("a%d", i) }

func (e *env) tok(r vivid.ActorRef) string {
	if r == nil {
		return "none"
	}
	la := r.GetLogicalAddress()
	if la == "/user" {
		return "guard"
	}
	for i := 0; i < nActors; i++ {
		if la == "/user/"+actorName(i) {
			return actorName(i)
		}
	}
	return "other"
}

func (e *env) refOf(i int) vivid.ActorRef {
	return vivid.NewActorRef(e.sys.PhysicalAddress(), "/user/"+actorName(i)) // a fresh reference: no cached process
}

func (e *env) isAlive(i int) bool {
	rc := e.sys.VerifResourceController()
	return rc.GetProcess(e.refOf(i)) != rc.GetProcess(e.sys.Abyss())
}

// subscribe performs ctx.Subscribe and records the subscription; a panic of Subscribe (ask timeout on an
// overloaded machine) is recorded, the step is then repeated on a fresh system by the driver.
func (e *env) subscribe(ctx vivid.ActorContext, t int) {
	defer func() {
		if r := recover(); r != nil {
			e.mu.Lock()
			e.errs = append(e.errs, fmt.Sprint("Subscribe panicked: ", r))
			if strings.Contains(fmt.Sprint(r), "timeout") {
				e.timeout = true
			}
			e.mu.Unlock()
		}
	}()
	s := ctx.Subscribe(topicName(t))
	e.mu.Lock()
	e.ids = append(e.ids, s.SubscriptionId())
	e.handles = append(e.handles, s)
	e.mu.Unlock()
}

func (e *env) classify(m vivid.Message, depth int) Msg {
	switch x := m.(type) {
	case *payload:
		return Msg{K: "user", T: x.T, V: x.V}
	case *direct:
		return Msg{K: "direct", V: x.V}
	case *vivid.OnAbyssMessageEvent:
		in := Msg{K: "other", Ty: "too deep"}
		if depth < 6 {
			in = e.classify(x.Message, depth+1)
		}
		return Msg{K: "dead", Snd: e.tok(x.Sender), Rcv: e.tok(x.Receiver), In: &in}
	case *prc.MessageWrapper:
		in := Msg{K: "other", Ty: "too deep"}
		if depth < 6 {
			in = e.classify(x.Message, depth+1)
		}
		return Msg{K: "wrapped", In: &in}
	}
	return Msg{K: "other", Ty: fmt.Sprintf("%T", m)}
}

type scriptActor struct {
	e    *env
	idx  int
	inst int
}

func (a *scriptActor) OnReceive(ctx vivid.ActorContext) {
	e := a.e
	switch m := ctx.Message().(type) {
	case *vivid.OnLaunch:
		e.mu.Lock()
		ls := append([]int(nil), e.slots[a.idx].launch...)
		e.mu.Unlock()
		for _, t := range ls {
			e.subscribe(ctx, t)
		}
	case *vivid.OnTerminated:
		if m.TerminatedActor != nil && m.TerminatedActor.Equal(ctx.Ref()) {
			e.mu.Lock()
			w := e.slots[a.idx].will
			e.mu.Unlock()
			if w != nil {
				e.subscribe(ctx, *w)
			}
		}
	case *vivid.OnRestarting, *vivid.OnRestarted, *vivid.OnTerminate:
	case *cmd:
		m.do(ctx)
	default:
		d := Dl{To: a.idx, Inst: a.inst, M: e.classify(m, 0), From: e.tok(ctx.Sender())}
		e.mu.Lock()
		e.dl = append(e.dl, d)
		e.mu.Unlock()
	}
}

var silent = log.FunctionalLoggerProvider(func() *log.Logger {
	return slog.New(slog.NewTextHandler(io.Discard, &slog.HandlerOptions{Level: slog.Level(100)}))
})

var restartNow = supervision.FunctionalStrategyProvider(func() supervision.Strategy {
	return supervision.FunctionalStrategy(func(record *supervision.AccidentRecord) {
		record.Supervisor.Restart(record.Victim)
	})
})

func (e *env) spawn(i int) {
	e.sys.ActorOfF(func() vivid.Actor {
		e.mu.Lock()
		e.insts[i]++
		inst := e.insts[i]
		e.mu.Unlock()
		return &scriptActor{e: e, idx: i, inst: inst}
	}, func(d *vivid.ActorDescriptor) {
		d.WithName(actorName(i))
		d.WithSupervisionStrategyProvider(restartNow)
		d.WithDispatcherProvider(vivid.FunctionalDispatcherProvider(func() dispatcher.Dispatcher { return e.tr }))
	})
}

// ---------------------------------------------------------------- driver

const quietTimeout = 6 * time.Second

type driver struct {
	stuck int // cases that did not reach quiescence (each costs quietTimeout)
	lost  int
}

func newEnv() (e *env, err error) {
	defer func() {
		if r := recover(); r != nil {
			err = fmt.Errorf("%v", r)
		}
	}()
	e = &env{tr: newTracker()}
	vivid.VerifSetDefaultDispatcher(e.tr)
	quiet := silent.Provide()
	e.sys = vivid.NewActorSystem(vivid.FunctionalActorSystemConfigurator(func(c *vivid.ActorSystemConfiguration) {
		// the only way to keep the subscription actor busy from outside: it fetches the logger once per subscription
		// it delivers to (Debug line of the fan-out loop); an armed stall makes that call slow, once
		c.WithLoggerProvider(log.FunctionalLoggerProvider(func() *log.Logger {
			if d := e.stall.Swap(0); d > 0 {
				time.Sleep(time.Duration(d))
			}
			return quiet
		}))
	}))
	if !e.tr.quiet(quietTimeout) {
		return e, fmt.Errorf("system start did not become quiet")
	}
	return e, nil
}

func (e *env) shutdown() {
	done := make(chan struct{})
	go func() {
		defer func() { _ = recover(); close(done) }()
		e.sys.Shutdown(false)
	}()
	select {
	case <-done:
	case <-time.After(3 * time.Second):
	}
}

func (e *env) take() (ids []uint64, dl []Dl, errs []string, timeout bool) {
	e.mu.Lock()
	defer e.mu.Unlock()
	ids, dl, errs, timeout = e.ids, e.dl, e.errs, e.timeout
	e.ids, e.dl, e.errs, e.timeout = nil, nil, nil, false
	sort.SliceStable(dl, func(i, j int) bool { return dl[i].To < dl[j].To })
	return
}

func (e *env) setSlot(i int, will *int, launch []int) {
	e.mu.Lock()
	e.slots[i] = slot{will: will, launch: launch}
	e.mu.Unlock()
}

// step performs one operation and waits for quiescence.
func (e *env) step(o Op) (res Res) {
	defer func() {
		if r := recover(); r != nil {
			res = Res{K: "panic", Err: fmt.Sprint("panic in the harness goroutine: ", r)}
		}
	}()
	actorOK := func(i int) bool { return i >= 0 && i < nActors && e.isAlive(i) }
	senderOK := o.A == -1 || actorOK(o.A)
	tell := func(f func(ctx vivid.ActorContext)) { e.sys.Tell(e.refOf(o.A), &cmd{do: f}) }
	switch o.K {
	case "SP":
		if o.A < 0 || o.A >= nActors || e.isAlive(o.A) {
			return Res{K: "skip"}
		}
		e.setSlot(o.A, nil, o.Ls)
		e.spawn(o.A)
	case "S":
		if !actorOK(o.A) {
			return Res{K: "skip"}
		}
		tell(func(ctx vivid.ActorContext) { e.subscribe(ctx, o.T) })
	case "U":
		e.mu.Lock()
		var h vivid.Subscription
		if o.V >= 1 && int(o.V) <= len(e.handles) {
			h = e.handles[o.V-1]
		}
		e.mu.Unlock()
		if !actorOK(o.A) || h == nil {
			return Res{K: "skip"}
		}
		tell(func(ctx vivid.ActorContext) { ctx.UnSubscribe(h) })
	case "P":
		if !senderOK {
			return Res{K: "skip"}
		}
		n := o.N
		if n <= 0 {
			n = 1
		}
		if o.A == -1 {
			for i := 0; i < n; i++ {
				e.sys.Publish(topicName(o.T), &payload{T: o.T, V: o.V + int64(i)})
			}
		} else {
			tell(func(ctx vivid.ActorContext) {
				for i := 0; i < n; i++ {
					ctx.Publish(topicName(o.T), &payload{T: o.T, V: o.V + int64(i)})
				}
			})
		}
	case "T":
		if !senderOK || o.T < 0 || o.T >= nActors {
			return Res{K: "skip"}
		}
		target := e.refOf(o.T)
		switch {
		case o.A == -1 && o.Ask:
			e.sys.Ask(target, &direct{V: o.V})
		case o.A == -1:
			e.sys.Tell(target, &direct{V: o.V})
		case o.Ask:
			tell(func(ctx vivid.ActorContext) { ctx.Ask(target, &direct{V: o.V}) })
		default:
			tell(func(ctx vivid.ActorContext) { ctx.Tell(target, &direct{V: o.V}) })
		}
	case "R":
		if !actorOK(o.A) {
			return Res{K: "skip"}
		}
		e.setSlot(o.A, o.W, o.Ls)
		tell(func(ctx vivid.ActorContext) { panic("c10: scripted failure") })
	case "F":
		if !actorOK(o.A) {
			return Res{K: "skip"}
		}
		e.setSlot(o.A, nil, o.Ls)
		if o.Fk == "nil" {
			tell(func(ctx vivid.ActorContext) { ctx.UnSubscribe(nil) })
		} else {
			tell(func(ctx vivid.ActorContext) { ctx.Subscribe("") })
		}
	case "ST":
		if !actorOK(o.A) {
			return Res{K: "skip"}
		}
		e.stall.Store(int64(1300 * time.Millisecond))
		e.sys.Publish(topicName(o.Via), &payload{T: o.Via, V: o.V})
		for i := 0; i < 400 && e.stall.Load() != 0; i++ { // wait until the subscription actor is inside the slow call
			time.Sleep(time.Millisecond)
		}
		e.stall.Store(0)
		tell(func(ctx vivid.ActorContext) {
			defer func() {
				if r := recover(); r != nil {
					e.mu.Lock()
					e.errs = append(e.errs, fmt.Sprint("Subscribe panicked: ", r))
					e.mu.Unlock()
					panic(r) // as without the harness: the handler fails, the supervisor restarts the actor
				}
			}()
			s := ctx.Subscribe(topicName(o.T))
			e.mu.Lock()
			e.ids = append(e.ids, s.SubscriptionId())
			e.handles = append(e.handles, s)
			e.mu.Unlock()
		})
	case "X":
		if !actorOK(o.A) {
			return Res{K: "skip"}
		}
		e.setSlot(o.A, o.W, nil)
		tell(func(ctx vivid.ActorContext) { ctx.Terminate(ctx.Ref(), o.G) })
	default:
		panic("bad op " + o.K)
	}
	if !e.tr.quiet(quietTimeout) {
		ids, dl, _, _ := e.take()
		if len(dl) > 40 {
			dl = dl[:40]
		}
		return Res{K: "stuck", Ids: ids, Dl: dl, Err: "the system did not become quiescent within " + quietTimeout.String()}
	}
	if o.A >= 0 && o.A < nActors {
		e.setSlot(o.A, nil, nil)
	}
	ids, dl, errs, timeout := e.take()
	if o.K == "ST" {
		return Res{K: "out", Ids: ids, Dl: dl, Err: strings.Join(errs, "; ")}
	}
	if timeout {
		return Res{K: "timeout", Ids: ids, Dl: dl, Err: strings.Join(errs, "; ")}
	}
	if len(errs) > 0 {
		return Res{K: "panic", Ids: ids, Dl: dl, Err: strings.Join(errs, "; ")}
	}
	return Res{K: "out", Ids: ids, Dl: dl}
}

func (d *driver) runOnce(c *Case) {
	c.Impl = c.Impl[:0]
	e, err := newEnv()
	fill := func(r Res) {
		for len(c.Impl) < len(c.Ops) {
			c.Impl = append(c.Impl, r)
		}
	}
	if err != nil {
		fill(Res{K: "timeout", Err: err.Error()})
		if e != nil && e.sys != nil {
			go e.shutdown()
		}
		return
	}
	for _, o := range c.Ops {
		r := e.step(o)
		c.Impl = append(c.Impl, r)
		if r.K == "stuck" || r.K == "timeout" {
			fill(Res{K: "timeout", Err: "not run: an earlier step was lost"})
			break
		}
	}
	e.shutdown()
}

func lost(c *Case) (timeout, stuck bool) {
	for _, r := range c.Impl {
		if r.K == "timeout" {
			timeout = true
		}
		if r.K == "stuck" {
			stuck = true
		}
	}
	return
}

func (d *driver) runImpl(c *Case) {
	d.runOnce(c)
	if to, st := lost(c); to && !st && d.lost < 5 {
		d.lost++
		d.runOnce(c) // an overloaded machine must not look like a defect: once more on a fresh system
	}
	if _, st := lost(c); st {
		d.stuck++
	}
}

// ---------------------------------------------------------------- monitor (brute-force restatement of the property)

type shadowSub struct {
	id     uint64
	topic  int
	who    int
	active bool
	cause  string // how it was cancelled
}

func from(a int) string {
	if a == -1 {
		return "guard"
	}
	return actorName(a)
}

func msgKey(m Msg) string {
	b, _ := json.Marshal(m)
	return string(b)
}

func monitor(c *Case) (viol []vh.Violation) {
	add := func(i int, kind, detail string, sig map[string]string) {
		if len(viol) < 4 {
			if sig == nil {
				sig = map[string]string{}
			}
			sig["op"] = c.Ops[i].K
			viol = append(viol, vh.Violation{Kind: kind, Detail: fmt.Sprintf("step #%d %+v: %s", i, opStr(c.Ops[i]), detail), Sig: sig})
		}
	}
	var subs []*shadowSub
	orphan := map[[2]int]bool{} // (actor, topic): a Subscribe that failed in the caller with an ask timeout
	seen := map[uint64]bool{}
	alive := [nActors]bool{}
	type want struct {
		to   int
		m    Msg
		from string
	}
	for i, o := range c.Ops {
		if i >= len(c.Impl) {
			break
		}
		got := c.Impl[i]
		switch got.K {
		case "timeout":
			return // a lost step says nothing about the property (it reaches the model as OBad)
		case "stuck":
			add(i, "sub:step:no-quiescence", got.Err+fmt.Sprintf(" (first messages handled meanwhile: %d)", len(got.Dl)), nil)
			return
		case "panic":
			add(i, "sub:step:crash", got.Err, nil)
			return
		case "skip":
			continue
		}
		// subscriptions established in this step: ids fresh
		idx := 0
		take := func(topic, who int) *shadowSub {
			if idx >= len(got.Ids) {
				add(i, "sub:subscribe:no-subscription", fmt.Sprintf("Subscribe(%s) by %s returned nothing", topicName(topic), actorName(who)), nil)
				return nil
			}
			id := got.Ids[idx]
			idx++
			if seen[id] {
				add(i, "sub:subscribe:id-collision", fmt.Sprintf("subscription id %d was already handed out", id), nil)
			}
			seen[id] = true
			s := &shadowSub{id: id, topic: topic, who: who, active: true}
			subs = append(subs, s)
			return s
		}
		release := func(who int, cause string) {
			for _, s := range subs {
				if s.who == who && s.active {
					s.active, s.cause = false, cause
				}
			}
		}
		var wants []want
		ordered := false
		switch o.K {
		case "SP":
			alive[o.A] = true
			for _, t := range o.Ls {
				take(t, o.A)
			}
		case "S":
			take(o.T, o.A)
		case "U":
			if o.V >= 1 && int(o.V) <= len(subs) {
				if s := subs[o.V-1]; s.active {
					s.active, s.cause = false, "unsubscribe"
				}
			}
		case "R", "F":
			if o.K == "R" && o.W != nil {
				take(*o.W, o.A)
			}
			release(o.A, "restart")
			for _, t := range o.Ls {
				take(t, o.A)
			}
		case "X":
			if o.W != nil {
				take(*o.W, o.A)
			}
			release(o.A, "terminate")
			alive[o.A] = false
		case "ST":
			for _, s := range subs { // the publication that keeps the subscription actor busy is an ordinary one
				if s.active && s.topic == o.Via && alive[s.who] {
					wants = append(wants, want{s.who, Msg{K: "user", T: o.Via, V: o.V}, "guard"})
				}
			}
			if len(got.Ids) > 0 {
				take(o.T, o.A)
			} else { // Subscribe failed in the caller: ask timeout => panic => the actor was restarted
				release(o.A, "restart")
				orphan[[2]int{o.A, o.T}] = true
			}
		case "P":
			n := o.N
			if n <= 0 {
				n = 1
			}
			ordered = true
			for k := 0; k < n; k++ {
				for _, s := range subs {
					if s.active && s.topic == o.T && alive[s.who] {
						wants = append(wants, want{s.who, Msg{K: "user", T: o.T, V: o.V + int64(k)}, from(o.A)})
					}
				}
			}
		case "T":
			snd := "none"
			if o.Ask {
				snd = from(o.A)
			}
			if alive[o.T] {
				wants = append(wants, want{o.T, Msg{K: "direct", V: o.V}, snd})
			} else {
				for _, s := range subs {
					if s.active && s.topic == abyssTopic && alive[s.who] {
						wants = append(wants, want{s.who, Msg{K: "dead", Snd: snd, Rcv: actorName(o.T), In: &Msg{K: "direct", V: o.V}}, "guard"})
					}
				}
			}
		}
		if idx < len(got.Ids) {
			add(i, "sub:subscribe:unexpected-subscription", fmt.Sprintf("ids %v returned, %d Subscribe calls made", got.Ids, idx), nil)
		}
		// exactly once per (publication, subscription); nobody else; sender; order
		need := map[string]int{}
		for _, w := range wants {
			need[fmt.Sprintf("%d|%s", w.to, msgKey(w.m))]++
		}
		have := map[string]int{}
		for _, d := range got.Dl {
			if d.M.K == "dead" && d.M.In != nil && d.M.In.K == "wrapped" && d.M.In.In != nil {
				add(i, "abyss:event:envelope-instead-of-message", fmt.Sprintf("%s handled a dead-letter event whose Message is the *prc.MessageWrapper envelope, not the lost message: %s", actorName(d.To), msgKey(d.M)), nil)
				d.M.In = d.M.In.In // judge the rest as if the content had been passed on
			}
			k := fmt.Sprintf("%d|%s", d.To, msgKey(d.M))
			have[k]++
			if need[k] == 0 {
				// not expected at all: classify
				kind, sig := "sub:deliver:unexpected-message", map[string]string{}
				detail := fmt.Sprintf("%s#%d handled %s from %s, nothing of the kind was due", actorName(d.To), d.Inst, msgKey(d.M), d.From)
				if d.M.K == "user" {
					kind = "sub:publish:delivered-to-non-subscriber"
					for _, s := range subs {
						if s.who == d.To && s.topic == d.M.T && !s.active {
							kind, sig = "sub:publish:delivered-after-cancel", map[string]string{"cancelled_by": s.cause}
							detail = fmt.Sprintf("%s#%d handled %s from %s although its subscription %d was cancelled (%s) before the publication", actorName(d.To), d.Inst, msgKey(d.M), d.From, s.id, s.cause)
						}
					}
					if o.K == "P" && d.M.T != o.T {
						kind = "sub:publish:wrong-topic"
					}
					if orphan[[2]int{d.To, d.M.T}] && kind == "sub:publish:delivered-to-non-subscriber" {
						kind, sig = "sub:subscribe:timeout-leaves-subscription", map[string]string{"cause": "ask-timeout"}
						detail = fmt.Sprintf("%s#%d handled %s from %s: its Subscribe(%s) had failed with an ask timeout (the actor was restarted), the request was registered afterwards", actorName(d.To), d.Inst, msgKey(d.M), d.From, topicName(d.M.T))
					}
				}
				if d.M.K == "dead" && d.M.In != nil && d.M.In.K == "dead" {
					kind = "abyss:event:dead-letter-of-dead-letter-published"
				}
				add(i, kind, detail, sig)
				continue
			}
			for _, w := range wants {
				if w.to == d.To && msgKey(w.m) == msgKey(d.M) && w.from != d.From {
					add(i, "sub:publish:wrong-sender", fmt.Sprintf("%s handled %s with sender %s, the publisher is %s", actorName(d.To), msgKey(d.M), d.From, w.from), nil)
					break
				}
			}
		}
		for k, n := range need {
			switch h := have[k]; {
			case h < n:
				kind := "sub:publish:lost"
				if o.K == "T" {
					kind = "sub:tell:lost"
					if !alive[o.T] {
						kind = "abyss:dead-letter:not-published"
					}
				}
				add(i, kind, fmt.Sprintf("recipient|message %s: due %d time(s), handled %d time(s)", k, n, h), nil)
			case h > n:
				add(i, "sub:publish:duplicated", fmt.Sprintf("recipient|message %s: due %d time(s), handled %d time(s)", k, n, h), nil)
			}
		}
		if ordered {
			last := map[int]int64{}
			for _, d := range got.Dl {
				if d.M.K != "user" {
					continue
				}
				if v, ok := last[d.To]; ok && d.M.V < v {
					add(i, "sub:publish:reordered", fmt.Sprintf("%s handled publication %d after %d of the same publisher", actorName(d.To), d.M.V, v), nil)
				}
				last[d.To] = d.M.V
			}
		}
	}
	return
}

func opStr(o Op) string {
	b, _ := json.Marshal(o)
	return string(b)
}

// ---------------------------------------------------------------- Coq terms

func coqTopics(ts []int) string {
	it := make([]string, len(ts))
	for i, t := range ts {
		it[i] = vh.Nat(t)
	}
	return vh.List(it)
}
func coqOptTopic(w *int) string {
	if w == nil {
		return "None"
	}
	return vh.Some(vh.Nat(*w))
}
func coqPubr(a int) string {
	if a == -1 {
		return "PSys"
	}
	return vh.App("PAct", vh.Nat(a))
}

// one harness op = one or several model ops (a burst of n publications = n OPub)
func coqOps(o Op) []string {
	switch o.K {
	case "SP":
		return []string{vh.App("OSpawn", vh.Nat(o.A), coqTopics(o.Ls))}
	case "S":
		return []string{vh.App("OSub", vh.Nat(o.A), vh.Nat(o.T))}
	case "U":
		k := o.V
		if k < 0 {
			k = 0
		}
		return []string{vh.App("OUnsub", vh.Nat(o.A), vh.Nat(int(k)))}
	case "P":
		n := o.N
		if n <= 0 {
			n = 1
		}
		return []string{vh.App("OPubN", coqPubr(o.A), vh.Nat(o.T), vh.Z(o.V), vh.Nat(n))}
	case "T":
		return []string{vh.App("OTell", coqPubr(o.A), vh.Bool(o.Ask), vh.Nat(o.T), vh.Z(o.V))}
	case "R":
		return []string{vh.App("ORestart", vh.Nat(o.A), coqOptTopic(o.W), coqTopics(o.Ls))}
	case "F":
		return []string{vh.App("OFail", vh.Nat(o.A), coqTopics(o.Ls))}
	case "X":
		return []string{vh.App("OTerm", vh.Nat(o.A), vh.Bool(o.G), coqOptTopic(o.W))}
	}
	panic(o.K)
}

func coqRef(s string) string {
	switch s {
	case "none":
		return "RNone"
	case "guard":
		return "RGuard"
	case "other":
		return "ROther"
	}
	var i int
	if _, err := fmt.Sscanf(s, "a%d", &i); err == nil {
		return vh.App("RAct", vh.Nat(i))
	}
	return "ROther"
}

func coqMsg(m Msg) string {
	switch m.K {
	case "user":
		return vh.App("MUser", vh.Nat(m.T), vh.Z(m.V))
	case "direct":
		return vh.App("MDirect", vh.Z(m.V))
	case "dead":
		if m.In != nil {
			return vh.App("MDead", coqRef(m.Snd), coqRef(m.Rcv), coqMsg(*m.In))
		}
	}
	return "MBad"
}

func coqRes(r Res) string {
	switch r.K {
	case "out":
		ids := make([]string, len(r.Ids))
		for i, id := range r.Ids {
			if id > 1<<20 {
				return "OBad"
			}
			ids[i] = vh.Nat(int(id))
		}
		dl := make([]string, len(r.Dl))
		for i, d := range r.Dl {
			dl[i] = "(" + vh.Nat(d.To) + ", " + coqMsg(d.M) + ", " + coqRef(d.From) + ")"
		}
		return vh.App("OOut", vh.List(ids), vh.List(dl))
	case "skip":
		return "OSkip"
	}
	return "OBad"
}

func coqCase(id int, c *Case) string {
	var ops []string
	for _, o := range c.Ops {
		if o.K == "ST" {
			return "" // timeouts are outside the model (open finding): monitors only
		}
		ops = append(ops, coqOps(o)...)
	}
	rs := make([]string, len(c.Impl))
	for i, r := range c.Impl {
		rs[i] = coqRes(r)
	}
	return fmt.Sprintf("{| cid := %d; cops := %s; cimpl := %s |}", id, vh.List(ops), vh.List(rs))
}

// ---------------------------------------------------------------- generators

func pickTopic(rng *vh.RNG) int {
	switch d := rng.Intn(100); {
	case d < 45:
		return 0
	case d < 80:
		return 1
	case d < 93:
		return abyssTopic
	}
	return 3 + rng.Intn(2)
}

func genLaunch(rng *vh.RNG) []int {
	var ls []int
	for n := rng.Intn(7); n > 4; n-- { // 0 (5/7), 1, 2 subscriptions
		ls = append(ls, pickTopic(rng))
	}
	if rng.Chance(2, 5) {
		ls = append(ls, rng.Intn(2))
	}
	return ls
}

func genWill(rng *vh.RNG) *int {
	if rng.Chance(1, 6) {
		t := pickTopic(rng)
		return &t
	}
	return nil
}

func genCase(rng *vh.RNG) (c Case, malformed bool) {
	alive := [nActors]bool{}
	nsub := 0
	var next int64 = 1
	pickAlive := func() int {
		var l []int
		for i, a := range alive {
			if a {
				l = append(l, i)
			}
		}
		if len(l) == 0 || rng.Chance(1, 25) {
			return rng.Intn(nActors)
		}
		return l[rng.Intn(len(l))]
	}
	emit := func(o Op) {
		c.Ops = append(c.Ops, o)
		switch o.K {
		case "SP":
			if !alive[o.A] {
				alive[o.A] = true
				nsub += len(o.Ls)
			}
		case "S":
			if alive[o.A] {
				nsub++
			}
		case "R", "F":
			if alive[o.A] {
				nsub += len(o.Ls)
				if o.W != nil {
					nsub++
				}
			}
		case "X":
			if alive[o.A] {
				if o.W != nil {
					nsub++
				}
				alive[o.A] = false
			}
		}
	}
	start := rng.Range(2, nActors)
	for _, i := range []int{0, 1, 2, 3}[:start] {
		emit(Op{K: "SP", A: i, Ls: genLaunch(rng)})
	}
	n := rng.Range(3, 36)
	for k := 0; k < n; k++ {
		switch d := rng.Intn(100); {
		case d < 24:
			emit(Op{K: "S", A: pickAlive(), T: pickTopic(rng)})
		case d < 36:
			v := int64(0)
			if nsub > 0 {
				v = int64(rng.Range(1, nsub))
			}
			if rng.Chance(1, 20) {
				v = int64(nsub + rng.Range(1, 3)) // unknown id
				malformed = true
			}
			emit(Op{K: "U", A: pickAlive(), V: v})
		case d < 66:
			o := Op{K: "P", A: pickAlive(), T: pickTopic(rng), V: next}
			if rng.Chance(1, 5) {
				o.A = -1
			}
			if rng.Chance(1, 4) {
				o.N = rng.Range(2, 3)
			}
			if o.N > 0 {
				next += int64(o.N)
			} else {
				next++
			}
			emit(o)
		case d < 74:
			o := Op{K: "T", A: pickAlive(), T: rng.Intn(nActors), V: next, Ask: rng.Bool()}
			next++
			if rng.Chance(1, 4) {
				o.A = -1
			}
			emit(o)
		case d < 83:
			emit(Op{K: "R", A: pickAlive(), W: genWill(rng), Ls: genLaunch(rng)})
		case d < 85:
			malformed = true
			emit(Op{K: "F", A: pickAlive(), Ls: genLaunch(rng), Fk: []string{"empty", "nil"}[rng.Intn(2)]})
		case d < 92:
			emit(Op{K: "X", A: pickAlive(), G: rng.Bool(), W: genWill(rng)})
		default:
			a := rng.Intn(nActors)
			for j := 0; j < nActors; j++ { // prefer an absent actor
				if !alive[(a+j)%nActors] {
					a = (a + j) % nActors
					break
				}
			}
			emit(Op{K: "SP", A: a, Ls: genLaunch(rng)})
		}
	}
	// end with a publication on each ordinary topic and a dead letter probe
	emit(Op{K: "P", A: -1, T: 0, V: next})
	emit(Op{K: "P", A: -1, T: 1, V: next + 1})
	return c, malformed
}

func ip(i int) *int { return &i }

// wideTopic: one topic with `n` subscriptions (two actors, many subscriptions each - a subscription is one delivery per
// publication), then bursts of one publisher: every recipient must see that publisher's messages in publication order, however
// many subscriptions the fan-out of one publication has to serve
func wideTopic(n int) Case {
	c := Case{Ops: []Op{{K: "SP", A: 0}, {K: "SP", A: 1}, {K: "SP", A: 2}}}
	for i := 0; i < n; i++ {
		c.Ops = append(c.Ops, Op{K: "S", A: i % 2, T: 0})
	}
	c.Ops = append(c.Ops, Op{K: "P", A: 2, T: 0, V: 1, N: 3}, Op{K: "U", A: 0, V: 3}, Op{K: "P", A: -1, T: 0, V: 4, N: 2})
	return c
}

func corpus() []Case {
	return []Case{
		wideTopic(150), wideTopic(300),
		// two subscriptions of one actor on one topic = two deliveries per publication; cancel one of them
		{Ops: []Op{{K: "SP", A: 0}, {K: "SP", A: 1}, {K: "S", A: 0, T: 0}, {K: "S", A: 0, T: 0}, {K: "S", A: 1, T: 0}, {K: "P", A: 1, T: 0, V: 1},
			{K: "U", A: 0, V: 1}, {K: "P", A: 1, T: 0, V: 2, N: 3}, {K: "U", A: 0, V: 1}, {K: "P", A: -1, T: 0, V: 5}}},
		// UnSubscribe of another actor's subscription; restart and termination release; publish to nobody
		{Ops: []Op{{K: "SP", A: 0, Ls: []int{0, 1}}, {K: "SP", A: 1, Ls: []int{0}}, {K: "SP", A: 2}, {K: "U", A: 2, V: 1}, {K: "P", A: 2, T: 0, V: 1},
			{K: "R", A: 1, Ls: []int{1}}, {K: "P", A: 2, T: 0, V: 2}, {K: "P", A: 2, T: 1, V: 3}, {K: "X", A: 0}, {K: "P", A: 2, T: 1, V: 4}, {K: "P", A: 2, T: 7, V: 5}}},
		// dead letters are published on AbyssTopic with the guard as publisher
		{Ops: []Op{{K: "SP", A: 0, Ls: []int{2}}, {K: "SP", A: 1}, {K: "SP", A: 2, Ls: []int{2}}, {K: "X", A: 1, G: true}, {K: "T", A: 0, T: 1, V: 1}, {K: "T", A: 0, T: 1, V: 2, Ask: true},
			{K: "T", A: -1, T: 3, V: 3}, {K: "P", A: 0, T: 2, V: 4}, {K: "X", A: 2}, {K: "T", A: -1, T: 2, V: 5, Ask: true}}},
		// a subscription made inside the LAST handler of an instance must not outlive the instance (terminate, then the address is reused)
		{Ops: []Op{{K: "SP", A: 0}, {K: "SP", A: 1}, {K: "S", A: 1, T: 0}, {K: "X", A: 0, W: ip(0)}, {K: "P", A: 1, T: 0, V: 1}, {K: "SP", A: 0}, {K: "P", A: 1, T: 0, V: 2}}},
		// ... nor a restart
		{Ops: []Op{{K: "SP", A: 0}, {K: "SP", A: 1}, {K: "S", A: 1, T: 1}, {K: "R", A: 0, W: ip(1)}, {K: "P", A: 1, T: 1, V: 1}}},
		// ... on AbyssTopic the left-over subscription of a dead actor turns every dead letter into a new dead letter
		{Ops: []Op{{K: "SP", A: 0}, {K: "SP", A: 1, Ls: []int{2}}, {K: "X", A: 0, W: ip(2)}, {K: "T", A: 1, T: 0, V: 1}, {K: "P", A: 1, T: 0, V: 2}}},
		// failing calls: Subscribe("") and UnSubscribe(nil) panic inside the handler: the actor is restarted, its subscriptions released
		{Ops: []Op{{K: "SP", A: 0, Ls: []int{0}}, {K: "SP", A: 1, Ls: []int{0}}, {K: "F", A: 0, Fk: "empty", Ls: []int{1}}, {K: "P", A: 1, T: 0, V: 1}, {K: "F", A: 1, Fk: "nil"}, {K: "P", A: -1, T: 0, V: 2}, {K: "P", A: -1, T: 1, V: 3}}},
	}
}

// exhaustive small scope: every history of length <= maxLen over a small alphabet on two actors and one topic
func enumerate(maxLen int, each func(c *Case)) {
	alpha := []Op{
		{K: "S", A: 0, T: 0}, {K: "S", A: 1, T: 0}, {K: "U", A: 0, V: 1}, {K: "U", A: 1, V: 2}, {K: "P", A: 1, T: 0}, {K: "P", A: -1, T: 0},
		{K: "R", A: 0, Ls: []int{0}}, {K: "R", A: 0, W: ip(0)}, {K: "X", A: 0}, {K: "SP", A: 0}, {K: "T", A: 1, T: 0, Ask: true}, {K: "S", A: 1, T: 2},
	}
	var rec func(prefix []Op, depth int)
	rec = func(prefix []Op, depth int) {
		if len(prefix) > 0 {
			c := Case{Ops: []Op{{K: "SP", A: 0}, {K: "SP", A: 1}}}
			var v int64
			for _, o := range prefix {
				if o.K == "P" || o.K == "T" {
					v++
					o.V = v
				}
				c.Ops = append(c.Ops, o)
			}
			c.Ops = append(c.Ops, Op{K: "P", A: -1, T: 0, V: v + 1})
			each(&c)
		}
		if depth == 0 {
			return
		}
		for _, o := range alpha {
			rec(append(prefix[:len(prefix):len(prefix)], o), depth-1)
		}
	}
	rec(nil, maxLen)
}

// ---------------------------------------------------------------- main

func hasAbyssWill(c *Case) bool {
	for _, o := range c.Ops {
		if o.W != nil && *o.W == abyssTopic {
			return true
		}
	}
	return false
}

func record(out *vh.Out, d *driver, c *Case, malformed bool) {
	if d.stuck >= 2 && hasAbyssWill(c) {
		out.Count("not_run", "abyss-will-after-2-stuck-cases")
		return // each such case costs the quiescence watchdog on a tree with the dead-letter loop
	}
	d.runImpl(c)
	v := monitor(c)
	cancels, nontrivial := 0, false
	for i, o := range c.Ops {
		out.Count("op_mix", o.K)
		if i >= len(c.Impl) || c.Impl[i].K != "out" {
			if i < len(c.Impl) {
				out.Count("step_result", c.Impl[i].K)
			}
			continue
		}
		switch o.K {
		case "U", "R", "F", "X":
			cancels++
		case "P":
			n := o.N
			if n <= 0 {
				n = 1
			}
			fan := len(c.Impl[i].Dl) / n
			out.Count("fan_out", fmt.Sprint(fan))
			if fan >= 2 && cancels >= 1 {
				nontrivial = true
			}
		case "T":
			if len(c.Impl[i].Dl) > 0 && c.Impl[i].Dl[0].M.K == "dead" {
				out.Count("dead_letter_fan_out", fmt.Sprint(len(c.Impl[i].Dl)))
			}
		}
	}
	out.Count("history_len", vh.Bucket(len(c.Ops)))
	if malformed {
		out.Malformed()
	}
	out.Add(c, coqCase(out.N(), c), nontrivial, v)
}

func main() {
	timeoutLeak := flag.Bool("timeoutleak", false, "also run the witness of the open finding C10-subscribe-timeout-leak (costs ~1.5 s; enabled by checks/c10.py when the finding is listed)")
	remote := flag.Bool("remote", false, "run the configuration with two real systems linked through sharing on loopback (sub-harness \"remote\")")
	f := vh.ParseFlags()
	d := &driver{}
	if f.Replay != "" {
		var probe struct {
			Remote bool `json:"remote"`
		}
		vh.LoadReplayCase(f.Replay, &probe)
		if probe.Remote {
			os.Exit(replayRemote(f.Replay, d))
		}
		var c Case
		vh.LoadReplayCase(f.Replay, &c)
		want := append([]Res(nil), c.Impl...)
		d.runImpl(&c)
		v := monitor(&c)
		b, _ := json.Marshal(map[string]interface{}{"case": c, "recorded_impl": want, "monitor": v})
		fmt.Println(string(b))
		if len(v) > 0 {
			os.Exit(1)
		}
		return
	}
	if *remote {
		mainRemote(f, d)
		return
	}
	out := vh.NewOut(f.Out, "sub", "From MV Require Import Lib.ListX C10.SubModel C10.SubRun.", "case", "mismatches", f.Seed,
		"histories of spawn/subscribe/unsubscribe(own or foreign id)/publish(actor or system, bursts of 1..3)/tell(dead letters)/restart/failing call/terminate over "+
			"4 scripted actors x topics {alpha, beta, AbyssTopic, nobody} driven sequentially on a fresh real ActorSystem per case (quiescence after every step); "+
			"quick: corpus + every history of length<=3 over a 12-op alphabet on 2 actors + random histories (len 5..40); thorough: length<=4 + 10x random; "+
			"non-trivial = a publication handled by >=2 subscriptions after >=1 cancellation (unsubscribe/restart/terminate), measured on the implementation's output; "+
			"distinct by hash of the history")
	rng := vh.NewRNG(f.Seed)
	for _, c := range corpus() {
		c := c
		record(out, d, &c, false)
	}
	if *timeoutLeak {
		// a Subscribe whose ask times out (subscription actor busy > 1 s) panics in the caller; the request is registered afterwards
		c := Case{Ops: []Op{{K: "SP", A: 0}, {K: "SP", A: 1}, {K: "S", A: 1, T: 0}, {K: "ST", A: 0, T: 1, Via: 0, V: 1},
			{K: "P", A: -1, T: 1, V: 2}, {K: "X", A: 0}, {K: "SP", A: 0}, {K: "P", A: -1, T: 1, V: 3}}}
		record(out, d, &c, false)
	}
	maxLen, n := 3, 2500
	if f.Tier == "thorough" {
		maxLen, n = 4, 25000
	}
	if f.N != 0 {
		n = f.N
	}
	if vh.NoCoq {
		maxLen = 0
	}
	if maxLen > 0 {
		enumerate(maxLen, func(c *Case) { record(out, d, c, false) })
	}
	for i := 0; i < n; i++ {
		cr, _ := rng.Derive()
		c, mal := genCase(cr)
		record(out, d, &c, mal)
	}
	out.Close()
}
