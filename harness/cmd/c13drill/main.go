// c13drill: correspondence harness (T1 through hook H3) for the cluster manager ("drill-master") actor of
// engine/vivid/cluster against MV.C13.DrillModel.
//
// Every case builds a fresh plain vivid.ActorSystem, spawns the REAL drill-master actor on it (no memberlist, no
// network: cluster.VerifNewNode / VerifDrillmasterProvider of hooks/engine/vivid/cluster/verif_hooks.go), and drives a
// history of lookups (the internal cm.ActorOf request, answered through FutureAsk) and of child terminations. A
// termination has two phases: B (begin) sends the terminate request and HOLDS the member in vivid's Terminating state
// (its OnTerminate handler, or the OnTerminate handler of a child it spawned at launch, blocks on a channel of the
// harness) — the member is then still registered under its name and the manager has not received its termination notice —
// and S (stop) lets it finish and waits until the manager has handled the notice; S without B is the whole termination.
// Lookups of the same and of other pairs are made inside that window. Some abilities are declared with descriptor
// configurators of their own (WithAbility(name, provider, configurator...)) that set a name prefix and/or a name and
// harmless options: the manager's own naming must win.
// Observed: the reply of every lookup (reference canonicalised to the child name below the manager + the serial
// number of the ability-provider invocation that produced the actor behind it, obtained by pinging the reference),
// errors, accidents of the manager (supervision logger on the manager), the manager's `members` table and the number
// of launches per child at the end of the case.
package main

import (
	"encoding/json"
	"errors"
	"fmt"
	"os"
	"sort"
	"strings"
	"sync"
	"sync/atomic"
	"time"

	"github.com/kercylan98/minotaur/engine/future"
	"github.com/kercylan98/minotaur/engine/vivid"
	"github.com/kercylan98/minotaur/engine/vivid/cluster"
	"github.com/kercylan98/minotaur/engine/vivid/supervision"
	"github.com/kercylan98/minotaur/toolkit/log"
	"verif/harness/vh"
)

// ---------------------------------------------------------------- case

type Op struct {
	K string `json:"k"` // L = lookup (identity, ability); B = the actor the harness holds for the pair begins to terminate and is held Terminating; S = it terminates (completely)
	I string `json:"i"`
	A string `json:"a"`
	T int    `json:"t,omitempty"` // concurrent modes: client number
	G bool   `json:"g,omitempty"` // B: graceful terminate request (queued as a user message) instead of an immediate one
}
type Res struct {
	K     string `json:"k"`              // ref err crash timeout stop begin bad
	Name  string `json:"name,omitempty"` // ref: child name below the manager
	Inst  int    `json:"inst"`           // ref: serial of the provider invocation behind the reference (-1: nobody answered)
	Win   bool   `json:"win,omitempty"`  // ref: the pair's member was held Terminating at that moment (Inst = last launch under that name, it cannot be pinged)
	Found bool   `json:"found,omitempty"`
	Gone  bool   `json:"gone,omitempty"` // stop: the manager forgot the pair
	Err   string `json:"err,omitempty"`
}
type Member struct {
	I    string `json:"i"`
	A    string `json:"a"`
	Name string `json:"name"`
}
type Launch struct {
	Name string `json:"name"`
	N    int    `json:"n"`
}
type Case struct {
	Offered  []string `json:"offered"`
	Conf     []string `json:"conf,omitempty"` // per offered ability: its own descriptor configurators ("" none | prefix | name | both | two | harmless | spare)
	Hold     string   `json:"hold,omitempty"` // how B holds a member in the Terminating state: handler (default) | child
	Mode     string   `json:"mode"`           // seq | burst | actors
	Ops      []Op     `json:"ops"`
	Impl     []Res    `json:"impl"`
	Members  []Member `json:"members"`
	Launches []Launch `json:"launches"`
	Restarts int      `json:"manager_accidents"`
	Note     string   `json:"note,omitempty"`
}

const (
	askTimeout  = 4 * time.Second
	stopTimeout = 2 * time.Second
)

// answers normally arrive within microseconds. After a few genuine timeouts (a defective tree: requests that are never
// answered, references nobody stands behind) the run stops spending seconds on each further one.
var timeouts int32

func curTimeout() time.Duration {
	if atomic.LoadInt32(&timeouts) >= 5 {
		return 100 * time.Millisecond
	}
	return askTimeout
}

// ---------------------------------------------------------------- implementation side

var staleSeen int32

type pingMsg struct{}
type pong struct{ inst int }

type node struct {
	sys      *vivid.ActorSystem
	manager  vivid.ActorRef
	base     string
	mu       sync.Mutex
	launches map[string]int
	provided int32
	term     map[int]chan struct{} // instance -> closed when that actor has handled its own OnTerminated
	termSig  map[int]chan struct{} // same channels, removed when closed
	lastInst map[string]int        // child name -> instance launched last under it
	hold     map[string]*gate      // child name -> gate that keeps the member Terminating (set by B before the terminate request)
	holdKind string
	crashed  chan struct{}
	once     sync.Once
	reason   string
	accident int32

	memberAccidents int32
}

type gate struct {
	entered chan struct{} // closed when the holder is inside its OnTerminate handler
	release chan struct{} // closed by the harness: the termination may go on
	once    sync.Once
}

func (g *gate) open() { g.once.Do(func() { close(g.release) }) }

// block is called from an OnTerminate handler: if the harness asked for the member `name` to be held, report that the
// termination has begun and wait for the release.
func (n *node) block(name string) {
	n.mu.Lock()
	g := n.hold[name]
	delete(n.hold, name)
	n.mu.Unlock()
	if g != nil {
		close(g.entered)
		<-g.release
	}
}

type abilityActor struct {
	n    *node
	inst int
	name string
}

func (a *abilityActor) OnReceive(ctx cluster.ActorContext) {
	switch m := ctx.Message().(type) {
	case *vivid.OnLaunch:
		a.name = a.n.canon(ctx.Ref())
		a.n.mu.Lock()
		a.n.launches[a.name]++
		a.n.lastInst[a.name] = a.inst
		a.n.mu.Unlock()
		if a.n.holdKind == "child" {
			// a child of the member: the member cannot finish terminating before this child has
			name, n := a.name, a.n
			ctx.ActorOf(vivid.FunctionalActorProvider(func() vivid.Actor {
				return vivid.FunctionalActor(func(c vivid.ActorContext) {
					if _, ok := c.Message().(*vivid.OnTerminate); ok {
						n.block(name)
					}
				})
			}))
		}
	case *vivid.OnTerminate:
		if a.n.holdKind != "child" {
			a.n.block(a.name)
		}
	case pingMsg:
		ctx.Reply(pong{inst: a.inst})
	case *vivid.OnTerminated:
		if m.TerminatedActor.Equal(ctx.Ref()) {
			a.n.mu.Lock()
			ch := a.n.termSig[a.inst]
			delete(a.n.termSig, a.inst)
			a.n.mu.Unlock()
			if ch != nil {
				close(ch)
			}
		}
	}
}

func (n *node) canon(ref vivid.ActorRef) string {
	if ref == nil {
		return "!nil"
	}
	addr := ref.GetLogicalAddress()
	if ref.GetPhysicalAddress() != n.manager.GetPhysicalAddress() || !strings.HasPrefix(addr, n.base) {
		return "!" + ref.GetPhysicalAddress() + addr
	}
	return addr[len(n.base):]
}

// ownConfigurators: descriptor configurators an ability is declared with. Whatever they say about the name, the manager's
// naming is applied after them; the rest is harmless for a case that lasts milliseconds.
func ownConfigurators(kind string, accidents *int32) []vivid.ActorDescriptorConfigurator {
	f := func(g func(d *vivid.ActorDescriptor)) vivid.ActorDescriptorConfigurator {
		return vivid.FunctionalActorDescriptorConfigurator(g)
	}
	switch kind {
	case "prefix":
		return []vivid.ActorDescriptorConfigurator{f(func(d *vivid.ActorDescriptor) { d.WithIdleDeadline(time.Hour).WithNamePrefix("own") })}
	case "name":
		return []vivid.ActorDescriptorConfigurator{f(func(d *vivid.ActorDescriptor) { d.WithName("fixed") })}
	case "both":
		return []vivid.ActorDescriptorConfigurator{f(func(d *vivid.ActorDescriptor) { d.WithNamePrefix("p").WithName("n").WithExpireDuration(time.Hour) })}
	case "two":
		return []vivid.ActorDescriptorConfigurator{
			f(func(d *vivid.ActorDescriptor) { d.WithName("n1") }),
			f(func(d *vivid.ActorDescriptor) { d.WithNamePrefix("p2").WithSlowProcessingDuration(time.Hour) }),
		}
	case "harmless":
		return []vivid.ActorDescriptorConfigurator{f(func(d *vivid.ActorDescriptor) {
			d.WithIdleDeadline(time.Hour).WithSupervisionStrategyProvider(nil, supervision.FunctionalLogger(func(*supervision.AccidentRecord) { atomic.AddInt32(accidents, 1) }))
		})}
	case "spare":
		// a slice with spare capacity: the manager appends its own configurator to it for every member
		l := make([]vivid.ActorDescriptorConfigurator, 1, 4)
		l[0] = f(func(d *vivid.ActorDescriptor) { d.WithNamePrefix("sp") })
		return l
	}
	return nil
}

func newNode(offered []string, conf []string, holdKind string) *node {
	n := &node{launches: map[string]int{}, term: map[int]chan struct{}{}, termSig: map[int]chan struct{}{}, crashed: make(chan struct{}),
		lastInst: map[string]int{}, hold: map[string]*gate{}, holdKind: holdKind}
	n.sys = vivid.NewActorSystem(vivid.FunctionalActorSystemConfigurator(func(c *vivid.ActorSystemConfiguration) {
		c.WithLoggerProvider(log.FunctionalLoggerProvider(func() *log.Logger { return log.NewSilentLogger() }))
		c.WithName("c13")
	}))
	cn := cluster.VerifNewNode(n.sys, cluster.FunctionalActorSystemConfigurator(func(c *cluster.ActorSystemConfiguration) {
		for j, ab := range offered {
			kind := ""
			if j < len(conf) {
				kind = conf[j]
			}
			var calls int32
			c.WithAbility(ab, cluster.FunctionalActorProvider(func() cluster.Actor {
				if k := atomic.AddInt32(&calls, 1); (kind == "faulty1" && k == 1) || (kind == "faulty2" && k == 2) {
					panic("c13: scripted failure of the ability provider")
				}
				inst := int(atomic.AddInt32(&n.provided, 1)) - 1
				n.mu.Lock()
				n.term[inst] = make(chan struct{})
				n.termSig[inst] = n.term[inst]
				n.mu.Unlock()
				return &abilityActor{n: n, inst: inst}
			}), ownConfigurators(kind, &n.memberAccidents)...)
		}
	}))
	n.manager = n.sys.ActorOf(cn.VerifDrillmasterProvider(), vivid.FunctionalActorDescriptorConfigurator(func(d *vivid.ActorDescriptor) {
		d.WithName("cluster")
		// no strategy of its own (as in ActorSystem.start): the accident escalates to the guard, which restarts the
		// manager; the logger only observes it.
		d.WithSupervisionStrategyProvider(nil, supervision.FunctionalLogger(func(record *supervision.AccidentRecord) {
			atomic.AddInt32(&n.accident, 1)
			n.once.Do(func() {
				n.reason = fmt.Sprint(record.Reason)
				close(n.crashed)
			})
		}))
	}))
	n.base = n.manager.GetLogicalAddress() + "/"
	return n
}

func (n *node) shutdown() {
	done := make(chan struct{})
	go func() {
		defer func() { _ = recover(); close(done) }()
		n.sys.Shutdown(false)
	}()
	select {
	case <-done:
	case <-time.After(3 * time.Second):
	}
}

type askFn func(target vivid.ActorRef, message vivid.Message, timeout ...time.Duration) future.Future[vivid.Message]

// await: reply | error reply | timeout | manager accident (checked only when watch is set)
func (n *node) await(f future.Future[vivid.Message], watch bool) (v vivid.Message, err error, st string) {
	done := make(chan struct{})
	go func() {
		defer func() {
			if e := recover(); e != nil {
				err = fmt.Errorf("panic: %v", e)
			}
			close(done)
		}()
		v, err = f.Result()
	}()
	var crashed chan struct{}
	if watch {
		crashed = n.crashed
	}
	select {
	case <-done:
	case <-crashed:
		// the manager failed: give a reply that is already on its way a moment, then give up
		select {
		case <-done:
		case <-time.After(50 * time.Millisecond):
			f.Close(errors.New("abandoned"))
			<-done
			return nil, nil, "crash"
		}
	case <-time.After(curTimeout() + 100*time.Millisecond):
		f.Close(errors.New("abandoned"))
		<-done
		atomic.AddInt32(&timeouts, 1)
		return nil, nil, "timeout"
	}
	if err != nil {
		if errors.Is(err, future.ErrorFutureTimeout) {
			atomic.AddInt32(&timeouts, 1)
			return nil, nil, "timeout"
		}
		if strings.HasPrefix(err.Error(), "panic: ") {
			return nil, err, "panic"
		}
		return nil, err, "err"
	}
	return v, nil, "ok"
}

func (n *node) ping(ask askFn, ref vivid.ActorRef) int {
	v, _, st := n.await(ask(ref, pingMsg{}, curTimeout()), false)
	if st != "ok" {
		return -1
	}
	if p, ok := v.(pong); ok {
		return p.inst
	}
	return -1
}

func (n *node) finishLookup(ask askFn, v vivid.Message, err error, st string, refs map[string]vivid.ActorRef, key string) Res {
	switch st {
	case "crash":
		return Res{K: "crash", Err: n.reason, Inst: -1}
	case "timeout":
		return Res{K: "timeout", Inst: -1}
	case "panic":
		return Res{K: "bad", Err: err.Error(), Inst: -1}
	case "err":
		return Res{K: "err", Err: err.Error(), Inst: -1}
	}
	if e, isErr := v.(error); isErr {
		// ctx.Reply(error) reaches the future wrapped, so Result() hands the error over as the answer itself
		return Res{K: "err", Err: e.Error(), Inst: -1}
	}
	ref, ok := v.(vivid.ActorRef)
	if !ok || ref == nil {
		return Res{K: "bad", Err: fmt.Sprintf("reply of type %T", v), Inst: -1}
	}
	if refs != nil {
		refs[key] = ref
	}
	return Res{K: "ref", Name: n.canon(ref), Inst: n.ping(ask, ref)}
}

func (n *node) lookup(ask askFn, i, a string, refs map[string]vivid.ActorRef) Res {
	v, err, st := n.await(ask(n.manager, cluster.VerifActorOfRequest(i, a), curTimeout()), true)
	return n.finishLookup(ask, v, err, st, refs, key(i, a))
}

// lookupInWindow: the member of the pair is held in the Terminating state. It handles no user message any more, so the
// reference cannot be pinged: the instance behind the returned address is the one launched last under that name (the
// name is still registered, nothing else can have been launched under it).
func (n *node) lookupInWindow(ask askFn, i, a string, refs map[string]vivid.ActorRef) Res {
	v, err, st := n.await(ask(n.manager, cluster.VerifActorOfRequest(i, a), curTimeout()), true)
	if st == "ok" {
		if ref, ok := v.(vivid.ActorRef); ok && ref != nil {
			name := n.canon(ref)
			n.mu.Lock()
			inst, known := n.lastInst[name]
			n.mu.Unlock()
			if !known {
				inst = -1
			}
			return Res{K: "ref", Name: name, Inst: inst, Win: true}
		}
	}
	return n.finishLookup(ask, v, err, st, nil, key(i, a))
}

func key(i, a string) string { return fmt.Sprintf("%d:%s|%s", len(i), i, a) }

func (n *node) snapshot() ([]Member, bool) {
	v, _, st := n.await(n.sys.FutureAsk(n.manager, cluster.VerifMembersQuery{}, curTimeout()), true)
	if st != "ok" {
		return nil, false
	}
	ms, ok := v.([]cluster.VerifMember)
	if !ok {
		return nil, false
	}
	out := make([]Member, 0, len(ms))
	for _, m := range ms {
		out = append(out, Member{I: m.Identity, A: m.Ability, Name: n.canon(m.Ref)})
	}
	return out, true
}

// begin sends the terminate request to the actor held for the pair and keeps it in the Terminating state: returns when
// the holder (the member's OnTerminate handler, or that of its child) has been entered. From then on everything the
// member did at the beginning of its termination has happened, and whatever it sent to the manager is queued before any
// later request of the harness.
func (n *node) begin(o Op, refs map[string]vivid.ActorRef, dying map[string]*gate) Res {
	k := key(o.I, o.A)
	ref := refs[k]
	if ref == nil || dying[k] != nil {
		return Res{K: "begin", Found: false, Inst: -1}
	}
	g := &gate{entered: make(chan struct{}), release: make(chan struct{})}
	n.mu.Lock()
	n.hold[n.canon(ref)] = g
	n.mu.Unlock()
	dying[k] = g
	n.sys.Terminate(ref, o.G)
	select {
	case <-g.entered:
	case <-n.crashed:
		return Res{K: "crash", Err: n.reason, Inst: -1}
	case <-time.After(stopTimeout):
		return Res{K: "timeout", Inst: -1}
	}
	return Res{K: "begin", Found: true, Inst: -1}
}

// stop terminates the actor held for the pair (or lets it go on terminating when it is being held), waits until it has
// terminated and until the manager no longer lists it.
func (n *node) stop(i, a string, refs map[string]vivid.ActorRef, insts map[string]int, dying map[string]*gate) Res {
	k := key(i, a)
	ref := refs[k]
	if ref == nil {
		return Res{K: "stop", Found: false, Inst: -1}
	}
	delete(refs, k)
	var ch chan struct{}
	if inst, ok := insts[k]; ok && inst >= 0 {
		n.mu.Lock()
		ch = n.term[inst]
		n.mu.Unlock()
	}
	if g := dying[k]; g != nil {
		delete(dying, k)
		g.open()
	} else {
		n.sys.Terminate(ref, false)
	}
	if ch != nil {
		select {
		case <-ch:
		case <-time.After(stopTimeout):
			return Res{K: "timeout", Inst: -1}
		}
	}
	limit := stopTimeout
	if atomic.LoadInt32(&staleSeen) >= 3 {
		limit = 20 * time.Millisecond // this tree never forgets terminated members: do not spend the run waiting for it
	}
	deadline := time.Now().Add(limit)
	for {
		ms, ok := n.snapshot()
		if !ok {
			return Res{K: "timeout", Inst: -1}
		}
		listed := false
		for _, m := range ms {
			if m.I == i && m.A == a {
				listed = true
			}
		}
		if !listed {
			// the child unregisters before it notifies its parent, so from here on the name is free again
			return Res{K: "stop", Found: true, Gone: true, Inst: -1}
		}
		if time.Now().After(deadline) {
			atomic.AddInt32(&staleSeen, 1)
			return Res{K: "stop", Found: true, Gone: false, Inst: -1}
		}
		time.Sleep(200 * time.Microsecond)
	}
}

func runImpl(c *Case) {
	defer func() {
		if e := recover(); e != nil {
			c.Impl = append(c.Impl, Res{K: "bad", Err: fmt.Sprint("harness panic: ", e), Inst: -1})
			c.Ops = c.Ops[:len(c.Impl)]
		}
	}()
	n := newNode(c.Offered, c.Conf, c.Hold)
	defer n.shutdown()
	c.Impl = nil
	refs := map[string]vivid.ActorRef{}
	insts := map[string]int{}
	dying := map[string]*gate{} // pair -> gate of the member that is being held in the Terminating state
	defer func() {
		// members still held (a history that ends inside a window, or after an accident of the manager) are let go
		for _, g := range dying {
			g.open()
		}
	}()
	switch c.Mode {
	case "seq":
		for idx, o := range c.Ops {
			var r Res
			switch o.K {
			case "L":
				if dying[key(o.I, o.A)] != nil {
					r = n.lookupInWindow(n.sys.FutureAsk, o.I, o.A, refs)
				} else {
					r = n.lookup(n.sys.FutureAsk, o.I, o.A, refs)
					if r.K == "ref" {
						insts[key(o.I, o.A)] = r.Inst
					}
				}
			case "B":
				r = n.begin(o, refs, dying)
			default:
				r = n.stop(o.I, o.A, refs, insts, dying)
			}
			c.Impl = append(c.Impl, r)
			if r.K == "crash" || r.K == "timeout" {
				// the manager failed (it is being restarted by the guard, all its children are being terminated): the
				// history ends here
				c.Ops = c.Ops[:idx+1]
				break
			}
		}
	case "burst":
		// all requests are in the manager's mailbox before the first answer is awaited (one sender goroutine)
		fs := make([]future.Future[vivid.Message], len(c.Ops))
		for idx, o := range c.Ops {
			fs[idx] = n.sys.FutureAsk(n.manager, cluster.VerifActorOfRequest(o.I, o.A), curTimeout())
		}
		for idx, o := range c.Ops {
			v, err, st := n.await(fs[idx], true)
			c.Impl = append(c.Impl, n.finishLookup(n.sys.FutureAsk, v, err, st, refs, key(o.I, o.A)))
		}
	case "actors":
		// every client is an actor of its own (own context, own goroutine) that asks through its context
		clients := 0
		for _, o := range c.Ops {
			if o.T+1 > clients {
				clients = o.T + 1
			}
		}
		res := make([]Res, len(c.Ops))
		var wg sync.WaitGroup
		var start sync.WaitGroup
		start.Add(1)
		for t := 0; t < clients; t++ {
			t := t
			ref := n.sys.ActorOfF(func() vivid.Actor { return vivid.FunctionalActor(func(ctx vivid.ActorContext) {}) })
			wg.Add(1)
			n.sys.ExecLocalFunc(ref, func(ctx vivid.ActorContext) {
				defer wg.Done()
				defer func() { _ = recover() }()
				start.Wait()
				for idx, o := range c.Ops {
					if o.T == t {
						res[idx] = n.lookup(ctx.FutureAsk, o.I, o.A, nil)
					}
				}
			})
		}
		start.Done()
		wg.Wait()
		for idx := range res {
			if res[idx].K == "" {
				res[idx] = Res{K: "bad", Err: "client died", Inst: -1}
			}
		}
		c.Impl = res
	default:
		panic("mode " + c.Mode)
	}
	c.Restarts = int(atomic.LoadInt32(&n.accident))
	c.Members, c.Launches = nil, nil
	if c.Restarts == 0 {
		if ms, ok := n.snapshot(); ok {
			c.Members = ms
		} else {
			c.Note = "no snapshot"
		}
	}
	n.mu.Lock()
	for name, k := range n.launches {
		c.Launches = append(c.Launches, Launch{Name: name, N: k})
	}
	n.mu.Unlock()
	sort.Slice(c.Launches, func(i, j int) bool { return c.Launches[i].Name < c.Launches[j].Name })
}

// ---------------------------------------------------------------- monitor (independent restatement of the property)

// plainName: names nobody can call malformed; only for those the monitor insists on a reference.
func plainName(s string) bool {
	if s == "" {
		return false
	}
	for _, ch := range []byte(s) {
		if !(ch >= 'a' && ch <= 'z' || ch >= 'A' && ch <= 'Z' || ch >= '0' && ch <= '9' || ch == '-' || ch == '_' || ch == '.') {
			return false
		}
	}
	return true
}

func monitor(c *Case) (viol []vh.Violation) {
	offered := map[string]bool{}
	for _, a := range c.Offered {
		offered[a] = true
	}
	seen := map[string]bool{}
	add := func(idx int, class, detail string, sig map[string]string) {
		kind := "drill:onActorOf:" + class
		if seen[kind] {
			return
		}
		seen[kind] = true
		o := c.Ops[idx]
		viol = append(viol, vh.Violation{Kind: kind, Sig: sig,
			Detail: fmt.Sprintf("op #%d %s(identity=%q, ability=%q) mode=%s: %s", idx, o.K, o.I, o.A, c.Mode, detail)})
	}
	type held struct {
		name string
		inst int
		idx  int
	}
	live := map[string]held{}                // pair -> reference handed out and not terminated by the harness since
	stops := map[string]int{}                // pair -> terminations by the harness
	everName := map[string]map[string]bool{} // child name -> pairs that got it
	everInst := map[int]string{}
	for idx, o := range c.Ops {
		if idx >= len(c.Impl) {
			break
		}
		r := c.Impl[idx]
		k := key(o.I, o.A)
		if o.K == "B" {
			// the beginning of a termination: the actor is still there (registered, not terminated), so everything the
			// property says about "while it lives" goes on holding until the termination is complete (S)
			if r.K == "timeout" {
				add(idx, "no-reply", "the actor did not begin to terminate", nil)
			} else if r.K == "crash" {
				add(idx, "manager-failed-other", "the manager actor had an accident: "+r.Err, map[string]string{"cause": "other"})
			}
			continue
		}
		if o.K == "S" {
			if r.K == "stop" && r.Found {
				delete(live, k)
				stops[k]++
			} else if r.K == "timeout" {
				add(idx, "no-reply", "the manager did not answer / the actor did not terminate", nil)
			} else if r.K == "crash" {
				add(idx, "manager-failed-other", "the manager actor had an accident: "+r.Err, map[string]string{"cause": "other"})
			}
			continue
		}
		switch r.K {
		case "crash":
			// the class of the failing request is part of the kind (the accident text is only quoted)
			cause := "other"
			alive := func(k2 string) bool { _, ok := live[k2]; return ok }
			if c.Mode != "seq" {
				// the order in which the manager served the callers is unknown: every other request of the case counts
				alive = func(string) bool { return true }
			}
			others := 0
			for j, o2 := range c.Ops {
				k2 := key(o2.I, o2.A)
				if j == idx || o2.K != "L" || (c.Mode == "seq" && j > idx) || !alive(k2) {
					continue
				}
				others++
				if k2 == k {
					cause = "repeated-lookup"
				} else if o2.I+"-"+o2.A == o.I+"-"+o.A && cause != "repeated-lookup" {
					cause = "name-collision"
				}
			}
			if cause == "other" {
				if !plainName(o.I) || !plainName(o.A) {
					cause = "unusual-name"
				} else if others == 0 {
					cause = "first-lookup"
				}
			}
			add(idx, "manager-failed-"+cause, "the manager actor had an accident: "+r.Err, map[string]string{"cause": cause})
			return
		case "timeout":
			add(idx, "no-reply", "no answer within the timeout", nil)
			return
		case "bad":
			add(idx, "bad-reply", r.Err, nil)
		case "err":
			if offered[o.A] && plainName(o.I) && plainName(o.A) {
				add(idx, "offered-ability-refused", "ability is offered but the answer is the error "+r.Err, nil)
			}
		case "ref":
			if !offered[o.A] {
				add(idx, "unknown-ability-not-error", fmt.Sprintf("ability not offered (%q) but got reference %s", c.Offered, r.Name), nil)
				continue
			}
			if h, ok := live[k]; ok {
				if h.name != r.Name {
					add(idx, "reference-changed", fmt.Sprintf("op #%d returned %s, now %s", h.idx, h.name, r.Name), nil)
				}
				if h.inst != r.Inst && h.inst >= 0 && r.Inst >= 0 {
					add(idx, "created-twice", fmt.Sprintf("op #%d was served by actor instance %d, now instance %d, nobody terminated it in between", h.idx, h.inst, r.Inst), nil)
				}
			}
			if r.Inst < 0 && stops[k] == 0 {
				add(idx, "dead-reference", "nobody answers behind "+r.Name+" although it was never terminated", nil)
			}
			for p := range everName[r.Name] {
				if p != k {
					add(idx, "pairs-share-reference", fmt.Sprintf("reference %s was also returned for pair %s", r.Name, p), nil)
				}
			}
			if r.Inst >= 0 {
				if p, ok := everInst[r.Inst]; ok && p != k {
					add(idx, "pairs-share-actor", fmt.Sprintf("actor instance %d also serves pair %s", r.Inst, p), nil)
				}
				everInst[r.Inst] = k
			}
			if everName[r.Name] == nil {
				everName[r.Name] = map[string]bool{}
			}
			everName[r.Name][k] = true
			live[k] = held{name: r.Name, inst: r.Inst, idx: idx}
		}
	}
	// created at most once while it lives: launches of a child <= 1 + terminations of the pair that owns the name
	for _, l := range c.Launches {
		owners := everName[l.Name]
		if len(owners) == 0 {
			continue
		}
		allowed := 0
		for p := range owners {
			allowed += 1 + stops[p]
		}
		if l.N > allowed {
			for idx, o := range c.Ops {
				if owners[key(o.I, o.A)] {
					add(idx, "created-twice", fmt.Sprintf("child %s was launched %d times although its pair was terminated only %d times", l.Name, l.N, allowed-len(owners)), nil)
					break
				}
			}
		}
	}
	return
}

// ---------------------------------------------------------------- Coq terms

func cstr(s string) string {
	for _, ch := range []byte(s) {
		if ch < 32 || ch > 126 {
			it := make([]string, len(s))
			for i, b := range []byte(s) {
				it[i] = fmt.Sprint(int(b))
			}
			return "(bs [" + strings.Join(it, "; ") + "]%nat)"
		}
	}
	return vh.Str(s)
}

func coqCase(id int, c *Case) string {
	ops := make([]string, len(c.Ops))
	for i, o := range c.Ops {
		switch o.K {
		case "L":
			ops[i] = vh.App("Lookup", cstr(o.I), cstr(o.A))
		case "B":
			ops[i] = vh.App("Begin", cstr(o.I), cstr(o.A))
		default:
			ops[i] = vh.App("Stop", cstr(o.I), cstr(o.A))
		}
	}
	rs := make([]string, len(c.Impl))
	for i, r := range c.Impl {
		switch {
		case r.K == "ref" && r.Inst >= 0:
			rs[i] = vh.App("ORef", vh.App("mkchild", cstr(r.Name), vh.Nat(r.Inst)))
		case r.K == "err":
			rs[i] = "OErr"
		case r.K == "crash":
			rs[i] = "OCrash"
		case r.K == "stop" && (!r.Found || r.Gone):
			rs[i] = vh.App("OStop", vh.Bool(r.Found))
		case r.K == "begin":
			rs[i] = vh.App("OBegin", vh.Bool(r.Found))
		default:
			rs[i] = "OBad"
		}
	}
	off := make([]string, len(c.Offered))
	for i, a := range c.Offered {
		off[i] = cstr(a)
	}
	ms := make([]string, len(c.Members))
	for i, m := range c.Members {
		ms[i] = vh.Pair(vh.Pair(cstr(m.I), cstr(m.A)), cstr(m.Name))
	}
	ls := make([]string, len(c.Launches))
	for i, l := range c.Launches {
		ls[i] = vh.Pair(cstr(l.Name), vh.Nat(l.N))
	}
	conc := c.Mode != "seq"
	return fmt.Sprintf("{| cid := %d; cconc := %s; coffered := %s; cops := %s; cimpl := %s; cmembers := %s; claunches := %s |}",
		id, vh.Bool(conc), vh.List(off), vh.List(ops), vh.List(rs), vh.List(ms), vh.List(ls))
}

// ---------------------------------------------------------------- generators

var identityPool = []string{"a", "b", "c", "a-b", "b-c", "a-", "-a", "-", "a-b-c", "alice", "bob", "u1", "1", "12", "1-a", "2-ab", "x--y", "A", "a.b", "a_b", "0", "3-a-b", "é", "id~1"}
var abilityPool = []string{"c", "b-c", "chat", "room", "a", "b", "-c", "c-", "-", "b-c-d", "1", "a-b", "x", "C"}
var malformed = []string{"", " ", "a b", "a/b", "a\\b", "\t", "a\n", "/", "\\", " a", "a\rb", "a\fb"}

var confKinds = []string{"prefix", "name", "both", "two", "harmless", "spare", "prefix", "name"}

func pick(rng *vh.RNG, pool []string, k int) []string {
	idx := map[int]bool{}
	var out []string
	for len(out) < k {
		j := rng.Intn(len(pool))
		if !idx[j] {
			idx[j] = true
			out = append(out, pool[j])
		}
	}
	return out
}

// churnCase: one ability creates and forgets many members (64..140 terminations, more than it holds at any time), then a
// pair is created and looked up again, and survivors are looked up: whatever housekeeping the manager does with its tables
// after heavy churn must not lose a live member
func churnCase(rng *vh.RNG) Case {
	c := Case{Offered: []string{"room", "chat"}, Mode: "seq"}
	L := func(i, a string) Op { return Op{K: "L", I: i, A: a} }
	S := func(i, a string) Op { return Op{K: "S", I: i, A: a} }
	keep := rng.Range(0, 3)
	for j := 0; j < keep; j++ {
		c.Ops = append(c.Ops, L(fmt.Sprintf("k%d", j), "room"))
	}
	c.Ops = append(c.Ops, L("alice", "chat"))
	n := rng.Range(64, 140)
	for j := 0; j < n; j++ {
		id := fmt.Sprintf("m%d", j)
		c.Ops = append(c.Ops, L(id, "room"))
		if rng.Chance(1, 8) {
			c.Ops = append(c.Ops, L(id, "room"))
		}
		c.Ops = append(c.Ops, S(id, "room"))
	}
	for r := 0; r < 3; r++ {
		id := fmt.Sprintf("n%d", r)
		c.Ops = append(c.Ops, L(id, "room"), L(id, "room"))
	}
	for j := 0; j < keep; j++ {
		c.Ops = append(c.Ops, L(fmt.Sprintf("k%d", j), "room"))
	}
	c.Ops = append(c.Ops, L("alice", "chat"), L("n0", "room"))
	return c
}

func genCase(rng *vh.RNG, mal bool) Case {
	if !mal && rng.Chance(1, 60) {
		return churnCase(rng)
	}
	var c Case
	ids := pick(rng, identityPool, 3)
	abs := pick(rng, abilityPool, 3)
	if rng.Chance(1, 3) {
		// collision-prone vocabulary: every split of one dashed word
		w := [][2][]string{{{"a-b", "a", "a-b-c"}, {"c", "b-c", "b"}}, {{"x", "x-", "x--y"}, {"-y", "y", "--y"}}, {{"1", "1-a", "a"}, {"a", "a-b", "1-a"}}}[rng.Intn(3)]
		ids, abs = w[0], w[1]
	}
	noff := 2
	switch rng.Intn(8) {
	case 0:
		noff = 3
	case 1:
		noff = 1
	case 2:
		noff = rng.Intn(2) * 3
	}
	c.Offered = append(c.Offered, abs[:noff]...)
	if mal {
		// malformed stream: names that vivid refuses for actors, empty strings, an ability with such a name on offer
		ids = append(ids[:2:2], malformed[rng.Intn(len(malformed))], malformed[rng.Intn(len(malformed))])
		abs = append(abs, malformed[rng.Intn(len(malformed))])
		if rng.Chance(1, 3) {
			c.Offered = append(c.Offered, abs[len(abs)-1])
		}
	}
	// abilities declared with descriptor configurators of their own (half of the cases, each offered ability with
	// probability 2/3)
	if rng.Chance(1, 2) {
		c.Conf = make([]string, len(c.Offered))
		for j := range c.Conf {
			if rng.Chance(2, 3) {
				c.Conf[j] = confKinds[rng.Intn(len(confKinds))]
			}
		}
	}
	switch rng.Intn(10) {
	case 0, 1:
		c.Mode = "burst"
	case 2, 3:
		c.Mode = "actors"
	default:
		c.Mode = "seq"
	}
	// sequential histories: half of them with termination windows (B ... S), held by the member's own handler or by a
	// child of the member
	windows := c.Mode == "seq" && rng.Chance(1, 2)
	if windows && rng.Chance(1, 3) {
		c.Hold = "child"
	}
	isOffered := func(a string) bool {
		for _, x := range c.Offered {
			if x == a {
				return true
			}
		}
		return false
	}
	n := rng.Range(1, 14)
	clients := rng.Range(2, 4)
	var looked []Op
	var open []Op // pairs whose termination was begun and (as far as the generator knows) not completed
	for k := 0; k < n; k++ {
		o := Op{K: "L", I: ids[rng.Intn(len(ids))], A: abs[rng.Intn(len(abs))]}
		if len(looked) > 0 && rng.Chance(2, 5) {
			p := looked[rng.Intn(len(looked))]
			o.I, o.A = p.I, p.A // repeat
		}
		if windows && len(open) > 0 && rng.Chance(1, 2) {
			// inside a window: look the terminating pair up, let it finish, or (seldom) ask it to terminate once more
			j := rng.Intn(len(open))
			p := open[j]
			switch rng.Intn(8) {
			case 0, 1:
				o = Op{K: "S", I: p.I, A: p.A}
				open = append(open[:j:j], open[j+1:]...)
			case 2:
				o = Op{K: "B", I: p.I, A: p.A, G: rng.Chance(1, 2)}
			default:
				o = Op{K: "L", I: p.I, A: p.A}
			}
		} else if windows && len(looked) > 0 && rng.Chance(1, 3) {
			// mostly a pair that can have an actor (ability on offer)
			p := looked[rng.Intn(len(looked))]
			for try := 0; try < 4 && !isOffered(p.A); try++ {
				p = looked[rng.Intn(len(looked))]
			}
			o = Op{K: "B", I: p.I, A: p.A, G: rng.Chance(1, 3)}
			open = append(open, o)
		} else if c.Mode == "seq" && len(looked) > 0 && rng.Chance(1, 6) {
			p := looked[rng.Intn(len(looked))]
			o = Op{K: "S", I: p.I, A: p.A}
		} else if c.Mode == "seq" && rng.Chance(1, 40) {
			o.K = "S"
		}
		if c.Mode == "actors" {
			o.T = rng.Intn(clients)
		}
		if o.K == "L" {
			looked = append(looked, o)
		}
		c.Ops = append(c.Ops, o)
	}
	return c
}

func corpus() []Case {
	cs := corpus0()
	r, _ := vh.NewRNG(13).Derive()
	return append(cs, churnCase(r))
}

func corpus0() []Case {
	L := func(i, a string) Op { return Op{K: "L", I: i, A: a} }
	S := func(i, a string) Op { return Op{K: "S", I: i, A: a} }
	B := func(i, a string) Op { return Op{K: "B", I: i, A: a} }
	BG := func(i, a string) Op { return Op{K: "B", I: i, A: a, G: true} }
	return []Case{
		// the window in which a member is terminating: same pair, other pairs, a second terminate request, then the end
		{Offered: []string{"chat"}, Mode: "seq", Ops: []Op{L("alice", "chat"), B("alice", "chat"), L("alice", "chat"), L("bob", "chat"), L("alice", "chat"), S("alice", "chat"), L("alice", "chat"), L("alice", "chat")}},
		{Offered: []string{"chat"}, Mode: "seq", Hold: "child", Ops: []Op{L("alice", "chat"), BG("alice", "chat"), L("alice", "chat"), B("alice", "chat"), L("alice", "chat"), S("alice", "chat"), L("alice", "chat")}},
		{Offered: []string{"chat", "room"}, Mode: "seq", Ops: []Op{L("alice", "chat"), L("bob", "chat"), B("alice", "chat"), B("bob", "chat"), L("bob", "chat"), L("alice", "room"), S("bob", "chat"), L("bob", "chat"), L("alice", "chat")}},
		{Offered: []string{"c", "b-c"}, Mode: "seq", Hold: "child", Ops: []Op{L("a-b", "c"), L("a", "b-c"), B("a-b", "c"), L("a", "b-c"), L("a-b", "c"), S("a", "b-c"), L("a-b", "c")}},
		// abilities declared with configurators of their own: the manager's naming wins
		{Offered: []string{"room"}, Conf: []string{"prefix"}, Mode: "seq", Ops: []Op{L("alice", "room"), L("alice", "room"), L("bob", "room"), L("alice", "room")}},
		{Offered: []string{"chat", "room"}, Conf: []string{"name", "name"}, Mode: "seq", Ops: []Op{L("alice", "chat"), L("alice", "room"), L("alice", "chat"), L("bob", "room")}},
		{Offered: []string{"chat", "room"}, Conf: []string{"both", "two"}, Mode: "burst", Ops: []Op{L("alice", "chat"), L("bob", "chat"), L("alice", "room"), L("bob", "room"), L("alice", "chat")}},
		{Offered: []string{"room"}, Conf: []string{"spare"}, Mode: "seq", Ops: []Op{L("alice", "room"), L("bob", "room"), B("alice", "room"), L("alice", "room"), S("alice", "room"), L("alice", "room"), L("carol", "room")}},
		// the registry-vs-factory case: the same pair twice
		{Offered: []string{"chat"}, Mode: "seq", Ops: []Op{L("alice", "chat"), L("alice", "chat"), L("alice", "chat")}},
		// the separator: ("a-b","c") and ("a","b-c") both derive the child name a-b-c under identity-ability
		{Offered: []string{"c", "b-c"}, Mode: "seq", Ops: []Op{L("a-b", "c"), L("a", "b-c"), L("a-b", "c"), L("a", "b-c")}},
		{Offered: []string{"c", "b-c"}, Mode: "seq", Ops: []Op{L("a", "b-c"), L("a-b", "c")}},
		// unknown ability, empty strings
		{Offered: []string{"chat"}, Mode: "seq", Ops: []Op{L("alice", "room"), L("alice", ""), L("", "room"), L("alice", "chat")}},
		// names vivid refuses for actors
		{Offered: []string{"chat"}, Mode: "seq", Ops: []Op{L("alice", "chat"), L("", "chat")}},
		{Offered: []string{"chat"}, Mode: "seq", Ops: []Op{L("a b", "chat"), L("alice", "chat")}},
		{Offered: []string{"chat"}, Mode: "seq", Ops: []Op{L("a/b", "chat"), L("a\\b", "chat"), L("alice", "chat")}},
		{Offered: []string{"chat", ""}, Mode: "seq", Ops: []Op{L("alice", ""), L("alice", "chat")}},
		// terminate and look up again: a new actor, once
		{Offered: []string{"chat"}, Mode: "seq", Ops: []Op{L("alice", "chat"), S("alice", "chat"), L("alice", "chat"), L("alice", "chat"), S("bob", "chat")}},
		{Offered: []string{"c", "b-c"}, Mode: "seq", Ops: []Op{L("a-b", "c"), L("a", "b-c"), S("a-b", "c"), L("a", "b-c"), L("a-b", "c")}},
		// length-prefix look-alikes
		{Offered: []string{"b", "a-b"}, Mode: "seq", Ops: []Op{L("a", "b"), L("1-a", "b"), L("1", "a-b"), L("a", "b")}},
		// concurrent callers of one pair
		{Offered: []string{"chat"}, Mode: "burst", Ops: []Op{L("alice", "chat"), L("alice", "chat"), L("bob", "chat"), L("alice", "chat"), L("bob", "room")}},
		{Offered: []string{"chat"}, Mode: "actors", Ops: []Op{{K: "L", I: "alice", A: "chat", T: 0}, {K: "L", I: "alice", A: "chat", T: 1}, {K: "L", I: "alice", A: "chat", T: 2}, {K: "L", I: "bob", A: "chat", T: 1}, {K: "L", I: "alice", A: "chat", T: 0}}},
	}
}

// ---------------------------------------------------------------- driver

type stats struct {
	begins, winSame, winOther, winCreated int // windows opened; lookups of the terminating pair / of other pairs inside a window; of those, lookups that created an actor
	confAbilities, confSecond             int // abilities with own configurators; second and further identities created for such an ability
}

func analyseWindows(c *Case) (st stats) {
	conf := map[string]bool{}
	for j, a := range c.Offered {
		if j < len(c.Conf) && c.Conf[j] != "" {
			conf[a] = true
			st.confAbilities++
		}
	}
	open := map[string]bool{}
	seenInst := map[int]bool{}
	perAbility := map[string]map[string]bool{}
	for idx, o := range c.Ops {
		if idx >= len(c.Impl) {
			break
		}
		r := c.Impl[idx]
		k := key(o.I, o.A)
		switch o.K {
		case "B":
			if r.K == "begin" && r.Found {
				st.begins++
				open[k] = true
			}
		case "S":
			delete(open, k)
		case "L":
			if r.K == "ref" {
				if open[k] {
					st.winSame++
				} else if len(open) > 0 {
					st.winOther++
					if !seenInst[r.Inst] {
						st.winCreated++
					}
				}
				seenInst[r.Inst] = true
				if conf[o.A] {
					if perAbility[o.A] == nil {
						perAbility[o.A] = map[string]bool{}
					}
					if !perAbility[o.A][o.I] && len(perAbility[o.A]) > 0 {
						st.confSecond++
					}
					perAbility[o.A][o.I] = true
				}
			}
		}
	}
	return
}

func analyse(c *Case) (repeats int, errs int, stops int, dashed int) {
	cnt := map[string]int{}
	off := map[string]bool{}
	for _, a := range c.Offered {
		off[a] = true
	}
	for idx, o := range c.Ops {
		if o.K == "B" {
			continue
		}
		if o.K == "S" {
			if idx < len(c.Impl) && c.Impl[idx].Found {
				stops++
				cnt[key(o.I, o.A)] = 0
			}
			continue
		}
		if strings.Contains(o.I, "-") || strings.Contains(o.A, "-") {
			dashed++
		}
		if !off[o.A] {
			errs++
			continue
		}
		k := key(o.I, o.A)
		cnt[k]++
		if cnt[k] == 2 && plainName(o.I) && plainName(o.A) {
			repeats++
		}
	}
	return
}

// faultyFamily: an ability whose PROVIDER panics on one of its invocations (user code of the ability, not of the manager).
// The actor of that pair fails - that is its own business and its supervisor's - but the request must not make the cluster
// manager fail: no accident of the manager, and the actor of an unrelated pair created before is still the one answered
// afterwards (a restarted manager has stopped every cluster actor and forgotten its table). Monitors only: provider faults
// are not part of MV.C13.DrillModel.
type FaultyCase struct {
	Faulty     bool   `json:"faulty_provider"`
	PanicAt    int    `json:"panic_at"` // which invocation of the bad ability's provider panics (1 or 2)
	Before     Res    `json:"before"`   // lookup of the unrelated pair before the faulty request
	Bad        []Res  `json:"bad"`      // the lookups of pairs of the bad ability
	After      Res    `json:"after"`    // the unrelated pair again
	Accidents  int    `json:"manager_accidents"`
	Reason     string `json:"reason,omitempty"`
}

func faultyFamily(out *vh.Out, rng *vh.RNG, thorough bool) {
	rounds := 12
	if thorough {
		rounds = 200
	}
	for r := 0; r < rounds; r++ {
		cr, _ := rng.Derive()
		c, v := faultyRound(1+cr.Intn(2), 5+cr.Intn(30))
		out.Count("faulty_provider_rounds", fmt.Sprint(c.PanicAt))
		if len(v) > 0 {
			out.Add(&c, "", false, v)
		}
	}
}

func faultyRound(panicAt, waitMs int) (FaultyCase, []vh.Violation) {
	{
		c := FaultyCase{Faulty: true, PanicAt: panicAt}
		conf := []string{"", fmt.Sprintf("faulty%d", c.PanicAt)}
		n := newNode([]string{"good", "bad"}, conf, "")
		ask := askFn(n.sys.FutureAsk)
		c.Before = n.lookup(ask, "u1", "good", nil)
		// a fire-and-forget request (Tell: no sender to answer) for a pair that is not known yet must not hurt the manager either
		n.sys.Tell(n.manager, cluster.VerifActorOfRequest("t1", "good"))
		for k := 0; k < c.PanicAt; k++ {
			c.Bad = append(c.Bad, n.lookup(ask, fmt.Sprintf("b%d", k), "bad", nil))
		}
		time.Sleep(time.Duration(waitMs) * time.Millisecond) // the member is launched (and fails) on its own goroutine
		c.After = n.lookup(ask, "u1", "good", nil)
		c.Accidents, c.Reason = int(atomic.LoadInt32(&n.accident)), n.reason
		n.shutdown()
		var v []vh.Violation
		sig := map[string]string{"fn": "onActorOf", "class": "faulty-ability-provider"}
		if c.Accidents > 0 || c.After.K == "crash" {
			v = append(v, vh.Violation{Kind: "drill:onActorOf:manager-failed-faulty-provider", Detail: fmt.Sprintf("after a sender-less request for a new pair and a request whose ability provider panicked on invocation %d the cluster manager itself had failed (%d accident(s): %s)", c.PanicAt, c.Accidents, c.Reason), Case: c, Sig: sig})
		} else if c.Before.K == "ref" && (c.After.K != "ref" || c.After.Name != c.Before.Name || c.After.Inst != c.Before.Inst) {
			v = append(v, vh.Violation{Kind: "drill:onActorOf:unrelated-pair-recreated-after-faulty-provider", Detail: fmt.Sprintf("pair (u1, good) was answered %+v before and %+v after a request whose ability provider panicked", c.Before, c.After), Case: c, Sig: sig})
		}
		return c, v
	}
}

func main() {
	f := vh.ParseFlags()
	if f.Replay != "" {
		var probe FaultyCase
		vh.LoadReplayCase(f.Replay, &probe)
		if probe.Faulty {
			fc, v := faultyRound(probe.PanicAt, 20)
			b, _ := json.Marshal(map[string]interface{}{"case": fc, "monitor": v})
			fmt.Println(string(b))
			if len(v) > 0 {
				os.Exit(1)
			}
			return
		}
		var c Case
		vh.LoadReplayCase(f.Replay, &c)
		want := append([]Res(nil), c.Impl...)
		runImpl(&c)
		v := monitor(&c)
		b, _ := json.Marshal(map[string]interface{}{"case": c, "recorded_impl": want, "monitor": v})
		fmt.Println(string(b))
		if len(v) > 0 {
			os.Exit(1)
		}
		return
	}
	out := vh.NewOut(f.Out, "drill", "From MV Require Import Lib.ListX C13.DrillModel C13.DrillRun.", "case", "mismatches", f.Seed,
		"histories of 1..14 lookups / terminations over 3 identities x 3 abilities (0..3 of them offered; a third of the cases over a vocabulary in which every pair derives the same dashed word), "+
			"sequential, burst (all requests queued before the first answer is read) and 2..4 concurrent client actors; half of the sequential histories with two-phase terminations: B sends the terminate request "+
			"(graceful or not) and holds the member in the Terminating state (its own OnTerminate handler or that of a child it spawned blocks on a channel of the harness), lookups of that pair and of other pairs, "+
			"repeated terminate requests and terminations of other members follow inside the window, S releases it and waits for the manager to handle the notice (some windows stay open to the end of the history); "+
			"in half of the cases abilities are declared with descriptor configurators of their own (name prefix, name, both, two configurators, harmless options only, a slice with spare capacity); "+
			"malformed stream (empty names, blanks, slashes, an unusable ability name on offer) counted separately; "+
			"thorough adds every sequential history of length<=5 over the alphabet {lookup of 2 identities x 3 abilities (one not offered), terminate of 2 pairs} and every one of length<=5 over "+
			"{lookup of 2 identities of an ability with its own name prefix, lookup of an ability not offered, begin of both, terminate of one}; "+
			"non-trivial = a usable offered pair looked up at least twice while its actor lives or inside its termination window, or a second identity created for an ability with own configurators; distinct by hash of the whole case")
	rng := vh.NewRNG(f.Seed)
	n := f.N
	if n == 0 {
		n = 3200
		if f.Tier == "thorough" {
			n = 24000
		}
	}
	type job struct {
		c   Case
		mal bool
	}
	var jobs []job
	for _, c := range corpus() {
		jobs = append(jobs, job{c, false})
	}
	for i := 0; i < n; i++ {
		cr, _ := rng.Derive()
		mal := i%8 == 7
		jobs = append(jobs, job{genCase(cr, mal), mal})
	}
	if f.Tier == "thorough" {
		ids := []string{"a", "a-b"}
		abs := []string{"c", "b-c", "z"}
		var alpha []Op
		for _, i := range ids {
			for _, a := range abs {
				alpha = append(alpha, Op{K: "L", I: i, A: a})
			}
		}
		alpha = append(alpha, Op{K: "S", I: "a", A: "b-c"}, Op{K: "S", I: "a-b", A: "c"})
		var rec func(prefix []Op, depth int)
		rec = func(prefix []Op, depth int) {
			if len(prefix) > 0 {
				jobs = append(jobs, job{Case{Offered: []string{"c", "b-c"}, Mode: "seq", Ops: append([]Op(nil), prefix...)}, false})
			}
			if depth == 0 {
				return
			}
			for _, o := range alpha {
				rec(append(prefix, o), depth-1)
			}
		}
		rec(nil, 5)
		// the same with termination windows and an ability that has a name prefix of its own
		alpha = []Op{{K: "L", I: "a", A: "c"}, {K: "L", I: "b", A: "c"}, {K: "L", I: "a", A: "z"}, {K: "B", I: "a", A: "c"}, {K: "B", I: "b", A: "c"}, {K: "S", I: "a", A: "c"}}
		var rec2 func(prefix []Op, depth int)
		rec2 = func(prefix []Op, depth int) {
			if len(prefix) > 0 {
				hold := ""
				if len(prefix)%2 == 0 {
					hold = "child"
				}
				jobs = append(jobs, job{Case{Offered: []string{"c"}, Conf: []string{"prefix"}, Hold: hold, Mode: "seq", Ops: append([]Op(nil), prefix...)}, false})
			}
			if depth == 0 {
				return
			}
			for _, o := range alpha {
				rec2(append(prefix, o), depth-1)
			}
		}
		rec2(nil, 5)
	}
	// run the cases on a pool of workers (every case has an actor system of its own), record in generation order
	workers := 12
	var wg sync.WaitGroup
	next := int32(-1)
	done := make([]chan struct{}, len(jobs))
	for i := range done {
		done[i] = make(chan struct{})
	}
	viols := make([][]vh.Violation, len(jobs))
	for w := 0; w < workers; w++ {
		wg.Add(1)
		go func() {
			defer wg.Done()
			for {
				i := int(atomic.AddInt32(&next, 1))
				if i >= len(jobs) {
					return
				}
				runImpl(&jobs[i].c)
				viols[i] = monitor(&jobs[i].c)
				close(done[i])
			}
		}()
	}
	for i := range jobs {
		<-done[i]
		recordDone(out, &jobs[i].c, jobs[i].mal, viols[i])
	}
	wg.Wait()
	faultyFamily(out, rng, f.Tier == "thorough")
	out.Close()
}

func recordDone(out *vh.Out, c *Case, mal bool, v []vh.Violation) {
	rep, errs, stops, dashed := analyse(c)
	w := analyseWindows(c)
	if mal {
		out.Malformed()
	}
	out.Count("termination_windows_opened", vh.Bucket(w.begins))
	out.Count("lookups_of_the_terminating_pair_inside_its_window", vh.Bucket(w.winSame))
	out.Count("lookups_of_other_pairs_inside_a_window", vh.Bucket(w.winOther))
	out.Count("actors_created_inside_a_window", vh.Bucket(w.winCreated))
	if w.begins > 0 {
		hold := c.Hold
		if hold == "" {
			hold = "handler"
		}
		out.Count("window_held_by", hold)
	}
	out.Count("abilities_with_own_configurators", fmt.Sprint(w.confAbilities))
	out.Count("further_identities_of_an_ability_with_own_configurators", vh.Bucket(w.confSecond))
	for j := range c.Offered {
		kind := "none"
		if j < len(c.Conf) && c.Conf[j] != "" {
			kind = c.Conf[j]
		}
		out.Count("ability_configurator_kind", kind)
	}
	out.Count("mode", c.Mode)
	out.Count("ops_len", vh.Bucket(len(c.Ops)))
	out.Count("pairs_looked_up_again_while_alive", vh.Bucket(rep))
	out.Count("lookups_of_unoffered_ability", vh.Bucket(errs))
	out.Count("terminations", vh.Bucket(stops))
	out.Count("lookups_with_separator_in_name", vh.Bucket(dashed))
	out.Count("offered", fmt.Sprint(len(c.Offered)))
	for _, r := range c.Impl {
		out.Count("answers", r.K)
	}
	out.Add(c, coqCase(out.N(), c), rep > 0 || w.winSame > 0 || w.confSecond > 0, v)
}
