// c12reg: correspondence harness (T1) for engine/prc.ResourceController (Register / Unregister /
// GetProcess with the per-reference cache inside *prc.ProcessId) against MV.C12.RegModel, through
// the public prc API with stub processes implementing prc.Process.
package main

import (
	"encoding/json"
	"fmt"
	"os"
	"sync/atomic"

	"github.com/kercylan98/minotaur/engine/prc"
	"verif/harness/vh"
)

type Ref struct {
	A int  `json:"a"`           // address index
	F bool `json:"f,omitempty"` // physical address differs from the controller's
}
type Op struct {
	K    string `json:"k"`              // reg unreg get getnil kill
	R    int    `json:"r,omitempty"`    // reference object
	Kind string `json:"kind,omitempty"` // actor | sticky (reg)
	P    int    `json:"p,omitempty"`    // process (kill)
}
type Res struct {
	K     string `json:"k"` // reg unreg proc unit panic
	Exist bool   `json:"exist,omitempty"`
	P     int    `json:"p"` // -1 = none / dead letters
	Err   string `json:"err,omitempty"`
}
type Case struct {
	// NS: which pair of node addresses the case uses (nodeStyles): the local controller's own address and a foreign one
	NS   int   `json:"ns,omitempty"`
	Refs []Ref `json:"refs"`
	Ops  []Op  `json:"ops"`
	Impl []Res `json:"impl"`
}

// ---- stub processes (public interface prc.Process)
type recorder struct{ inited, terminated []int }

type stub struct {
	id     int
	sticky bool
	flag   atomic.Bool
	rec    *recorder
}

func (s *stub) Initialize(rc *prc.ResourceController, id *prc.ProcessId) {
	s.rec.inited = append(s.rec.inited, s.id)
}
func (s *stub) DeliveryUserMessage(receiver, sender, forward *prc.ProcessId, message prc.Message)   {}
func (s *stub) DeliverySystemMessage(receiver, sender, forward *prc.ProcessId, message prc.Message) {}
func (s *stub) IsTerminated() bool {
	if s.sticky { // abyss.go, shared_stream_process.go
		return false
	}
	return s.flag.Load() // actor_process.go
}
func (s *stub) Terminate(source *prc.ProcessId) {
	s.rec.terminated = append(s.rec.terminated, s.id)
	if !s.sticky {
		s.flag.Store(true)
	}
}

const localNode = "127.0.0.1:7001"
const otherNode = "10.9.9.9:7002"

// An address is the PAIR (node, local address): the foreign node of a case differs from the controller's own node in host
// and port, in the host only (the controller listening on an unspecified or empty host, as the repository's own examples
// do), or in the port only, also where one string extends the other
var nodeStyles = [][2]string{
	{localNode, otherNode},
	{":7001", "10.9.9.9:7001"},
	{"0.0.0.0:7001", "10.9.9.9:7001"},
	{"[::]:7001", "[::1]:7001"},
	{"127.0.0.1:7001", "127.0.0.1:70012"},
	{"localhost:7001", "127.0.0.1:7001"},
	{"", "10.9.9.9:7001"},
}

// The model knows addresses as abstract, pairwise different identifiers; here they are strings that differ as little as
// different logical addresses can: a trailing slash, a doubled slash (the registry must keep them apart in EVERY
// operation — a key normalised in Register and GetProcess but not in Unregister makes two of them one)
var addrNames = []string{"/user/a0", "/user/a0/", "/user//a0"}

func addrName(a int) string {
	if a < len(addrNames) {
		return addrNames[a]
	}
	return fmt.Sprintf("/user/a%d", a)
}

func runImpl(c *Case) {
	rec := &recorder{}
	dead := &stub{id: -1, sticky: true, rec: rec}
	rc := prc.NewResourceController(prc.FunctionalResourceControllerConfigurator(func(cfg *prc.ResourceControllerConfiguration) {
		cfg.WithPhysicalAddress(nodeStyles[c.NS%len(nodeStyles)][0]).WithNotFoundSubstitute(dead)
	}))
	refs := make([]*prc.ProcessId, len(c.Refs))
	for i, r := range c.Refs {
		node := nodeStyles[c.NS%len(nodeStyles)][0]
		if r.F {
			node = nodeStyles[c.NS%len(nodeStyles)][1]
		}
		refs[i] = prc.NewProcessId(node, addrName(r.A))
	}
	var procs []*stub
	c.Impl = c.Impl[:0]
	for _, o := range c.Ops {
		c.Impl = append(c.Impl, apply(rc, rec, refs, &procs, dead, o))
	}
}

func single(l []int) (int, bool) {
	switch len(l) {
	case 0:
		return -1, true
	case 1:
		return l[0], true
	}
	return -1, false
}

func apply(rc *prc.ResourceController, rec *recorder, refs []*prc.ProcessId, procs *[]*stub, dead *stub, o Op) (res Res) {
	defer func() {
		if e := recover(); e != nil {
			res = Res{K: "panic", P: -1, Err: fmt.Sprint(e)}
		}
	}()
	rec.inited, rec.terminated = nil, nil
	ident := func(p prc.Process) Res {
		s, ok := p.(*stub)
		if !ok || s == nil {
			return Res{K: "proc", P: -1, Err: fmt.Sprintf("not a process of this run: %T", p)}
		}
		if s == dead {
			return Res{K: "proc", P: -1}
		}
		return Res{K: "proc", P: s.id}
	}
	switch o.K {
	case "reg":
		s := &stub{id: len(*procs), sticky: o.Kind == "sticky", rec: rec}
		*procs = append(*procs, s)
		_, exist := rc.Register(refs[o.R], s)
		p, ok := single(rec.inited)
		if !ok || len(rec.terminated) != 0 {
			return Res{K: "reg", Exist: exist, P: -1, Err: fmt.Sprintf("Initialize on %v, Terminate on %v", rec.inited, rec.terminated)}
		}
		return Res{K: "reg", Exist: exist, P: p}
	case "unreg":
		rc.Unregister(nil, refs[o.R])
		p, ok := single(rec.terminated)
		if !ok || len(rec.inited) != 0 {
			return Res{K: "unreg", P: -1, Err: fmt.Sprintf("Initialize on %v, Terminate on %v", rec.inited, rec.terminated)}
		}
		return Res{K: "unreg", P: p}
	case "get":
		r := ident(rc.GetProcess(refs[o.R]))
		if len(rec.inited)+len(rec.terminated) != 0 {
			r.Err = "lookup called Initialize/Terminate"
		}
		return r
	case "getnil":
		return ident(rc.GetProcess(nil))
	case "kill":
		if o.P >= 0 && o.P < len(*procs) && !(*procs)[o.P].sticky {
			(*procs)[o.P].flag.Store(true)
		}
		return Res{K: "unit", P: -1}
	}
	panic("bad op " + o.K)
}

// ---- property monitor: a plain map address -> process (independent of the Coq model)
func monitor(c *Case) (viol []vh.Violation) {
	cur := map[int]int{}      // address -> registered process
	removed := map[int]bool{} // processes whose unregistration has completed
	sticky := map[int]bool{}
	next := 0
	add := func(i int, fn, class, detail string) {
		if len(viol) < 3 {
			viol = append(viol, vh.Violation{Kind: "reg:" + fn + ":" + class,
				Detail: fmt.Sprintf("op #%d %+v: %s", i, c.Ops[i], detail), Sig: map[string]string{"function": fn, "class": class}})
		}
	}
	for i, o := range c.Ops {
		got := c.Impl[i]
		if got.K == "panic" {
			add(i, o.K, "crash", got.Err)
			return
		}
		switch o.K {
		case "reg":
			a := c.Refs[o.R].A
			p := next
			next++
			sticky[p] = o.Kind == "sticky"
			if q, taken := cur[a]; taken {
				if !got.Exist {
					add(i, "Register", "taken-address-not-refused", fmt.Sprintf("address a%d holds process %d, Register reported success", a, q))
					cur[a] = p
				} else if got.Err != "" || got.P != -1 {
					add(i, "Register", "refused-but-touched-a-process", fmt.Sprintf("initialized %d %s", got.P, got.Err))
				}
			} else if !got.Exist {
				cur[a] = p
			}
		case "unreg":
			a := c.Refs[o.R].A
			if q, ok := cur[a]; ok {
				removed[q] = true
				delete(cur, a)
			}
		case "get", "getnil":
			if got.Err != "" {
				add(i, "GetProcess", "not-a-process", got.Err)
				continue
			}
			if o.K == "getnil" || c.Refs[o.R].F {
				if got.P != -1 {
					add(i, "GetProcess", "unresolvable-id-not-dead-letter", fmt.Sprintf("returned process %d", got.P))
				}
				continue
			}
			a := c.Refs[o.R].A
			if p, ok := cur[a]; ok {
				if got.P != p && !(got.P >= 0 && sticky[got.P]) {
					add(i, "GetProcess", "registered-process-not-returned", fmt.Sprintf("address a%d holds process %d, lookup returned %d (-1 = dead letters)", a, p, got.P))
				}
			} else if got.P != -1 && !sticky[got.P] {
				if removed[got.P] {
					add(i, "GetProcess", "returned-removed-process", fmt.Sprintf("process %d was unregistered, address a%d is free, lookup returned it", got.P, a))
				} else {
					add(i, "GetProcess", "wrong-process", fmt.Sprintf("address a%d is free, lookup returned process %d", a, got.P))
				}
			}
		}
	}
	return
}

// shadow of the cache (last process a lookup through each reference returned) for the non-triviality rule
type shape struct{ reuseCached, hits, lookups, regs, refused, unregs, absent int }

func analyse(c *Case) shape {
	var s shape
	cur := map[int]int{}
	shadow := map[int]int{}
	flagged := map[int]bool{}
	next := 0
	for i, o := range c.Ops {
		switch o.K {
		case "reg":
			a := c.Refs[o.R].A
			s.regs++
			if _, ok := cur[a]; ok {
				s.refused++
			} else {
				cur[a] = next
			}
			next++
		case "unreg":
			a := c.Refs[o.R].A
			s.unregs++
			if q, ok := cur[a]; ok {
				flagged[q] = true
				delete(cur, a)
			} else {
				s.absent++
			}
		case "kill":
			flagged[o.P] = true
		case "get":
			if c.Refs[o.R].F {
				continue
			}
			s.lookups++
			a := c.Refs[o.R].A
			if q, ok := shadow[o.R]; ok {
				if p, reg := cur[a]; reg && p != q {
					s.reuseCached++ // address reused while this reference still caches the earlier registrant
				}
				if !flagged[q] {
					s.hits++
				}
			}
			if c.Impl[i].K == "proc" && c.Impl[i].P >= 0 {
				shadow[o.R] = c.Impl[i].P
			} else {
				delete(shadow, o.R)
			}
		}
	}
	return s
}

func coqCase(id int, c *Case) string {
	refs := make([]string, len(c.Refs))
	for i, r := range c.Refs {
		refs[i] = fmt.Sprintf("{| raddr := %s; rforeign := %s |}", vh.Nat(r.A), vh.Bool(r.F))
	}
	ops := make([]string, len(c.Ops))
	for i, o := range c.Ops {
		switch o.K {
		case "reg":
			k := "KActor"
			if o.Kind == "sticky" {
				k = "KSticky"
			}
			ops[i] = vh.App("ORegister", vh.Nat(o.R), k)
		case "unreg":
			ops[i] = vh.App("OUnregister", vh.Nat(o.R))
		case "get":
			ops[i] = vh.App("OGet", vh.Nat(o.R))
		case "getnil":
			ops[i] = "OGetNil"
		case "kill":
			ops[i] = vh.App("OKill", vh.Nat(o.P))
		}
	}
	optp := func(p int) string {
		if p < 0 {
			return "None"
		}
		return vh.Some(vh.Nat(p))
	}
	rs := make([]string, len(c.Impl))
	for i, r := range c.Impl {
		switch {
		case r.Err != "" || r.K == "panic":
			rs[i] = "OBad"
		case r.K == "reg":
			rs[i] = vh.App("OReg", vh.Bool(r.Exist), optp(r.P))
		case r.K == "unreg":
			rs[i] = vh.App("OUnreg", optp(r.P))
		case r.K == "proc":
			rs[i] = vh.App("OProc", optp(r.P))
		case r.K == "unit":
			rs[i] = "OUnit"
		default:
			rs[i] = "OBad"
		}
	}
	return fmt.Sprintf("{| cid := %d; crefs := %s; cops := %s; cimpl := %s |}", id, vh.List(refs), vh.List(ops), vh.List(rs))
}

func corpus() []Case {
	ab := []Ref{{A: 0}, {A: 0}, {A: 1}, {A: 0, F: true}}
	reg, unreg, get := func(r int) Op { return Op{K: "reg", R: r, Kind: "actor"} }, func(r int) Op { return Op{K: "unreg", R: r} }, func(r int) Op { return Op{K: "get", R: r} }
	return []Case{
		// address reuse with a cached reference alive (r1 caches process 0, then 0 is replaced by 1)
		{Refs: ab, Ops: []Op{reg(0), get(1), get(1), unreg(0), get(1), reg(0), get(1), get(0), get(2)}},
		// registering a taken address is refused; the holder stays
		{Refs: ab, Ops: []Op{reg(0), reg(1), get(0), get(1), unreg(1), reg(1), get(0)}},
		// unregister of an absent address, lookups of free addresses, nil and foreign ids
		{Refs: ab, Ops: []Op{unreg(0), get(0), {K: "getnil"}, get(3), reg(3), get(3), get(0)}},
		// a process that flags itself terminated before it is unregistered (future.go) is still the registrant
		{Refs: ab, Ops: []Op{reg(0), get(1), {K: "kill", P: 0}, get(1), get(0), unreg(0), get(1)}},
		// contract breaker (IsTerminated constantly false): the cache keeps the removed process
		{Refs: ab, Ops: []Op{{K: "reg", R: 0, Kind: "sticky"}, get(1), unreg(0), get(1), get(0), reg(0), get(1), get(0)}},
	}
}

func genCase(rng *vh.RNG, stickyStream bool) Case {
	var c Case
	nr := rng.Range(2, 7)
	fch := 14
	if rng.Chance(1, 3) {
		c.NS = rng.Intn(len(nodeStyles))
		fch = 4 // a case about node addresses has more foreign references
	}
	for i := 0; i < nr; i++ {
		c.Refs = append(c.Refs, Ref{A: rng.Intn(3), F: rng.Chance(1, fch)})
	}
	if rng.Chance(1, 2) { // concentrate on one address: more reuse
		for i := range c.Refs {
			if rng.Chance(2, 3) {
				c.Refs[i].A = 0
			}
		}
	}
	n := rng.Range(1, 40)
	nproc := 0
	wr, wu, wg := rng.Range(1, 4), rng.Range(1, 4), rng.Range(2, 8)
	for i := 0; i < n; i++ {
		x := rng.Intn(wr + wu + wg + 1)
		r := rng.Intn(nr)
		switch {
		case x < wr:
			k := "actor"
			if stickyStream && rng.Chance(1, 3) {
				k = "sticky"
			}
			c.Ops = append(c.Ops, Op{K: "reg", R: r, Kind: k})
			nproc++
		case x < wr+wu:
			c.Ops = append(c.Ops, Op{K: "unreg", R: r})
		case x < wr+wu+wg:
			c.Ops = append(c.Ops, Op{K: "get", R: r})
		default:
			if rng.Chance(1, 3) {
				c.Ops = append(c.Ops, Op{K: "getnil"})
			} else if nproc > 0 {
				c.Ops = append(c.Ops, Op{K: "kill", P: rng.Intn(nproc)})
			} else {
				c.Ops = append(c.Ops, Op{K: "kill", P: rng.Intn(3)}) // no such process yet: no effect
			}
		}
	}
	if rng.Chance(1, 2) {
		// weave in: register, lookup through x (fills its cache), unregister, register again, lookup through x
		x := rng.Intn(nr)
		same := []int{}
		for i, r := range c.Refs {
			if r.A == c.Refs[x].A {
				same = append(same, i)
			}
		}
		any := func() int { return same[rng.Intn(len(same))] }
		pat := []Op{{K: "reg", R: any(), Kind: "actor"}, {K: "get", R: x}, {K: "unreg", R: any()}, {K: "reg", R: any(), Kind: "actor"}, {K: "get", R: x}}
		pos := 0
		for _, o := range pat {
			pos += rng.Intn(len(c.Ops) - pos + 1)
			c.Ops = append(c.Ops[:pos], append([]Op{o}, c.Ops[pos:]...)...)
			pos++
		}
		// kill ops refer to process numbers: keep them within the processes created so far
		np := 0
		for i := range c.Ops {
			if c.Ops[i].K == "reg" {
				np++
			} else if c.Ops[i].K == "kill" && np > 0 {
				c.Ops[i].P %= np
			}
		}
	}
	return c
}

func record(out *vh.Out, c *Case, malformed bool) {
	runImpl(c)
	v := monitor(c)
	s := analyse(c)
	nt := s.reuseCached > 0
	if malformed {
		out.Malformed()
		nt = false
	}
	out.Count("ops_len", vh.Bucket(len(c.Ops)))
	out.Count("refs", fmt.Sprint(len(c.Refs)))
	for _, o := range c.Ops {
		out.Count("op_mix", o.K)
	}
	out.Count("lookups_with_reused_address_and_stale_cache", vh.Bucket(s.reuseCached))
	if s.lookups > 0 {
		out.Count("cache_hit_ratio_percent", vh.Bucket(100*s.hits/s.lookups))
	}
	out.Count("registrations_refused", vh.Bucket(s.refused))
	out.Count("unregister_absent", vh.Bucket(s.absent))
	out.Add(c, coqCase(out.N(), c), nt, v)
}

func main() {
	f := vh.ParseFlags()
	if f.Replay != "" {
		var c Case
		vh.LoadReplayCase(f.Replay, &c)
		want := append([]Res(nil), c.Impl...)
		runImpl(&c)
		v := monitor(&c)
		b, _ := json.Marshal(map[string]interface{}{"case": c, "recorded_impl": want, "monitor": v})
		fmt.Println(string(b))
		if len(v) > 0 {
			os.Exit(1)
		}
		return
	}
	out := vh.NewOut(f.Out, "reg", "From MV Require Import Lib.ListX C12.RegModel C12.RegRun.", "case", "mismatches", f.Seed,
		"random op sequences (len 1..40) of Register/Unregister/GetProcess/GetProcess(nil)/self-termination over 3 addresses and 2..7 reference objects (shared = used by several ops, some with a foreign node), one new stub process per Register; a separate stream with contract-breaking processes (IsTerminated constantly false) counted as malformed; thorough adds every sequence of length<=6 over {Reg r0, Unreg r1, Get r0, Get r1, Get r2, Kill 0} (r0,r1 same address); non-trivial = a lookup through a reference that still caches an earlier registrant of an address that has been unregistered and registered again; distinct by hash of (refs, ops)")
	out.PerShard = 170
	rng := vh.NewRNG(f.Seed)
	for _, c := range corpus() {
		c := c
		sticky := false
		for _, o := range c.Ops {
			sticky = sticky || o.Kind == "sticky"
		}
		record(out, &c, sticky)
	}
	n := f.N
	if n == 0 {
		n = 2400
		if f.Tier == "thorough" {
			n = 40000
		}
	}
	for i := 0; i < n; i++ {
		cr, _ := rng.Derive()
		c := genCase(cr, false)
		record(out, &c, false)
	}
	for i := 0; i < n/10; i++ {
		cr, _ := rng.Derive()
		c := genCase(cr, true)
		record(out, &c, true)
	}
	if f.Tier == "thorough" {
		refs := []Ref{{A: 0}, {A: 0}, {A: 1}}
		alpha := []Op{{K: "reg", R: 0, Kind: "actor"}, {K: "unreg", R: 1}, {K: "get", R: 0}, {K: "get", R: 1}, {K: "get", R: 2}, {K: "kill", P: 0}}
		var rec func(prefix []Op, depth int)
		rec = func(prefix []Op, depth int) {
			if len(prefix) > 0 {
				c := Case{Refs: refs, Ops: append([]Op(nil), prefix...)}
				record(out, &c, false)
			}
			if depth == 0 {
				return
			}
			for _, o := range alpha {
				rec(append(prefix, o), depth-1)
			}
		}
		rec(nil, 6)
	}
	out.Close()
}
