// c07ask: stress / differential harness (tie T1) for property C07 on the REAL vivid.ActorSystem:
// K askers x {reply at once, reply after the timeout, never reply, error reply, reply twice, reply
// racing the timer} through ActorSystem.FutureAsk, ActorContext.FutureAsk (inside an actor) and the
// typed helper vivid.FutureAsk[M]. Every request carries a unique sequence number that the reply
// echoes. Monitors (independent of the Coq model): every ask completes, within timeout+slack,
// exactly once, with ITS OWN number or the timeout error (an error reply fails it with that error);
// the temporary reply address of every completed ask no longer resolves (a probe sent to it lands
// in the abyss); no two asks are handed the same reply address.
// The Coq side (MV.C07.FutRun) recomputes, for every observed (ordering class, behaviour), the set
// of outcomes the machine MV.C07.FutModel allows and compares.
// Two more sub-harnesses write their own summaries: "life" (life.go: the id source over restarts and
// re-creation) and "leak" (leak.go: asks with 1 ns .. 3 us timeouts, registry enumerated afterwards).
package main

import (
	"encoding/json"
	"errors"
	"fmt"
	"io"
	"log/slog"
	"os"
	"os/exec"
	"path/filepath"
	"sort"
	"strings"
	"sync"
	"sync/atomic"
	"time"

	"github.com/kercylan98/minotaur/engine/future"
	"github.com/kercylan98/minotaur/engine/prc"
	"github.com/kercylan98/minotaur/engine/vivid"
	"github.com/kercylan98/minotaur/toolkit/log"
	"verif/harness/vh"
)

// ---------------------------------------------------------------- case format

type Cell struct {
	Class   string `json:"class"`   // before | after | near | none   (ordering of the reply w.r.t. the deadline, see classify)
	Outcome string `json:"outcome"` // own | timeout | msg+timeout | errreply | foreign | second | errmsg | hang | panic | other
	N       int    `json:"n"`
}

type Case struct {
	Route     string `json:"route"` // sys | ctx | typed | typedctx
	K         int    `json:"k"`     // concurrent askers (goroutines for sys/typed, asker actors for ctx/typedctx)
	N         int    `json:"n"`     // asks per asker
	Beh       string `json:"beh"`   // echo | delay | never | error | fwderror (error piped through another future's Forward) | twice | race
	TimeoutMs int    `json:"timeout_ms"`
	DelayMs   int    `json:"delay_ms"`
	// observed
	Cells        []Cell `json:"cells"`
	DupAddr      int    `json:"dup_addr"`      // asks whose reply address was also handed to another ask of the case
	NotReleased  int    `json:"not_released"`  // completed asks whose reply address still resolved afterwards
	NotDelivered int    `json:"not_delivered"` // requests the target actor never received
	Late         int    `json:"late"`          // asks completed later than timeout+slack
	Asks         int    `json:"asks"`
}

// ---------------------------------------------------------------- messages

type reqMsg struct {
	Seq   int64
	Beh   string
	Delay time.Duration
}
type repMsg struct {
	Seq    int64
	Second bool
}
type seqErr struct{ Seq int64 }
type innerReq struct{ Seq int64 }

func isErrBeh(b string) bool { return b == "error" || b == "fwderror" }

func (e *seqErr) Error() string { return fmt.Sprintf("scripted error reply %d", e.Seq) }

type probeMsg struct{ Idx int }
type syncMsg struct{ ch chan struct{} }
type goMsg struct{ run func(ctx vivid.ActorContext) }

// ---------------------------------------------------------------- recording abyss (public API: WithAbyss)

type recAbyss struct {
	mu     sync.Mutex
	probes map[int]bool
}

func (a *recAbyss) OnInitialize(system *vivid.ActorSystem)              {}
func (a *recAbyss) Initialize(rc *prc.ResourceController, id *prc.ProcessId) {}
func (a *recAbyss) IsTerminated() bool                                  { return false }
func (a *recAbyss) Terminate(source *prc.ProcessId)                     {}
func (a *recAbyss) DeliverySystemMessage(receiver, sender, forward *prc.ProcessId, message prc.Message) {
}
func (a *recAbyss) DeliveryUserMessage(receiver, sender, forward *prc.ProcessId, message prc.Message) {
	if w, ok := message.(*prc.MessageWrapper); ok {
		message = w.Message
	}
	if p, ok := message.(*probeMsg); ok {
		a.mu.Lock()
		a.probes[p.Idx] = true
		a.mu.Unlock()
	}
}

// ---------------------------------------------------------------- target actor

type stamp struct{ recv, start, done time.Time } // request received / reply call started / reply call returned

type target struct {
	mu    sync.Mutex
	seen  map[int64]*stamp
	nils  int
	other int
}

func (t *target) st(seq int64) *stamp {
	t.mu.Lock()
	defer t.mu.Unlock()
	s := t.seen[seq]
	if s == nil {
		s = &stamp{}
		t.seen[seq] = s
	}
	return s
}
func (t *target) get(seq int64) (stamp, bool) {
	t.mu.Lock()
	defer t.mu.Unlock()
	s := t.seen[seq]
	if s == nil {
		return stamp{}, false
	}
	return *s, true
}

func (t *target) OnReceive(ctx vivid.ActorContext) {
	switch m := ctx.Message().(type) {
	case *reqMsg:
		s := t.st(m.Seq)
		t.mu.Lock()
		s.recv = time.Now()
		t.mu.Unlock()
		reply := func(f func()) {
			t.mu.Lock()
			s.start = time.Now()
			t.mu.Unlock()
			f()
			t.mu.Lock()
			s.done = time.Now()
			t.mu.Unlock()
		}
		switch m.Beh {
		case "echo":
			reply(func() { ctx.Reply(&repMsg{Seq: m.Seq}) })
		case "twice":
			reply(func() { ctx.Reply(&repMsg{Seq: m.Seq}) })
			ctx.Reply(&repMsg{Seq: m.Seq, Second: true})
		case "error":
			reply(func() { ctx.Reply(&seqErr{Seq: m.Seq}) })
		case "fwderror":
			// the error reaches the asker's future through another future's Forward, which delivers it as it is (not
			// wrapped): the target asks itself, fails that inner ask with an error reply and pipes it to the asker
			sender := ctx.Sender()
			reply(func() {
				inner := ctx.FutureAsk(ctx.Ref(), &innerReq{Seq: m.Seq}, 2*time.Second)
				inner.Forward(sender)
			})
		case "never":
		case "delay", "race":
			sender := ctx.Sender()
			d := m.Delay
			go func() {
				time.Sleep(d)
				defer func() { _ = recover() }()
				reply(func() { ctx.Ask(sender, &repMsg{Seq: m.Seq}) })
			}()
		}
	case *innerReq:
		ctx.Reply(&seqErr{Seq: m.Seq})
	case *syncMsg:
		close(m.ch)
	case nil:
		t.mu.Lock()
		t.nils++
		t.mu.Unlock()
	case *vivid.OnLaunch, vivid.OnLaunch:
	default:
		_ = m
	}
}

type asker struct{}

func (a *asker) OnReceive(ctx vivid.ActorContext) {
	if g, ok := ctx.Message().(*goMsg); ok {
		g.run(ctx)
	}
}

// ---------------------------------------------------------------- one ask

type askRec struct {
	seq     int64
	addr    string
	ref     *prc.ProcessId
	t0      time.Time // just before the ask call (the timer is armed after this instant)
	tDone   time.Time // just after Result() returned
	outcome string
	detail  string
	hung    bool
	late    bool
}

type resT struct {
	m   any
	err error
	pan string
	at  time.Time
}

// await waits for the future's result with a watchdog; ok=false = the ask never completed.
// The completion instant is taken inside the waiting goroutine. When the watchdog fires, a result that is
// already there (or arrives within a grace period) wins: on an overloaded machine both may become ready at once.
func await(get func() (any, error), wd time.Duration) (r resT, ok bool) {
	return awaitG(get, wd, grace)
}

func awaitG(get func() (any, error), wd, grace time.Duration) (r resT, ok bool) {
	ch := make(chan resT, 1)
	go func() {
		defer func() {
			if e := recover(); e != nil {
				ch <- resT{pan: fmt.Sprint(e), at: time.Now()}
			}
		}()
		m, err := get()
		ch <- resT{m: m, err: err, at: time.Now()}
	}()
	t := time.NewTimer(wd)
	defer t.Stop()
	select {
	case r = <-ch:
		return r, true
	case <-t.C:
		select {
		case r = <-ch:
			return r, true
		case <-time.After(grace):
			return resT{}, false
		}
	}
}

func isNil(m any) bool {
	if m == nil {
		return true
	}
	if p, ok := m.(*repMsg); ok && p == nil {
		return true
	}
	return false
}

func outcomeOf(seq int64, r resT) (string, string) {
	if r.pan != "" {
		return "panic", r.pan
	}
	rep, isRep := r.m.(*repMsg)
	if isRep && rep == nil {
		isRep = false
	}
	switch {
	case r.err == nil && isRep && rep.Seq == seq && !rep.Second:
		return "own", ""
	case r.err == nil && isRep && rep.Seq == seq && rep.Second:
		return "second", "completed with the SECOND reply to the request"
	case isRep && rep.Seq != seq:
		return "foreign", fmt.Sprintf("request %d completed with the reply to request %d", seq, rep.Seq)
	case errors.Is(r.err, future.ErrorFutureTimeout) && isNil(r.m):
		return "timeout", ""
	case errors.Is(r.err, future.ErrorFutureTimeout) && isRep && rep.Seq == seq:
		return "msg+timeout", ""
	}
	var se *seqErr
	if r.err != nil && errors.As(r.err, &se) {
		if se.Seq == seq && isNil(r.m) {
			return "errreply", ""
		}
		if se.Seq != seq {
			return "foreign", fmt.Sprintf("request %d failed with the error reply to request %d", seq, se.Seq)
		}
	}
	if r.err == nil {
		if e, ok := r.m.(*seqErr); ok {
			return "errmsg", fmt.Sprintf("error reply %d was delivered as an ordinary message with a nil error", e.Seq)
		}
	}
	return "other", fmt.Sprintf("message=%T %v err=%v", r.m, r.m, r.err)
}

// ---------------------------------------------------------------- running a case

const (
	slack    = 1500 * time.Millisecond // completion later than timeout+slack (and well after a reference timer of that deadline) counts as late
	watchdog = 4 * time.Second         // no completion within timeout+watchdog(+grace) counts as never
	grace    = 2 * time.Second
	margin   = 300 * time.Millisecond
)

var silent = log.FunctionalLoggerProvider(func() *log.Logger {
	return slog.New(slog.NewTextHandler(io.Discard, &slog.HandlerOptions{Level: slog.Level(100)}))
})

type runResult struct {
	viol []vh.Violation
}

func runCase(c *Case) (viol []vh.Violation) {
	sig := map[string]string{"route": c.Route, "beh": c.Beh}
	add := func(kind, detail string) {
		for _, v := range viol {
			if v.Kind == kind {
				return
			}
		}
		viol = append(viol, vh.Violation{Kind: kind, Detail: fmt.Sprintf("route=%s k=%d n=%d beh=%s timeout=%dms: %s", c.Route, c.K, c.N, c.Beh, c.TimeoutMs, detail), Sig: sig})
	}
	c.Cells, c.DupAddr, c.NotReleased, c.NotDelivered, c.Late, c.Asks = nil, 0, 0, 0, 0, 0
	defer func() {
		if e := recover(); e != nil {
			c.Cells = append(c.Cells, Cell{Class: "none", Outcome: "panic", N: 1})
			add("future:ask:panic", fmt.Sprint(e))
		}
	}()
	ab := &recAbyss{probes: map[int]bool{}}
	sys := vivid.NewActorSystem(vivid.FunctionalActorSystemConfigurator(func(cfg *vivid.ActorSystemConfiguration) {
		cfg.WithLoggerProvider(silent)
		cfg.WithAbyss(ab)
	}))
	tg := &target{seen: map[int64]*stamp{}}
	tref := sys.ActorOfF(func() vivid.Actor { return tg }, func(d *vivid.ActorDescriptor) { d.WithName("c07target") })
	timeout := time.Duration(c.TimeoutMs) * time.Millisecond
	delay := time.Duration(c.DelayMs) * time.Millisecond
	var seqSrc int64
	var abort atomic.Bool
	var mu sync.Mutex
	var recs []*askRec

	one := func(ask func(req *reqMsg) (ref *prc.ProcessId, get func() (any, error))) {
		if abort.Load() {
			return
		}
		seq := atomic.AddInt64(&seqSrc, 1)
		req := &reqMsg{Seq: seq, Beh: c.Beh, Delay: delay}
		rec := &askRec{seq: seq}
		var get func() (any, error)
		var refAt atomic.Int64 // when a reference timer with deadline timeout+slack, armed just before the ask, fired
		var refTimer *time.Timer
		func() {
			defer func() {
				if e := recover(); e != nil {
					rec.outcome, rec.detail = "panic", fmt.Sprint(e)
				}
			}()
			rec.t0 = time.Now()
			refTimer = time.AfterFunc(timeout+slack, func() { refAt.Store(int64(time.Since(rec.t0))) })
			rec.ref, get = ask(req)
			if rec.ref != nil {
				rec.addr = rec.ref.LogicalAddress
			}
		}()
		if rec.outcome == "" {
			r, ok := await(get, timeout+watchdog)
			rec.tDone = time.Now()
			if !ok {
				rec.outcome, rec.hung = "hang", true
			} else {
				rec.tDone = r.at
				rec.outcome, rec.detail = outcomeOf(seq, r)
				// late = the reference timer (same start, deadline timeout+slack) had fired well before the completion
				if ra := time.Duration(refAt.Load()); ra > 0 && rec.tDone.Sub(rec.t0)-ra > margin {
					rec.late = true
				}
			}
		}
		if refTimer != nil {
			refTimer.Stop()
		}
		// the rest of a case in which something already went wrong adds nothing: do not wait for hundreds of timeouts
		switch {
		case rec.outcome == "hang" || rec.outcome == "foreign" || rec.outcome == "panic" || rec.outcome == "other" || rec.outcome == "errmsg":
			abort.Store(true)
		case (c.Beh == "echo" || c.Beh == "twice" || isErrBeh(c.Beh)) && rec.outcome != "own" && rec.outcome != "errreply":
			abort.Store(true)
		}
		mu.Lock()
		recs = append(recs, rec)
		mu.Unlock()
	}

	untyped := func(d interface {
		FutureAsk(vivid.ActorRef, vivid.Message, ...time.Duration) future.Future[vivid.Message]
	}) func(req *reqMsg) (*prc.ProcessId, func() (any, error)) {
		return func(req *reqMsg) (*prc.ProcessId, func() (any, error)) {
			f := d.FutureAsk(tref, req, timeout)
			return f.Ref(), func() (any, error) { return f.Result() }
		}
	}

	var wg sync.WaitGroup
	switch c.Route {
	case "sys":
		for g := 0; g < c.K; g++ {
			wg.Add(1)
			go func() {
				defer wg.Done()
				for j := 0; j < c.N; j++ {
					one(untyped(sys))
				}
			}()
		}
	case "typed":
		for g := 0; g < c.K; g++ {
			wg.Add(1)
			go func() {
				defer wg.Done()
				for j := 0; j < c.N; j++ {
					one(func(req *reqMsg) (*prc.ProcessId, func() (any, error)) {
						f := vivid.FutureAsk[*repMsg](sys, tref, req, timeout)
						return f.Ref(), func() (any, error) { m, err := f.Result(); return m, err }
					})
				}
			}()
		}
	case "ctx", "typedctx":
		for g := 0; g < c.K; g++ {
			wg.Add(1)
			ar := sys.ActorOfF(func() vivid.Actor { return &asker{} })
			typed := c.Route == "typedctx"
			sys.Tell(ar, &goMsg{run: func(ctx vivid.ActorContext) {
				defer wg.Done()
				for j := 0; j < c.N; j++ {
					if typed {
						one(func(req *reqMsg) (*prc.ProcessId, func() (any, error)) {
							f := vivid.FutureAsk[*repMsg](ctx, tref, req, timeout)
							return f.Ref(), func() (any, error) { m, err := f.Result(); return m, err }
						})
					} else {
						one(untyped(ctx))
					}
				}
			}})
		}
	default:
		panic("unknown route " + c.Route)
	}
	// the askers themselves are watched: K*N asks, each bounded by timeout+watchdog
	allDone := make(chan struct{})
	go func() { wg.Wait(); close(allDone) }()
	select {
	case <-allDone:
	case <-time.After(time.Duration(c.N)*(timeout+delay+watchdog) + 10*time.Second):
		add("future:ask:never-completes", "the asker goroutines did not finish: an ask call or an asker actor is stuck")
	}
	if c.Beh == "delay" || c.Beh == "race" || c.Beh == "twice" {
		time.Sleep(delay + 30*time.Millisecond) // let the late replies arrive before probing
	}
	// the target's mailbox is FIFO: once it has handled this sentinel it has handled every request sent before
	drained := make(chan struct{})
	sys.Tell(tref, &syncMsg{ch: drained})
	drainedOK := false
	select {
	case <-drained:
		drainedOK = true
	case <-time.After(10 * time.Second):
	}

	// ---- monitors
	mu.Lock()
	defer mu.Unlock()
	c.Asks = len(recs)
	byAddr := map[string]int{}
	for _, r := range recs {
		if r.addr != "" {
			byAddr[r.addr]++
		}
	}
	cells := map[[2]string]int{}
	for i, r := range recs {
		st, got := tg.get(r.seq)
		class := "none"
		switch {
		case !got || st.start.IsZero():
			class = "none" // no reply was ever sent
		case !st.done.IsZero() && st.done.Before(r.t0.Add(timeout)):
			class = "before" // the reply call returned before the timer could possibly fire
		case !r.tDone.IsZero() && st.start.After(r.tDone):
			class = "after" // the reply was sent after the ask had completed
		default:
			class = "near"
		}
		cells[[2]string{class, r.outcome}]++
		if r.addr != "" && byAddr[r.addr] > 1 {
			c.DupAddr++
			add("future:ask:duplicate-address", fmt.Sprintf("reply address %s was handed to %d asks", r.addr, byAddr[r.addr]))
		}
		if !got || st.recv.IsZero() {
			if r.outcome != "panic" && drainedOK {
				c.NotDelivered++
				add("future:ask:request-not-delivered", fmt.Sprintf("the target never received request %d (it saw %d nil messages); the ask ended as %q", r.seq, tg.nils, r.outcome))
			}
		}
		switch r.outcome {
		case "hang":
			add("future:ask:never-completes", fmt.Sprintf("request %d (reply address %s) did not complete within timeout+%v", r.seq, r.addr, watchdog))
		case "foreign":
			add("future:ask:foreign-reply", r.detail)
		case "second":
			add("future:ask:not-first-reply", r.detail)
		case "errmsg":
			add("future:ask:error-reply-not-failed", r.detail)
		case "panic":
			add("future:ask:panic", r.detail)
		case "other":
			add("future:ask:unexpected-result", r.detail)
		case "own":
			if class == "none" || class == "after" {
				add("future:ask:invented-reply", fmt.Sprintf("request %d completed with a reply although none had been sent yet", r.seq))
			}
			if isErrBeh(c.Beh) {
				add("future:ask:error-reply-not-failed", fmt.Sprintf("request %d: error reply completed the ask successfully", r.seq))
			}
		case "errreply":
			if !isErrBeh(c.Beh) {
				add("future:ask:unexpected-result", fmt.Sprintf("request %d failed with an error reply nobody sent", r.seq))
			}
		case "timeout", "msg+timeout":
			if class == "before" {
				add("future:ask:reply-lost", fmt.Sprintf("request %d: the reply was delivered %v before the deadline, yet the ask timed out", r.seq, r.t0.Add(timeout).Sub(st.done)))
			}
		}
		if !r.hung && r.outcome != "panic" {
			if r.late {
				c.Late++
				add("future:ask:late", fmt.Sprintf("request %d completed after %v, timeout %v (a reference timer of timeout+%v fired more than %v earlier)", r.seq, r.tDone.Sub(r.t0), timeout, slack, margin))
			}
			// released: a probe sent to the reply address must land in the abyss
			if r.ref != nil {
				// Result() returns at close(f.done), a few instructions before rc.Unregister: the release is not
				// time-bound, poll for a generous while (300 ms) before calling it missing
				ok := false
				for try := 0; try < 60 && !ok; try++ {
					if try > 0 {
						time.Sleep(5 * time.Millisecond)
					}
					func() {
						defer func() { _ = recover() }()
						sys.Tell(r.ref, &probeMsg{Idx: i})
					}()
					ab.mu.Lock()
					ok = ab.probes[i]
					ab.mu.Unlock()
				}
				if !ok {
					c.NotReleased++
					add("future:ask:address-not-released", fmt.Sprintf("reply address %s of completed request %d still resolves to a process", r.addr, r.seq))
				}
			}
		}
	}
	for k, n := range cells {
		c.Cells = append(c.Cells, Cell{Class: k[0], Outcome: k[1], N: n})
	}
	sort.Slice(c.Cells, func(i, j int) bool {
		if c.Cells[i].Class != c.Cells[j].Class {
			return c.Cells[i].Class < c.Cells[j].Class
		}
		return c.Cells[i].Outcome < c.Cells[j].Outcome
	})
	// shut the system down (watchdog: a stuck shutdown is not this property's business)
	sd := make(chan struct{})
	go func() { defer close(sd); defer func() { _ = recover() }(); sys.Shutdown(true) }()
	select {
	case <-sd:
	case <-time.After(3 * time.Second):
	}
	return viol
}

// ---------------------------------------------------------------- crash containment

// A future whose timer fires before it knows its own ref dereferences a nil ProcessId in the timer goroutine
// (Close -> rc.Unregister(f.ref, ...); repaired in /repo by 2879fd7): a panic in a foreign goroutine cannot be
// recovered and would take the whole harness down. The cases with tiny timeouts (where such a window is reachable)
// therefore run in a child process of this binary (env C07_ONE=<case file>); a crash of the child is reported as a
// monitor hit with the stack.
const tinyTimeoutMs = 5

func runCaseSafe(c *Case, dir string) []vh.Violation {
	if c.TimeoutMs > tinyTimeoutMs || os.Getenv("C07_ONE") != "" {
		return runCase(c)
	}
	if dir == "" {
		dir = os.TempDir()
	}
	f, err := os.CreateTemp(dir, "c07one-*.json")
	if err != nil {
		return runCase(c)
	}
	defer os.Remove(f.Name())
	b, _ := json.Marshal(c)
	_, _ = f.Write(b)
	f.Close()
	cmd := exec.Command(os.Args[0])
	cmd.Env = append(os.Environ(), "C07_ONE="+f.Name())
	var so, se strings.Builder
	cmd.Stdout, cmd.Stderr = &so, &se
	done := make(chan error, 1)
	if err := cmd.Start(); err != nil {
		return runCase(c)
	}
	go func() { done <- cmd.Wait() }()
	select {
	case err = <-done:
	case <-time.After(10 * time.Minute):
		_ = cmd.Process.Kill()
		err = errors.New("child did not finish")
	}
	var res struct {
		Case Case           `json:"case"`
		Viol []vh.Violation `json:"monitor_hits"`
	}
	if err == nil && json.Unmarshal([]byte(so.String()), &res) == nil {
		*c = res.Case
		return res.Viol
	}
	trace := se.String()
	cause := "other"
	if strings.Contains(trace, "nil pointer dereference") && strings.Contains(trace, "ResourceController).Unregister") && strings.Contains(trace, "futureProcess") {
		cause = "ref-unset-when-timer-fires"
	}
	if len(trace) > 1500 {
		trace = trace[:1500]
	}
	c.Cells = []Cell{{Class: "none", Outcome: "panic", N: 1}}
	return []vh.Violation{{Kind: "future:ask:process-crash",
		Detail: fmt.Sprintf("route=%s k=%d n=%d beh=%s timeout=%dms: the process running the asks died (%v): %s", c.Route, c.K, c.N, c.Beh, c.TimeoutMs, err, trace),
		Sig:    map[string]string{"route": c.Route, "beh": c.Beh, "cause": cause}}}
}

// ---------------------------------------------------------------- Coq term

func coqBeh(b string) string {
	return map[string]string{"echo": "BEcho", "delay": "BDelay", "never": "BNever", "error": "BError", "fwderror": "BError", "twice": "BTwice", "race": "BRace"}[b]
}
func coqClass(s string) string {
	return map[string]string{"before": "KBefore", "after": "KAfter", "near": "KNear", "none": "KNone"}[s]
}
func coqOutcome(s string) string {
	m := map[string]string{"own": "OOwn", "timeout": "OTimeout", "msg+timeout": "OMsgTimeout", "errreply": "OErrReply"}
	if t, ok := m[s]; ok {
		return t
	}
	return "OBad" // foreign / second / errmsg / hang / panic / other: never produced by the model
}

func coqTerm(id int, c *Case) string {
	var cells []string
	for _, x := range c.Cells {
		cells = append(cells, fmt.Sprintf("(%s, %s, %d%%nat)", coqClass(x.Class), coqOutcome(x.Outcome), x.N))
	}
	return fmt.Sprintf("{| tcid := %d; ck := %d; cbeh := %s; ccells := [%s]; cdup := %d; cnotrel := %d; cnotdel := %d |}",
		id, c.K, coqBeh(c.Beh), strings.Join(cells, "; "), c.DupAddr, c.NotReleased, c.NotDelivered)
}

// ---------------------------------------------------------------- generation

func nontrivial(c *Case) bool {
	return ((c.Route == "sys" || c.Route == "typed") && c.K >= 2) || c.Beh == "race"
}

func gen(rng *vh.RNG, tier string) []*Case {
	var cs []*Case
	// corpus: the two confirmed defect witnesses first
	cs = append(cs, &Case{Route: "sys", K: 16, N: 300, Beh: "echo", TimeoutMs: 1000})
	cs = append(cs, &Case{Route: "typed", K: 1, N: 3, Beh: "echo", TimeoutMs: 300})
	cs = append(cs, &Case{Route: "typedctx", K: 1, N: 3, Beh: "echo", TimeoutMs: 300})
	cs = append(cs, &Case{Route: "sys", K: 1, N: 3, Beh: "error", TimeoutMs: 300})
	cs = append(cs, &Case{Route: "sys", K: 1, N: 3, Beh: "fwderror", TimeoutMs: 1000})
	cs = append(cs, &Case{Route: "ctx", K: 2, N: 5, Beh: "fwderror", TimeoutMs: 1000})
	ks := []int{1, 2, 8, 16}
	routes := []string{"sys", "ctx", "typed", "typedctx"}
	behs := []string{"echo", "delay", "never", "error", "fwderror", "twice", "race"}
	rounds := 1
	if tier == "thorough" {
		rounds = 8
	}
	for r := 0; r < rounds; r++ {
		for _, route := range routes {
			for _, k := range ks {
				for _, b := range behs {
					c := &Case{Route: route, K: k, Beh: b}
					switch b {
					case "echo", "twice", "error", "fwderror":
						c.TimeoutMs = []int{500, 1000, 2000}[rng.Intn(3)]
						c.N = rng.Range(20, 60)
						if tier == "thorough" {
							c.N = rng.Range(50, 300)
						}
						if b == "twice" {
							c.DelayMs = 0
						}
					case "never":
						c.TimeoutMs = []int{1, 5, 20, 50, 100}[rng.Intn(5)]
						c.N = rng.Range(2, 4)
					case "delay":
						c.TimeoutMs = []int{1, 5, 20, 50, 100}[rng.Intn(5)]
						c.DelayMs = c.TimeoutMs + rng.Range(40, 120)
						c.N = rng.Range(2, 4)
					case "race":
						c.TimeoutMs = []int{1, 2, 5, 20, 50}[rng.Intn(5)]
						c.DelayMs = c.TimeoutMs
						c.N = rng.Range(4, 10)
					}
					cs = append(cs, c)
				}
			}
		}
	}
	return cs
}

func main() {
	if p := os.Getenv("C07_LEAK_ONE"); p != "" { // child of runLeakSafe (leak.go): one case, result on stdout
		leakChildMain(p)
		return
	}
	if p := os.Getenv("C07_ONE"); p != "" { // child of runCaseSafe: one case, result on stdout
		var c Case
		b, err := os.ReadFile(p)
		if err != nil || json.Unmarshal(b, &c) != nil {
			os.Exit(3)
		}
		viol := runCase(&c)
		out, _ := json.Marshal(map[string]interface{}{"case": c, "monitor_hits": viol})
		fmt.Println(string(out))
		return
	}
	f := vh.ParseFlags()
	if f.Replay != "" {
		var kc KCase
		vh.LoadReplayCase(f.Replay, &kc)
		if kc.Stress != "" { // a case of the sub-harness "leak" (leak.go): the interleaving is the runtime's, try a few times
			attempts := 20
			var viol []vh.Violation
			done := 0
			for i := 0; i < attempts && len(viol) == 0; i++ {
				viol = runLeakSafe(&kc, filepath.Dir(f.Replay))
				done++
			}
			b, _ := json.MarshalIndent(map[string]interface{}{"case": kc, "monitor_hits": viol, "attempts": done}, "", " ")
			fmt.Println(string(b))
			if len(viol) > 0 {
				os.Exit(1)
			}
			return
		}
		var lc LCase
		vh.LoadReplayCase(f.Replay, &lc)
		if lc.Family != "" { // a script of the sub-harness "life" (life.go)
			viol := runLife(&lc)
			b, _ := json.MarshalIndent(map[string]interface{}{"case": lc, "monitor_hits": viol, "attempts": 1}, "", " ")
			fmt.Println(string(b))
			if len(viol) > 0 {
				os.Exit(1)
			}
			return
		}
		var c Case
		vh.LoadReplayCase(f.Replay, &c)
		attempts := 1
		if c.K > 1 || c.Beh == "race" {
			attempts = 5 // concurrent askers: the interleaving is the machine's, try a few times
		}
		var viol []vh.Violation
		for i := 0; i < attempts && len(viol) == 0; i++ {
			viol = runCaseSafe(&c, filepath.Dir(f.Replay))
		}
		b, _ := json.MarshalIndent(map[string]interface{}{"case": c, "monitor_hits": viol, "attempts": attempts}, "", " ")
		fmt.Println(string(b))
		if len(viol) > 0 {
			os.Exit(1)
		}
		return
	}
	out := vh.NewOut(f.Out, "ask", "From MV Require Import Lib.ListX Lib.Sched C07.FutModel C07.FutRun.", "tcase", "tmismatches", f.Seed,
		"asks on a real ActorSystem: route in {ActorSystem.FutureAsk, ActorContext.FutureAsk inside an actor, typed helper from outside, typed helper inside an actor} x K in {1,2,8,16} concurrent askers x behaviour of the target in {reply at once, reply after the timeout, never, error reply, reply twice, reply exactly at the timeout}; timeouts 1-100 ms for the timing behaviours, 0.5-2 s otherwise; corpus first (16x300 echo through the system, typed helper); non-trivial = K>=2 askers sharing one context's id counter (system / typed-from-outside routes) or a reply racing the timer; distinct by hash of configuration + observed outcome table")
	rng := vh.NewRNG(f.Seed)
	cases := gen(rng, f.Tier)
	if f.N > 0 && f.N < len(cases) {
		cases = cases[:f.N]
	}
	subs := os.Getenv("C07_SUBS") // "" = all; "life" / "leak": only that sub-harness (development aid; "leak" is also the
	// failing-input search of checks/c07.py when the creation-order tie is broken)
	if subs == "leak" {
		runLeakSub(f)
		return
	}
	if subs == "life" {
		cases = nil
	}
	for _, c := range cases {
		viol := runCaseSafe(c, f.Out)
		out.Count("route", c.Route)
		out.Count("k", fmt.Sprint(c.K))
		out.Count("behaviour", c.Beh)
		out.Count("timeout_ms", fmt.Sprint(c.TimeoutMs))
		for _, x := range c.Cells {
			for i := 0; i < x.N; i++ {
				out.Count("outcome", x.Outcome)
				out.Count("reply_vs_deadline", x.Class)
			}
		}
		out.Add(c, coqTerm(out.N(), c), nontrivial(c), viol)
	}
	out.Close()

	// sub-harness "life": the id source over the life of an asking actor (restarts, re-creation), see life.go
	lout := vh.NewOut(f.Out, "life", "From MV Require Import Lib.ListX Lib.Sched C07.LifeModel C07.LifeRun.", "rcase", "rmismatches", f.Seed,
		"scripts driving ONE asker actor on a real ActorSystem: steps in {FutureAsk, typed FutureAsk to a target that answers at once / never / well before the deadline / after it, AwaitForward, anonymous child, crash (panic under an immediate Restart strategy, 0-3 times, also twice in a row), respawn (terminate + create again under the same name)}; 0-4 consumers of the id counter per incarnation, asks pending across the lifecycle steps (timeouts 500-900 ms); corpus first; non-trivial = at least one lifecycle step and at least one collision opportunity (an ask provably pending while a later incarnation issues the ask with the same ordinal); distinct by hash of script + observed addresses and outcomes")
	lcases := genLife(vh.NewRNG(f.Seed^0xc07c07), f.Tier)
	if f.N > 0 && f.N < len(lcases) {
		lcases = lcases[:f.N]
	}
	runLifeAll(lout, lcases)
	lout.Close()

	// sub-harness "leak": tiny timeouts against a silent target, registry enumerated afterwards, see leak.go
	runLeakSub(f)
}

func runLeakSub(f vh.Flags) {
	kout := vh.NewOut(f.Out, "leak", "", "", "", f.Seed,
		"asks with timeouts of 1 ns .. 3 us (every route at least once with 1 ns) to a target that never answers, issued by K in {4,8,16} concurrent askers (GOMAXPROCS >= 4) through ActorSystem.FutureAsk / ActorContext.FutureAsk in K actors / future.New on the system's registry; 3 000-7 500 asks per asker (thorough 10 000-25 000); every ask must complete with the timeout error, then the registry is enumerated: a reply address of a completed ask still registered after a 2 s grace period is C07:address-leaked-after-completion; each case in a child process; non-trivial = K >= 2 askers on >= 2 Ps with a timeout <= 1 us; distinct by hash of configuration + observed counters; not evaluated in Coq (search oracle for MV.C07.RegProofs.init_first_leaks)")
	kcases := genLeak(vh.NewRNG(f.Seed^0x1eac07), f.Tier)
	if f.N > 0 && f.N < len(kcases) {
		kcases = kcases[:f.N]
	}
	runLeakAll(kout, kcases, f.Out)
	kout.Close()
}
