// leak.go: sub-harness "leak" of c07ask — the search oracle for the clause "each completed ask releases its temporary
// reply address" under timeouts that are shorter than the creation of the future itself.
//
// The Coq machine MV.C07.RegModel splits future.New -> ResourceController.Register -> futureProcess.Initialize into
// atomic steps and proves (MV.C07.RegProofs, every interleaving with the timer goroutine, every timeout) that for the
// order of the source — publish in the registry, then f.rc, f.ref, then arm the timer — a completed ask's address is
// stored once, removed once and never registered again; for "Initialize before publishing" it has the refuting schedule
// (the timer fires between AfterFunc and LoadOrStore: Close unregisters an address that is not there yet, Register then
// stores the completed future for good). Tie T3 (harness/translate/c07reg) reads that order from the tree under test.
// This family looks for the refuting schedule on the REAL code: K goroutines (GOMAXPROCS >= 4: the timer must run
// beside its creator) issue N asks each with a timeout of 1 ns .. a few µs against a target that never answers,
//
//	sys   ActorSystem.FutureAsk from K goroutines (one shared guard context),
//	ctx   ActorContext.FutureAsk inside K asker actors,
//	new   future.New directly on the system's ResourceController (the tightest loop around Register),
//
// every ask must complete with the timeout error; afterwards the registry is enumerated (hook VerifResourceController +
// reflection over the process table; fall-back: every recorded address is probed with GetProcess) and a reply address of
// a COMPLETED ask that is still registered after a grace period of 2 s (Result() returns at close(f.done), a few
// instructions before rc.Unregister: the release is not time-bound) is the monitor hit
// C07:address-leaked-after-completion. Each case runs in a child process: a nil dereference in a timer goroutine (the
// defect repaired by 2879fd7) cannot be recovered and is reported as future:ask:process-crash.
package main

import (
	"encoding/json"
	"errors"
	"fmt"
	"os"
	"os/exec"
	"reflect"
	"runtime"
	"sort"
	"strconv"
	"strings"
	"sync"
	"time"
	"unsafe"

	"github.com/kercylan98/minotaur/engine/future"
	"github.com/kercylan98/minotaur/engine/prc"
	"github.com/kercylan98/minotaur/engine/vivid"
	"verif/harness/vh"
)

type KCase struct {
	Stress    string `json:"stress"` // tiny-timeout (distinguishes the case format in a replay file)
	Route     string `json:"route"`  // sys | ctx | new
	K         int    `json:"k"`      // concurrent askers
	N         int    `json:"n"`      // asks per asker
	TimeoutNs int    `json:"timeout_ns"`
	// observed
	Procs       int      `json:"procs"`
	Asks        int      `json:"asks"`
	TimedOut    int      `json:"timed_out"`
	OtherResult int      `json:"other_result"`
	Leaked      int      `json:"leaked"`       // reply addresses of completed asks still registered after the grace period
	LeakedAddrs []string `json:"leaked_addrs"` // the first few
	Foreign     int      `json:"foreign"`      // non-actor registry entries that are not reply addresses of this case
	Enumeration string   `json:"enumeration"`  // reflect | probe
	SettleMs    int      `json:"settle_ms"`    // how long it took until no completed ask was registered any more
}

const leakGrace = 2 * time.Second

func unexportedField(v reflect.Value, name string) reflect.Value {
	f := v.FieldByName(name)
	return reflect.NewAt(f.Type(), unsafe.Pointer(f.UnsafeAddr())).Elem()
}

// registryTemps enumerates the non-actor entries of the ResourceController (everything that is neither an actor nor the
// dead-letter process). ok=false: the process table does not have the expected shape (use the probing fall-back).
func registryTemps(sys *vivid.ActorSystem) (temps []string, ok bool) {
	if os.Getenv("C07_LEAK_PROBE") != "" { // exercise the fall-back
		return nil, false
	}
	defer func() {
		if recover() != nil {
			temps, ok = nil, false
		}
	}()
	rc := sys.VerifResourceController()
	abyssAddr := sys.Abyss().GetLogicalAddress()
	tbl := unexportedField(reflect.ValueOf(rc).Elem(), "processes")
	rng := tbl.MethodByName("Range")
	if !rng.IsValid() {
		return nil, false
	}
	fn := reflect.MakeFunc(rng.Type().In(0), func(args []reflect.Value) []reflect.Value {
		addr := args[0].String()
		if addr != abyssAddr {
			tn := ""
			if !args[1].IsNil() {
				tn = args[1].Elem().Type().String()
			}
			if !strings.HasSuffix(tn, ".actorProcess") {
				temps = append(temps, addr)
			}
		}
		return []reflect.Value{reflect.ValueOf(true)}
	})
	rng.Call([]reflect.Value{fn})
	return temps, true
}

type silentTarget struct{}

func (t *silentTarget) OnReceive(ctx vivid.ActorContext) {}

func runLeak(c *KCase) (viol []vh.Violation) {
	sig := map[string]string{"family": "tiny-timeout", "route": c.Route}
	add := func(kind, detail string) {
		for _, v := range viol {
			if v.Kind == kind {
				return
			}
		}
		viol = append(viol, vh.Violation{Kind: kind, Detail: fmt.Sprintf("tiny-timeout route=%s k=%d n=%d timeout=%dns GOMAXPROCS=%d: %s", c.Route, c.K, c.N, c.TimeoutNs, c.Procs, detail), Sig: sig})
	}
	c.Asks, c.TimedOut, c.OtherResult, c.Leaked, c.LeakedAddrs, c.Foreign, c.SettleMs = 0, 0, 0, 0, nil, 0, 0
	if runtime.GOMAXPROCS(0) < 4 {
		runtime.GOMAXPROCS(4) // the slip needs the timer goroutine to run beside its creator
	}
	c.Procs = runtime.GOMAXPROCS(0)
	sys := vivid.NewActorSystem(vivid.FunctionalActorSystemConfigurator(func(cfg *vivid.ActorSystemConfiguration) {
		cfg.WithLoggerProvider(silent)
	}))
	tref := sys.ActorOfF(func() vivid.Actor { return &silentTarget{} }, func(d *vivid.ActorDescriptor) { d.WithName("c07silent") })
	rc := sys.VerifResourceController()
	timeout := time.Duration(c.TimeoutNs) * time.Nanosecond
	base := prc.NewProcessId(sys.PhysicalAddress(), "/c07leak")

	type res struct {
		addrs    []string
		timedOut int
		other    int
		firstOdd string
	}
	results := make([]res, c.K)
	var wg sync.WaitGroup
	loop := func(g int, ask func(j int) future.Future[vivid.Message]) {
		defer wg.Done()
		r := &results[g]
		r.addrs = make([]string, 0, c.N)
		for j := 0; j < c.N; j++ {
			f := ask(j)
			_, err := f.Result()
			if errors.Is(err, future.ErrorFutureTimeout) {
				r.timedOut++
			} else {
				r.other++
				if r.firstOdd == "" {
					r.firstOdd = fmt.Sprintf("ask %d of asker %d: err=%v", j, g, err)
				}
			}
			if ref := f.Ref(); ref != nil {
				r.addrs = append(r.addrs, ref.GetLogicalAddress())
			}
		}
	}
	req := &reqMsg{Beh: "never"}
	for g := 0; g < c.K; g++ {
		g := g
		wg.Add(1)
		switch c.Route {
		case "sys":
			go loop(g, func(int) future.Future[vivid.Message] { return sys.FutureAsk(tref, req, timeout) })
		case "new":
			go loop(g, func(j int) future.Future[vivid.Message] {
				return future.New[vivid.Message](rc, base.Derivation(strconv.Itoa(g)+"-"+strconv.Itoa(j)), timeout)
			})
		case "ctx":
			ar := sys.ActorOfF(func() vivid.Actor { return &asker{} })
			sys.Tell(ar, &goMsg{run: func(ctx vivid.ActorContext) {
				loop(g, func(int) future.Future[vivid.Message] { return ctx.FutureAsk(tref, req, timeout) })
			}})
		default:
			panic("unknown route " + c.Route)
		}
	}
	allDone := make(chan struct{})
	go func() { wg.Wait(); close(allDone) }()
	select {
	case <-allDone:
	case <-time.After(60*time.Second + time.Duration(c.K*c.N)*20*time.Microsecond):
		add("future:ask:never-completes", "the asker goroutines did not finish: an ask with a tiny timeout never completed")
		return viol
	}
	mine := map[string]bool{}
	for g := range results {
		c.TimedOut += results[g].timedOut
		c.OtherResult += results[g].other
		for _, a := range results[g].addrs {
			mine[a] = true
		}
		if results[g].firstOdd != "" {
			add("C07:tiny-timeout:unexpected-result", "an ask to a target that never answers did not complete with the timeout error: "+results[g].firstOdd)
		}
	}
	c.Asks = c.TimedOut + c.OtherResult
	if len(mine) != c.Asks {
		add("future:ask:duplicate-address", fmt.Sprintf("%d asks were handed %d distinct reply addresses", c.Asks, len(mine)))
	}

	// every ask is complete. Which of their reply addresses are still registered?
	still := func() (leaked []string, foreign int) {
		if temps, ok := registryTemps(sys); ok {
			c.Enumeration = "reflect"
			for _, a := range temps {
				if mine[a] {
					leaked = append(leaked, a)
				} else {
					foreign++
				}
			}
			return
		}
		c.Enumeration = "probe"
		ab := rc.GetProcess(sys.Abyss())
		for a := range mine {
			if p := rc.GetProcess(prc.NewProcessId(sys.PhysicalAddress(), a)); p != nil && p != ab {
				leaked = append(leaked, a)
			}
		}
		return
	}
	t0 := time.Now()
	var leaked []string
	for {
		leaked, c.Foreign = still()
		if len(leaked) == 0 || time.Since(t0) > leakGrace {
			break
		}
		time.Sleep(10 * time.Millisecond)
	}
	c.SettleMs = int(time.Since(t0) / time.Millisecond)
	if len(leaked) > 0 {
		time.Sleep(200 * time.Millisecond)
		leaked, c.Foreign = still() // once more: only what is there for good
	}
	if len(leaked) > 0 {
		sort.Strings(leaked)
		c.Leaked = len(leaked)
		c.LeakedAddrs = leaked
		if len(c.LeakedAddrs) > 5 {
			c.LeakedAddrs = c.LeakedAddrs[:5]
		}
		add("C07:address-leaked-after-completion", fmt.Sprintf("%d of %d completed (timed-out) asks never released their reply address: e.g. %s is still registered %v after every ask had completed (enumeration: %s)",
			c.Leaked, c.Asks, leaked[0], time.Since(t0).Round(time.Millisecond), c.Enumeration))
	}
	sd := make(chan struct{})
	go func() { defer close(sd); defer func() { _ = recover() }(); sys.Shutdown(true) }()
	select {
	case <-sd:
	case <-time.After(3 * time.Second):
	}
	return viol
}

// runLeakSafe runs one case in a child process of this binary (env C07_LEAK_ONE=<case file>).
func runLeakSafe(c *KCase, dir string) []vh.Violation {
	if os.Getenv("C07_LEAK_ONE") != "" || os.Getenv("C07_LEAK_INPROC") != "" {
		return runLeak(c)
	}
	if dir == "" {
		dir = os.TempDir()
	}
	f, err := os.CreateTemp(dir, "c07leak-*.json")
	if err != nil {
		return runLeak(c)
	}
	defer os.Remove(f.Name())
	b, _ := json.Marshal(c)
	_, _ = f.Write(b)
	f.Close()
	cmd := exec.Command(os.Args[0])
	cmd.Env = append(os.Environ(), "C07_LEAK_ONE="+f.Name())
	var so, se strings.Builder
	cmd.Stdout, cmd.Stderr = &so, &se
	if err := cmd.Start(); err != nil {
		return runLeak(c)
	}
	done := make(chan error, 1)
	go func() { done <- cmd.Wait() }()
	select {
	case err = <-done:
	case <-time.After(5 * time.Minute):
		_ = cmd.Process.Kill()
		err = errors.New("child did not finish")
	}
	var res struct {
		Case KCase          `json:"case"`
		Viol []vh.Violation `json:"monitor_hits"`
	}
	if err == nil && json.Unmarshal([]byte(so.String()), &res) == nil {
		*c = res.Case
		return res.Viol
	}
	trace := se.String()
	cause := "other"
	if strings.Contains(trace, "nil pointer dereference") && strings.Contains(trace, "futureProcess") {
		cause = "ref-unset-when-timer-fires"
	}
	if len(trace) > 1500 {
		trace = trace[:1500]
	}
	return []vh.Violation{{Kind: "future:ask:process-crash",
		Detail: fmt.Sprintf("tiny-timeout route=%s k=%d n=%d timeout=%dns: the process running the asks died (%v): %s", c.Route, c.K, c.N, c.TimeoutNs, err, trace),
		Sig:    map[string]string{"family": "tiny-timeout", "route": c.Route, "cause": cause}}}
}

func leakChildMain(p string) {
	var c KCase
	b, err := os.ReadFile(p)
	if err != nil || json.Unmarshal(b, &c) != nil {
		os.Exit(3)
	}
	viol := runLeak(&c)
	out, _ := json.Marshal(map[string]interface{}{"case": c, "monitor_hits": viol})
	fmt.Println(string(out))
}

// genLeak: the volume is what the quick tier can afford on every run (a few seconds); the failing-input search
// (checks/c07.py, when the creation-order tie is broken) runs the thorough volume under fresh seeds.
func genLeak(rng *vh.RNG, tier string) []*KCase {
	var cs []*KCase
	routes := []string{"new", "sys", "ctx"}
	touts := []int{1, 1, 1, 20, 200, 1000, 3000}
	rounds, n := 3, 6000
	if tier == "thorough" {
		rounds, n = 8, 20000
	}
	for r := 0; r < rounds; r++ {
		for _, route := range routes {
			k := []int{4, 8, 16}[rng.Intn(3)]
			t := touts[rng.Intn(len(touts))]
			if r == 0 {
				t = 1 // every route at least once with the smallest timeout there is
			}
			per := n
			if route != "new" {
				per = n / 2
			}
			cs = append(cs, &KCase{Stress: "tiny-timeout", Route: route, K: k, N: per + rng.Intn(per/4+1), TimeoutNs: t})
		}
	}
	return cs
}

func runLeakAll(out *vh.Out, cases []*KCase, dir string) {
	violating := 0
	for _, c := range cases {
		if violating >= 2 { // every leaking case costs the whole grace period: two are proof enough
			out.Count("skipped_after_two_violating_cases", c.Route)
			continue
		}
		viol := runLeakSafe(c, dir)
		if len(viol) > 0 {
			violating++
		}
		out.Count("route", c.Route)
		out.Count("k", fmt.Sprint(c.K))
		out.Count("timeout_ns", fmt.Sprint(c.TimeoutNs))
		out.Count("gomaxprocs", fmt.Sprint(c.Procs))
		out.Count("enumeration", c.Enumeration)
		out.Count("settle_ms", vh.Bucket(c.SettleMs))
		out.Count("asks_per_case", vh.Bucket(c.Asks))
		for i := 0; i < c.TimedOut; i++ {
			out.Count("ask_outcome", "timeout")
		}
		for i := 0; i < c.OtherResult; i++ {
			out.Count("ask_outcome", "other")
		}
		for i := 0; i < c.Leaked; i++ {
			out.Count("ask_outcome", "completed-but-address-still-registered")
		}
		out.Count("leaked_addresses", vh.Bucket(c.Leaked))
		out.Count("foreign_registry_entries", vh.Bucket(c.Foreign))
		out.Add(c, "", c.K >= 2 && c.Procs >= 2 && c.TimeoutNs <= 1000 && c.Asks > 0, viol)
	}
}
