// life.go — sub-harness "life" (tie T1 for the machine MV.C07.LifeModel): the id source of the temporary reply
// addresses over the LIFE of an asking actor. One asker actor (child "a" of a supervisor with an immediate Restart
// strategy) is driven through a script, one step at a time:
//
//	ask / typed   ctx.FutureAsk / vivid.FutureAsk[M](ctx, ...) to a target that answers at once (echo), never (silent),
//	              well before the deadline (slow) or after it (late)
//	fwd           ctx.AwaitForward            (consumes an id, address not observable)
//	child         ctx.ActorOfF without a name (consumes an id, address observable)
//	crash         the handler panics -> the supervisor restarts the actor (same context), possibly several times,
//	              while 0..k earlier asks are still pending
//	respawn       the actor is terminated and created again under the same name (a new context)
//
// Recorded per ask: reply address, ordinal within its incarnation, what it resolved with (own reply / foreign reply /
// timeout / never within timeout+watchdog), whether a second Result() agrees with the first.
// Monitors (independent of the Coq model):
//
//	C07:reply-address-reused-among-live-asks   two asks got the same reply address while the earlier one was provably
//	                                           still live (its deadline not reached, no reply sent yet) when the later
//	                                           FutureAsk call returned
//	C07:resolved-with-foreign-reply            an ask resolved with the reply to another request
//	C07:never-resolved                         an ask did not resolve within timeout+watchdog, not even by its timeout
//	C07:resolved-twice                         two reads of the result differ
//	C07:respawn:reply-address-reused-among-live-asks   the same, when the two asks belong to DIFFERENT contexts of the
//	                                           same address (open finding: re-creation under the same name); its
//	                                           consequences (foreign reply, never resolved) are folded into the detail
//
// The Coq side (MV.C07.LifeRun) executes the same script on the machine and compares the allocated ids and outcomes.
package main

import (
	"errors"
	"fmt"
	"strconv"
	"strings"
	"sync"
	"sync/atomic"
	"time"

	"github.com/kercylan98/minotaur/engine/prc"
	"github.com/kercylan98/minotaur/engine/vivid"
	"github.com/kercylan98/minotaur/engine/vivid/supervision"
	"verif/harness/vh"
)

// ---------------------------------------------------------------- case format

type LOp struct {
	Op        string `json:"op"`            // ask | typed | fwd | child | crash | respawn
	Tgt       string `json:"tgt,omitempty"` // echo | silent | slow | late
	TimeoutMs int    `json:"timeout_ms,omitempty"`
	DelayMs   int    `json:"delay_ms,omitempty"`
	// observed
	Ctx     int    `json:"ctx"`               // contexts before this step (respawns so far)
	Inc     int    `json:"inc"`               // restarts so far
	Ord     int    `json:"ord,omitempty"`     // ordinal of this consumer of the counter within its incarnation (1-based)
	Addr    string `json:"addr,omitempty"`    // address handed out (reply address of the ask / address of the child)
	ID      int64  `json:"id,omitempty"`      // its last component; -1 = none / not a number
	Outcome string `json:"outcome,omitempty"` // own | timeout | foreign | never | msg+timeout | panic | ... (asks), ok | refused (child, fwd)
	Class   string `json:"class,omitempty"`   // before | after | near | none : the reply w.r.t. the deadline
	Reads   int    `json:"reads,omitempty"`   // 0 never resolved, 1 resolved once, 2 two reads of the result differ
	Imm     bool   `json:"imm,omitempty"`     // the ask was seen resolved before the next step of the script began
	Detail  string `json:"detail,omitempty"`
}

type LCase struct {
	Family string `json:"family"` // restart | respawn
	Ops    []LOp  `json:"ops"`
	Lost   string `json:"lost,omitempty"` // a lifecycle step that did not complete in time: the rest of the script was not run
	// distribution
	Restarts      int `json:"restarts"`
	Respawns      int `json:"respawns"`
	PendingAcross int `json:"pending_across"` // sum over lifecycle steps of the asks provably pending at that step
	Opportunities int `json:"opportunities"`  // (pending ask, later ask) pairs with the same ordinal in different incarnations
}

// ---------------------------------------------------------------- actors

type lifeAsk struct {
	idx      int
	seq      int64
	timeout  time.Duration
	addr     string
	ref      *prc.ProcessId
	t0       time.Time // just before the ask call
	tCall    time.Time // just after the ask call returned
	tDone    time.Time
	get      func() (any, error)
	first    resT
	resolved bool
	outcome  string
	detail   string
	panicked bool // the ask call itself panicked (set by the handler before any goroutine is started)
	done     chan struct{}
}

type lifeEnv struct {
	c        *LCase
	tref     vivid.ActorRef
	mu       sync.Mutex
	gen      int
	launched chan int
	termd    chan struct{}
	spawned  chan vivid.ActorRef
	asks     []*lifeAsk // by op index (nil for other ops)
	seq      int64
	wg       sync.WaitGroup
}

type lifeOpMsg struct {
	idx int
	ack chan struct{}
}
type lifeSpawnMsg struct{}
type lifeStopMsg struct{}
type fwdMsg struct{}

type lifeKid struct{}

func (k *lifeKid) OnReceive(ctx vivid.ActorContext) {}

var restartNow = supervision.FunctionalStrategyProvider(func() supervision.Strategy {
	return supervision.FunctionalStrategy(func(record *supervision.AccidentRecord) {
		record.Supervisor.Restart(record.Victim)
	})
})

type lifeSup struct {
	env   *lifeEnv
	child vivid.ActorRef
}

func (s *lifeSup) OnReceive(ctx vivid.ActorContext) {
	switch m := ctx.Message().(type) {
	case *lifeSpawnMsg:
		e := s.env
		s.child = ctx.ActorOfF(func() vivid.Actor {
			e.mu.Lock()
			e.gen++
			g := e.gen
			e.mu.Unlock()
			return &lifeAsker{env: e, gen: g}
		}, func(d *vivid.ActorDescriptor) {
			d.WithName("a")
			d.WithSupervisionStrategyProvider(restartNow)
		})
		s.env.spawned <- s.child
	case *lifeStopMsg:
		ctx.Terminate(s.child, false)
	case *vivid.OnTerminated:
		if s.child != nil && m.TerminatedActor.GetLogicalAddress() == s.child.GetLogicalAddress() {
			select {
			case s.env.termd <- struct{}{}:
			default:
			}
		}
	}
}

type lifeAsker struct {
	env *lifeEnv
	gen int
}

var errScripted = errors.New("scripted crash")

// short watchdog for an ask whose address is already known to be shared with a live ask of another context
// (the open respawn finding): the consequence "never resolves" is expected there, do not wait 6 s for it
const shortWatchdog = 1200 * time.Millisecond

var lifeReuseSeen atomic.Bool // a reply address was handed out twice somewhere in this run (see guard in runLife)

func lastComponent(addr string) int64 {
	i := strings.LastIndex(addr, "/")
	if i < 0 || i == len(addr)-1 {
		return -1
	}
	v, err := strconv.ParseInt(addr[i+1:], 10, 64)
	if err != nil || v <= 0 {
		return -1
	}
	return v
}

func (a *lifeAsker) OnReceive(ctx vivid.ActorContext) {
	e := a.env
	switch m := ctx.Message().(type) {
	case *vivid.OnLaunch:
		select {
		case e.launched <- a.gen:
		default:
		}
	case *lifeOpMsg:
		op := &e.c.Ops[m.idx]
		switch op.Op {
		case "crash":
			panic(errScripted) // m.ack is never closed: the driver waits for the next instance's OnLaunch
		case "child":
			func() {
				defer func() {
					if r := recover(); r != nil {
						op.Outcome, op.ID, op.Detail = "refused", -1, fmt.Sprint(r)
					}
				}()
				ref := ctx.ActorOfF(func() vivid.Actor { return &lifeKid{} })
				op.Addr = ref.GetLogicalAddress()
				op.ID = lastComponent(op.Addr)
				op.Outcome = "ok"
			}()
		case "fwd":
			func() {
				defer func() {
					if r := recover(); r != nil {
						op.Outcome, op.Detail = "refused", fmt.Sprint(r)
					}
				}()
				ctx.AwaitForward(e.tref, func() vivid.Message { return &fwdMsg{} })
				op.Outcome = "ok"
			}()
		case "ask", "typed":
			rec := &lifeAsk{idx: m.idx, seq: atomic.AddInt64(&e.seq, 1), timeout: time.Duration(op.TimeoutMs) * time.Millisecond, done: make(chan struct{})}
			req := &reqMsg{Seq: rec.seq, Beh: map[string]string{"echo": "echo", "silent": "never", "slow": "delay", "late": "delay"}[op.Tgt],
				Delay: time.Duration(op.DelayMs) * time.Millisecond}
			func() {
				defer func() {
					if r := recover(); r != nil {
						rec.outcome, rec.detail, rec.panicked = "panic", fmt.Sprint(r), true
					}
				}()
				rec.t0 = time.Now()
				if op.Op == "typed" {
					f := vivid.FutureAsk[*repMsg](ctx, e.tref, req, rec.timeout)
					rec.tCall = time.Now()
					rec.ref, rec.get = f.Ref(), func() (any, error) { m, err := f.Result(); return m, err }
				} else {
					f := ctx.FutureAsk(e.tref, req, rec.timeout)
					rec.tCall = time.Now()
					rec.ref, rec.get = f.Ref(), func() (any, error) { return f.Result() }
				}
				if rec.ref != nil {
					rec.addr = rec.ref.LogicalAddress
				}
			}()
			op.Addr, op.ID = rec.addr, lastComponent(rec.addr)
			wd, gr := watchdog, grace
			e.mu.Lock()
			for _, o := range e.asks {
				if o != nil && o.addr == rec.addr && rec.addr != "" {
					if e.c.Ops[o.idx].Ctx != op.Ctx {
						wd, gr = shortWatchdog, 300*time.Millisecond
					} else {
						lifeReuseSeen.Store(true)
					}
				}
			}
			e.asks[m.idx] = rec
			e.mu.Unlock()
			if rec.panicked {
				close(rec.done)
			} else {
				e.wg.Add(1)
				go func() {
					defer e.wg.Done()
					defer close(rec.done)
					r, ok := awaitG(rec.get, rec.timeout+wd, gr)
					if !ok {
						rec.tDone = time.Now()
						rec.outcome = "never"
						return
					}
					rec.first, rec.resolved, rec.tDone = r, true, r.at
					rec.outcome, rec.detail = outcomeOf(rec.seq, r)
				}()
			}
		}
		close(m.ack)
	}
}

// ---------------------------------------------------------------- running a script

const stepTimeout = 8 * time.Second

func runLife(c *LCase) (viol []vh.Violation) {
	sig := map[string]string{"family": c.Family}
	add := func(kind, detail string) {
		for _, v := range viol {
			if v.Kind == kind {
				return
			}
		}
		viol = append(viol, vh.Violation{Kind: kind, Detail: fmt.Sprintf("family=%s script=%s: %s", c.Family, scriptString(c), detail), Sig: sig})
	}
	for i := range c.Ops {
		o := &c.Ops[i]
		o.Ctx, o.Inc, o.Ord, o.Addr, o.ID, o.Outcome, o.Class, o.Reads, o.Detail, o.Imm = 0, 0, 0, "", 0, "", "", 0, "", false
	}
	c.Lost, c.Restarts, c.Respawns, c.PendingAcross, c.Opportunities = "", 0, 0, 0, 0
	defer func() {
		if e := recover(); e != nil {
			c.Lost = "harness panic: " + fmt.Sprint(e)
		}
	}()
	sys := vivid.NewActorSystem(vivid.FunctionalActorSystemConfigurator(func(cfg *vivid.ActorSystemConfiguration) {
		cfg.WithLoggerProvider(silent)
	}))
	defer func() {
		sd := make(chan struct{})
		go func() { defer close(sd); defer func() { _ = recover() }(); sys.Shutdown(false) }()
		select {
		case <-sd:
		case <-time.After(3 * time.Second):
		}
	}()
	tg := &target{seen: map[int64]*stamp{}}
	env := &lifeEnv{c: c, launched: make(chan int, 64), termd: make(chan struct{}, 4), spawned: make(chan vivid.ActorRef, 4), asks: make([]*lifeAsk, len(c.Ops))}
	env.tref = sys.ActorOfF(func() vivid.Actor { return tg }, func(d *vivid.ActorDescriptor) { d.WithName("c07target") })
	sup := sys.ActorOfF(func() vivid.Actor { return &lifeSup{env: env} }, func(d *vivid.ActorDescriptor) { d.WithName("sup") })

	waitLaunch := func(gen int) bool {
		dl := time.After(stepTimeout)
		for {
			select {
			case g := <-env.launched:
				if g >= gen {
					return true
				}
			case <-dl:
				return false
			}
		}
	}
	spawn := func(gen int) (vivid.ActorRef, bool) {
		sys.Tell(sup, &lifeSpawnMsg{})
		select {
		case ref := <-env.spawned:
			return ref, waitLaunch(gen)
		case <-time.After(stepTimeout):
			return nil, false
		}
	}
	pendingNow := func(upto int) int { // asks that are provably still live now: deadline ahead, no reply sent yet
		n := 0
		now := time.Now()
		for j := 0; j < upto; j++ {
			if r := env.asks[j]; r != nil && !r.panicked && now.Before(r.t0.Add(r.timeout)) {
				if st, ok := tg.get(r.seq); !ok || st.start.IsZero() {
					n++
				}
			}
		}
		return n
	}

	gen := 1
	ref, ok := spawn(gen)
	if !ok {
		c.Lost = "spawn"
	}
	ctxNo, inc, ord := 0, 0, 0
	for i := 0; i < len(c.Ops) && c.Lost == ""; i++ {
		op := &c.Ops[i]
		op.Ctx, op.Inc = ctxNo, inc
		switch op.Op {
		case "crash":
			c.PendingAcross += pendingNow(i)
			sys.Tell(ref, &lifeOpMsg{idx: i, ack: make(chan struct{})})
			gen++
			if !waitLaunch(gen) {
				c.Lost = "crash"
			}
			inc, ord = inc+1, 0
			c.Restarts++
		case "respawn":
			c.PendingAcross += pendingNow(i)
			sys.Tell(sup, &lifeStopMsg{})
			select {
			case <-env.termd:
			case <-time.After(stepTimeout):
				c.Lost = "terminate"
			}
			if c.Lost == "" {
				gen++
				if ref, ok = spawn(gen); !ok {
					c.Lost = "respawn"
				}
			}
			ctxNo, ord = ctxNo+1, 0
			c.Respawns++
		default:
			ord++
			op.Ord = ord
			ack := make(chan struct{})
			sys.Tell(ref, &lifeOpMsg{idx: i, ack: ack})
			select {
			case <-ack:
			case <-time.After(stepTimeout):
				c.Lost = op.Op
			}
			// an ask that is answered at once is given the time to resolve before the script goes on, so that the order
			// "resolved, then the next step" is an observation and not a guess
			if r := env.asks[i]; r != nil && op.Tgt == "echo" && c.Lost == "" {
				select {
				case <-r.done:
					time.Sleep(2 * time.Millisecond) // close(done) precedes Unregister by a few instructions
					op.Imm = true
				case <-time.After(300 * time.Millisecond):
				}
			}
		}
	}
	// every ask is bounded by timeout + watchdog + grace
	allDone := make(chan struct{})
	go func() { env.wg.Wait(); close(allDone) }()
	select {
	case <-allDone:
	case <-time.After(30 * time.Second):
		c.Lost = "await"
	}
	// let the late replies arrive, then read every result a second time
	var until time.Time
	env.mu.Lock()
	asks := append([]*lifeAsk(nil), env.asks...)
	env.mu.Unlock()
	for _, r := range asks {
		if r != nil {
			if t := r.t0.Add(time.Duration(c.Ops[r.idx].DelayMs)*time.Millisecond + 40*time.Millisecond); t.After(until) {
				until = t
			}
		}
	}
	if d := time.Until(until); d > 0 {
		time.Sleep(d)
	}
	drained := make(chan struct{})
	sys.Tell(env.tref, &syncMsg{ch: drained})
	select {
	case <-drained:
	case <-time.After(5 * time.Second):
	}

	// ---- monitors
	for _, r := range asks {
		if r == nil {
			continue
		}
		select {
		case <-r.done:
		default:
			continue // c.Lost == "await"
		}
		op := &c.Ops[r.idx]
		op.Outcome, op.Detail = r.outcome, r.detail
		st, got := tg.get(r.seq)
		switch {
		case !got || st.start.IsZero():
			op.Class = "none"
		case !st.done.IsZero() && st.done.Before(r.t0.Add(r.timeout)):
			op.Class = "before"
		case r.resolved && st.start.After(r.tDone):
			op.Class = "after"
		default:
			op.Class = "near"
		}
		if r.resolved {
			op.Reads = 1
			if r2, ok := awaitG(r.get, 2*time.Second, 0); ok {
				o2, d2 := outcomeOf(r.seq, r2)
				// (nil, timeout) then (own reply, timeout) is the open finding C07-message-after-completion (late store of
				// f.message): reported by the T2 harness, not here
				if o2 != r.outcome && !(r.outcome == "timeout" && o2 == "msg+timeout") {
					op.Reads = 2
					op.Detail = fmt.Sprintf("first read %s %s, second read %s %s", r.outcome, r.detail, o2, d2)
				}
			}
		}
	}
	// which asks share their address with an earlier ask; "live": the earlier one was provably live during the whole call
	// that issued the later one: its timer cannot fire before t0+timeout (Go timers are never early) and the target
	// had not started to answer it
	uncertain := false
	crossCtx := map[int]bool{} // asks sharing their address with an ask of ANOTHER context of the same actor address
	for _, rj := range asks {
		if rj == nil || rj.addr == "" {
			continue
		}
		for _, ri := range asks {
			if ri == nil || ri.idx >= rj.idx || ri.addr != rj.addr {
				continue
			}
			a, b := &c.Ops[ri.idx], &c.Ops[rj.idx]
			st, got := tg.get(ri.seq)
			live := rj.tCall.Before(ri.t0.Add(ri.timeout)) && (!got || st.start.IsZero() || st.start.After(rj.tCall))
			if !live && !a.Imm {
				uncertain = true // neither provably pending nor seen resolved when the address was handed out again
			}
			if a.Ctx != b.Ctx {
				crossCtx[ri.idx], crossCtx[rj.idx] = true, true
				if live {
					add("C07:respawn:reply-address-reused-among-live-asks", fmt.Sprintf("reply address %s of the ask of step %d (context %d, still pending) was handed to the ask of step %d of the re-created actor (context %d); step %d resolved as %q, step %d as %q", a.Addr, ri.idx, a.Ctx, rj.idx, b.Ctx, ri.idx, a.Outcome, rj.idx, b.Outcome))
				}
			} else if live {
				add("C07:reply-address-reused-among-live-asks", fmt.Sprintf("reply address %s of the ask of step %d (incarnation %d, ordinal %d, still pending) was handed to the ask of step %d (incarnation %d, ordinal %d) of the same actor context", a.Addr, ri.idx, a.Inc, a.Ord, rj.idx, b.Inc, b.Ord))
			}
		}
	}
	for _, r := range asks {
		if r == nil {
			continue
		}
		op := &c.Ops[r.idx]
		if crossCtx[r.idx] { // consequences of the re-creation finding go under its one kind
			if op.Outcome == "foreign" || op.Outcome == "never" || op.Reads == 2 {
				add("C07:respawn:reply-address-reused-among-live-asks", fmt.Sprintf("step %d (reply address %s, also handed out by another context of the same actor address) resolved as %q %s", r.idx, op.Addr, op.Outcome, op.Detail))
			}
			continue
		}
		switch op.Outcome {
		case "foreign":
			add("C07:resolved-with-foreign-reply", fmt.Sprintf("step %d (reply address %s): %s", r.idx, op.Addr, op.Detail))
		case "never":
			add("C07:never-resolved", fmt.Sprintf("step %d: ask %d (reply address %s, timeout %v) did not resolve within timeout+%v, not even with the timeout error", r.idx, r.seq, op.Addr, r.timeout, watchdog))
		case "panic":
			add("future:ask:panic", fmt.Sprintf("step %d: %s", r.idx, op.Detail))
		}
		if op.Reads == 2 {
			add("C07:resolved-twice", fmt.Sprintf("step %d (reply address %s): %s", r.idx, op.Addr, op.Detail))
		}
	}
	if uncertain && c.Lost == "" {
		c.Lost = "timing" // the model run needs the order of the first ask's resolution and the reuse of its address: not observed
	}
	// distribution: collision opportunities = a pending ask and a later ask with the same ordinal in another incarnation
	for _, rj := range asks {
		for _, ri := range asks {
			if ri == nil || rj == nil || ri.idx >= rj.idx {
				continue
			}
			a, b := &c.Ops[ri.idx], &c.Ops[rj.idx]
			if a.Ord == b.Ord && (a.Inc != b.Inc || a.Ctx != b.Ctx) && rj.tCall.Before(ri.t0.Add(ri.timeout)) {
				if st, got := tg.get(ri.seq); !got || st.start.IsZero() || st.start.After(rj.tCall) {
					c.Opportunities++
				}
			}
		}
	}
	return viol
}

func scriptString(c *LCase) string {
	var p []string
	for _, o := range c.Ops {
		switch o.Op {
		case "ask", "typed":
			p = append(p, fmt.Sprintf("%s(%s,%dms)", o.Op, o.Tgt, o.TimeoutMs))
		default:
			p = append(p, o.Op)
		}
	}
	return "[" + strings.Join(p, " ") + "]"
}

// ---------------------------------------------------------------- Coq term

func lifeCoqTerm(id int, c *LCase) string {
	if c.Lost != "" {
		return "" // the script was not executed to the end: nothing to compare
	}
	var ops []string
	for _, o := range c.Ops {
		var s, rid, out string
		rid, out = "None", "RNA"
		switch o.Op {
		case "ask", "typed":
			first := o.Class == "before" || (o.Class == "near" && o.Outcome == "own")
			s = "SAsk " + vh.Bool(first) + " " + vh.Bool(o.Imm && o.Outcome == "own")
			rid = vh.Some(vh.Z(o.ID))
			switch {
			case o.Reads == 2:
				out = "RBad"
			case o.Outcome == "own":
				out = "ROwn"
			case o.Outcome == "timeout" || o.Outcome == "msg+timeout":
				out = "RTimeout"
			case o.Outcome == "foreign":
				out = "RForeign"
			case o.Outcome == "never":
				out = "RNever"
			default:
				out = "RBad"
			}
		case "fwd":
			s = "SFwd"
			if o.Outcome != "ok" {
				out = "RBad"
			}
		case "child":
			s = "SChild"
			rid = vh.Some(vh.Z(o.ID))
			if o.Outcome != "ok" {
				out = "RBad"
			}
		case "crash":
			s = "SRestart"
		case "respawn":
			s = "SRespawn"
		}
		ops = append(ops, fmt.Sprintf("{| rs := %s; rid := %s; rout := %s |}", s, rid, out))
	}
	return fmt.Sprintf("{| rcid := %d; rops := [%s] |}", id, strings.Join(ops, "; "))
}

// ---------------------------------------------------------------- generation

func lAsk(op, tgt string, timeout int) LOp {
	o := LOp{Op: op, Tgt: tgt, TimeoutMs: timeout}
	switch tgt {
	case "slow":
		o.DelayMs = 80
	case "late":
		o.DelayMs = timeout + 200
	}
	return o
}

func hasFwdAfterLifecycle(c *LCase) bool {
	seen := false
	for _, o := range c.Ops {
		if o.Op == "crash" || o.Op == "respawn" {
			seen = true
		}
		if o.Op == "fwd" && seen {
			return true
		}
	}
	return false
}

func lifeCorpus() []*LCase {
	crash, respawn, child, fwd := LOp{Op: "crash"}, LOp{Op: "respawn"}, LOp{Op: "child"}, LOp{Op: "fwd"}
	return []*LCase{
		// an ask pending across one restart, then the first ask of the new instance (same ordinal)
		{Family: "restart", Ops: []LOp{lAsk("ask", "silent", 700), crash, lAsk("ask", "echo", 700)}},
		// the other consumers of the counter advance the ordinal the same way
		{Family: "restart", Ops: []LOp{child, lAsk("ask", "silent", 700), crash, child, lAsk("ask", "echo", 700)}},
		// several restarts, several pending asks
		{Family: "restart", Ops: []LOp{lAsk("ask", "silent", 800), lAsk("ask", "silent", 800), crash, crash, lAsk("ask", "echo", 800), lAsk("ask", "echo", 800), crash, lAsk("ask", "echo", 800)}},
		// an ask answered (well before its deadline) only after the restart: its own reply must still reach it
		{Family: "restart", Ops: []LOp{lAsk("ask", "slow", 900), crash, lAsk("ask", "echo", 900), lAsk("ask", "slow", 900)}},
		// the typed helper uses the same counter
		{Family: "restart", Ops: []LOp{lAsk("typed", "silent", 700), crash, lAsk("typed", "echo", 700), lAsk("ask", "echo", 700)}},
		// an AwaitForward future stays registered for ever: its address must never come back
		{Family: "restart", Ops: []LOp{fwd, lAsk("ask", "silent", 700), crash, lAsk("ask", "echo", 700), lAsk("ask", "echo", 700)}},
		// late replies (after the timeout) across a restart
		{Family: "restart", Ops: []LOp{lAsk("ask", "late", 300), crash, lAsk("ask", "echo", 700)}},
		// re-creation under the same name (open finding)
		{Family: "respawn", Ops: []LOp{lAsk("ask", "silent", 1500), respawn, lAsk("ask", "echo", 700)}},
	}
}

func genLife(rng *vh.RNG, tier string) []*LCase {
	cs := lifeCorpus()
	nRestart, nRespawn := 28, 3
	if tier == "thorough" {
		nRestart, nRespawn = 400, 30
	}
	consumer := func(r *vh.RNG, allowChild, allowFwd bool, pendingBias bool) LOp {
		timeout := []int{500, 600, 700, 800, 900}[r.Intn(5)]
		k := r.Intn(10)
		switch {
		case allowChild && k == 0:
			return LOp{Op: "child"}
		case allowFwd && k == 1:
			return LOp{Op: "fwd"}
		}
		op := "ask"
		if r.Intn(5) == 0 {
			op = "typed"
		}
		var tgt string
		if pendingBias {
			tgt = []string{"silent", "silent", "slow", "late", "echo"}[r.Intn(5)]
		} else {
			tgt = []string{"echo", "echo", "silent", "slow", "late"}[r.Intn(5)]
		}
		if tgt == "late" {
			timeout = []int{150, 250, 350}[r.Intn(3)]
		}
		return lAsk(op, tgt, timeout)
	}
	for n := 0; n < nRestart; n++ {
		r, _ := rng.Derive()
		c := &LCase{Family: "restart"}
		restarts := r.Range(1, 3)
		if r.Intn(8) == 0 {
			restarts = 0
		}
		for inc := 0; inc <= restarts; inc++ {
			k := r.Range(0, 4)
			if inc == restarts && k == 0 {
				k = r.Range(1, 3) // the last instance asks again
			}
			for j := 0; j < k; j++ {
				c.Ops = append(c.Ops, consumer(r, true, true, inc < restarts))
			}
			if inc < restarts {
				c.Ops = append(c.Ops, LOp{Op: "crash"})
				if r.Intn(6) == 0 && inc+1 < restarts {
					c.Ops = append(c.Ops, LOp{Op: "crash"}) // two restarts in a row
					inc++
				}
			}
		}
		cs = append(cs, c)
	}
	// re-creation: only targets whose timing is unambiguous (answer at once / never), so that the model run knows which
	// addresses are still registered when the new context hands out the same ids
	rask := func(r *vh.RNG, long bool) LOp {
		op := "ask"
		if r.Intn(5) == 0 {
			op = "typed"
		}
		if r.Intn(3) == 0 {
			return lAsk(op, "echo", 700)
		}
		if long {
			return lAsk(op, "silent", 1500)
		}
		return lAsk(op, "silent", 600)
	}
	for n := 0; n < nRespawn; n++ {
		r, _ := rng.Derive()
		c := &LCase{Family: "respawn"}
		for j, k := 0, r.Range(1, 3); j < k; j++ {
			if j > 0 && r.Intn(6) == 0 {
				c.Ops = append(c.Ops, LOp{Op: "child"})
			} else {
				c.Ops = append(c.Ops, rask(r, true))
			}
		}
		if r.Bool() {
			c.Ops = append(c.Ops, LOp{Op: "crash"}, rask(r, true))
		}
		c.Ops = append(c.Ops, LOp{Op: "respawn"})
		for j, k := 0, r.Range(1, 3); j < k; j++ {
			c.Ops = append(c.Ops, rask(r, false)) // asks only: an anonymous child colliding with a pending future makes ActorOf panic
		}
		cs = append(cs, c)
	}
	return cs
}

func lifeNontrivial(c *LCase) bool {
	return c.Opportunities > 0 && (c.Restarts > 0 || c.Respawns > 0)
}

// isUnlisted: a hit that is not the open re-creation finding
func isUnlisted(viol []vh.Violation) bool {
	for _, v := range viol {
		if v.Kind != "C07:respawn:reply-address-reused-among-live-asks" {
			return true
		}
	}
	return false
}

// runLifeAll runs the scripts (each on its own ActorSystem), a few at a time: the corpus first and to the end, then the
// random ones. Once three scripts have shown a violation the rest adds nothing (each hanging ask costs timeout+6 s).
// Scripts with an AwaitForward after a lifecycle step are skipped once any reply address was seen twice: on such a tree
// an AwaitForward future that is not initialised dereferences a nil controller in its own goroutine.
func runLifeAll(out *vh.Out, cases []*LCase) {
	const par = 8
	type res struct {
		viol    []vh.Violation
		skipped bool
	}
	results := make([]res, len(cases))
	var bad atomic.Int32
	runRange := func(lo, hi int) {
		var wg sync.WaitGroup
		next := int32(lo - 1)
		for w := 0; w < par; w++ {
			wg.Add(1)
			go func() {
				defer wg.Done()
				for {
					i := int(atomic.AddInt32(&next, 1))
					if i >= hi {
						return
					}
					c := cases[i]
					if bad.Load() >= 3 || (lifeReuseSeen.Load() && hasFwdAfterLifecycle(c)) {
						results[i].skipped = true
						continue
					}
					results[i].viol = runLife(c)
					if isUnlisted(results[i].viol) {
						bad.Add(1)
					}
				}
			}()
		}
		wg.Wait()
	}
	nc := len(lifeCorpus())
	if nc > len(cases) {
		nc = len(cases)
	}
	runRange(0, nc)
	runRange(nc, len(cases))
	for i, c := range cases {
		if results[i].skipped {
			out.Count("life_script", "skipped")
			continue
		}
		out.Count("family", c.Family)
		out.Count("restarts_per_script", fmt.Sprint(c.Restarts))
		out.Count("respawns_per_script", fmt.Sprint(c.Respawns))
		out.Count("asks_pending_across_lifecycle_steps", fmt.Sprint(c.PendingAcross))
		out.Count("collision_opportunities(same ordinal, other incarnation, earlier ask pending)", vh.Bucket(c.Opportunities))
		if c.Lost != "" {
			out.Count("lost_step", c.Lost)
		}
		for _, o := range c.Ops {
			out.Count("step", o.Op)
			if o.Op == "ask" || o.Op == "typed" {
				out.Count("ask_ordinal_in_incarnation", fmt.Sprint(o.Ord))
				out.Count("ask_incarnation", fmt.Sprint(o.Inc))
				out.Count("ask_target", o.Tgt)
				out.Count("ask_outcome", o.Outcome)
				out.Count("ask_reply_vs_deadline", o.Class)
				out.Count("ask_reads", fmt.Sprint(o.Reads))
			}
		}
		out.Add(c, lifeCoqTerm(out.N(), c), lifeNontrivial(c), results[i].viol)
	}
}
